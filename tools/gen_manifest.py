"""Regenerate /verif/MANIFEST.json from the META dict of every harness/props/cXX.py.
Properties without a driver (or listed in NOT_APPLICABLE) go under not_applicable."""
import importlib
import json
import os
import sys

VERIF = os.path.dirname(os.path.dirname(os.path.abspath(__file__)))
sys.path.insert(0, VERIF)

NOT_APPLICABLE = {}   # id -> reason (none at present)
READY = set(open(os.path.join(VERIF, "tools", "ready.txt")).read().split())   # checks reviewed and registered

props = [json.loads(l) for l in open(os.path.join(VERIF, "properties.jsonl"))]
checks, na = [], []
for p in props:
    pid = p["id"]
    path = os.path.join(VERIF, "harness", "props", pid.lower() + ".py")
    if pid in NOT_APPLICABLE or pid not in READY or not os.path.exists(path):
        na.append({"property_id": pid, "reason": NOT_APPLICABLE.get(
            pid, "check not built yet (model-based check planned in DESIGN.md section 5)")})
        continue
    meta = importlib.import_module("harness.props." + pid.lower()).META
    checks.append({
        "property_id": pid,
        "quick_cmd": "./check %s --tier quick" % pid,
        "thorough_cmd": "./check %s --tier thorough" % pid,
        "evidence_file": "/verif/evidence/%s.json" % pid,
        "replay_cmd_template": "./check %s --replay {path}" % pid,
        "engine": "tlc+harness",
        "level_claimed": {"category": "model_checking", "text": meta["level_text"],
                          "design_ref": meta.get("design_ref", "DESIGN.md section 5, " + pid)},
        "level_note": meta["level_note"],
        "technique": meta["technique"],
    })
m = {
    "version": 1,
    "setup_cmd": "./setup.sh",
    "hooks": {
        "guard": "XRSPATIAL_VERIF",
        "enable": "no source hooks: the harness observes the unmodified library (public API, direct drive of "
                  "module-level helpers, NUMBA_DISABLE_JIT=1 subprocesses with recording wrappers); "
                  "XRSPATIAL_VERIF=1 is exported by ./check but nothing in /repo reads it",
        "baseline_off_cmd": "cd /repo && /venv/bin/python -m pytest -ra -q -p no:cacheprovider --timeout=900 "
                            "--continue-on-collection-errors",
        "source_commits": [],
        "add_only": True,
    },
    "engines": [
        {"name": "tlc-mc", "path": "/verif/spec", "serves_properties": [c["property_id"] for c in checks],
         "kind_free_text": "explicit TLA+ specifications model-checked exhaustively by TLC on small scopes"},
        {"name": "tlc-trace", "path": "/verif/spec (*_Trace.tla, *_Judge.tla)",
         "serves_properties": [c["property_id"] for c in checks],
         "kind_free_text": "trace / observation validation: cases recorded from the real code are judged by TLC "
                           "against the specification (batch NDJSON)"},
        {"name": "harness", "path": "/verif/harness", "serves_properties": [c["property_id"] for c in checks],
         "kind_free_text": "python drivers that run the real library, encode observations, call TLC"},
        {"name": "apalache-inductive", "path": "/verif/spec/apalache", "serves_properties": ["C12"],
         "kind_free_text": "Apalache discharges an inductive invariant of the bin search over all integers "
                           "(harness/props/c12_apalache.py, part of ./check C12); TLC cross-checks the typed step "
                           "against ClassifyOps!BSStep"},
        {"name": "extras", "path": "/verif/harness/props/x01.py", "serves_properties": [],
         "kind_free_text": "./check X01: specification coverage beyond the listed properties (bump, zonal.apply, "
                           "suggest_zonal_canvas, lnglat_to_meters, summarize_terrain); evidence_extras/X01.json; "
                           "decides no listed property"},
    ],
    "checks": checks,
    "not_applicable": na,
    "notes": "All checks: ./check Cxx --tier quick|thorough ; exit 0 held, 1 VIOLATION, 2 machinery failure. "
             "known_findings.json lists genuine defects recorded or fixed.",
}
json.dump(m, open(os.path.join(VERIF, "MANIFEST.json"), "w"), indent=1)
print("checks:", [c["property_id"] for c in checks], "not_applicable:", [x["property_id"] for x in na])
