#!/bin/sh
# tools/try_patch.sh <patch.diff> <Cxx> [tier]  - run a check against a scratch copy of /repo with the patch applied.
# Development aid (does not touch /repo); the scratch copy lives under mktemp and is removed afterwards.
set -e
patch=$(readlink -f "$1"); prop=$2; tier=${3:-quick}
tmp=$(mktemp -d /tmp/trypatch_XXXXXX)
trap 'rm -rf "$tmp"' EXIT
mkdir -p "$tmp/repo"
(cd /repo && git archive HEAD) | tar -x -C "$tmp/repo"
(cd "$tmp/repo" && patch -p1 -s < "$patch")
cd "$(dirname "$0")/.."
VERIF_REPO="$tmp/repo" ./check "$prop" --tier "$tier" > "$tmp/out.txt" 2>&1 && rc=0 || rc=$?
grep -cE "^(VIOLATION|NONCONFORMANCE)" "$tmp/out.txt" | sed 's/^/violations: /'
grep -E "^(VIOLATION|NONCONFORMANCE)" "$tmp/out.txt" | sed 's/replay=[^ ]* *//' | cut -c1-220 | sort | uniq -c | sort -rn | head -5
grep -E "^(DRIFT|KNOWN|MACHINERY)" "$tmp/out.txt" | cut -c1-200 | head -5
tail -1 "$tmp/out.txt" | cut -c1-200
echo "exit=$rc"
