#!/bin/sh
# tools/run_all.sh [quick|thorough] - run every registered check sequentially on /repo, print one summary line each
tier=${1:-quick}
cd "$(dirname "$0")/.."
for c in $(cat tools/ready.txt | sort -u); do
  /usr/bin/time -f "$c cpu=%U+%S wall=%e" ./check $c --tier $tier > /tmp/runall_$c.log 2>&1; rc=$?
  echo "$c rc=$rc $(grep "^$c $tier:" /tmp/runall_$c.log | cut -c1-150) $(tail -1 /tmp/runall_$c.log | grep cpu=)"
  grep -E "^(VIOLATION|KNOWN-FINDING|DRIFT|MACHINERY)" /tmp/runall_$c.log | head -3 | cut -c1-200
done
