#!/bin/sh
# tools/confirm_seeded.sh <worktree> <mutant dir> "<pytest file list>"
# Confirms: demo passes unpatched, fails patched; the given test files pass patched. Leaves the worktree clean.
wt=$1; m=$2; tests=$3
cd "$wt" || exit 2
git checkout -q -- . 
/venv/bin/python "$m/demo.py" >/dev/null 2>&1; a=$?
git apply "$m/patch.diff" || { echo "patch does not apply"; exit 2; }
/venv/bin/python "$m/demo.py" >/tmp/confirm_demo.out 2>&1; b=$?
t=$(/venv/bin/python -m pytest -q -p no:cacheprovider --timeout=900 $tests 2>&1 | tail -1)
git checkout -q -- .
echo "demo unpatched exit=$a patched exit=$b ; tests(patched): $t"
tail -2 /tmp/confirm_demo.out | cut -c1-200
