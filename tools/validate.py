import json, sys, glob
import jsonschema
jsonschema.validate(json.load(open('/verif/MANIFEST.json')), json.load(open('/root/.vp/MANIFEST.schema.json')))
es = json.load(open('/root/.vp/EVIDENCE.schema.json'))
for f in sorted(glob.glob('/verif/evidence/C??.json')) + sorted(glob.glob('/verif/evidence_extras/X??.json')):
    # (*.scratch.json / *.replay.json are development leftovers, git-ignored)
    jsonschema.validate(json.load(open(f)), es)
    print('ok', f)
print('manifest valid')
