"""tools/keep_seeded.py <worktree> <prop> <i> <detected:yes|no|after-strengthening> "<check result line>" "<tests confirmed>"
copies <worktree>/out/m<i> to /verif/seeded/<prop>-m<i>/ and records what was confirmed and run."""
import json, os, shutil, sys
wt, prop, i, det, result, tests = sys.argv[1:7]
src = os.path.join(wt, "out", "m" + i)
tag = os.environ.get("SEED_TAG", "")
dst = os.path.join("/verif/seeded", "%s-%sm%s" % (prop, tag, i))
shutil.rmtree(dst, ignore_errors=True)
shutil.copytree(src, dst)
m = json.load(open(os.path.join(dst, "meta.json")))
m["breaks_property"] = prop
m["confirmed_by_coordinator"] = {
    "demo": "exit 0 on unchanged worktree, exit 1 with patch applied (tools/confirm_seeded.sh)",
    "tests_with_patch": tests,
    "check_run": "tools/try_patch.sh seeded/%s-%sm%s/patch.diff %s  (scratch copy of /repo, VERIF_REPO)" % (prop, tag, i, prop),
    "detected": det, "check_result": result}
json.dump(m, open(os.path.join(dst, "meta.json"), "w"), indent=1)
print("kept", dst)
