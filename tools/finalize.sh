#!/bin/sh
# tools/finalize.sh - regenerate everything that is generated, from runs on the unchanged /repo:
#   quick tier of every registered check (evidence/*.json), the extras check (evidence_extras/), MANIFEST.json,
#   the generated tables of DESIGN.md, schema validation.  Prints one line per check; exit 1 if any check did.
cd "$(dirname "$0")/.."
rm -f evidence/*.scratch.json evidence/*.replay.json
tools/run_all.sh quick | tee /tmp/finalize_runall.txt
./check X01 > /tmp/runall_X01.log 2>&1; echo "X01 rc=$? $(grep '^X01 quick' /tmp/runall_X01.log | cut -c1-150)" | tee -a /tmp/finalize_runall.txt
PYTHONPATH=/verif /venv/bin/python tools/gen_manifest.py
/venv/bin/python tools/asbuilt_table.py
/venv/bin/python tools/seeded_table.py
python3-vt tools/validate.py | tail -1
if grep -q "rc=[12]" /tmp/finalize_runall.txt; then echo "SOME CHECK DID NOT EXIT 0"; exit 1; fi
echo "all checks exit 0"
