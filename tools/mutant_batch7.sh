#!/bin/sh
# tools/mutant_batch.sh <prop lower> "<pytest files>"  -> /tmp/mb_<prop>.log
p=$1; tests=$2; P=$(echo $p | tr a-z A-Z)
log=/tmp/mb7_$p.log; : > $log
for i in 1 2 3; do
  echo "== $P m$i" >> $log
  /verif/tools/confirm_seeded.sh /tmp/wt7_$p /tmp/wt7_$p/out/m$i "$tests" >> $log 2>&1
  /verif/tools/try_patch.sh /tmp/wt7_$p/out/m$i/patch.diff $P 2>&1 | tail -5 | cut -c1-260 >> $log
done
echo DONE >> $log
