"""Regenerate the seeded-changes table of DESIGN.md (between the SEEDED-TABLE markers) from seeded/*/meta.json."""
import glob, json, os, re
rows = []
for d in sorted(glob.glob("/verif/seeded/*")):
    m = json.load(open(os.path.join(d, "meta.json")))
    c = m.get("confirmed_by_coordinator", {})
    def cell(x, n):
        x = " ".join(str(x).split()).replace("|", "/")
        return x if len(x) <= n else x[:n - 1] + "…"
    rows.append("| %s | %s | %s | %s | %s |" % (os.path.basename(d), cell(m.get("summary", ""), 170),
                cell(m.get("needs", ""), 150), c.get("detected", "?"), cell(c.get("check_result", ""), 200)))
tab = ("| id | change (independent sub-agent, passes the pinned suite) | needs, to manifest | detected | how reported |\n"
       "|----|----|----|----|----|\n" + "\n".join(rows))
# summary by round: round = tag of the directory name (m = 1, r2m = 2, ...)
import collections
byround = collections.OrderedDict()
for d in sorted(glob.glob("/verif/seeded/*")):
    name = os.path.basename(d)
    mm = re.match(r"C\d\d-(?:r(\d)[ab]?)?m\d", name)
    rnd = int(mm.group(1)) if (mm and mm.group(1)) else 1
    det = str(json.load(open(os.path.join(d, "meta.json"))).get("confirmed_by_coordinator", {}).get("detected", "?"))
    first = det.startswith("yes") and "after" not in det
    t = byround.setdefault(rnd, [0, 0])
    t[0] += 1
    t[1] += 1 if first else 0
tot = sum(t[0] for t in byround.values())
hit = sum(t[1] for t in byround.values())
summ = ("**Summary (generated).** %d seeded changes kept; %d (%d %%) were reported by the checks as they stood when the "
        "change arrived, the other %d only after an input family was added (the row says which, and the result line of the "
        "re-run; `tools/regress_seeded.sh Cxx` re-tests every kept change of a property against the current check). By round: "
        % (tot, hit, round(100.0 * hit / tot), tot - hit)
        + "; ".join("round %d: %d of %d at first" % (r, t[1], t[0]) for r, t in sorted(byround.items())) + ".")
tab = summ + "\n\n" + tab
p = "/verif/DESIGN.md"
s = open(p).read()
b, e = "<!-- SEEDED-TABLE-BEGIN -->", "<!-- SEEDED-TABLE-END -->"
if b in s:
    s = s[:s.index(b) + len(b)] + "\n" + tab + "\n" + s[s.index(e):]
    open(p, "w").write(s)
print(len(rows), "rows")
