"""Regenerate the seeded-changes table of DESIGN.md (between the SEEDED-TABLE markers) from seeded/*/meta.json."""
import glob, json, os, re
rows = []
for d in sorted(glob.glob("/verif/seeded/*")):
    m = json.load(open(os.path.join(d, "meta.json")))
    c = m.get("confirmed_by_coordinator", {})
    def cell(x, n):
        x = " ".join(str(x).split()).replace("|", "/")
        return x if len(x) <= n else x[:n - 1] + "…"
    rows.append("| %s | %s | %s | %s | %s |" % (os.path.basename(d), cell(m.get("summary", ""), 170),
                cell(m.get("needs", ""), 150), c.get("detected", "?"), cell(c.get("check_result", ""), 200)))
tab = ("| id | change (independent sub-agent, passes the pinned suite) | needs, to manifest | detected | how reported |\n"
       "|----|----|----|----|----|\n" + "\n".join(rows))
p = "/verif/DESIGN.md"
s = open(p).read()
b, e = "<!-- SEEDED-TABLE-BEGIN -->", "<!-- SEEDED-TABLE-END -->"
if b in s:
    s = s[:s.index(b) + len(b)] + "\n" + tab + "\n" + s[s.index(e):]
    open(p, "w").write(s)
print(len(rows), "rows")
