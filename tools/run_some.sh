#!/bin/sh
# tools/run_some.sh <tier> Cxx Cyy ... - run the named checks sequentially, one summary line each (log: /tmp/runsome_<id>.log)
tier=$1; shift
cd "$(dirname "$0")/.."
for c in "$@"; do
  /usr/bin/time -f "$c cpu=%U+%S wall=%e" ./check $c --tier $tier > /tmp/runsome_$c.log 2>&1; rc=$?
  echo "$c rc=$rc $(grep "^$c $tier:" /tmp/runsome_$c.log | cut -c1-150) $(tail -1 /tmp/runsome_$c.log | grep cpu=)"
  grep -E "^(VIOLATION|KNOWN-FINDING|DRIFT|MACHINERY|NONCONFORMANCE)" /tmp/runsome_$c.log | head -3 | cut -c1-200
done
