"""Regenerate the as-built table of DESIGN.md (between ASBUILT-TABLE markers) from META + committed evidence."""
import glob, importlib, json, os, re, sys
sys.path.insert(0, "/verif")
rows = []
for l in open("/verif/properties.jsonl"):
    pid = json.loads(l)["id"]
    try:
        meta = importlib.import_module("harness.props." + pid.lower()).META
    except Exception:
        continue
    src = open("/verif/harness/props/%s.py" % pid.lower()).read()
    mods = sorted(set(re.findall(r'"([A-Z][A-Za-z_]+)"', src)) & {os.path.basename(f)[:-4] for f in glob.glob("/verif/spec/*.tla")})
    ev = {}
    try:
        ev = json.load(open("/verif/evidence/%s.json" % pid))
    except Exception:
        pass
    c = ev.get("coverage", {})
    neg = len(c.get("negative_twins_rejected", []))
    rows.append("| %s | %s | %s | %s | %s | %s | %s |" % (
        pid, ", ".join(mods), c.get("states", "?"), c.get("traces_validated_against_impl", "?"),
        c.get("distinct_nontrivial", "?"), neg, ev.get("wall_s", "?")))
tab = ("| id | TLA+ modules used by the check | states (quick) | real-code cases judged by TLC (quick) | distinct non-trivial | negative twins rejected | wall s (last committed quick run) |\n"
       "|----|----|----|----|----|----|----|\n" + "\n".join(rows))
p = "/verif/DESIGN.md"
s = open(p).read()
b, e = "<!-- ASBUILT-TABLE-BEGIN -->", "<!-- ASBUILT-TABLE-END -->"
if b in s:
    s = s[:s.index(b) + len(b)] + "\n" + tab + "\n" + s[s.index(e):]
    open(p, "w").write(s)
print(len(rows))
