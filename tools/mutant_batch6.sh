#!/bin/sh
# tools/mutant_batch.sh <prop lower> "<pytest files>"  -> /tmp/mb_<prop>.log
p=$1; tests=$2; P=$(echo $p | cut -c1-3 | tr a-z A-Z)
log=/tmp/mb6_$p.log; : > $log
for i in 1 2 3; do
  echo "== $P m$i" >> $log
  /verif/tools/confirm_seeded.sh /tmp/wt6_$p /tmp/wt6_$p/out/m$i "$tests" >> $log 2>&1
  /verif/tools/try_patch.sh /tmp/wt6_$p/out/m$i/patch.diff $P 2>&1 | tail -5 | cut -c1-260 >> $log
done
echo DONE >> $log
