#!/bin/sh
# tools/regress_seeded.sh Cxx [tier] - re-run the check of one property against EVERY kept seeded change of that
# property (scratch copies of /repo; /repo is never touched) and print one line per change: detected / MISSED.
P=$1; tier=${2:-quick}
cd "$(dirname "$0")/.."
for d in seeded/$P-*; do
  [ -f "$d/patch.diff" ] || continue
  out=$(tools/try_patch.sh "$d/patch.diff" $P $tier 2>&1)
  v=$(echo "$out" | grep "^violations:" | head -1)
  rc=$(echo "$out" | grep "^exit=" | tail -1)
  case "$rc" in
    exit=1) s=detected;;
    exit=0) s=MISSED;;
    *) if echo "$out" | grep -q "hunk.*FAILED"; then s="PATCH-NO-LONGER-APPLIES (superseded by a later fix: commit, see its meta.json)"; else s="MACHINERY($rc)"; fi;;
  esac
  echo "$(basename $d) $s $v"
done
