#!/bin/sh
# Offline setup: verify the tools, syntax-check every TLA+ module, byte-compile the harness.
set -e
cd "$(dirname "$0")"
command -v java >/dev/null || { echo "java missing"; exit 1; }
test -f /opt/veriftools/tla/tla2tools.jar || { echo "tla2tools.jar missing"; exit 1; }
test -x /venv/bin/python || { echo "/venv/bin/python missing"; exit 1; }
/venv/bin/python -m compileall -q harness >/dev/null
tmp=$(mktemp -d)
cp spec/*.tla spec/apalache/*.tla "$tmp"/
fail=0
for f in "$tmp"/*.tla; do
  (cd "$tmp" && java -cp /opt/veriftools/tla/tla2tools.jar:/opt/veriftools/tla/CommunityModules-deps.jar tla2sany.SANY "$(basename "$f")" >"$tmp/sany.out" 2>&1) || true
  if grep -q -e "\*\*\* Errors" -e "analysis failed" -e "Fatal" -e "Could not" -e "Exception" "$tmp/sany.out"; then
    echo "SANY failed on $(basename "$f")"; tail -8 "$tmp/sany.out"; fail=1
  fi
done
rm -rf "$tmp"
mkdir -p evidence replay
[ "$fail" = 0 ] && echo "setup ok"
exit $fail
