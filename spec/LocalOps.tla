------------------------------ MODULE LocalOps ------------------------------
(* Per-cell definitions of the xrspatial.local operators (property C17) and the model of   *)
(* the iteration mechanism they all share (np.nditer over the layers in lock-step, then    *)
(* reshape by the column count).  Shared by Local.tla (model checking) and Local_Judge.tla  *)
(* (observations of the real functions).                                                    *)
(*                                                                                          *)
(* A cell is described by its tuple t = <<v1, ..., vL>> of layer values (integers; NaN is   *)
(* the reserved integer NaN) and, for the reference operators, the value ref of the         *)
(* reference layer.  Results are exact rationals <<num, den>>, den > 0; NaN is <<0, 0>>;    *)
(* <<0, -1>> is "not an admissible value" (see BadR).                                        *)
EXTENDS Integers, Sequences, FiniteSets

NaN == -99
NaNR == <<0, 0>>
IsNaNR(q) == q[2] = 0
R(n) == <<n, 1>>
\* equality of results (rationals by cross-multiplication, NaN only equal to NaN)
\* An observed value that is not (within the float bridge's tolerance) a small exact value of the expected
\* kind is encoded as BadR by the worker: it equals nothing, not even itself.
BadR == <<0, -1>>
REq(a, b) == IF a[2] < 0 \/ b[2] < 0 THEN FALSE
             ELSE IF a[2] = 0 \/ b[2] = 0 THEN a[2] = 0 /\ b[2] = 0 ELSE a[1] * b[2] = b[1] * a[2]

HasNaN(t) == \E i \in 1..Len(t) : t[i] = NaN

RECURSIVE SumTo(_, _), SumSqTo(_, _)
SumTo(t, n) == IF n = 0 THEN 0 ELSE t[n] + SumTo(t, n - 1)
SumSqTo(t, n) == IF n = 0 THEN 0 ELSE t[n] * t[n] + SumSqTo(t, n - 1)
Sum(t) == SumTo(t, Len(t))
SumSq(t) == SumSqTo(t, Len(t))

MinOf(t) == CHOOSE v \in {t[i] : i \in 1..Len(t)} : \A j \in 1..Len(t) : v <= t[j]
MaxOf(t) == CHOOSE v \in {t[i] : i \in 1..Len(t)} : \A j \in 1..Len(t) : v >= t[j]

\* k-th smallest layer value (k in 1..L), ties counted with multiplicity
Rank(t, k) == CHOOSE v \in {t[i] : i \in 1..Len(t)} :
                 /\ Cardinality({i \in 1..Len(t) : t[i] < v}) < k
                 /\ Cardinality({i \in 1..Len(t) : t[i] <= v}) >= k

\* the six statistics of cell_stats
Mean(t) == <<Sum(t), Len(t)>>
Median(t) == LET L == Len(t) IN <<Rank(t, (L + 1) \div 2) + Rank(t, L \div 2 + 1), 2>>
\* population variance = std^2 (np.std, ddof = 0)
Var(t) == LET L == Len(t) IN <<L * SumSq(t) - Sum(t) * Sum(t), L * L>>

\* number of layers below / equal to / above the reference value
Lesser(t, ref) == Cardinality({i \in 1..Len(t) : t[i] < ref})
Equal(t, ref) == Cardinality({i \in 1..Len(t) : t[i] = ref})
Greater(t, ref) == Cardinality({i \in 1..Len(t) : t[i] > ref})

\* 1-based index of the first minimum / maximum
LowestPos(t) == CHOOSE i \in 1..Len(t) : t[i] = MinOf(t) /\ \A j \in 1..(i - 1) : t[j] # MinOf(t)
HighestPos(t) == CHOOSE i \in 1..Len(t) : t[i] = MaxOf(t) /\ \A j \in 1..(i - 1) : t[j] # MaxOf(t)

\* the definition of every operator with a per-cell numeric result.
\* "std" is compared through its square (the float bridge squares the observed value).
Def(f, t, ref) ==
  IF HasNaN(t) THEN NaNR
  ELSE CASE f = "max" -> R(MaxOf(t))
         [] f = "min" -> R(MinOf(t))
         [] f = "sum" -> R(Sum(t))
         [] f = "mean" -> Mean(t)
         [] f = "median" -> Median(t)
         [] f = "std" -> Var(t)
         [] f = "lesser_frequency" -> R(Lesser(t, ref))
         [] f = "equal_frequency" -> R(Equal(t, ref))
         [] f = "greater_frequency" -> R(Greater(t, ref))
         [] f = "lowest_position" -> R(LowestPos(t))
         [] f = "highest_position" -> R(HighestPos(t))
         [] f = "rank" -> IF ref >= 1 /\ ref <= Len(t) THEN R(Rank(t, ref)) ELSE NaNR

StatFuncs == <<"max", "min", "sum", "mean", "median", "std">>
RefFuncs == <<"lesser_frequency", "equal_frequency", "greater_frequency", "rank">>
PosFuncs == <<"lowest_position", "highest_position">>

-----------------------------------------------------------------------------
(* The iteration mechanism.  Every operator builds                                          *)
(*   iter_list = [tuple(...) for comb in np.nditer([layer_1.data, ..., layer_L.data],       *)
(*                                                  order='C')]                              *)
(* computes one value per entry and reshapes the flat result with (-1, ncols).  order = "C" *)
(* (the code since fix ffb8ff0) walks the logical cells row-major whatever the memory       *)
(* layout - the order the reshape assumes.  np.nditer's DEFAULT order 'K' (the code before  *)
(* the fix, kept as a negative twin) walks the operands in the order closest to their       *)
(* memory layout.  For 2-D operands of equal shape (numpy's                                  *)
(* npyiter_find_best_axis_ordering and npyiter_flip_negative_strides):                       *)
(*   - the row axis becomes the fast one iff EVERY operand has |row stride| < |col stride|   *)
(*     (on a conflict between operands C order wins),                                        *)
(*   - an axis is walked backwards iff every operand's stride on it is <= 0 and one is < 0.  *)
(* A layout is a pair <<sy, sx>> of element strides.                                         *)
Abs(x) == IF x < 0 THEN -x ELSE x

ColMajor(lays, H, W, order) ==
  order = "K" /\ H > 1 /\ W > 1 /\ \A i \in 1..Len(lays) : Abs(lays[i][1]) < Abs(lays[i][2])
FlipAxis(lays, ax, n, order) ==
  /\ order = "K" /\ n > 1
  /\ \A i \in 1..Len(lays) : lays[i][ax] <= 0
  /\ \E i \in 1..Len(lays) : lays[i][ax] < 0

\* logical cell <<r, c>> delivered by the k-th iteration step (k = 0 .. H*W-1)
IterCell(lays, H, W, order, k) ==
  LET r0 == IF ColMajor(lays, H, W, order) THEN k % H ELSE k \div W
      c0 == IF ColMajor(lays, H, W, order) THEN k \div H ELSE k % W
  IN <<IF FlipAxis(lays, 1, H, order) THEN H - 1 - r0 ELSE r0,
       IF FlipAxis(lays, 2, W, order) THEN W - 1 - c0 ELSE c0>>

\* np.reshape(flat, (-1, W)): output cell <<r, c>> holds the value computed from the tuple of Src
Src(lays, H, W, order, r, c) == IterCell(lays, H, W, order, r * W + c)

\* the mechanism is sound exactly when Src is the identity
Scrambles(lays, H, W, order) ==
  ColMajor(lays, H, W, order) \/ FlipAxis(lays, 1, H, order) \/ FlipAxis(lays, 2, W, order)
=============================================================================
