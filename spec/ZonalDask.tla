----------------------------- MODULE ZonalDask -----------------------------
(* C03: zonal stats / crosstab on Dask rasters.  The code computes, per block and zone, the    *)
(* partials max, min, sum, count, sum_squares with _calc_stats (NaN when the zone has no valid  *)
(* cell in that block), combines them over the blocks (nanmax / nanmin / nansum) and derives    *)
(*   mean = sum/count,  var = (sum_squares - sum^2/count)/count,  std = sqrt(var);              *)
(* crosstab sums per-block count dictionaries key-wise and takes percentages after the sum.    *)
(* Property: for EVERY partition of the cells into blocks the combined table equals the table   *)
(* of the whole raster (the C02 definition; NaN for a zone without valid cell).                 *)
(* Numbers are exact: integers and rationals <<num, den>>; NaN / +-inf are sentinels.          *)
EXTENDS Integers, FiniteSets, Sequences, TLC

CONSTANTS N,        \* number of cells (flattened raster)
          ZV, VV,   \* alphabets of zone ids / values (integers and the sentinels below)
          NB,       \* maximal number of blocks
          NODATA,   \* nodata value, or NONE
          SUMRULE   \* "nan_if_empty" (the library) | "nansum_zero" (negative twin: plain nansum)

NAN == 999
PINF == 998
NINF == -998
NONE == 997
Finite(x) == x \notin {NAN, PINF, NINF}

VARIABLES zones, values, blk
vars == <<zones, values, blk>>

Idx == 1..N
Init == /\ zones \in [Idx -> ZV] /\ values \in [Idx -> VV]
        /\ blk \in [Idx -> 1..NB]
        /\ \A i \in Idx : i > 1 => blk[i] <= 1 + blk[i-1] \/ \E j \in 1..(i-1) : blk[j] = blk[i]
        /\ blk[1] = 1
Next == UNCHANGED vars
Spec == Init /\ [][Next]_vars

ZoneIds == {zones[i] : i \in Idx} \ {NAN, PINF, NINF}
Valid(i) == Finite(values[i]) /\ values[i] # NODATA
ZCells(z, S) == {i \in S : zones[i] = z /\ Valid(i)}

RECURSIVE SumOver(_,_)
SumOver(S, sq) == IF S = {} THEN 0
                  ELSE LET i == CHOOSE j \in S : TRUE IN
                       (IF sq THEN values[i]*values[i] ELSE values[i]) + SumOver(S \ {i}, sq)
MaxOver(S) == CHOOSE m \in {values[i] : i \in S} : \A i \in S : values[i] <= m
MinOver(S) == CHOOSE m \in {values[i] : i \in S} : \A i \in S : values[i] >= m

\* what _calc_stats returns for one block / the whole raster: NaN record when no valid cell
Basis(S) == IF S = {} THEN [max |-> NAN, min |-> NAN, sum |-> NAN, count |-> NAN, sumsq |-> NAN]
            ELSE [max |-> MaxOver(S), min |-> MinOver(S), sum |-> SumOver(S, FALSE),
                  count |-> Cardinality(S), sumsq |-> SumOver(S, TRUE)]

\* ---- rationals
Rat(n, d) == IF d = 0 THEN <<NAN, 1>> ELSE <<n, d>>
RatEq(a, b) == IF a[1] = NAN \/ b[1] = NAN THEN a[1] = b[1] ELSE a[1]*b[2] = b[1]*a[2]
Derived(b) == IF b.count = NAN THEN [mean |-> <<NAN,1>>, var |-> <<NAN,1>>]
              ELSE [mean |-> Rat(b.sum, b.count),
                    var |-> Rat(b.count*b.sumsq - b.sum*b.sum, b.count*b.count)]

\* ---- the Dask path: per-block partials, combiners
Blocks == {blk[i] : i \in Idx}
Part(z) == [b \in Blocks |-> Basis(ZCells(z, {i \in Idx : blk[i] = b}))]
NonNan(z, f) == {Part(z)[b][f] : b \in {c \in Blocks : Part(z)[c][f] # NAN}}
NanMax(z) == IF NonNan(z, "max") = {} THEN NAN ELSE CHOOSE m \in NonNan(z, "max") : \A x \in NonNan(z, "max") : x <= m
NanMin(z) == IF NonNan(z, "min") = {} THEN NAN ELSE CHOOSE m \in NonNan(z, "min") : \A x \in NonNan(z, "min") : x >= m
RECURSIVE AddUp(_,_,_)
AddUp(z, f, B) == IF B = {} THEN 0
                  ELSE LET b == CHOOSE c \in B : TRUE IN
                       (IF Part(z)[b][f] = NAN THEN 0 ELSE Part(z)[b][f]) + AddUp(z, f, B \ {b})
NanSum(z, f) == IF SUMRULE = "nan_if_empty" /\ \A b \in Blocks : Part(z)[b][f] = NAN THEN NAN
                ELSE AddUp(z, f, Blocks)
Combined(z) == [max |-> NanMax(z), min |-> NanMin(z), sum |-> NanSum(z, "sum"),
                count |-> NanSum(z, "count"), sumsq |-> NanSum(z, "sumsq")]
\* derived statistics of the Dask path: 0/0 = NaN
DaskDerived(c) == IF c.count = NAN \/ c.count = 0 THEN [mean |-> <<NAN,1>>, var |-> <<NAN,1>>]
                  ELSE [mean |-> Rat(c.sum, c.count), var |-> Rat(c.count*c.sumsq - c.sum*c.sum, c.count*c.count)]

Whole(z) == Basis(ZCells(z, Idx))

\* ---- C03 for stats
MergedIsWhole ==
  \A z \in ZoneIds :
     LET c == Combined(z)  w == Whole(z) IN
     /\ c.max = w.max /\ c.min = w.min /\ c.sum = w.sum /\ c.count = w.count
     /\ RatEq(DaskDerived(c).mean, Derived(w).mean)
     /\ RatEq(DaskDerived(c).var, Derived(w).var)

\* ---- crosstab: per-block {category -> count} dictionaries summed key-wise, percentage afterwards
Cats == {values[i] : i \in {j \in Idx : Valid(j)}}
CountIn(z, c, S) == Cardinality({i \in S : zones[i] = z /\ Valid(i) /\ values[i] = c})
RECURSIVE SumBlocks(_,_,_)
SumBlocks(z, c, B) == IF B = {} THEN 0
                      ELSE LET b == CHOOSE x \in B : TRUE IN
                           CountIn(z, c, {i \in Idx : blk[i] = b}) + SumBlocks(z, c, B \ {b})
RECURSIVE TotalBlocks(_,_)
TotalBlocks(z, B) == IF B = {} THEN 0
                     ELSE LET b == CHOOSE x \in B : TRUE IN
                          Cardinality(ZCells(z, {i \in Idx : blk[i] = b})) + TotalBlocks(z, B \ {b})
CrosstabMerged ==
  \A z \in ZoneIds : \A c \in Cats :
     /\ SumBlocks(z, c, Blocks) = CountIn(z, c, Idx)
     /\ RatEq(Rat(100 * SumBlocks(z, c, Blocks), TotalBlocks(z, Blocks)),
              Rat(100 * CountIn(z, c, Idx), Cardinality(ZCells(z, Idx))))
=============================================================================
