------------------------------ MODULE Regions ------------------------------
(* C16: zonal.regions labels are exactly the connected components of equal value.         *)
(* Algorithm model of xrspatial.zonal._area_connectivity: one action per iteration of the  *)
(* first double loop (Label1) and of the second double loop (Merge2), state = the arrays    *)
(* the code mutates (out, uid) and the loop counters.  Every raster over VALS of an H x W  *)
(* grid is an initial state; the algorithm then runs deterministically.                    *)
(* Abstract layer: Components (least fixpoint, Components.tla).                            *)
EXTENDS RegionsOps, TLC

CONSTANTS H, W,     \* grid size
          VALS,     \* set of cell values (integers; NANV = -99 stands for NaN)
          N,        \* neighbourhood: 4 | 8
          MUT       \* "none" | negative twins "nopass2" | "noelse" | "localreplace" | "alwaysnew" | "absmin" | "wrap64"

VARIABLES data, out, uid, pass, y, x,
          comps      \* ghost: Components of `data`, fixed at Init (never read by the algorithm actions)
vars == <<data, out, uid, pass, y, x, comps>>

G == [H |-> H, W |-> W, v |-> data, conn |-> N, mut |-> MUT]

Init == /\ data \in [0..H-1 -> [0..W-1 -> VALS]]
        /\ out = [r \in 0..H-1 |-> [c \in 0..W-1 |-> 0]]      \* np.zeros_like(data)
        /\ uid = 1
        /\ pass = "p1" /\ y = 0 /\ x = 0
        /\ comps = Components(G)

Last == y = H - 1 /\ x = W - 1
Advance(nextpass) ==
  IF Last THEN pass' = nextpass /\ y' = 0 /\ x' = 0
  ELSE /\ pass' = pass
       /\ IF x = W - 1 THEN y' = y + 1 /\ x' = 0 ELSE y' = y /\ x' = x + 1

\* first pass: provisional label from the first labelled matching neighbour, else a new uid
Label1 ==
  /\ pass = "p1"
  /\ LET s == Label1Cell(G, [out |-> out, uid |-> uid], y, x) IN out' = s.out /\ uid' = s.uid
  /\ Advance("p2")
  /\ UNCHANGED <<data, comps>>

\* second pass: pairwise merging of all labels seen among the matching neighbours
Merge2 ==
  /\ pass = "p2"
  /\ out' = Merge2Cell(G, out, y, x)
  /\ Advance("done")
  /\ UNCHANGED <<data, uid, comps>>

Next == Label1 \/ Merge2
Spec == Init /\ [][Next]_vars

\* ------------------------------------------------------------------ properties (C16)
Done == pass = "done"
Idx(p) == p[1] * W + p[2]
Cur == y * W + x

TypeOK == /\ pass \in {"p1", "p2", "done"} /\ y \in 0..H-1 /\ x \in 0..W-1
          /\ uid \in 1..(H*W + 1)
          /\ \A p \in GCells(G) : out[p[1]][p[2]] \in (0..H*W) \cup {NANV}

\* the property: same label <=> same component
PartitionIsComponents == Done => LabelClasses(G, out) = comps
LabelsPositive == Done => \A p \in GValid(G) : out[p[1]][p[2]] > 0
NaNKept == Done => \A p \in GCells(G) : (out[p[1]][p[2]] = NANV) <=> (GVal(G, p) = NANV)

\* ---- how the algorithm gets there (checked in every reachable state)
\* first pass: exactly the scanned prefix is labelled, labels are below uid
PrefixLabelled ==
  \A p \in GCells(G) :
    LET o == out[p[1]][p[2]] IN
    IF pass = "p1" /\ Idx(p) >= Cur THEN o = 0
    ELSE (IF GVal(G, p) = NANV THEN o = NANV ELSE o > 0 /\ o < uid)
\* never joins two components: cells with one label always lie in one component
CompOf(p) == CHOOSE C \in comps : p \in C
NeverJoinsComponents ==
  LET P == {p \in GValid(G) : out[p[1]][p[2]] > 0}
      comp == [p \in P |-> CompOf(p)]
  IN \A p \in P, q \in P : out[q[1]][q[2]] = out[p[1]][p[2]] => comp[p] = comp[q]
\* second pass: behind the scan position every pair of adjacent equal-valued cells is merged
MergedBehind ==
  pass \in {"p2", "done"} =>
     \A q \in GValid(G) : (Done \/ Idx(q) < Cur) =>
        \A p \in SameNbrs(G, q) : Idx(p) < Idx(q) => out[p[1]][p[2]] = out[q[1]][q[2]]
=============================================================================
