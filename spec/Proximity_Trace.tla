-------------------------- MODULE Proximity_Trace --------------------------
(* Trace validation for C06 (and the per-call half of C07).  One case = one public call   *)
(* of proximity+allocation+direction on one raster, recorded from the real code:          *)
(*   H, W, img (0/1 target mask), xs, ys, metric, tab, bound2, maxn  -- the call            *)
(*   events : one record per _process_proximity_line call (interpreted mode), may be <<>>  *)
(*   prox   : observed proximity, squared, in the units of DD (-1 = NaN, -2 = not a lattice value) *)
(*   vcode  : the raster's values as integer codes (-1 = NaN)                                       *)
(*   alloc  : observed allocation as a value code (-1 = NaN, -2 = not a value of the raster)        *)
(*   dir    : observed direction in millidegrees (-1 = NaN)                                 *)
(*   dirT   : float bridge: ids of the target cells whose bearing formula matches dir        *)
(*   exact  : 1 when the exactness clause applies (scope proven exact by Proximity.tla, or single target) *)
(* Monitor style: the sweep model is deterministic, so each SweepLine step computes the    *)
(* model's post-state and compares it with the logged one ("drift" if different); the      *)
(* properties P1..P7 are evaluated by TLC on the observed outputs at the end.              *)
EXTENDS ProxOps, TLC, Json, IOUtils

Cases == ndJsonDeserialize(IOEnv.VERIF_CASES)

VARIABLES tid, l, phase, line, sub, panX, panY, lp, nx, ny, imgD, drift
vars == <<tid, l, phase, line, sub, panX, panY, lp, nx, ny, imgD, drift>>

F(seq) == [i \in 0..Len(seq)-1 |-> seq[i+1]]
Tr == Cases[tid]
E == [H |-> Tr.H, W |-> Tr.W, img |-> [r \in 0..Tr.H-1 |-> F(Tr.img[r+1])],
      xs |-> F(Tr.xs), ys |-> F(Tr.ys), metric |-> Tr.metric, tab |-> Tr.tab,
      bound2 |-> Tr.bound2, maxn |-> Tr.maxn]
NR == NoneRow(E)

Init == /\ tid \in 1..Len(Cases) /\ l = 1
        /\ phase = "down" /\ line = 0 /\ sub = 0
        /\ panX = NR /\ panY = NR /\ lp = NR /\ nx = NR /\ ny = NR
        /\ imgD = [r \in 0..Tr.H-1 |-> NR] /\ drift = 0

HasEvents == Len(Tr.events) > 0

\* one spec action per logged _process_proximity_line call
SweepLine ==
  /\ phase \notin {"done", "judged"} /\ HasEvents /\ l <= Len(Tr.events)
  /\ LET ev == Tr.events[l]
         lp0 == IF sub = 0 THEN (IF phase = "down" THEN NR ELSE imgD[line]) ELSE lp
         pX0 == IF phase = "up" /\ line = Tr.H-1 /\ sub = 0 THEN NR ELSE panX
         pY0 == IF phase = "up" /\ line = Tr.H-1 /\ sub = 0 THEN NR ELSE panY
         s1 == ProcLine(E, [panX |-> pX0, panY |-> pY0, lp |-> lp0, nx |-> NR, ny |-> NR], line, Fwd(phase, sub))
         match == /\ ev.line = line /\ ev.fwd = Fwd(phase, sub)
                  /\ F(ev.panX) = s1.panX /\ F(ev.panY) = s1.panY /\ F(ev.lp) = s1.lp
                  /\ F(ev.nx) = s1.nx /\ F(ev.ny) = s1.ny
     IN /\ panX' = s1.panX /\ panY' = s1.panY /\ lp' = s1.lp /\ nx' = s1.nx /\ ny' = s1.ny
        /\ drift' = IF drift = 0 /\ ~match THEN l ELSE drift
        /\ imgD' = IF sub = 1 THEN [imgD EXCEPT ![line] = s1.lp] ELSE imgD
        /\ IF sub = 0 THEN /\ sub' = 1 /\ line' = line /\ phase' = phase
           ELSE /\ sub' = 0
                /\ IF phase = "down" THEN (IF line = Tr.H-1 THEN phase' = "up" /\ line' = Tr.H-1
                                           ELSE phase' = "down" /\ line' = line + 1)
                   ELSE (IF line = 0 THEN phase' = "done" /\ line' = 0 ELSE phase' = "up" /\ line' = line - 1)
  /\ l' = l + 1 /\ UNCHANGED tid

\* ---- the properties, on the OBSERVED outputs
Out(r, c) == Tr.prox[r+1][c+1]
Alloc(r, c) == Tr.alloc[r+1][c+1]
Dir(r, c) == Tr.dir[r+1][c+1]
DirT(r, c) == Tr.dirT[r+1][c+1]
AR(a) == a \div Tr.W
AC(a) == a % Tr.W
InSeq(x, s) == \E i \in 1..Len(s) : s[i] = x

\* exact quadrant logic of the compass convention: 0 self, 90 E, 180 S (increasing y), 270 W, 360 N
QuadrantOK(r, c, a) ==
  LET dx == E.xs[AC(a)] - E.xs[c]
      dy == E.ys[AR(a)] - E.ys[r]
      d  == Dir(r, c)
      near(x) == d >= x - 5 /\ d <= x + 5
  IN CASE dx = 0 /\ dy = 0 -> d = 0
       [] dx > 0 /\ dy = 0 -> near(90000)
       [] dx < 0 /\ dy = 0 -> near(270000)
       [] dx = 0 /\ dy > 0 -> near(180000)
       [] dx = 0 /\ dy < 0 -> near(360000)
       [] dx > 0 /\ dy < 0 -> d > 0 /\ d < 90000 /\ (dx = -dy => near(45000))
       [] dx > 0 /\ dy > 0 -> d > 90000 /\ d < 180000 /\ (dx = dy => near(135000))
       [] dx < 0 /\ dy > 0 -> d > 180000 /\ d < 270000 /\ (-dx = dy => near(225000))
       [] dx < 0 /\ dy < 0 -> d > 270000 /\ d < 360000 /\ (dx = dy => near(315000))

VCode(p) == Tr.vcode[p[1]+1][p[2]+1]
Id(p) == p[1] * Tr.W + p[2]

CellClause(r, c) ==
  LET o == Out(r, c)  a == Alloc(r, c)  tn == TrueNearest(E, r, c)
      \* targets carrying the allocated value / those of them lying at the reported distance
      named == {t \in Targets(E) : VCode(t) = a}
      cand == {t \in named : DD(E, r, c, t[1], t[2]) = o}
      dcand == {t \in cand : InSeq(Id(t), DirT(r, c))}
  IN
  IF o = -2 THEN "bridge_prox_not_a_lattice_distance"
  ELSE IF (o = 0) # (E.img[r][c] = 1) THEN "P1_zero_iff_target"
  ELSE IF o = NONE THEN
       (IF a # NONE \/ Dir(r, c) # NONE THEN "P6_nan_in_all_three"
        ELSE IF E.maxn = -1 /\ Targets(E) # {} THEN "P5_no_nan_when_unbounded"
        ELSE IF Tr.exact = 1 /\ Expected(E, r, c) # NONE THEN "P7_exact"
        ELSE "ok")
  ELSE IF a < 0 THEN "P2_allocation_names_no_cell"
  ELSE IF named = {} THEN "P2_allocation_not_a_target"
  ELSE IF cand = {} THEN "P2_proximity_is_not_distance_to_allocated_target"
  ELSE IF o < tn THEN "P3_underestimate"
  ELSE IF ~WithinMax(E, o) THEN "P4_beyond_max_distance"
  ELSE IF Dir(r, c) = NONE THEN "P6_nan_in_all_three"
  ELSE IF dcand = {} THEN "P2_direction_is_not_bearing_of_allocated_target"
  ELSE IF \A t \in dcand : ~QuadrantOK(r, c, Id(t)) THEN "P2_direction_quadrant"
  ELSE IF Tr.exact = 1 /\ o # Expected(E, r, c) THEN "P7_exact"
  ELSE "ok"

RECURSIVE FirstBad(_)
FirstBad(k) == IF k = Tr.H * Tr.W THEN "ok"
               ELSE LET cl == CellClause(k \div Tr.W, k % Tr.W) IN IF cl # "ok" THEN cl ELSE FirstBad(k + 1)

\* model's final image vs observed output (only meaningful when every step was logged)
ModelEqOut == \A r \in 0..Tr.H-1, c \in 0..Tr.W-1 : imgD[r][c] = Out(r, c)

Judge ==
  /\ \/ phase = "done" /\ l = Len(Tr.events) + 1
     \/ ~HasEvents /\ phase = "down" /\ l = 1
  /\ LET cl == FirstBad(0)
         dr == IF ~HasEvents THEN "nosteps"
               ELSE IF drift # 0 THEN "drift_at_event_" \o ToString(drift)
               ELSE IF ~ModelEqOut THEN "drift_final_image"
               ELSE "steps_ok"
     IN PrintT(<<"VERDICT", tid, cl, dr>>)
  /\ phase' = "judged"
  /\ UNCHANGED <<tid, l, line, sub, panX, panY, lp, nx, ny, imgD, drift>>

\* an incomplete or over-long event log is a step-level mismatch, not a property failure
Truncated ==
  /\ HasEvents /\ phase \notin {"done", "judged"} /\ l = Len(Tr.events) + 1
  /\ PrintT(<<"VERDICT", tid, FirstBad(0), "drift_event_log_too_short">>)
  /\ phase' = "judged"
  /\ UNCHANGED <<tid, l, line, sub, panX, panY, lp, nx, ny, imgD, drift>>
TooLong ==
  /\ HasEvents /\ phase = "done" /\ l <= Len(Tr.events)
  /\ PrintT(<<"VERDICT", tid, FirstBad(0), "drift_event_log_too_long">>)
  /\ phase' = "judged"
  /\ UNCHANGED <<tid, l, line, sub, panX, panY, lp, nx, ny, imgD, drift>>

Next == SweepLine \/ Judge \/ Truncated \/ TooLong
Spec == Init /\ [][Next]_vars
=============================================================================
