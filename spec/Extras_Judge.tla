--------------------------- MODULE Extras_Judge ---------------------------
(* Verdicts on observations of the real bump, zonal.apply, suggest_zonal_canvas,            *)
(* get_full_extent, lnglat_to_meters and summarize_terrain (abstract           *)
(* definitions: ExtrasOps.tla).  One NDJSON case per call; `kind` selects the clause set.    *)
(* Encodings: grids are sequences of rows; NaN = -999999; -999998 = the observed float is    *)
(* not within tolerance of any value of the encoding (float bridge failed).                  *)
EXTENDS ExtrasOps, TLC, Json, IOUtils

Cases == ndJsonDeserialize(IOEnv.VERIF_CASES)
BAD == -999998
F0(seq) == [i \in 0..Len(seq)-1 |-> seq[i+1]]
Grid(g) == [r \in 0..Len(g)-1 |-> F0(g[r+1])]
Sign(x) == IF x > 0 THEN 1 ELSE IF x < 0 THEN -1 ELSE 0

\* ---------------------------------------------------------------- bump
RECURSIVE ChainExact(_, _, _, _, _, _)
ChainExact(o, W, H, bumps, sp, k) ==
  IF k > Len(bumps) THEN TRUE
  ELSE /\ BumpExact(o, bumps[k][1], bumps[k][2], bumps[k][3], sp)
       /\ ChainExact(BumpStep(o, W, H, bumps[k][1], bumps[k][2], bumps[k][3], sp, "none"), W, H, bumps, sp, k + 1)

FirstDiff(obs, exp, W, H) ==
  LET bad == {k \in 0..W*H-1 : obs[k \div W][k % W] # exp[k \div W][k % W]}
  IN IF bad = {} THEN -1 ELSE CHOOSE k \in bad : \A j \in bad : k <= j

BumpV(c) ==
  LET obs == Grid(c.obs)
      exp == BumpAll(Zeros(c.W, c.H), c.W, c.H, c.bumps, c.sp, 1, "none")
      k == FirstDiff(obs, exp, c.W, c.H)
  IN CASE c.err = 1 -> <<"valid_rejected", "">>
       [] c.shape # <<c.H, c.W>> -> <<"bump_shape", ToString(c.shape)>>
       [] ~ChainExact(Zeros(c.W, c.H), c.W, c.H, c.bumps, c.sp, 1) -> <<"ok", "bridge_inexact_scale">>
       [] \E r \in 0..c.H-1, q \in 0..c.W-1 : obs[r][q] = BAD -> <<"bump_value_not_on_lattice", "">>
       [] k # -1 -> <<"bump_accumulation", ToString(<<k \div c.W, k % c.W, obs[k \div c.W][k % c.W], exp[k \div c.W][k % c.W]>>)>>
       [] c.res # 1 -> <<"bump_res_attr", "">>
       [] OTHER -> <<"ok", "">>

\* ---------------------------------------------------------------- zonal.apply
Lookup(fk, fv, v) == LET i == CHOOSE i \in 1..Len(fk) : fk[i] = v IN fv[i]

ApplyV(c) ==
  LET Z == Grid(c.zones)
      layers == Len(c.values)
      bad == {<<l, r, q>> \in (1..layers) \X (0..c.H-1) \X (0..c.W-1) :
                c.obs[l][r+1][q+1] #
                  (LET v == c.values[l][r+1][q+1]
                   IN IF v = NAN THEN NAN ELSE IF Z[r][q] = c.nodata THEN v ELSE Lookup(c.fk, c.fv, v))}
      inplace == c.inplace = 1
  IN CASE c.err = 1 -> <<"valid_rejected", c.error>>
       [] bad # {} -> <<"apply_cell", ToString(CHOOSE b \in bad : TRUE)>>
       [] ~inplace -> <<"apply_not_in_place", "">>
       [] c.zones_after # c.zones -> <<"apply_modified_zones", "">>
       [] OTHER -> <<"ok", "">>

\* ---------------------------------------------------------------- suggest_zonal_canvas / get_full_extent
CanvasV(c) ==
  CASE c.err = 1 -> <<"valid_rejected", "">>
    [] ~FloorSqrtOK(c.h, c.P, c.A, c.yr) -> <<"canvas_height", ToString(<<c.h, c.P, c.A, c.yr>>)>>
    [] ~FloorSqrtOK(c.w, c.P, c.A, c.xr) -> <<"canvas_width", ToString(<<c.w, c.P, c.A, c.xr>>)>>
    [] OTHER -> <<"ok", IF (c.h + 1) * (c.h + 1) * c.A = c.P * c.yr * c.yr THEN "tie" ELSE "">>

ExtentV(c) ==
  CASE c.known = 1 /\ c.err = 1 -> <<"valid_rejected", "">>
    [] c.known = 0 /\ c.err = 0 -> <<"unknown_crs_accepted", "">>
    [] c.known = 0 -> <<"ok", "">>
    [] c.obs # FullExtent(c.crs) -> <<"full_extent", ToString(c.obs)>>
    [] OTHER -> <<"ok", "">>

\* ---------------------------------------------------------------- lnglat_to_meters
LngLatV(c) ==
  LET n == Len(c.lng)
      idx == 1..n
  IN CASE c.err = 1 -> <<"valid_rejected", "">>
       [] \E i \in idx : c.xdeg[i] # c.lng[i] -> <<"easting_linear", "">>
       [] \E i \in idx : Sign(c.ym[i]) # Sign(c.lat[i]) -> <<"northing_sign", "">>
       [] \E i, j \in idx : c.lat[i] < c.lat[j] /\ ~(c.ym[i] < c.ym[j]) -> <<"northing_monotone", "">>
       [] \E i, j \in idx : c.lat[i] = -c.lat[j] /\ c.ym[i] # -c.ym[j] -> <<"northing_odd", "">>
       [] \E i \in idx : c.lat[i] = 45 /\ c.ym[i] # 5621521 -> <<"northing_at_45", "">>   \* R*ln(tan(67.5 deg)), rounded
       [] OTHER -> <<"ok", "">>

\* ---------------------------------------------------------------- summarize_terrain
SummaryV(c) ==
  CASE c.named = 0 /\ c.err = 0 -> <<"unnamed_accepted", "">>
    [] c.named = 0 -> <<"ok", "">>
    [] c.err = 1 -> <<"valid_rejected", c.error>>
    [] c.vars # <<c.name, c.name \o "-slope", c.name \o "-curvature", c.name \o "-aspect">> -> <<"summary_variables", ToString(c.vars)>>
    [] c.same # <<1, 1, 1, 1>> -> <<"summary_values", ToString(c.same)>>
    [] OTHER -> <<"ok", "">>

V(c) == CASE c.kind = "bump" -> BumpV(c)
          [] c.kind = "apply" -> ApplyV(c)
          [] c.kind = "canvas" -> CanvasV(c)
          [] c.kind = "extent" -> ExtentV(c)
          [] c.kind = "lnglat" -> LngLatV(c)
          [] c.kind = "summary" -> SummaryV(c)

ASSUME \A i \in 1..Len(Cases) : LET v == V(Cases[i]) IN PrintT(<<"VERDICT", i, v[1], v[2]>>)
=============================================================================
