------------------------------- MODULE HistOps -------------------------------
(* C11 - shared by History.tla (model of the library's hidden state) and History_Trace.tla       *)
(* (observations of the real code).  A step of a history is judged from                           *)
(*   pre, post : hidden state records [hist, outs, defaults, tables, jit]                         *)
(*   c         : the call [id, unseeded, fresh, digest]                                            *)
(*               fresh  = result of this call ALONE in a fresh interpreter                         *)
(*               digest = result observed at this point of the history                             *)
(* Clauses of the property:                                                                        *)
(*   result_differs_from_fresh_interpreter  - earlier calls / thread count changed a result        *)
(*   repeat_call_differs                    - repeating a call gave a different result             *)
(*   defaults_mutated / module_table_mutated - hidden state that later calls read was modified     *)
EXTENDS Integers, Sequences, FiniteSets, TLC

StepClause(pre, post, c) ==
  IF ~c.unseeded /\ c.digest # c.fresh THEN "result_differs_from_fresh_interpreter"
  ELSE IF ~c.unseeded /\ \E i \in 1..Len(pre.hist) : pre.hist[i] = c.id /\ pre.outs[i] # c.digest THEN "repeat_call_differs"
  ELSE IF post.defaults # pre.defaults THEN "defaults_mutated"
  ELSE IF post.tables # pre.tables THEN "module_table_mutated"
  ELSE "ok"

\* step-level expectations about the JIT cache (drift, not part of the property):
\* compiled signatures only accumulate; repeating a call that already ran compiles nothing new
JitMonotone(preJit, postJit) == \A i \in 1..Len(preJit) : postJit[i][2] >= preJit[i][2]
JitNote(pre, post, c) ==
  IF ~JitMonotone(pre.jit, post.jit) THEN "drift_jit_signatures_dropped"
  ELSE IF (\E i \in 1..Len(pre.hist) : pre.hist[i] = c.id) /\ post.jit # pre.jit THEN "drift_repeat_call_recompiled"
  ELSE ""
=============================================================================
