------------------------------ MODULE Spectral ------------------------------
(* C13 - exhaustive model.  A state is one call site of one index at one cell: the index,  *)
(* the tuple of band values in signature order, the parameters.  Every tuple over BANDS    *)
(* (0..6 and NaN) x every parameter combination is an initial state; the transitions are   *)
(* the metamorphic moves of the property:                                                  *)
(*    Swap    exchange the two bands of a normalised-difference index                      *)
(*    Double  multiply every band by 2 (repeatedly: the 2^k scalings)                      *)
(*    Poison  turn one band into NaN                                                       *)
(* Invariants (all states):  CodeIsFormula (wrapper slots + kernel = published formula),   *)
(*    NaNIff (NaN exactly when a band is NaN or the denominator vanishes / radicand <= 0), *)
(*    NeverInf, NRRange (normalised differences of non-negative bands lie in [-1,1]).      *)
(* Action properties (all transitions):  SwapFlipsSign, DoubleKeeps (scale-invariant       *)
(*    configurations; EBBI's signed square doubles), PoisonGivesNaN.                       *)
EXTENDS SpectralOps, TLC

CONSTANTS BANDS,      \* band values, e.g. 0..6 \cup {NAN}
          IDX,        \* the indices explored in this run
          C1S, C2S, LS, GS,    \* parameter values in halves (EVI: all four; SAVI: LS)
          MAXB,       \* Double is allowed while every finite band stays <= MAXB
          MUT

VARIABLES idx, b, par, act
vars == <<idx, b, par, act>>

ParsOf(i) == CASE i = "evi" -> {<<c1, c2, l, g>> : c1 \in C1S, c2 \in C2S, l \in LS, g \in GS}
               [] i = "savi" -> {<<0, 0, l, 2>> : l \in LS}
               [] OTHER -> {<<0, 0, 0, 2>>}

Init == /\ idx \in IDX
        /\ b \in [1..Arity(idx) -> BANDS]
        /\ par \in ParsOf(idx)
        /\ act = "init"

Swap == /\ idx \in NRFamily
        /\ b' = <<b[2], b[1]>> /\ act' = "swap" /\ UNCHANGED <<idx, par>>
Double == /\ \A i \in 1..Len(b) : IF IsNaN(b[i]) THEN TRUE ELSE 2 * Abs(b[i]) <= MAXB
          /\ b' = [i \in 1..Len(b) |-> IF IsNaN(b[i]) THEN NAN ELSE 2 * b[i]]
          /\ act' = "double" /\ UNCHANGED <<idx, par>>
Poison == \E i \in 1..Len(b) : /\ ~IsNaN(b[i])
                               /\ b' = [b EXCEPT ![i] = NAN] /\ act' = "poison" /\ UNCHANGED <<idx, par>>
Next == Swap \/ Double \/ Poison
Spec == Init /\ [][Next]_vars

Val == Code(idx, b, par, MUT)
ValNext == Code(idx', b', par', MUT)

TypeOK == idx \in IDX /\ Len(b) = Arity(idx) /\ Len(par) = 4

\* the code-shaped layer computes the published formula (which argument lands in which slot included)
CodeIsFormula == Val = Formula(idx, b, par)

\* NaN exactly where the formula is undefined
DenOf(i, B, p) ==
  CASE i = "arvi" -> B.nir + 2 * B.red + B.blue
    [] i = "evi"  -> 2 * B.nir + p[1] * B.red - p[2] * B.blue + p[3]
    [] i = "gci"  -> B.green
    [] i = "nbr"  -> B.nir + B.swir2
    [] i = "nbr2" -> B.swir1 + B.swir2
    [] i = "ndvi" -> B.nir + B.red
    [] i = "ndmi" -> B.nir + B.swir1
    [] i = "savi" -> (2 * B.nir + 2 * B.red + p[3]) * (2 + p[3])
    [] i = "sipi" -> B.nir - B.red
    [] i = "ebbi" -> IF B.swir + B.tir < 0 THEN 0 ELSE B.swir + B.tir      \* radicand <= 0: undefined
NaNIff == RIsNaN(Val) <=> (AnyNaN(b) \/ DenOf(idx, Named(idx, b), par) = 0)
NeverInf == ~RIsInf(Val) /\ (Val[2] >= 0)

\* normalised differences of non-negative bands lie in [-1, 1]
NRRange == (idx \in NRFamily /\ ~RIsNaN(Val) /\ b[1] >= 0 /\ b[2] >= 0) => RInUnit(Val)

\* ---------------------------------------------------------------- action properties
SwapFlipsSign == [][act' = "swap" => ValNext = (IF RIsNaN(Val) THEN RNaN ELSE RNeg(Val))]_vars
DoubleKeeps == [][act' = "double" =>
                    IF idx = "ebbi" THEN (IF RIsNaN(Val) THEN RIsNaN(ValNext) ELSE REq(ValNext, <<2 * Val[1], Val[2]>>))
                    ELSE IF ScaleInvariant(idx, par) THEN REq(ValNext, Val)
                    ELSE TRUE]_vars
PoisonGivesNaN == [][act' = "poison" => RIsNaN(ValNext)]_vars

\* ---------------------------------------------------------------- constant-level facts about the wrappers
\* the four normalised-difference wrappers differ only in the names of their two arguments, first minus second
ASSUME \A i \in NRFamily : Arity(i) = 2
\* SAVI without soil term is NDVI; the alpha rule of true_color
ASSUME \A n \in 0..6, r \in 0..6 : Formula("savi", <<n, r>>, <<0, 0, 0, 2>>) = Formula("ndvi", <<n, r>>, <<0, 0, 0, 2>>)
    \/ REq(Formula("savi", <<n, r>>, <<0, 0, 0, 2>>), Formula("ndvi", <<n, r>>, <<0, 0, 0, 2>>))
ASSUME \A red \in (0..6) \cup {NAN}, nd \in {0, 2, 5, 6} :
         Alpha(red, nd) \in {0, 255} /\ (Alpha(red, nd) = 0 <=> (IsNaN(red) \/ 2 * red <= nd))
=============================================================================
