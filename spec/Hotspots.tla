------------------------------ MODULE Hotspots ------------------------------
(* C09, last clause: "hotspots returns only 0, +-90, +-95, +-99, carrying the sign of the    *)
(* neighbourhood mean's z-score against the global mean with thresholds 1.65 / 1.96 / 2.58,   *)
(* so negating the raster negates the result".                                               *)
(*                                                                                            *)
(* Part 1 (MODE = "ladder").  focal._calc_hotspots_numpy first maps |z| to a p-value          *)
(* (>= 2.33 -> 0.0099, >= 1.65 -> 0.0495, >= 1.29 -> 0.0985, else 1.0) and then to a          *)
(* confidence (|z| > 2.58 and p < 0.01 -> 99; |z| > 1.96 and p < 0.05 -> 95; |z| > 1.65 and    *)
(* p < 0.1 -> 90; else 0), times the sign of z.  The state space is every z in thousandths,    *)
(* -ZMAX..ZMAX; the invariants say the two-stage ladder IS the threshold form, is odd in z,    *)
(* takes only the seven values and is monotone in |z|.  p-values are in units of 1e-4.         *)
(* Part 2 (MODE = "raster").  Every integer raster of SHAPES over VALS x every kernel of        *)
(* KERNELS: the classification of FocalOps.HotAdmitted (exact sign and exact comparison of     *)
(* z^2 with the squared thresholds, no square roots) of the negated raster is the negated      *)
(* classification, cell by cell; cells whose window leaves the raster are 0.                   *)
(* MUT (negative twins): "p233" (first p-value break moved to 2.60: the p < 0.01 gate bites),  *)
(* "ge" (>= instead of >, not odd-breaking but no longer the strict threshold form),           *)
(* "abs_lost" (confidence from z instead of |z|: cold spots vanish), "t95" (1.96 typed 1.69).  *)
EXTENDS FocalOps, TLC

CONSTANTS MODE, ZMAX, SHAPES, VALS, KERNELS, MUT

VARIABLES z, X, K, ph
vars == <<z, X, K, ph>>

\* ------------------------------------------------------------------ the code's ladder, z in thousandths
PValue(az) == IF az >= (IF MUT = "p233" THEN 2600 ELSE 2330) THEN 99
              ELSE IF az >= 1650 THEN 495
              ELSE IF az >= 1290 THEN 985
              ELSE 10000
Gt(a, t) == IF MUT = "ge" THEN a >= t ELSE a > t
Ladder(zz) ==
  LET az == IF MUT = "abs_lost" THEN zz ELSE Abs(zz)
      p == PValue(Abs(zz))
      conf == IF Gt(az, 2580) /\ p < 100 THEN 99
              ELSE IF Gt(az, IF MUT = "t95" THEN 1690 ELSE 1960) /\ p < 500 THEN 95
              ELSE IF Gt(az, 1650) /\ p < 1000 THEN 90
              ELSE 0
      hot_cold == IF zz > 0 THEN 1 ELSE IF zz < 0 THEN -1 ELSE 0
  IN hot_cold * conf

\* the property's threshold form
Threshold(zz) ==
  LET az == Abs(zz)
      conf == IF az > 2580 THEN 99 ELSE IF az > 1960 THEN 95 ELSE IF az > 1650 THEN 90 ELSE 0
  IN (IF zz > 0 THEN 1 ELSE IF zz < 0 THEN -1 ELSE 0) * conf

Init == IF MODE = "ladder"
        THEN z \in (0 - ZMAX)..ZMAX /\ X = <<>> /\ K = <<>> /\ ph = 1
        ELSE /\ z = 0
             /\ \E s \in SHAPES : X \in [1..s[1] -> [1..s[2] -> VALS]]
             /\ \E k \in 1..Len(KERNELS) : K = KERNELS[k]
             /\ ph = 0
Next == ph = 0 /\ ph' = 1 /\ UNCHANGED <<z, X, K>>
Spec == Init /\ [][Next]_vars

LadderIsThresholdForm == MODE = "ladder" => Ladder(z) = Threshold(z)
LadderOdd == MODE = "ladder" => Ladder(0 - z) = 0 - Ladder(z)
LadderRange == MODE = "ladder" => Ladder(z) \in {0, 90, 95, 99, -90, -95, -99}
LadderMonotone == (MODE = "ladder" /\ z >= 0 /\ z < ZMAX) => Ladder(z) <= Ladder(z + 1)
LadderSign == MODE = "ladder" => (Ladder(z) > 0 => z > 0) /\ (Ladder(z) < 0 => z < 0)

\* ------------------------------------------------------------------ whole rasters: negation symmetry
Var0 == LET S == Finite(X, AllCells(X)) IN
        Cardinality(S) * SumCells(X, S, 2)[1] = SumCells(X, S, 1)[1] * SumCells(X, S, 1)[1]
NegSet(S) == {0 - v : v \in S}
NegationSymmetry == (MODE = "raster" /\ ph = 1 /\ ~Var0) =>
  \A p \in AllCells(X) : HotAdmitted(Neg(X), K, p[1], p[2], 0) = NegSet(HotAdmitted(X, K, p[1], p[2], 0))
RasterRange == (MODE = "raster" /\ ph = 1 /\ ~Var0) =>
  \A p \in AllCells(X) : /\ HotAdmitted(X, K, p[1], p[2], 0) \subseteq {0, 90, 95, 99, -90, -95, -99}
                         /\ Cardinality(HotAdmitted(X, K, p[1], p[2], 0)) = 1
                         /\ (~WindowInside(X, K, p[1], p[2]) => HotAdmitted(X, K, p[1], p[2], 0) = {0})
\* a borderline band only ever admits the exact class and a neighbour of it
BandAdmitsExact == (MODE = "raster" /\ ph = 1 /\ ~Var0) =>
  \A p \in AllCells(X) : HotAdmitted(X, K, p[1], p[2], 0) \subseteq HotAdmitted(X, K, p[1], p[2], 1)
=============================================================================
