------------------------- MODULE ProxChunked_Judge -------------------------
(* C07 on observations of the real code: one case = one (raster, max_distance, chunking):    *)
(* outputs of the NumPy call (np) and of the Dask call (dk), plus the recorded map_overlap    *)
(* arguments.  TLC decides: result lazy; halo depth per axis covers max_distance (from the    *)
(* MATCHING axis' cell size); one block when max_distance reaches the raster extent; every    *)
(* cell of all three outputs equal to the NumPy result.  For small cases (model = 1) the      *)
(* ProxChunked block/halo/assemble model is also evaluated and compared (drift only).         *)
EXTENDS ProxOps, TLC, Json, IOUtils

Cases == ndJsonDeserialize(IOEnv.VERIF_CASES)
F(seq) == [i \in 0..Len(seq)-1 |-> seq[i+1]]

SX(c) == Abs(c.xs[2] - c.xs[1])
SY(c) == Abs(c.ys[2] - c.ys[1])
MaxOf(S) == CHOOSE d \in S : \A x \in S : d >= x
\* int(max/cell + 0.5) and floor(max/cell), exact, for max^2 = k + 1/4 (E) or max = k + 1/4 (M)
\* kint = 1: max_distance is the INTEGER c.k in lattice units (coordinates may carry a non-binary scale)
PadOf(c, cell) ==
  IF c.kint = 1 THEN (2*c.k + cell) \div (2*cell) ELSE
  IF c.metric = "E" THEN MaxOf({0} \cup {p \in 1..40 : (2*p-1)*(2*p-1)*cell*cell <= 4*c.k + 1})
  ELSE (4*c.k + 1 + 2*cell) \div (4*cell)
FloorOf(c, cell) ==
  IF c.kint = 1 THEN c.k \div cell ELSE
  IF c.metric = "E" THEN MaxOf({0} \cup {p \in 1..40 : p*p*cell*cell <= c.k})
  ELSE c.k \div cell
\* does max_distance reach the raster extent (corner-to-corner distance)?
Corner2(c) == LET dx == Abs(c.xs[c.W] - c.xs[1])  dy == Abs(c.ys[c.H] - c.ys[1]) IN
              IF c.metric = "E" THEN dx*dx + dy*dy ELSE dx + dy
Fallback(c) == c.k = -1 \/ (IF c.kint = 1 /\ c.metric = "E" THEN c.k * c.k >= Corner2(c) ELSE c.k >= Corner2(c))

Env(c) == [H |-> c.H, W |-> c.W, img |-> [r \in 0..c.H-1 |-> F(c.img[r+1])],
           xs |-> F(c.xs), ys |-> F(c.ys), metric |-> c.metric, tab |-> <<>>,
           bound2 |-> c.bound2, maxn |-> c.maxn]

\* allocation is compared by VALUE code (vcode); a tie broken differently is still "the value of a target
\* at that distance"
CellsEq(c) ==
  \A r \in 1..c.H, q \in 1..c.W :
     /\ c.dk.prox[r][q] = c.np.prox[r][q]
     /\ \/ c.dk.dir[r][q] = c.np.dir[r][q]
        \/ c.dk.alloc[r][q] # c.np.alloc[r][q]          \* different tie target: its bearing is judged by C06's clauses
     /\ \/ c.dk.alloc[r][q] = c.np.alloc[r][q]
        \/ /\ c.dk.alloc[r][q] >= 0 /\ c.np.alloc[r][q] >= 0
           /\ LET e == Env(c) IN
              \E t \in (0..c.H-1) \X (0..c.W-1) :
                 /\ e.img[t[1]][t[2]] = 1 /\ c.vcode[t[1]+1][t[2]+1] = c.dk.alloc[r][q]
                 /\ DD(e, r-1, q-1, t[1], t[2]) = c.np.prox[r][q]

Verdict(c) ==
  IF c.lazy = 0 THEN "result_not_dask_backed_before_compute"
  ELSE IF Fallback(c) THEN
       (IF c.overlap.numblocks # <<1, 1>> THEN "not_one_block_when_max_reaches_extent"
        ELSE IF ~CellsEq(c) THEN "chunked_differs_from_numpy" ELSE "ok")
  ELSE IF c.overlap.depth[1] < FloorOf(c, SY(c)) THEN "halo_rows_shorter_than_max_distance"
  ELSE IF c.overlap.depth[2] < FloorOf(c, SX(c)) THEN "halo_cols_shorter_than_max_distance"
  ELSE IF ~c.overlap.boundary_nan THEN "halo_boundary_not_nan"
  ELSE IF ~c.overlap.same_chunks THEN "coordinate_grids_not_chunk_aligned"
  ELSE IF ~CellsEq(c) THEN "chunked_differs_from_numpy"
  ELSE "ok"

\* ---- drift: the block/halo/assemble model evaluated on this case's chunking
Lo(cuts, i) == LET s == {k \in cuts : k <= i} IN IF s = {} THEN 0 ELSE CHOOSE k \in s : \A j \in s : j <= k
Hi(cuts, i, n) == LET s == {k \in cuts : k > i} IN IF s = {} THEN n ELSE CHOOSE k \in s : \A j \in s : k <= j
ToSet(s) == {s[i] : i \in 1..Len(s)}
ModelAsm(c) ==
  LET rc == ToSet(c.rowcuts)  cc == ToSet(c.colcuts)
      py == PadOf(c, SY(c))   px == PadOf(c, SX(c))
      e == Env(c)
      BEnv(r0, r1, c0, c1) ==
         LET bh == r1 - r0 + 2*py  bw == c1 - c0 + 2*px IN
         [H |-> bh, W |-> bw,
          img |-> [i \in 0..bh-1 |-> [j \in 0..bw-1 |->
                     IF r0-py+i >= 0 /\ r0-py+i < c.H /\ c0-px+j >= 0 /\ c0-px+j < c.W
                     THEN e.img[r0-py+i][c0-px+j] ELSE 0]],
          xs |-> [j \in 0..bw-1 |-> IF c0-px+j >= 0 /\ c0-px+j < c.W THEN e.xs[c0-px+j] ELSE NAC],
          ys |-> [i \in 0..bh-1 |-> IF r0-py+i >= 0 /\ r0-py+i < c.H THEN e.ys[r0-py+i] ELSE NAC],
          metric |-> c.metric, tab |-> <<>>, bound2 |-> c.bound2, maxn |-> c.maxn]
      runs == [b \in ({0} \cup rc) \X ({0} \cup cc) |->
                 RunAll(BEnv(b[1], Hi(rc, b[1], c.H), b[2], Hi(cc, b[2], c.W)))]
  IN [r \in 0..c.H-1 |-> [q \in 0..c.W-1 |->
        runs[<<Lo(rc, r), Lo(cc, q)>>].imgD[r - Lo(rc, r) + py][q - Lo(cc, q) + px]]]

Drift(c) ==
  IF Fallback(c) THEN "nomodel"
  ELSE IF c.overlap.depth # <<PadOf(c, SY(c)), PadOf(c, SX(c))>> THEN "drift_depth_is_not_int(max/cell+0.5)"
  ELSE IF c.model = 0 THEN "nomodel"
  ELSE IF \E r \in 0..c.H-1, q \in 0..c.W-1 : ModelAsm(c)[r][q] # c.dk.prox[r+1][q+1] THEN "drift_model_assembly"
  ELSE "model_ok"

ASSUME \A i \in 1..Len(Cases) : PrintT(<<"VERDICT", i, Verdict(Cases[i]), Drift(Cases[i])>>)
=============================================================================
