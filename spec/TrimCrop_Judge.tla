--------------------------- MODULE TrimCrop_Judge ---------------------------
(* C18: observations of the real zonal.trim / zonal.crop judged by TLC.                    *)
(* One case = one public call, recorded by harness/workers/trim_worker.py:                 *)
(*   mode    "trim" | "crop"                                                               *)
(*   H, W    shape of the input raster(s)                                                  *)
(*   data    H x W integers (NaN = -99): trim - the raster; crop - the zones raster        *)
(*   list    trim - `values` (excluded); crop - `zones_ids`                                *)
(*   cells   H x W integers: the raster that is sliced (trim: = data; crop: the `values`   *)
(*           raster, which carries a unique id per cell)                                   *)
(*   ys, xs  distinct integer ids of its rows / columns (the non-index coordinates rowid /  *)
(*           colid; the index labels themselves may repeat and are compared by the worker   *)
(*           with the labels at the identified positions: out.other_coords_ok)             *)
(*   scan    <<top, bottom, left, right>> returned by the compiled _trim / _crop driven    *)
(*           directly on the same arrays                                                   *)
(*   out     the returned DataArray: [h, w, cells, ys, xs, attrs_ok, dims_ok, other_coords_ok]   *)
(*           attrs_ok / other_coords_ok: attrs equal those of the sliced raster; its scalar and    *)
(*           non-index coordinates are still attached (sliced alike) and nothing else is.  For     *)
(*           crop the sliced raster is `values`; the zones raster has OTHER coordinates and attrs. *)
(* The window the property asks for is Box of the kept cells with NaN excluded when listed *)
(* (naneq = TRUE).  CODE_NANEQ only serves the step-level comparison (drift).              *)
EXTENDS TrimCropOps, TLC, Json, IOUtils

CONSTANT CODE_NANEQ

Cases == ndJsonDeserialize(IOEnv.VERIF_CASES)

PE(c) == [H |-> c.H, W |-> c.W, data |-> c.data, list |-> c.list, mode |-> c.mode, naneq |-> TRUE]
CE(c) == [H |-> c.H, W |-> c.W, data |-> c.data, list |-> c.list, mode |-> c.mode,
          naneq |-> (c.mode = "trim" /\ CODE_NANEQ)]

\* 0-based position of coordinate v in seq, -1 when absent
Pos(seq, v) == IF \E i \in 1..Len(seq) : seq[i] = v
               THEN (CHOOSE i \in 1..Len(seq) : seq[i] = v) - 1 ELSE -1

SubGrid(g, t, b, l, r) == [y \in 1..(b - t + 1) |-> SubSeq(g[y + t], l + 1, r + 1)]

Clause(c) ==
  LET e == PE(c)
      o == c.out
  IN
  IF KeptCells(e) = {} THEN "outside_domain_no_kept_cell"
  ELSE
  LET box == Box(e) IN
  IF o.h = 0 \/ o.w = 0 THEN "window_misses_kept_cell"
  ELSE IF Len(o.ys) # o.h \/ Len(o.xs) # o.w THEN "coords_not_of_the_original"     \* e.g. no coordinates at all
  ELSE
  LET t == Pos(c.ys, o.ys[1])
      b == Pos(c.ys, o.ys[Len(o.ys)])
      l == Pos(c.xs, o.xs[1])
      r == Pos(c.xs, o.xs[Len(o.xs)])
  IN
  IF t < 0 \/ b < 0 \/ l < 0 \/ r < 0 \/ Len(o.ys) # o.h \/ Len(o.xs) # o.w THEN "coords_not_of_the_original"
  ELSE IF o.ys # SubSeq(c.ys, t + 1, b + 1) \/ o.xs # SubSeq(c.xs, l + 1, r + 1) THEN "coords_not_a_contiguous_slice"
  ELSE IF ~Contains(e, t, b, l, r) THEN "window_misses_kept_cell"
  ELSE IF ~IsMinimalWindow(e, t, b, l, r) THEN "window_not_minimal"
  ELSE IF <<t, b, l, r>> # box THEN "window_is_not_the_bounding_box"
  ELSE IF o.cells # SubGrid(c.cells, t, b, l, r) THEN "cells_changed"
  ELSE IF ~o.other_coords_ok THEN "other_coordinates_not_those_of_the_original"
  ELSE IF ~o.attrs_ok THEN "attrs_changed"
  ELSE IF ~o.dims_ok THEN "dims_changed"
  ELSE "ok"

Drift(c) == IF Len(c.scan) = 0 THEN "noscan"
            ELSE IF c.scan = ScanResult(CE(c)) THEN "steps_ok"
            ELSE "drift_scan_result"

ASSUME \A i \in 1..Len(Cases) : PrintT(<<"VERDICT", i, Clause(Cases[i]), Drift(Cases[i])>>)
=============================================================================
