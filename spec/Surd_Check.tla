----------------------------- MODULE Surd_Check -----------------------------
(* Validation of Surd.tla's order against an independent high-precision evaluation.       *)
(* Cases (NDJSON): {"A":..,"B":..,"n1":..,"n2":..,"s":sign of A + B sqrt2 + sqrt n1 - sqrt n2} *)
(* computed by the driver with 80-digit integer square roots.  One verdict per case.      *)
EXTENDS Surd, Sequences, TLC, Json, IOUtils

Cases == ndJsonDeserialize(IOEnv.VERIF_CASES)

V(c) == IF S4(c.A, c.B, c.n1, c.n2) # c.s THEN "S4_sign"
        ELSE IF c.n1 = 0 /\ c.n2 = 0 /\ S2(c.A, c.B) # c.s THEN "S2_sign"
        ELSE IF S4(-c.A, -c.B, c.n2, c.n1) # -c.s THEN "S4_antisymmetry"
        ELSE "ok"

ASSUME \A i \in 1..Len(Cases) : PrintT(<<"VERDICT", i, V(Cases[i])>>)
=============================================================================
