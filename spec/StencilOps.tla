------------------------------ MODULE StencilOps ------------------------------
(* C08 - slope, aspect, curvature, hillshade as exact 3x3 stencil formulas.                *)
(* Operators shared by Stencil.tla (exhaustive model: all small rasters, perturbation      *)
(* transitions) and Stencil_Judge.tla (observations of the real functions).                *)
(*                                                                                         *)
(* A raster is g[r][c], r in 0..H-1 (row 0 first, as the array is stored), c in 0..W-1,    *)
(* with integer elevations or NAN.  Cell sizes are rationals <<num,den>> (CellSize.tla).   *)
(* Each kernel is a transcription of the CPU code, with the code's own letter names:       *)
(*   slope.py:23-43     a..i taken with a = data[y+1,x-1] ... i = data[y-1,x+1]            *)
(*   aspect.py:22-59    a..i taken with a = data[y-1,x-1] ... i = data[y+1,x+1]            *)
(*   curvature.py:22-32 d = (down+up)/2 - centre, e = (right+left)/2 - centre              *)
(*   hillshade.py:14-29 np.gradient: x = d/d(row), y = d/d(col), central differences       *)
(* What the model yields per cell is the EXACT ARGUMENT of the transcendental closed form  *)
(* (the float bridge applies arctan / atan2 / sin / cos):                                  *)
(*   slope      <<p, q>>      tan^2(slope) = p/q  (q > 0)            NaN: <<0,0>>          *)
(*   aspect     <<E, N, k>>   k = 2: downslope vector, east & north components (integers,  *)
(*                            a positive multiple of the true one); k = 1: flat (-1);      *)
(*                            k = 0: NaN                                                   *)
(*   curvature  <<p, q>>      the value itself, p/q (q > 0)          NaN: <<0,0>>          *)
(*   hillshade  <<gx2, gy2, k>> twice the central differences along rows / columns (k = 1) *)
(*                            k = 0: NaN                                                   *)
(* `m` selects the specification ("none") or a deliberately broken variant (negative twin).*)
EXTENDS Integers, Sequences, FiniteSets

NAN == -2000000000        \* sentinel for NaN; never enters arithmetic (would overflow TLC's 32-bit integers)
IsNaN(v) == v = NAN

Abs(x) == IF x < 0 THEN -x ELSE x
Interior(H, W, r, c) == r >= 1 /\ r <= H - 2 /\ c >= 1 /\ c <= W - 2
Clamp(v, n) == IF v < 0 THEN 0 ELSE IF v > n - 1 THEN n - 1 ELSE v

\* offsets <<dy,dx>> each kernel reads
Off8 == {<<-1,-1>>, <<-1,0>>, <<-1,1>>, <<0,-1>>, <<0,1>>, <<1,-1>>, <<1,0>>, <<1,1>>}
Off4 == {<<-1,0>>, <<1,0>>, <<0,-1>>, <<0,1>>}
Off5 == Off4 \cup {<<0,0>>}
Off9 == Off8 \cup {<<0,0>>}
ReadsOf(fn) == CASE fn = "slope" -> Off8 [] fn = "aspect" -> Off8 [] fn = "curvature" -> Off5 [] fn = "hillshade" -> Off4

\* ------------------------------------------------------------------ kernels at one cell
\* P(dy,dx): the value the kernel picks up at offset (dy,dx); "ring" (broken) clamps at the border instead of
\* leaving the ring NaN
Pick(g, H, W, y, x, dy, dx) == g[Clamp(y + dy, H)][Clamp(x + dx, W)]
SomeNaN(g, H, W, y, x, offs) == \E o \in offs : IsNaN(Pick(g, H, W, y, x, o[1], o[2]))
\* "rowleak" (broken): a NaN anywhere in the row poisons the cell (a vectorised row operation)
RowNaN(g, W, y) == \E cc \in 0..W-1 : IsNaN(g[y][cc])

Skip(g, H, W, y, x, offs, m) ==
  \/ (m # "ring" /\ ~Interior(H, W, y, x))
  \/ SomeNaN(g, H, W, y, x, offs)
  \/ (m = "rowleak" /\ RowNaN(g, W, y))

SlopeAt(g, H, W, y, x, cx, cy, m) ==
  IF Skip(g, H, W, y, x, Off8, m) THEN <<0, 0>> ELSE
  LET a == Pick(g,H,W,y,x, 1,-1)  b == Pick(g,H,W,y,x, 1,0)  c == Pick(g,H,W,y,x, 1,1)
      d == Pick(g,H,W,y,x, 0,-1)                               f == Pick(g,H,W,y,x, 0,1)
      gg == Pick(g,H,W,y,x,-1,-1) h == Pick(g,H,W,y,x,-1,0)  i == Pick(g,H,W,y,x,-1,1)
      nx == IF m = "weights" THEN (c + 2*f + i) - (a + d + gg) ELSE (c + 2*f + i) - (a + 2*d + gg)
      ny == (gg + 2*h + i) - (a + 2*b + c)
      ux == IF m = "axis" THEN cy ELSE cx          \* "axis" (broken): the two cell sizes exchanged
      uy == IF m = "axis" THEN cx ELSE cy
      \* dz_dx = nx / (8 cx), dz_dy = ny / (8 cy);  tan^2 = dz_dx^2 + dz_dy^2
  IN <<nx*nx * ux[2]*ux[2] * uy[1]*uy[1] + ny*ny * uy[2]*uy[2] * ux[1]*ux[1],
       64 * ux[1]*ux[1] * uy[1]*uy[1]>>

AspectAt(g, H, W, y, x, m) ==
  IF Skip(g, H, W, y, x, Off8, m) THEN <<0, 0, 0>> ELSE
  LET a == Pick(g,H,W,y,x,-1,-1)  b == Pick(g,H,W,y,x,-1,0)  c == Pick(g,H,W,y,x,-1,1)
      d == Pick(g,H,W,y,x, 0,-1)                               f == Pick(g,H,W,y,x, 0,1)
      gg == Pick(g,H,W,y,x, 1,-1) h == Pick(g,H,W,y,x, 1,0)  i == Pick(g,H,W,y,x, 1,1)
      nx == (c + 2*f + i) - (a + 2*d + gg)          \* 8 dz_dx
      ny == (gg + 2*h + i) - (a + 2*b + c)          \* 8 dz_dy
      \* atan2(dz_dy, -dz_dx) is the mathematical angle (counter-clockwise from east) of the vector
      \* (east, north) = (-dz_dx, dz_dy); the compass value is 90 - that angle (mod 360)
  IN IF nx = 0 /\ ny = 0 THEN <<0, 0, 1>>
     ELSE IF m = "mirror" THEN <<nx, ny, 2>> ELSE <<-nx, ny, 2>>

CurvAt(g, H, W, y, x, cx, cy, m) ==
  IF Skip(g, H, W, y, x, Off5, m) THEN <<0, 0>> ELSE
  LET s == Pick(g,H,W,y,x,1,0) + Pick(g,H,W,y,x,-1,0) + Pick(g,H,W,y,x,0,1) + Pick(g,H,W,y,x,0,-1)
      ctr == Pick(g,H,W,y,x,0,0)
      \* d + e = s/2 - 2 ctr ;  out = -2 (d+e) * 100 / cs^2 ,  cs = (cx + cy)/2 = csn / (2 cxd cyd)
      csn == cx[1]*cy[2] + cy[1]*cx[2]
  IN <<(4*ctr - s) * 100 * 4 * cx[2]*cx[2] * cy[2]*cy[2], csn * csn>>

HillAt(g, H, W, y, x, m) ==
  IF Skip(g, H, W, y, x, Off4, m) THEN <<0, 0, 0>> ELSE
  <<Pick(g,H,W,y,x,1,0) - Pick(g,H,W,y,x,-1,0), Pick(g,H,W,y,x,0,1) - Pick(g,H,W,y,x,0,-1), 1>>

\* ------------------------------------------------------------------ whole rasters
Grid(H, W, F(_,_)) == [r \in 0..H-1 |-> [c \in 0..W-1 |-> F(r, c)]]
SlopeR(g, H, W, cx, cy, m) == [r \in 0..H-1 |-> [c \in 0..W-1 |-> SlopeAt(g, H, W, r, c, cx, cy, m)]]
AspectR(g, H, W, m)        == [r \in 0..H-1 |-> [c \in 0..W-1 |-> AspectAt(g, H, W, r, c, m)]]
CurvR(g, H, W, cx, cy, m)  == [r \in 0..H-1 |-> [c \in 0..W-1 |-> CurvAt(g, H, W, r, c, cx, cy, m)]]
HillR(g, H, W, m)          == [r \in 0..H-1 |-> [c \in 0..W-1 |-> HillAt(g, H, W, r, c, m)]]

\* np.rot90(g): a quarter turn counter-clockwise; the result has shape W x H and  out[i][j] = g[j][W-1-i]
Rot(g, H, W) == [i \in 0..W-1 |-> [j \in 0..H-1 |-> g[j][W-1-i]]]
AddK(g, H, W, k) == [r \in 0..H-1 |-> [c \in 0..W-1 |-> IF IsNaN(g[r][c]) THEN NAN ELSE g[r][c] + k]]

\* ------------------------------------------------------------------ exact rationals <<p,q>>, q > 0 (q = 0: NaN)
RIsNaN(a) == a[2] = 0
REq(a, b) == IF RIsNaN(a) \/ RIsNaN(b) THEN RIsNaN(a) /\ RIsNaN(b) ELSE a[1] * b[2] = b[1] * a[2]
RECURSIVE GCD(_, _)
GCD(a, b) == IF b = 0 THEN a ELSE GCD(b, a % b)
RNorm(a) == LET k == GCD(Abs(a[1]), Abs(a[2])) IN IF k = 0 THEN a ELSE <<a[1] \div k, a[2] \div k>>   \* lowest terms
RLe(a, b) == a[1] * b[2] <= b[1] * a[2]            \* both finite
RLt(a, b) == a[1] * b[2] < b[1] * a[2]

\* ------------------------------------------------------------------ compass logic on the exact vector
\* 16 sectors of the compass, clockwise from north: even = exactly on N, NE, E, ... ; odd = strictly between
Sector16(E, N) ==
  CASE E = 0 /\ N > 0 -> 0
    [] E > 0 /\ N > 0 -> (IF E < N THEN 1 ELSE IF E = N THEN 2 ELSE 3)
    [] E > 0 /\ N = 0 -> 4
    [] E > 0 /\ N < 0 -> (IF E > -N THEN 5 ELSE IF E = -N THEN 6 ELSE 7)
    [] E = 0 /\ N < 0 -> 8
    [] E < 0 /\ N < 0 -> (IF -E < -N THEN 9 ELSE IF -E = -N THEN 10 ELSE 11)
    [] E < 0 /\ N = 0 -> 12
    [] E < 0 /\ N > 0 -> (IF -E > N THEN 13 ELSE IF -E = N THEN 14 ELSE 15)

\* the branch of the code's three-way compass conversion that fires, decided on the exact vector:
\*   A = atan2(N, E) in degrees;  A < 0 -> 1 (90 - A), A > 90 -> 2 (450 - A), else 3 (90 - A)
Branch(E, N) == IF N < 0 THEN 1 ELSE IF E < 0 THEN 2 ELSE 3
\* the closed interval of compass values (in 45-degree units: lo, hi) each branch can produce
BranchRange(b) == CASE b = 1 -> <<2, 6>> [] b = 2 -> <<6, 8>> [] b = 3 -> <<0, 2>>

\* vector after the raster was turned a quarter turn; s = +1: the vector turns counter-clockwise with it
TurnVec(v, s) == IF v[3] # 2 THEN v ELSE <<-s * v[2], s * v[1], 2>>

\* which way the aspect vector turns when the raster is turned by np.rot90 - DERIVED from the model: the unique
\* s for which every single-bump 3x3 window obeys  aspect(rot90(w)) = TurnVec(aspect(w), s)
Bump(p) == [r \in 0..2 |-> [c \in 0..2 |-> IF <<r - 1, c - 1>> = p THEN 1 ELSE 0]]
RotS == CHOOSE s \in {-1, 1} : \A p \in Off8 :
           AspectAt(Rot(Bump(p), 3, 3), 3, 3, 1, 1, "none") = TurnVec(AspectAt(Bump(p), 3, 3, 1, 1, "none"), s)
\* compass sectors (22.5 degrees each) the aspect moves by under np.rot90: RotS = 1 means the vector turns
\* counter-clockwise with the raster, i.e. the compass value DEcreases by 90 degrees (12 = -4 mod 16)
RotSectors == IF RotS = 1 THEN 12 ELSE 4
=============================================================================
