----------------------------- MODULE Components -----------------------------
(* Abstract definition shared by C16 (zonal.regions) and C15 (polygonize):                *)
(* the connected components of equal value of a raster, by least fixpoint.                *)
(*                                                                                        *)
(* Everything takes an environment record                                                 *)
(*   g = [H, W, v, conn]                                                                  *)
(* v    : 0-based function  row -> (col -> Int) ; the sentinel NANV marks a cell that     *)
(*        takes no part (NaN for regions, masked-out for polygonize)                      *)
(* conn : 4 | 8                                                                           *)
(* Cells are pairs <<r, c>>.  Nothing here looks like an implementation: a component is   *)
(* the smallest set containing a cell and closed under "adjacent and same value".         *)
EXTENDS Integers, FiniteSets

NANV == -99                     \* "not a value": NaN / masked-out

CAbs(x) == IF x < 0 THEN -x ELSE x

GCells(g) == (0..g.H-1) \X (0..g.W-1)
GVal(g, p) == g.v[p[1]][p[2]]
GValid(g) == {p \in GCells(g) : GVal(g, p) # NANV}

\* p and q are distinct neighbours under the connectivity of g
Adjacent(g, p, q) ==
  LET dr == CAbs(p[1] - q[1])  dc == CAbs(p[2] - q[2]) IN
  IF g.conn = 4 THEN dr + dc = 1 ELSE (dr <= 1 /\ dc <= 1 /\ dr + dc >= 1)

\* neighbours of p (inside the raster) holding the same value
SameNbrs(g, p) ==
  LET r == p[1]  c == p[2]
      cand == IF g.conn = 4
              THEN {<<r-1, c>>, <<r+1, c>>, <<r, c-1>>, <<r, c+1>>}
              ELSE {<<r+dr, c+dc>> : dr \in {-1, 0, 1}, dc \in {-1, 0, 1}} \ {p}
  IN {q \in cand : q[1] >= 0 /\ q[1] < g.H /\ q[2] >= 0 /\ q[2] < g.W /\ GVal(g, q) = GVal(g, p)}

\* least fixpoint: S is what has been reached, F the part of S added last
RECURSIVE Closure(_, _, _)
Closure(g, S, F) ==
  LET N == (UNION {SameNbrs(g, p) : p \in F}) \ S IN
  IF N = {} THEN S ELSE Closure(g, S \cup N, N)

\* the component of a valid cell p
Comp(g, p) == Closure(g, {p}, {p})

RECURSIVE Parts(_, _, _)
Parts(g, todo, acc) ==
  IF todo = {} THEN acc
  ELSE LET p == CHOOSE p \in todo : TRUE
           C == Comp(g, p)
       IN Parts(g, todo \ C, acc \cup {C})

\* the partition of the valid cells into connected components of equal value
Components(g) == Parts(g, GValid(g), {})

\* the partition of the valid cells induced by a labelling lab : row -> (col -> label)
LabelClasses(g, lab) ==
  {{q \in GValid(g) : lab[q[1]][q[2]] = lab[p[1]][p[2]]} : p \in GValid(g)}
=============================================================================
