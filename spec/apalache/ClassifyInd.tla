---------------------------- MODULE ClassifyInd ----------------------------
(* C12, unbounded values: the binary search of xrspatial.classify._cpu_bin with an INDUCTIVE    *)
(* invariant, discharged by Apalache for bin lists of length N over ALL integers (TLC checks    *)
(* the same search exhaustively only over 0..MAXV, Classify.tla).  The step operator `StepA`    *)
(* is the Apalache-typed twin of ClassifyOps!BSStep (no RECURSIVE, bins as a function on        *)
(* 0..N-1); ClassifyInd_Cross.tla lets TLC check that the two agree on every state of the       *)
(* small scope, so the proof is about the model the trace validation binds to the code.         *)
(*                                                                                              *)
(*   apalache-mc check --init=IndInit --inv=NotInLoop --length=0  must FAIL: IndInv has loop states*)
(*   apalache-mc check --init=Init    --inv=IndInv --length=0     Init => IndInv                  *)
(*   apalache-mc check --init=IndInit --inv=IndInv --length=1     IndInv /\ Next => IndInv'       *)
(*   apalache-mc check --init=IndInit --inv=Safety --length=0     IndInv => Safety                *)
(*   apalache-mc check --init=IndInit --inv=Variant --length=1    every step decreases the variant*)
EXTENDS Integers

N == 8          \* replaced by the driver (harness/props/c12_apalache.py) for each length it proves

VARIABLES
  \* @type: Int -> Int;
  bins,
  \* @type: Int;
  v2,
  \* @type: Bool;
  fin,
  \* @type: Str;
  pc,
  \* @type: Int;
  start,
  \* @type: Int;
  end,
  \* @type: Int;
  mid,
  \* @type: Int;
  val_bin

\* bins[mid - 1] with mid = 0 wraps around to the last bin in the compiled code
\* @type: (Int -> Int, Int) => Int;
BinAtA(b, i) == IF i < 0 THEN b[N + i] ELSE b[i]

\* @type: (Int -> Int, Int, Bool, Str, Int, Int, Int, Int) => { pc: Str, start: Int, end: Int, mid: Int, val_bin: Int };
StepA(b, v, f, p, s, e, m, vb) ==
  IF p = "first" THEN
       IF ~f THEN [pc |-> "done", start |-> s, end |-> e, mid |-> m, val_bin |-> vb]
       ELSE IF v <= 2 * b[0] THEN [pc |-> "done", start |-> s, end |-> e, mid |-> m, val_bin |-> 0]
       ELSE IF v <= 2 * b[N - 1] THEN [pc |-> "loop", start |-> 0, end |-> N - 1, mid |-> (N - 1) \div 2, val_bin |-> vb]
       ELSE [pc |-> "done", start |-> s, end |-> e, mid |-> m, val_bin |-> vb]
  ELSE IF p = "loop" THEN
       IF s <= e THEN
          IF 2 * BinAtA(b, m) < v THEN
             [pc |-> "loop", start |-> m + 1, end |-> e, mid |-> (e + m + 1) \div 2, val_bin |-> vb]
          ELSE IF v > 2 * BinAtA(b, m - 1) THEN
             [pc |-> "done", start |-> s, end |-> e, mid |-> m, val_bin |-> m]
          ELSE
             [pc |-> "loop", start |-> s, end |-> m - 1, mid |-> (m - 1 + s) \div 2, val_bin |-> vb]
       ELSE [pc |-> "done", start |-> s, end |-> e, mid |-> m, val_bin |-> m]
  ELSE [pc |-> p, start |-> s, end |-> e, mid |-> m, val_bin |-> vb]

Sorted == \A i \in 0..(N - 2) : bins[i] <= bins[i + 1]

Init == /\ bins \in [0..(N - 1) -> Int] /\ Sorted
        /\ v2 \in Int /\ fin \in BOOLEAN
        /\ pc = "first" /\ start = 0 /\ end = 0 /\ mid = 0 /\ val_bin = -1

Next == /\ pc # "done"
        /\ LET r == StepA(bins, v2, fin, pc, start, end, mid, val_bin) IN
           /\ pc' = r.pc /\ start' = r.start /\ end' = r.end /\ mid' = r.mid /\ val_bin' = r.val_bin
        /\ UNCHANGED <<bins, v2, fin>>

\* the abstract result: first index whose bin is >= the value; none (-1) above the last bin / for non-finite values
IsAnswer(k) ==
  IF ~fin \/ \A i \in 0..(N - 1) : 2 * bins[i] < v2 THEN k = -1
  ELSE /\ k \in 0..(N - 1) /\ 2 * bins[k] >= v2 /\ \A j \in 0..(N - 1) : j < k => 2 * bins[j] < v2

IndInv ==
  /\ Sorted
  /\ pc \in {"first", "loop", "done"}
  /\ pc = "first" => start = 0 /\ end = 0 /\ mid = 0 /\ val_bin = -1
  /\ pc = "loop" =>
       /\ fin /\ val_bin = -1
       /\ 0 <= start /\ start <= end /\ end <= N - 1              \* the window never becomes empty
       /\ mid = (start + end) \div 2
       /\ 2 * bins[0] < v2                                         \* hence bins[mid-1] is only read with mid >= 1
       /\ 2 * bins[end] >= v2                                      \* the answer lies inside the window ...
       /\ \A i \in 0..(N - 1) : i < start => 2 * bins[i] < v2      \* ... everything left of it is below the value
  /\ pc = "done" => IsAnswer(val_bin)

IndInit == /\ bins \in [0..(N - 1) -> Int] /\ v2 \in Int /\ fin \in BOOLEAN
           /\ pc \in {"first", "loop", "done"}
           /\ start \in Int /\ end \in Int /\ mid \in Int /\ val_bin \in Int
           /\ IndInv

\* vacuity guard: the inductive invariant admits states inside the loop (this "invariant" must be refuted)
NotInLoop == ~(pc = "loop" /\ start < end)
\* what the property C12 needs from the search
Safety == pc = "done" => /\ IsAnswer(val_bin)
                         /\ val_bin \in -1..(N - 1)
\* the negative index never wraps to the last bin
NoWrap == pc = "loop" /\ 2 * bins[mid] >= v2 => mid >= 1
\* termination: a loop step either finishes or strictly shrinks the window
Variant == pc = "loop" => pc' = "done" \/ (pc' = "loop" /\ end' - start' < end - start)
=============================================================================
