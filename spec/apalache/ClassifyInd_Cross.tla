------------------------- MODULE ClassifyInd_Cross -------------------------
(* TLC cross-check: the Apalache-typed step `ClassifyInd!StepA` and the step the trace validation *)
(* binds to the code, `ClassifyOps!BSStep`, agree on EVERY state (reachable or not) over every    *)
(* ascending bin list of length N over 0..MAXV and every value position.  Constant-level.         *)
EXTENDS ClassifyOps, TLC
CONSTANT MAXV
VARIABLES bins, v2, fin, pc, start, end, mid, val_bin
A == INSTANCE ClassifyInd
N == A!N

Ascending(s) == \A i \in 1..(Len(s) - 1) : s[i] <= s[i + 1]
Lists == {s \in [1..N -> 0..MAXV] : Ascending(s)}
Vals == (-1..(2 * MAXV + 1)) \cup {NaN, PInf, NInf}
States == [pc : {"first", "loop", "done"}, start : 0..N, end : -1..(N - 1), mid : -1..(N - 1), val_bin : -1..(N - 1)]

\* TLC wants a behaviour spec for a module with variables: a single stuttering state
XInit == bins = <<>> /\ v2 = 0 /\ fin = TRUE /\ pc = "done" /\ start = 0 /\ end = 0 /\ mid = 0 /\ val_bin = 0
XNext == UNCHANGED <<bins, v2, fin, pc, start, end, mid, val_bin>>

ASSUME N >= 2
ASSUME \A s \in Lists, v \in Vals, st \in States :
         LET b == [i \in 0..(N - 1) |-> s[i + 1]]
             r == A!StepA(b, v, IsFinite(v), st.pc, st.start, st.end, st.mid, st.val_bin)
         IN r = BSStep(s, v, st, "none")
ASSUME PrintT(<<"cross-checked", Cardinality(Lists) * Cardinality(Vals) * Cardinality(States)>>)
=============================================================================
