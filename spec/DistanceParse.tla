--------------------------- MODULE DistanceParse ---------------------------
(* C19: a character-level tokeniser (one transition per character, the shape of what        *)
(* convolution._get_distance does with its regular expression: an optional '-', digits,     *)
(* an optional fraction, then the unit text with blanks removed and lower-cased) checked    *)
(* against the declarative reading of DistanceOps.tla on EVERY string over ALPHA up to       *)
(* length MAXLEN:  at the end of the scan the machine's verdict, oddness flag and value in   *)
(* metres equal Read(s).                                                                     *)
(* MUT (negative twins): "accept_zero" (number >= 0 passes), "case_sensitive" (unit not      *)
(* lower-cased), "trailing_dot" ("5." read as 5), "digits_in_unit" (a digit after the unit   *)
(* letters is skipped instead of rejected).                                                  *)
EXTENDS DistanceOps, TLC

CONSTANTS ALPHA, MAXLEN, MUT

VARIABLES s, i, st, neg, ip, fn, nfrac, nd, unit, odd
vars == <<s, i, st, neg, ip, fn, nfrac, nd, unit, odd>>

Strings == UNION {[1..n -> ALPHA] : n \in 0..MAXLEN}

Init == /\ s \in Strings
        /\ i = 1 /\ st = "lead" /\ neg = FALSE /\ ip = 0 /\ fn = 0 /\ nfrac = 0 /\ nd = 0
        /\ unit = <<>> /\ odd = FALSE

Low(ch) == IF MUT = "case_sensitive" THEN ch ELSE Lower(ch)

\* one character
Step ==
  /\ st \notin {"done", "reject"} /\ i <= Len(s)
  /\ LET ch == s[i] IN
     /\ i' = i + 1
     /\ CASE st = "lead" ->
               IF ch = " " THEN st' = "lead" /\ odd' = TRUE /\ UNCHANGED <<neg, ip, fn, nfrac, nd, unit>>
               ELSE IF ch = "-" THEN st' = "sign" /\ neg' = TRUE /\ UNCHANGED <<ip, fn, nfrac, nd, unit, odd>>
               ELSE IF IsDigit(ch) THEN st' = "int" /\ ip' = DigitVal(ch) /\ nd' = 1 /\ UNCHANGED <<neg, fn, nfrac, unit, odd>>
               ELSE IF ch = "." THEN st' = "dot" /\ UNCHANGED <<neg, ip, fn, nfrac, nd, unit, odd>>
               ELSE st' = "reject" /\ UNCHANGED <<neg, ip, fn, nfrac, nd, unit, odd>>
          [] st = "sign" ->
               IF IsDigit(ch) THEN st' = "int" /\ ip' = DigitVal(ch) /\ nd' = 1 /\ UNCHANGED <<neg, fn, nfrac, unit, odd>>
               ELSE IF ch = "." THEN st' = "dot" /\ UNCHANGED <<neg, ip, fn, nfrac, nd, unit, odd>>
               ELSE st' = "reject" /\ UNCHANGED <<neg, ip, fn, nfrac, nd, unit, odd>>
          [] st = "int" ->
               IF IsDigit(ch) THEN st' = "int" /\ ip' = ip * 10 + DigitVal(ch) /\ nd' = nd + 1 /\ UNCHANGED <<neg, fn, nfrac, unit, odd>>
               ELSE IF ch = "." THEN st' = "dot" /\ UNCHANGED <<neg, ip, fn, nfrac, nd, unit, odd>>
               ELSE IF ch = " " THEN st' = "gap" /\ UNCHANGED <<neg, ip, fn, nfrac, nd, unit, odd>>
               ELSE IF IsLetter(ch) THEN st' = "word" /\ unit' = <<Low(ch)>> /\ UNCHANGED <<neg, ip, fn, nfrac, nd, odd>>
               ELSE st' = "reject" /\ UNCHANGED <<neg, ip, fn, nfrac, nd, unit, odd>>
          [] st = "dot" ->     \* a '.' has been read; it belongs to the number only if a digit follows
               IF IsDigit(ch) THEN st' = "frac" /\ fn' = DigitVal(ch) /\ nfrac' = 1 /\ UNCHANGED <<neg, ip, nd, unit, odd>>
               ELSE st' = "reject" /\ UNCHANGED <<neg, ip, fn, nfrac, nd, unit, odd>>
          [] st = "frac" ->
               IF IsDigit(ch) THEN st' = "frac" /\ fn' = fn * 10 + DigitVal(ch) /\ nfrac' = nfrac + 1 /\ UNCHANGED <<neg, ip, nd, unit, odd>>
               ELSE IF ch = " " THEN st' = "gap" /\ UNCHANGED <<neg, ip, fn, nfrac, nd, unit, odd>>
               ELSE IF IsLetter(ch) THEN st' = "word" /\ unit' = <<Low(ch)>> /\ UNCHANGED <<neg, ip, fn, nfrac, nd, odd>>
               ELSE st' = "reject" /\ UNCHANGED <<neg, ip, fn, nfrac, nd, unit, odd>>
          [] st = "gap" ->
               IF ch = " " THEN st' = "gap" /\ UNCHANGED <<neg, ip, fn, nfrac, nd, unit, odd>>
               ELSE IF IsLetter(ch) THEN st' = "word" /\ unit' = <<Low(ch)>> /\ UNCHANGED <<neg, ip, fn, nfrac, nd, odd>>
               ELSE st' = "reject" /\ UNCHANGED <<neg, ip, fn, nfrac, nd, unit, odd>>
          [] st = "word" ->
               IF IsLetter(ch) THEN st' = "word" /\ unit' = Append(unit, Low(ch)) /\ UNCHANGED <<neg, ip, fn, nfrac, nd, odd>>
               ELSE IF ch = " " THEN st' = "word" /\ odd' = TRUE /\ UNCHANGED <<neg, ip, fn, nfrac, nd, unit>>
               ELSE IF MUT = "digits_in_unit" /\ IsDigit(ch) THEN st' = "word" /\ UNCHANGED <<neg, ip, fn, nfrac, nd, unit, odd>>
               ELSE st' = "reject" /\ UNCHANGED <<neg, ip, fn, nfrac, nd, unit, odd>>
  /\ UNCHANGED s

\* end of the string
Finish ==
  /\ st \notin {"done", "reject"} /\ i > Len(s)
  /\ st' = IF \/ st \in {"int", "frac", "gap", "word"}
              \/ (MUT = "trailing_dot" /\ st = "dot" /\ nd > 0)
           THEN "done" ELSE "reject"
  /\ odd' = (odd \/ st = "gap")
  /\ UNCHANGED <<s, i, neg, ip, fn, nfrac, nd, unit>>

Next == Step \/ Finish
Spec == Init /\ [][Next]_vars

Num == ip * Pow10(nfrac) + fn
Positive == IF MUT = "accept_zero" THEN ~neg ELSE ~neg /\ Num > 0
MachineOk == st = "done" /\ Positive /\ (unit = <<>> \/ IsUnit(unit))
MachineVal == RMulC(RNorm(<<Num, Pow10(nfrac)>>), FactorOf(unit))

Terminal == st \in {"done", "reject"}

\* the machine's verdict is the declarative one
VerdictAgrees == Terminal => (MachineOk <=> Read(s).ok)
OddAgrees == (Terminal /\ MachineOk) => (odd <=> Read(s).odd)
ValueAgrees == (Terminal /\ MachineOk) => REq(MachineVal, Read(s).val)
\* lemmas of the property
NonPositiveRejected == (Terminal /\ MachineOk) => MachineVal[1] > 0
RejectIsFinal == st = "reject" => ~Read(s).ok
=============================================================================
