----------------------------- MODULE StatusTree -----------------------------
(* C05 layer 1 (exhaustive model): the status structure of the viewshed sweep.            *)
(*                                                                                        *)
(* Abstract state   entries : the set of node values currently held (an ordered map       *)
(*                  key -> <<g0,g1,g2,a0,a1,a2>>, keys unique), with                       *)
(*                  Insert(v), Delete(k) and the query specification                       *)
(*                    Blocked(k, ang, g) == \E n \in entries : n.key < k /\ n spans ang    *)
(*                                           /\ Interp(n, ang) > g                         *)
(* Concrete state   t : the arrays of the real red-black tree, transformed by the          *)
(*                  transliterated helpers of TreeOps (Insert / Delete / Query).           *)
(* TLC explores EVERY sequence of insertions and deletions over KEYS x PROFILES (the whole *)
(* reachable state space, sequences of unbounded length), and checks in every state that   *)
(* the concrete tree refines the abstract map and that the two-phase query of the code     *)
(* (augmented-maximum shortcut, then exact walk) answers exactly Blocked for every         *)
(* (key, angle, gradient).                                                                 *)
(*                                                                                        *)
(* All nodes of the model carry the angles <<0,2,4>> and queries use ang in 0..4 (every    *)
(* cell in the real status structure spans the bearing of the query: ViewGeom); gradients  *)
(* are even integers so the interpolation at the five angles is an exact integer.          *)
(* MUT (negative twins): "none" | "no_recompute" (a deletion never lowers a stored         *)
(* maximum -> too high) | "no_walk" (insertion without the upward maximum walk) |           *)
(* "skip_left" (the exact walk leaves out the key node's left subtree) | "ge" (>= for >).   *)
EXTENDS TreeOps, TLC

CONSTANTS KEYS,        \* set of positive integer keys
          PROFILES,    \* set of gradient triples <<g0,g1,g2>> (even integers)
          QG,          \* set of query gradients
          N,           \* number of array rows (>= |KEYS| + 2)
          MUT

VARIABLES t, entries, free
vars == <<t, entries, free>>

A0 == 0
A1 == 2
A2 == 4
Angs == 0..4
MkVal(k, p) == Val(k, p[1], p[2], p[3], A0, A1, A2)

Init == /\ t = NewTree(N)
        /\ entries = {DummyVal}
        /\ free = 1..(N-2)

KeysIn == {v.key : v \in entries}
SmallestFree == CHOOSE i \in free : \A j \in free : i <= j

\* ---- mutants of the mechanisms (applied on top of the transliteration)
MutInsert(tt, id, v) ==
  IF MUT = "no_walk" THEN
     \* insertion without the upward maximum walk: ancestors keep their old (too LOW) maxima -> benign
     LET cur == Descend(tt, tt.root, v.key)
         t1 == CreateNode(tt, id, v, RED)
         t2 == [t1 EXCEPT !.parent[id] = cur]
         t3 == IF v.key < t2.key[cur] THEN [t2 EXCEPT !.left[cur] = id] ELSE [t2 EXCEPT !.right[cur] = id]
         t4 == [t3 EXCEPT !.mx[id] = MinG(t3, id)]
     IN InsertFixup(t4, id)
  ELSE Insert(tt, id, v)

MutDelete(tt, k) ==
  IF MUT = "no_recompute" THEN
     \* deletion that never lowers a stored maximum: maxima become too HIGH
     LET d == Delete(tt, k)
         keep == [x \in Ids(N) |-> IF x \in Nodes(d.t) /\ tt.mx[x] > d.t.mx[x] /\ x # Search(tt, tt.root, k)
                                   THEN tt.mx[x] ELSE d.t.mx[x]]
     IN [d EXCEPT !.t.mx = keep]
  ELSE Delete(tt, k)

MutQuery(tt, k, ang, g) ==
  IF MUT = "skip_left" THEN
     \* exact walk that leaves out the key node's own left subtree
     LET kn == Search(tt, tt.root, k)
         gt == [x \in Ids(N) |-> InterpGT(NodeVal(tt, x), ang, g) /\ x \notin Subtree(tt, tt.left[kn])]
     IN QueryGT(tt, k, ang, g, gt)
  ELSE IF MUT = "ge" THEN
     \* ">=" instead of ">" in the comparison with the cell's own gradient
     Query(tt, k, ang, g - 1)
  ELSE Query(tt, k, ang, g)

\* ---- actions
DoInsert(k, p) ==
  /\ k \notin KeysIn /\ free # {}
  /\ LET id == SmallestFree  v == MkVal(k, p) IN
       /\ t' = MutInsert(t, id, v)
       /\ entries' = entries \cup {v}
       /\ free' = free \ {id}

\* the freed row keeps stale data in the code; it is never read before _create_tree_nodes rewrites all
\* twelve fields, so the model zeroes it to keep the state space canonical
Scrub(tt, y) ==
  [tt EXCEPT !.key[y] = 0, !.g0[y] = 0, !.g1[y] = 0, !.g2[y] = 0, !.a0[y] = 0, !.a1[y] = 0, !.a2[y] = 0,
             !.mx[y] = 0, !.color[y] = 0, !.left[y] = 0, !.right[y] = 0, !.parent[y] = 0]
DoDelete(k) ==
  /\ k \in KeysIn /\ k # 0
  /\ LET d == MutDelete(t, k) IN
       /\ t' = Scrub(d.t, d.deleted)
       /\ entries' = {v \in entries : v.key # k}
       /\ free' = free \cup {d.deleted}

Next == \/ \E k \in KEYS, p \in PROFILES : DoInsert(k, p)
        \/ \E k \in KEYS : DoDelete(k)
Spec == Init /\ [][Next]_vars

\* ---- the abstract query specification
SpansAng(v, ang) == v.a0 <= ang /\ ang <= v.a2
Blocked(k, ang, g) == \E v \in entries : v.key < k /\ SpansAng(v, ang) /\ InterpGT(v, ang, g)

\* ---- invariants
Refines == /\ LinksOK(t) /\ IsBST(t) /\ Contents(t) = entries
           /\ Cardinality(Nodes(t)) = Cardinality(entries)
           /\ free \cap Nodes(t) = {}
SentinelIntact == NilIntact(t)
MaxNeverHighInv == MaxNeverHigh(t)
QueryOK == \A k \in KeysIn \ {0} : \A ang \in Angs : \A g \in QG :
             MutQuery(t, k, ang, g).blocked = Blocked(k, ang, g)
\* information (expected to FAIL on the real algorithm; used to show the state space contains
\* stale-low maxima and unbalanced trees, i.e. that MaxNeverHigh / QueryOK are not vacuous)
MaxAlwaysExact == MaxExact(t)
AlwaysRedBlack == RedBlackOK(t)
=============================================================================
