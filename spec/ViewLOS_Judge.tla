--------------------------- MODULE ViewLOS_Judge ---------------------------
(* C05 layer 3, T: judges observations of the real xrspatial.viewshed against ViewLOS.     *)
(* One case = one public call:                                                             *)
(*   H, W, vr, vc      raster shape and the observer cell the coordinates denote            *)
(*   ew, ns            |cell size| (integers)                                               *)
(*   cells[r][c]       observed output class [neg1, is180, inrange, angok, mdeg, dhs, dh4ok, dh4] *)
(*   blocks[n][c]      float bridge, row-major cell ids (1-based sequences): 0 / 1 / 2      *)
(*   rep               1 / 0: repeated calls on the same object and on a fresh copy agree, input values kept *)
(*   svr, svc, sew, sns, order   what _viewshed_cpu handed to the sweep (observer cell,      *)
(*                     |resolution|, sorted event list <<r,c,type,tie>>); step level         *)
(*   ops               <<type, key>> of every insert(1)/delete(-1)/query(0) the sweep made   *)
(*                     on the status structure (interpreted mode only, else <<>>)            *)
(* Verdict: the first failing clause of the property over all cells (TLC decides the         *)
(* candidates and the visibility of every cell); extra = step-level drift information and    *)
(* the number of cells whose verdict leaned on a borderline comparison.                      *)
(* One TLC state per case (so that the batch is spread over TLC's workers).                  *)
EXTENDS ViewLOS, TLC, Json, IOUtils

Cases == ndJsonDeserialize(IOEnv.VERIF_CASES)

VARIABLES tid, done
vars == <<tid, done>>

\* per-case tables, so that each direction vector is computed once: indexed by row-major id 0..H*W-1
Tab(c) ==
  LET ids == 0..(c.H * c.W - 1)
      R(i) == i \div c.W
      K(i) == i % c.W
  IN [en  |-> [i \in ids |-> Dir(ENTER, R(i), K(i), c.vr, c.vc)],
      ex  |-> [i \in ids |-> Dir(EXIT, R(i), K(i), c.vr, c.vc)],
      ce  |-> [i \in ids |-> Dir(CENTER, R(i), K(i), c.vr, c.vc)],
      key |-> [i \in ids |-> Key(R(i), K(i), c.vr, c.vc, c.ew, c.ns)],
      ids |-> ids \ {c.vr * c.W + c.vc}]

\* = ViewLOS!Candidates, evaluated through the tables (Spans and Nearer unfolded)
Cand(tb, i) ==
  {n \in tb.ids : /\ n # i /\ tb.key[n] < tb.key[i]
                  /\ Cross(tb.en[n], tb.ce[i]) > 0 /\ Cross(tb.ce[i], tb.ex[n]) > 0}
Rival(tb, i) ==
  \E n \in tb.ids : /\ n # i /\ tb.key[n] = tb.key[i]
                    /\ Cross(tb.en[n], tb.ce[i]) > 0 /\ Cross(tb.ce[i], tb.ex[n]) > 0

CellV(c, tb, i) ==
  LET o == c.cells[(i \div c.W) + 1][(i % c.W) + 1]
      isObs == i = c.vr * c.W + c.vc
      cand == IF isObs THEN {} ELSE Cand(tb, i)
      B(n) == c.blocks[n + 1][i + 1]
  IN CellClause(o, isObs, cand, B, tb.key[i])

RECURSIVE FirstBad(_, _, _)
FirstBad(c, tb, i) ==
  IF i = c.H * c.W THEN "ok"
  ELSE LET cl == CellV(c, tb, i) IN IF cl # "ok" THEN cl ELSE FirstBad(c, tb, i + 1)

\* outside the model: two cells that are active together at equal distance (never within the scope
\* ViewGeom!NoDupKeys establishes; reported, not judged)
\* the tables must agree with the definitions of ViewLOS (checked on every case of up to 30 cells)
TablesAgree(c, tb) ==
  c.H * c.W > 30 \/ \A i \in tb.ids :
     /\ {<<n \div c.W, n % c.W>> : n \in Cand(tb, i)}
          = Candidates(c.H, c.W, i \div c.W, i % c.W, c.vr, c.vc, c.ew, c.ns)
     /\ Rival(tb, i) = EqualKeyRival(c.H, c.W, i \div c.W, i % c.W, c.vr, c.vc, c.ew, c.ns)
\* rep = 0: calling again on the same raster object (after a call with another observer) or on a fresh
\* copy gave another result, or the input values changed
V(c, tb) == IF ~TablesAgree(c, tb) THEN "judge_tables_inconsistent"
            ELSE IF c.rep = 0 THEN "repeated_call_differs_or_input_modified"
            ELSE IF \E i \in tb.ids : Rival(tb, i) THEN "outside_model_equal_keys" ELSE FirstBad(c, tb, 0)

\* vacuity bookkeeping: cells whose verdict leaned on a borderline comparison
Leaned(c, tb) ==
  Cardinality({i \in tb.ids :
     LET cand == Cand(tb, i)
         B(n) == c.blocks[n + 1][i + 1]
     IN ~DefinitelyHidden(cand, B) /\ PossiblyHidden(cand, B)})

\* ---- step level (drift only)
OrderDrift(c) ==
  LET o == c.order
      ev(i) == Ev(o[i][1], o[i][2], o[i][3])
  IN IF c.svr # c.vr \/ c.svc # c.vc THEN "drift_observer_cell"
     ELSE IF c.sew # c.ew \/ c.sns # c.ns THEN "drift_resolution"
     ELSE IF Len(o) # 3 * (c.H * c.W - 1) \/ {ev(i) : i \in 1..Len(o)} # Events(c.H, c.W, c.vr, c.vc)
          THEN "drift_event_multiset"
     ELSE IF \E i \in 2..Len(o) : EvBefore(ev(i), ev(i-1), c.vr, c.vc) THEN "drift_event_order"
     ELSE IF Len(c.ops) = 0 THEN "steps_not_recorded"
     ELSE \* the operation stream of the sweep: initial insertions of the east row, then one operation per event
          LET ni == c.W - 1 - c.vc
              okInit == \A i \in 1..ni : c.ops[i] = <<1, Key(c.vr, c.vc + i, c.vr, c.vc, c.ew, c.ns)>>
              okEv == \A i \in 1..Len(o) : c.ops[ni + i] = <<o[i][3], Key(o[i][1], o[i][2], c.vr, c.vc, c.ew, c.ns)>>
          IN IF Len(c.ops) = ni + Len(o) /\ okInit /\ okEv THEN "steps_ok" ELSE "drift_operation_stream"

Init == tid \in 1..Len(Cases) /\ done = FALSE
Judge == /\ ~done
         /\ LET c == Cases[tid]  tb == Tab(c) IN
            PrintT(<<"VERDICT", tid, V(c, tb), OrderDrift(c) \o "|" \o ToString(Leaned(c, tb))>>)
         /\ done' = TRUE /\ UNCHANGED tid
Next == Judge
Spec == Init /\ [][Next]_vars
=============================================================================
