--------------------------- MODULE ViewLOS_Judge ---------------------------
(* C05 layer 3, T: judges observations of the real xrspatial.viewshed against ViewLOS.     *)
(* One case = one public call:                                                             *)
(*   H, W, vr, vc      raster shape and the observer cell the coordinates denote            *)
(*   ew, ns            |cell size| (integers)                                               *)
(*   cells[r][c]       observed output class [neg1, is180, inrange, angok, mdeg, dh4]       *)
(*   blocks[n][c]      float bridge, row-major cell ids (1-based sequences): 0 / 1 / 2      *)
(*   svr, svc, sew, sns, order   what _viewshed_cpu handed to the sweep (observer cell,      *)
(*                     |resolution|, sorted event list <<r,c,type,tie>>); step level         *)
(*   ops               <<type, key>> of every insert(1)/delete(-1)/query(0) the sweep made   *)
(*                     on the status structure (interpreted mode only, else <<>>)            *)
(* Verdict: the first failing clause of the property over all cells (TLC decides the         *)
(* candidates and the visibility of every cell); extra = step-level drift information.       *)
EXTENDS ViewLOS, TLC, Json, IOUtils

Cases == ndJsonDeserialize(IOEnv.VERIF_CASES)

Id(c, r, k) == r * c.W + k + 1

CellV(c, r, k) ==
  LET o == c.cells[r+1][k+1]
      cand == Candidates(c.H, c.W, r, k, c.vr, c.vc, c.ew, c.ns)
      B(n) == c.blocks[Id(c, n[1], n[2])][Id(c, r, k)]
  IN CellClause(o, r = c.vr /\ k = c.vc, cand, B, Key(r, k, c.vr, c.vc, c.ew, c.ns))

RECURSIVE FirstBad(_, _)
FirstBad(c, i) ==
  IF i = c.H * c.W THEN "ok"
  ELSE LET cl == CellV(c, i \div c.W, i % c.W) IN IF cl # "ok" THEN cl ELSE FirstBad(c, i + 1)

\* outside the model: two cells that are active together at equal distance (never within the scope
\* ViewGeom!NoDupKeys establishes; reported, not judged)
HasEqualKeyRival(c) ==
  \E r \in 0..c.H-1, k \in 0..c.W-1 :
     <<r, k>> # <<c.vr, c.vc>> /\ EqualKeyRival(c.H, c.W, r, k, c.vr, c.vc, c.ew, c.ns)

\* ---- step level (drift only)
OrderDrift(c) ==
  LET o == c.order
      ev(i) == Ev(o[i][1], o[i][2], o[i][3])
  IN IF c.svr # c.vr \/ c.svc # c.vc THEN "drift_observer_cell"
     ELSE IF c.sew # c.ew \/ c.sns # c.ns THEN "drift_resolution"
     ELSE IF Len(o) # 3 * (c.H * c.W - 1) \/ {ev(i) : i \in 1..Len(o)} # Events(c.H, c.W, c.vr, c.vc)
          THEN "drift_event_multiset"
     ELSE IF \E i \in 2..Len(o) : EvBefore(ev(i), ev(i-1), c.vr, c.vc) THEN "drift_event_order"
     ELSE IF Len(c.ops) = 0 THEN "steps_not_recorded"
     ELSE \* the operation stream of the sweep: initial insertions of the east row, then one operation per event
          LET ni == c.W - 1 - c.vc
              okInit == \A i \in 1..ni : c.ops[i] = <<1, Key(c.vr, c.vc + i, c.vr, c.vc, c.ew, c.ns)>>
              okEv == \A i \in 1..Len(o) : c.ops[ni + i] = <<o[i][3], Key(o[i][1], o[i][2], c.vr, c.vc, c.ew, c.ns)>>
          IN IF Len(c.ops) = ni + Len(o) /\ okInit /\ okEv THEN "steps_ok" ELSE "drift_operation_stream"

V(c) == IF HasEqualKeyRival(c) THEN "outside_model_equal_keys" ELSE FirstBad(c, 0)

\* vacuity bookkeeping: cells whose verdict leaned on a borderline comparison (no definite blocker, but a
\* borderline candidate) / cells with at least one candidate / hidden cells
Leaned(c) ==
  Cardinality({rk \in CellsOf(c.H, c.W, c.vr, c.vc) :
     LET cand == Candidates(c.H, c.W, rk[1], rk[2], c.vr, c.vc, c.ew, c.ns)
         B(n) == c.blocks[Id(c, n[1], n[2])][Id(c, rk[1], rk[2])]
     IN ~DefinitelyHidden(cand, B) /\ PossiblyHidden(cand, B)})

ASSUME \A i \in 1..Len(Cases) :
   PrintT(<<"VERDICT", i, V(Cases[i]), OrderDrift(Cases[i]) \o "|" \o ToString(Leaned(Cases[i]))>>)
=============================================================================
