----------------------------- MODULE AStar_Trace -----------------------------
(* Judging of observations of the real xrspatial.a_star_search (C14).  One case = one      *)
(* public call, recorded by harness/workers/astar_worker.py:                               *)
(*   H, W, cross (H x W, 1 = crossable), conn                                              *)
(*   yax, xax  = [den, o, s, res] exact coordinate axes (PixelId.tla; res = numerator of a    *)
(*               `res` attribute of the raster, 0 = none), sp, gp = <<py, px>> the            *)
(*               start / goal points as numerators over the axis denominators              *)
(*   snapS, snapG (0/1); untouched (1 = surface values, coordinates and attrs unchanged)     *)
(*   path      = observed output, H x W of <<a,b>> (a + b sqrt2; <<-1,-1>> NaN; <<-2,-2>> no surd) *)
(*   cs, cg    = <<py, px>> the cells the search was really started with (step model only)  *)
(*   pix       = << <<py,px>>, <<py,px>> >> what _get_pixel_id answered for start and goal     *)
(*               (step model only: compared with PixelId!Idx "round" and ScanNearest "infinit") *)
(*   events    = one record per _min_cost_pixel_id call (interpreted mode; may be <<>>):     *)
(*               open, closed (id lists), g (N surds), par (N ids), pop (id returned)       *)
(* The PROPERTY is decided on the observed output only (Verdict): named cells by            *)
(* PixelId!NearestIdx / SnapSet, chain by ChainClause, optimality and reachability by the   *)
(* Bellman-Ford ShortestMap.  The step model (PopCands / RelaxAll / ReconstructPath of       *)
(* AStarOps, the same operators AStar.tla is model-checked with) is compared with the       *)
(* logged states in monitor style; a mismatch is reported as drift, never as a violation.   *)
EXTENDS PixelId, TLC, Json, IOUtils

Cases == ndJsonDeserialize(IOEnv.VERIF_CASES)

VARIABLES tid, l, phase, pred, drift
vars == <<tid, l, phase, pred, drift>>

Tr == Cases[tid]
NC == Tr.H * Tr.W
CrossFn == [i \in 0..NC-1 |-> Tr.cross[(i \div Tr.W) + 1][(i % Tr.W) + 1]]
\* environment of the abstract property (goal irrelevant)
EA == [H |-> Tr.H, W |-> Tr.W, cross |-> CrossFn, conn |-> Tr.conn, gy |-> 0, gx |-> 0, mut |-> "none"]
\* environment of the step model: the goal the search was really given
EM == [H |-> Tr.H, W |-> Tr.W, cross |-> CrossFn, conn |-> Tr.conn, gy |-> Tr.cg[1], gx |-> Tr.cg[2], mut |-> "none"]
Path == [i \in 0..NC-1 |-> Tr.path[(i \div Tr.W) + 1][(i % Tr.W) + 1]]

\* ------------------------------------------------------------------ the property on the observed output
\* A `res` attribute fixes the cell size (utils.get_dataarray_resolution prefers it to the coordinate
\* spacing): the cell centres the caller's coordinates are measured against are then o, o +- res, ...
EffStep(a) == IF a.res = 0 THEN a.s ELSE IF a.s < 0 THEN -a.res ELSE a.res
YAx == [den |-> Tr.yax.den, o |-> Tr.yax.o, s |-> EffStep(Tr.yax), n |-> Tr.H]
XAx == [den |-> Tr.xax.den, o |-> Tr.xax.o, s |-> EffStep(Tr.xax), n |-> Tr.W]
Named(pt) == {r * Tr.W + c : r \in NearestIdx(YAx, pt[1]), c \in NearestIdx(XAx, pt[2])}
Snapped(cells, flag) == IF flag = 1 THEN UNION {SnapSet(EA, c) : c \in cells} ELSE cells
Starts == Snapped(Named(Tr.sp), Tr.snapS)      \* admissible start cells (one, unless ties)
Goals  == Snapped(Named(Tr.gp), Tr.snapG)
P == {i \in 0..NC-1 : Path[i] # NAN}

Verdict ==
  IF Tr.untouched # 1 THEN "input_surface_modified"
  ELSE IF \E i \in 0..NC-1 : Path[i] = BAD THEN "bridge_value_is_not_a_plus_b_sqrt2"
  ELSE IF P = {} THEN
     \* all NaN is right iff for some admissible (s, t) no route exists
     (IF Starts = {} \/ Goals = {} \/ (\E s \in Starts : LET D == ShortestMap(EA, s) IN \E t \in Goals : D[t] = INF)
      THEN "ok" ELSE "all_nan_but_route_exists")
  ELSE LET Z == {i \in P : Path[i] = <<0, 0>>} IN
     IF Cardinality(Z) # 1 THEN "not_exactly_one_cell_of_value_zero"
     ELSE LET s == CHOOSE i \in Z : TRUE
              t == CHOOSE i \in P : \A j \in P : ~SLess(Path[i], Path[j])
          IN IF s \notin Starts THEN "start_is_not_the_named_cell"
             ELSE LET cc == ChainClause(EA, Path, P, s, t) IN
                  IF cc # "ok" THEN cc
                  ELSE IF t \notin Goals THEN "goal_is_not_the_named_cell"
                  ELSE IF Path[t] # ShortestMap(EA, s)[t] THEN "cost_not_minimal"
                  ELSE "ok"

\* ------------------------------------------------------------------ the step model against the log
HasEvents == Len(Tr.events) > 0
CsId == IF Tr.cs[1] < 0 THEN NONE ELSE Tr.cs[1] * Tr.W + Tr.cs[2]
CgId == IF Tr.cg[1] < 0 THEN NONE ELSE Tr.cg[1] * Tr.W + Tr.cg[2]
SetOf(seq) == {seq[k] : k \in 1..Len(seq)}
Logged(ev) == [open |-> SetOf(ev.open), closed |-> SetOf(ev.closed),
               g |-> [i \in 0..NC-1 |-> ev.g[i+1]], parent |-> [i \in 0..NC-1 |-> ev.par[i+1]]]
\* state before the first pop, as _a_star_search initialises it
Init0 == [open |-> IF CsId # NONE /\ CrossFn[CsId] = 1 THEN {CsId} ELSE {}, closed |-> {},
          g |-> [i \in 0..NC-1 |-> <<0, 0>>],
          parent |-> [i \in 0..NC-1 |-> IF i = CsId THEN CsId ELSE NONE]]

Init == /\ tid \in 1..Len(Cases) /\ l = 1 /\ phase = "run" /\ drift = 0
        /\ pred = [st |-> Init0, amb |-> {}, alt |-> Init0.parent]

\* one logged _min_cost_pixel_id call: the state it saw must be the state the model predicted
\* (back-pointers of tie-ambiguous neighbours may be the old or the new one), the cell it returned
\* must be one the model may pop; the model then pops that cell and runs the neighbour loop.
PopStep ==
  /\ phase = "run" /\ HasEvents /\ l <= Len(Tr.events)
  /\ LET ev == Tr.events[l]
         lg == Logged(ev)
         m == pred.st
         match == /\ lg.open = m.open /\ lg.closed = m.closed /\ lg.g = m.g
                  /\ \A i \in 0..NC-1 : \/ lg.parent[i] = m.parent[i]
                                        \/ (i \in pred.amb /\ lg.parent[i] = pred.alt[i])
         popOK == ev.pop \in lg.open /\ ev.pop \in PopCands(EM, lg)
         popped == [lg EXCEPT !.open = @ \ {ev.pop}, !.closed = @ \cup {ev.pop}]
     IN /\ drift' = IF drift = 0 /\ ~(match /\ popOK) THEN l ELSE drift
        /\ IF ev.pop = CgId
           THEN /\ phase' = "found" /\ pred' = [st |-> popped, amb |-> {}, alt |-> lg.parent]
           ELSE /\ phase' = "run"
                /\ IF ev.pop \in 0..NC-1 /\ CrossFn[ev.pop] = 1
                   THEN LET r == RelaxAll(EM, popped, ev.pop, 1, {}) IN
                        pred' = [st |-> r.st, amb |-> r.amb, alt |-> lg.parent]
                   ELSE pred' = [st |-> popped, amb |-> {}, alt |-> lg.parent]
  /\ l' = l + 1 /\ UNCHANGED tid

\* the code's coordinate -> cell conversion and snapping against the algorithm models of PixelId.tla
PixModel(pt) == <<Idx(YAx, pt[1], "round"), Idx(XAx, pt[2], "round")>>
PixOK == Tr.pix[1] = PixModel(Tr.sp) /\ Tr.pix[2] = PixModel(Tr.gp)
InGrid(rc) == rc[1] \in 0..Tr.H-1 /\ rc[2] \in 0..Tr.W-1
SnapModel(rc, flag) ==
  IF flag = 0 \/ ~InGrid(rc) THEN rc
  ELSE LET k == ScanNearest(EA, rc[1] * Tr.W + rc[2], "infinit") IN
       IF k = NONE THEN <<-1, -1>> ELSE <<k \div Tr.W, k % Tr.W>>
\* _a_star_search is not called (cs = cg = <<-1,-1>>) when snapping found no start cell
SnapOK == LET ms == SnapModel(Tr.pix[1], Tr.snapS)  mg == SnapModel(Tr.pix[2], Tr.snapG) IN
          IF ms = <<-1, -1>> THEN Tr.cs = <<-1, -1>> ELSE Tr.cs = ms /\ Tr.cg = mg

AllNaN == \A i \in 0..NC-1 : Path[i] = NAN
Judge ==
  /\ phase \in {"run", "found"} /\ (HasEvents => l = Len(Tr.events) + 1)
  /\ LET dr == IF ~PixOK THEN "drift_pixel_id_is_not_round_half_up"
               ELSE IF ~SnapOK THEN "drift_snap_is_not_first_nearest_scan"
               ELSE IF ~HasEvents THEN "nosteps"
               ELSE IF drift # 0 THEN "drift_at_event_" \o ToString(drift)
               ELSE IF phase = "found" THEN
                    (IF ReconstructPath(EM, pred.st, CsId, CgId) = Path THEN "steps_ok" ELSE "drift_final_image")
               ELSE IF pred.st.open # {} THEN "drift_event_log_too_short"
               ELSE IF ~AllNaN THEN "drift_final_image"
               ELSE "steps_ok"
     IN PrintT(<<"VERDICT", tid, Verdict, dr>>)
  /\ phase' = "judged"
  /\ UNCHANGED <<tid, l, pred, drift>>

\* events after the goal was popped: step-level mismatch only
TooLong ==
  /\ phase = "found" /\ l <= Len(Tr.events)
  /\ PrintT(<<"VERDICT", tid, Verdict, "drift_event_log_too_long">>)
  /\ phase' = "judged"
  /\ UNCHANGED <<tid, l, pred, drift>>

Next == PopStep \/ Judge \/ TooLong
Spec == Init /\ [][Next]_vars
=============================================================================
