--------------------------- MODULE Regions_Judge ---------------------------
(* C16: judge of observations of the real xrspatial.zonal.regions().                       *)
(* One case = one public call, recorded by harness/workers/regions_worker.py:              *)
(*   H, W, n            the call: raster shape, neighbourhood (4 | 8)                       *)
(*   vals               H x W input values (small integers, -99 = NaN)                      *)
(*   oshape             shape of the returned array                                         *)
(*   out                returned labels: > 0 label, -99 NaN, 0 zero, -2 negative,           *)
(*                      -1 not an integer (float bridge rule exact_int)                     *)
(*   dims_in/out, cnames_in/out, cvals_in/out, attrs_in/out   identity of input and result  *)
(*   idx, base          idx >= 0: the raster claims to be number idx of the enumeration of  *)
(*                      all rasters over the alphabet `base` (row-major, first cell most    *)
(*                      significant); TLC re-derives the number, so that the completeness   *)
(*                      of an exhaustive replay does not rest on the Python side            *)
(*   steps              1: also run the algorithm model and compare label by label (drift)   *)
(* TLC prints <<"VERDICT", i, clause, drift>>; clause = "ok" or the first failing clause    *)
(* of the property.                                                                        *)
EXTENDS RegionsOps, TLC, Json, IOUtils

Cases == ndJsonDeserialize(IOEnv.VERIF_CASES)

Grid(c, rows) == [r \in 0..c.H-1 |-> [k \in 0..c.W-1 |-> rows[r+1][k+1]]]
Env(c) == [H |-> c.H, W |-> c.W, v |-> Grid(c, c.vals), conn |-> c.n, mut |-> "none"]

\* position (0-based) of value x in the alphabet, -1 if absent
RECURSIVE PosIn(_, _, _)
PosIn(base, x, k) == IF k > Len(base) THEN -1 ELSE IF base[k] = x THEN k - 1 ELSE PosIn(base, x, k + 1)
RECURSIVE EnumIndex(_, _, _)
EnumIndex(c, k, acc) ==
  IF k = c.H * c.W THEN acc
  ELSE LET d == PosIn(c.base, c.vals[(k \div c.W) + 1][(k % c.W) + 1], 1) IN
       IF d < 0 THEN -1 ELSE EnumIndex(c, k + 1, acc * Len(c.base) + d)

Clause(c) ==
  IF c.idx >= 0 /\ EnumIndex(c, 0, 0) # c.idx THEN "enum_index_mismatch"
  ELSE IF c.oshape # <<c.H, c.W>> THEN "shape_differs"
  ELSE
  LET g == Env(c)
      lab == Grid(c, c.out)
      L(p) == lab[p[1]][p[2]]
  IN
  IF \E p \in GCells(g) : (L(p) = NANV) # (GVal(g, p) = NANV) THEN "nan_not_kept"
  ELSE IF \E p \in GValid(g) : L(p) = -1 THEN "bridge_label_not_an_integer"
  ELSE IF \E p \in GValid(g) : L(p) <= 0 THEN "label_not_positive"
  \* two adjacent cells of equal value carry different labels: a component is split
  ELSE IF \E q \in GValid(g) : \E p \in SameNbrs(g, q) : L(p) # L(q) THEN "component_split"
  \* same label <=> joined by a path of adjacent equal-valued cells.  At this point no component is split,
  \* so every label class is a union of components and LabelClasses(g, lab) = Components(g) (the statement
  \* checked literally in Regions.tla) holds exactly when there are as many labels as components
  ELSE IF Cardinality({L(p) : p \in GValid(g)}) # Cardinality(Components(g)) THEN "components_joined"
  ELSE IF c.dims_out # c.dims_in THEN "dims_differ"
  ELSE IF c.cnames_out # c.cnames_in THEN "coords_differ"
  ELSE IF c.cvals_out # c.cvals_in THEN "coords_differ"
  ELSE IF c.attrs_out # c.attrs_in THEN "attrs_differ"
  ELSE "ok"

Drift(c) ==
  IF c.steps # 1 \/ c.oshape # <<c.H, c.W>> THEN "nosteps"
  ELSE IF AreaConnectivity(Env(c)) = Grid(c, c.out) THEN "steps_ok" ELSE "drift_labels_differ_from_model"

ASSUME \A i \in 1..Len(Cases) : PrintT(<<"VERDICT", i, Clause(Cases[i]), Drift(Cases[i])>>)
=============================================================================
