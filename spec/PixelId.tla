------------------------------- MODULE PixelId -------------------------------
(* C14, second half: which cell do the caller's coordinates name, and where does snapping   *)
(* move an end point.  Coordinates are exact rationals with a common denominator per axis:  *)
(*   axis  ax = [den, o, s, n] : the centres of the n cells are (o + i*s)/den, i = 0..n-1,  *)
(*                               s # 0 (s < 0 = descending coordinates)                    *)
(*   point p                   : the coordinate p/den                                      *)
(* ABSTRACT   NearestIdx (the cells whose centre is nearest), SnapSet (nearest crossable)  *)
(* ALGORITHM  Idx (coordinate -> index as computed by pathfinding._get_pixel_id: variants)  *)
(*            ScanNearest (pathfinding._find_nearest_pixel: variants)                      *)
EXTENDS AStarOps

\* ------------------------------------------------------------------ ABSTRACT
CentreNum(ax, i) == ax.o + i * ax.s
\* set of indices of the nearest centres (two when p is exactly midway -- outside C14's domain)
NearestIdx(ax, p) == {i \in 0..ax.n-1 : \A j \in 0..ax.n-1 : Abs(p - CentreNum(ax, i)) <= Abs(p - CentreNum(ax, j))}
\* "a cell's own coordinates denote that cell"
OwnCoordinate(ax) == \A i \in 0..ax.n-1 : NearestIdx(ax, CentreNum(ax, i)) = {i}

\* squared pixel distance between cells (the space in which steps cost 1 and sqrt2)
D2(e, i, j) == (Row(e, i) - Row(e, j)) * (Row(e, i) - Row(e, j)) + (Col(e, i) - Col(e, j)) * (Col(e, i) - Col(e, j))
CrossSet(e) == {i \in Ids(e) : Crossable(e, i)}
\* snapping moves an end point to the nearest crossable cell: any of the nearest; a crossable cell stays
SnapSet(e, c) == IF Crossable(e, c) THEN {c}
                 ELSE {j \in CrossSet(e) : \A k \in CrossSet(e) : D2(e, c, j) <= D2(e, c, k)}

\* ------------------------------------------------------------------ ALGORITHM
\* _get_pixel_id along one axis, in exact arithmetic (cellsize = |s|/den = (max-min)/(n-1)):
\*   "round" : int(abs(point - coords[0]) / cellsize + 0.5)      -- THE CODE (since fix 1c57f27): nearest
\*             centre, round-half-up.  A point exactly midway between two centres goes to the farther-from-
\*             origin one; NearestIdx holds both, so either choice satisfies the property (C14 excludes
\*             midway points from its domain; none is generated).
\*   "trunc" : int(abs(point - coords[0]) / cellsize)            -- negative twin (the code before the fix)
Idx(ax, p, variant) ==
  IF variant = "trunc" THEN Abs(p - ax.o) \div Abs(ax.s)
  ELSE (2 * Abs(p - ax.o) + Abs(ax.s)) \div (2 * Abs(ax.s))

\* midway points (outside the domain): the code's choice is still one of the nearest centres
MidwayStillNearest(ax) == \A i \in 0..ax.n-2 :
   LET fine == [den |-> 2 * ax.den, o |-> 2 * ax.o, s |-> 2 * ax.s, n |-> ax.n]
       p == 2 * ax.o + (2 * i + 1) * ax.s
   IN NearestIdx(fine, p) = {i, i + 1} /\ Idx(fine, p, "round") \in NearestIdx(fine, p)

\* _find_nearest_pixel: row-major scan keeping the first strictly nearer crossable cell
\* (squared distances order like the float distances the code compares).
\*   "infinit" : min_distance starts at infinity                  -- THE CODE (since fix a4d4ad0)
\*   "maxinit" : min_distance starts at the largest possible distance, test `d < min_distance`
\*               -- negative twin (the code before the fix: the opposite corner is never found)
RECURSIVE Scan(_, _, _, _, _)
Scan(e, c, k, best, bestD) ==
  IF k = NCells(e) THEN best
  ELSE IF Crossable(e, k) /\ (bestD = NONE \/ D2(e, c, k) < bestD)
       THEN Scan(e, c, k + 1, k, D2(e, c, k))
       ELSE Scan(e, c, k + 1, best, bestD)
ScanNearest(e, c, variant) ==
  IF Crossable(e, c) THEN c
  ELSE Scan(e, c, 0, NONE, IF variant = "maxinit" THEN (e.H - 1) * (e.H - 1) + (e.W - 1) * (e.W - 1) ELSE NONE)
=============================================================================
