------------------------------ MODULE Crosstab ------------------------------
(* C04: cross-tabulation is a true contingency table under any zone / category selection.    *)
(* State machine shaped like xrspatial.zonal._crosstab_numpy:                                *)
(*   SortStride  _sort_and_stride (argsort, strip, _strides; modelled step by step in         *)
(*               ZonalStats.tla, taken atomically here) + the caller's selection              *)
(*   ZoneStep    one iteration of `for i in range(len(unique_zones))` (start, end, the slice  *)
(*               _get_zone_values(values_by_zones, start, end)); for a selected zone it        *)
(*               enters _single_zone_crosstab_2d / _3d: filter, total_count, np.sort,           *)
(*               zone_cat_breaks = _strides(sorted_zone_values, unique_cats), cat_start = 0     *)
(*   CatStep     one iteration of `for j, cat in enumerate(unique_cats)` with the running       *)
(*               cat_start (2-D) or the per-layer aggregate (3-D); appends to crosstab_dict     *)
(*   at pc = "done" the DataFrame is crosstab_dict: column "zone" = zone_ids (the existing       *)
(*   requested zones in unique_zones order since fix 2bd4c42; in request order before), one      *)
(*   list per selected category, percentage = counts / total_count * 100                         *)
(* Invariants relate the table to the abstract contingency table of ZonalOps.                  *)
EXTENDS ZonalOps

CONSTANTS DIM,          \* 2 | 3
          Rasters,      \* set of [z |-> zones, vs |-> sequence of layers (one for 2-D)]
          CATS,         \* 3-D: layer labels in coordinate order (ignored for 2-D)
          Selections,   \* set of [nd, zreq |-> [all, ids], creq |-> [all, ids], agg]
          VARIANT,      \* {"dropneginf","catstart","labels"} = the code today; fewer repairs = before the fix: commits
          MUT           \* "none" | negative twins "lastcell" | "totalsel" | "noinf" | "nosort" | "startsel"

VARIABLES inp, sel, pc, vbz, zb, uz, ucats, zids, cids, i, start, j, catStart, zoneVals, zcb, totals, dict, owner
vars == <<inp, sel, pc, vbz, zb, uz, ucats, zids, cids, i, start, j, catStart, zoneVals, zcb, totals, dict, owner>>

\* ---- scope builders
AllRasters2D(n, ZA, VA) == {[z |-> zz, vs |-> <<vv>>] : zz \in [1..n -> ZA], vv \in [1..n -> VA]}
AllRasters3D(n, ZA, VA) == {[z |-> zz, vs |-> <<v1, v2>>] : zz \in [1..n -> ZA], v1 \in [1..n -> VA], v2 \in [1..n -> VA]}
RECURSIVE NonDec(_, _, _)
NonDec(n, lo, K) == IF n = 0 THEN {<<>>} ELSE UNION {{<<p>> \o s : s \in NonDec(n - 1, p, K)} : p \in lo..K}
MultisetRasters2D(n, ZAs, VAs, PI) ==
  LET K == Len(ZAs) * Len(VAs)
      ZoneOf(c) == ZAs[((c - 1) \div Len(VAs)) + 1]
      ValOf(c) == VAs[((c - 1) % Len(VAs)) + 1]
  IN {[z |-> [k \in 1..n |-> ZoneOf(s[PI[k]])], vs |-> <<[k \in 1..n |-> ValOf(s[PI[k]])]>>] : s \in NonDec(n, 1, K)}
RECURSIVE ListsOver(_)
ListsOver(S) == {<<>>} \cup UNION {{<<x>> \o l : l \in ListsOver(S \ {x})} : x \in S}
AllReq == [all |-> TRUE, ids |-> <<>>]
Reqs(LISTS) == {AllReq} \cup {[all |-> FALSE, ids |-> l] : l \in LISTS}
Sels(NDS, ZREQS, CREQS, AGGS) ==
  {[nd |-> n, zreq |-> zr, creq |-> cr, agg |-> a] : n \in NDS, zr \in ZREQS, cr \in CREQS, a \in AGGS}
\* request lists in ascending order only (what the fixtures of the test-suite use)
Ascending(l) == \A k \in 1..Len(l) - 1 : l[k] < l[k + 1]

NoSel == [nd |-> NONE, zreq |-> AllReq, creq |-> AllReq, agg |-> "count"]
EmptyDict == <<>>            \* crosstab_dict[cat] lists, as a sequence of [cat, list] in unique_cats order

Init == /\ inp \in Rasters
        /\ sel = NoSel /\ pc = "sort"
        /\ vbz = <<>> /\ zb = <<>> /\ uz = UniqueFinite(inp.z) /\ ucats = <<>> /\ zids = <<>> /\ cids = <<>>
        /\ i = 1 /\ start = 0 /\ j = 1 /\ catStart = 0 /\ zoneVals = <<>> /\ zcb = <<>>
        /\ totals = <<>> /\ dict = EmptyDict /\ owner = <<>>

SortStride ==
  /\ pc = "sort"
  /\ sel' \in Selections
  /\ LET p == StableArgSort(inp.z)
         ss == [l \in 1..Len(inp.vs) |-> SortAndStride(inp.z, inp.vs[l], p, VARIANT)]
         uc == IF DIM = 2 THEN FindCats2D(inp.vs[1], sel'.nd) ELSE CATS
     IN /\ vbz' = [l \in 1..Len(inp.vs) |-> ss[l].valuesByZones]
        /\ zb' = Strides(ss[1].sortedZones, uz, MUT)
        /\ ucats' = uc
        /\ cids' = RequestOrder(sel'.creq, uc)
        /\ zids' = RequestOrder(sel'.zreq, uz)
        /\ dict' = [k \in 1..Len(uc) |-> [cat |-> uc[k], list |-> <<>>]]
  /\ pc' = "zone" /\ i' = 1 /\ start' = 0
  /\ UNCHANGED <<inp, uz, j, catStart, zoneVals, zcb, totals, owner>>

ZoneStep ==
  /\ pc = "zone" /\ i <= Len(uz)
  /\ LET end == zb[i] IN
     IF Member(uz[i], zids)
     THEN LET zv == IF DIM = 2 THEN FilterValid(Slice(vbz[1], start, end), sel.nd, MUT) ELSE <<>>
              srt == IF MUT = "nosort" THEN zv ELSE SortSeq(zv, Lt)
          IN /\ zoneVals' = zv
             /\ totals' = IF DIM = 2
                          THEN Append(totals, IF MUT = "totalsel" THEN Len(SelectSeq(zv, LAMBDA x : Member(x, cids)))
                                              ELSE Len(zv))
                          ELSE totals
             /\ zcb' = IF DIM = 2 THEN Strides(srt, ucats, MUT) ELSE <<>>
             /\ owner' = Append(owner, uz[i])
             /\ catStart' = 0 /\ j' = 1 /\ pc' = "cat"
             /\ UNCHANGED <<i, start>>
     ELSE /\ start' = IF MUT = "startsel" THEN start ELSE end
          /\ i' = i + 1
          /\ UNCHANGED <<pc, zoneVals, totals, zcb, owner, catStart, j>>
  /\ UNCHANGED <<inp, sel, vbz, zb, uz, ucats, zids, cids, dict>>

CatStep ==
  /\ pc = "cat" /\ j <= Len(ucats)
  /\ IF Member(ucats[j], cids)
     THEN LET val == IF DIM = 2 THEN IntQ(zcb[j] - catStart)
                     ELSE LET d == FilterValid(Slice(vbz[j], start, zb[i]), sel.nd, MUT)
                          IN IF Len(d) = 0 THEN EmptyStatOf(sel.agg) ELSE StatOf(sel.agg, d)
          IN /\ dict' = [dict EXCEPT ![j].list = Append(@, val)]
             /\ catStart' = IF DIM = 2 THEN zcb[j] ELSE catStart
     ELSE /\ dict' = dict
          /\ catStart' = IF DIM = 2 /\ "catstart" \in VARIANT THEN zcb[j] ELSE catStart
  /\ j' = j + 1
  /\ UNCHANGED <<inp, sel, pc, vbz, zb, uz, ucats, zids, cids, i, start, zoneVals, zcb, totals, owner>>

ZoneDone ==
  /\ pc = "cat" /\ j > Len(ucats)
  /\ start' = zb[i] /\ i' = i + 1 /\ pc' = "zone"
  /\ UNCHANGED <<inp, sel, vbz, zb, uz, ucats, zids, cids, j, catStart, zoneVals, zcb, totals, dict, owner>>

Finish ==
  /\ pc = "zone" /\ i > Len(uz)
  /\ pc' = "done"
  /\ UNCHANGED <<inp, sel, vbz, zb, uz, ucats, zids, cids, i, start, j, catStart, zoneVals, zcb, totals, dict, owner>>

Next == SortStride \/ ZoneStep \/ CatStep \/ ZoneDone \/ Finish
Spec == Init /\ [][Next]_vars

----------------------------------------------------------------------------
(* The DataFrame at "done": row k is labelled Labels[k]; its entry in column c is Cell(k, c)  *)
Labels == IF "labels" \in VARIANT THEN owner ELSE zids
NRows == Len(owner)
ListOf(c) == LET k == CHOOSE kk \in DOMAIN dict : dict[kk].cat = c IN dict[k].list
Cell(k, c) ==
  LET x == ListOf(c)[k] IN
  IF DIM = 2 /\ sel.agg = "percentage"
  THEN (IF totals[k] = 0 THEN NaNQ ELSE Norm(100 * x[1], totals[k]))
  ELSE x
Layer(c) == LET l == CHOOSE ll \in DOMAIN CATS : CATS[ll] = c IN inp.vs[l]
AbsCell(zone, c) == IF DIM = 2 THEN AbsEntry2D(sel.agg, inp.z, inp.vs[1], sel.nd, zone, c)
                    ELSE AbsEntry3D(sel.agg, inp.z, Layer(c), sel.nd, zone)

TypeOK ==
  /\ pc \in {"sort", "zone", "cat", "done"}
  /\ i \in 1..Len(uz) + 1 /\ j \in 1..Len(ucats) + 1
  /\ Len(owner) <= Len(uz)

\* the running offset: cat_start = number of the zone's valid values below the current category
CatStartIsOffset ==
  (pc = "cat" /\ DIM = 2 /\ j <= Len(ucats)) =>
     catStart = Cardinality({k \in DOMAIN zoneVals : zoneVals[k] < ucats[j]})

\* the slice handed to the per-zone helper holds exactly the zone's cells
ZoneValsAreZone ==
  (pc = "cat" /\ DIM = 2) =>
     SortSeq(zoneVals, Lt) = SortSeq(ValuesOf(inp.vs[1], AbsValid(inp.z, inp.vs[1], sel.nd, uz[i]), 1), Lt)

\* the DataFrame is well formed: one label per computed row, every selected column has one entry per row
WellFormed ==
  pc = "done" => /\ Len(Labels) = NRows
                 /\ \A k \in DOMAIN cids : Len(ListOf(cids[k])) = NRows

\* rows and columns are the requested ones that exist, each exactly once
RowsAndColsOK ==
  pc = "done" =>
     /\ Range(Labels) = (IF sel.zreq.all THEN AbsZoneIds(inp.z) ELSE AbsZoneIds(inp.z) \cap Range(sel.zreq.ids))
     /\ Cardinality(Range(Labels)) = Len(Labels)
     /\ Range(cids) = (IF sel.creq.all THEN Range(ucats) ELSE Range(ucats) \cap Range(sel.creq.ids))

\* every row is labelled with the zone it was computed for
RowLabelsOwnZone == pc = "done" => Labels = owner

\* the unrestricted table is the contingency table
IsContingency ==
  (pc = "done" /\ sel.zreq.all /\ sel.creq.all) =>
     \A k \in 1..NRows : \A c \in Range(ucats) : Cell(k, c) = AbsCell(uz[k], c)

\* any restriction is the sub-matrix of the unrestricted table, each row under its own label
RestrictionIsSubmatrix ==
  (pc = "done" /\ Len(Labels) = NRows) =>
     \A k \in 1..NRows : \A c \in Range(cids) : Cell(k, c) = AbsCell(Labels[k], c)

\* percentages of an unrestricted, non-empty row add up to 100 (all share the denominator total)
RowsSumTo100 ==
  (pc = "done" /\ DIM = 2 /\ sel.agg = "percentage" /\ sel.creq.all) =>
     \A k \in 1..NRows :
        totals[k] > 0 =>
          SumSeq([m \in 1..Len(ucats) |-> LET q == Cell(k, ucats[m]) IN q[1] * (totals[k] \div q[2])]) = 100 * totals[k]

\* the machine computes what the closed-form transcription CrosstabAlg (used by the judge) computes
MachineIsAlg ==
  pc = "done" =>
     LET a == CrosstabAlg(DIM, inp.z, inp.vs, CATS, StableArgSort(inp.z), sel.nd, sel.zreq, sel.creq, sel.agg,
                          VARIANT, MUT)
     IN /\ a.labels = Labels /\ a.cols = cids /\ Len(a.rows) = NRows
        /\ \A k \in 1..NRows : /\ a.rows[k].zone = owner[k]
                               /\ \A c \in Range(cids) : Shown(DIM, sel.agg, a.rows[k], c) = Cell(k, c)
=============================================================================
