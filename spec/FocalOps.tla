------------------------------ MODULE FocalOps ------------------------------
(* Abstract definitions for C09, shared by Focal.tla / FocalMean.tla / FocalConv.tla /      *)
(* Hotspots.tla (exhaustive models) and Focal_Judge.tla (verdicts on observed outputs).     *)
(*                                                                                          *)
(* Values are exact rationals <<n, d>> in lowest terms with d > 0; NaN is <<0, 0>>.         *)
(* A raster X is a sequence of H rows of W values; a kernel K a sequence of kh rows of kw   *)
(* entries (0/1 for focal, rational weights for convolution), kh and kw odd.  Indices are   *)
(* 1-based.  The kernel entry (i, j) lies over raster cell (r + i-1-hr, c + j-1-hc) when    *)
(* the kernel is centred on (r, c), hr = kh \div 2, hc = kw \div 2.                         *)
EXTENDS Integers, Sequences, FiniteSets

NaN == <<0, 0>>
IsNaN(v) == v[2] = 0
Q(n) == <<n, 1>>
Abs(x) == IF x < 0 THEN -x ELSE x

RECURSIVE Gcd(_, _)
Gcd(a, b) == IF b = 0 THEN a ELSE Gcd(b, a % b)
\* n/d in lowest terms, d # 0
Norm(n, d) == LET g == Gcd(Abs(n), Abs(d))
                  s == IF d < 0 THEN -1 ELSE 1
              IN <<s * (n \div g), s * (d \div g)>>     \* exact divisions
Add(a, b) == Norm(a[1] * b[2] + b[1] * a[2], a[2] * b[2])
Sub(a, b) == Norm(a[1] * b[2] - b[1] * a[2], a[2] * b[2])
Mul(a, b) == Norm(a[1] * b[1], a[2] * b[2])
DivN(a, k) == Norm(a[1], a[2] * k)                     \* a / k, k a positive integer
Less(a, b) == a[1] * b[2] < b[1] * a[2]
Leq(a, b) == a[1] * b[2] <= b[1] * a[2]

Rows(m) == Len(m)
Cols(m) == IF Len(m) = 0 THEN 0 ELSE Len(m[1])
HalfR(K) == Rows(K) \div 2
HalfC(K) == Cols(K) \div 2
InRaster(X, rr, cc) == rr >= 1 /\ rr <= Rows(X) /\ cc >= 1 /\ cc <= Cols(X)

\* ------------------------------------------------------------------ the window
\* raster cells under the 1-entries of K centred on (r, c), clipped at the raster edge
WindowCells(X, K, r, c) ==
  {p \in (1..Rows(X)) \X (1..Cols(X)) :
      LET i == p[1] - r + HalfR(K) + 1
          j == p[2] - c + HalfC(K) + 1
      IN i >= 1 /\ i <= Rows(K) /\ j >= 1 /\ j <= Cols(K) /\ K[i][j] = 1}

\* what a user reducer receives: the kernel-shaped buffer, NaN at every other position
Buffer(X, K, r, c) ==
  [i \in 1..Rows(K) |-> [j \in 1..Cols(K) |->
      LET rr == r + i - 1 - HalfR(K)
          cc == c + j - 1 - HalfC(K)
      IN IF K[i][j] = 1 /\ InRaster(X, rr, cc) THEN X[rr][cc] ELSE NaN]]

\* ------------------------------------------------------------------ statistics of a set of cells
RECURSIVE SumCells(_, _, _)
\* sum of f(X[p]) over the finite cells p of S; pw = 1: values, pw = 2: squares
SumCells(X, S, pw) ==
  IF S = {} THEN Q(0)
  ELSE LET p == CHOOSE q \in S : TRUE
           v == X[p[1]][p[2]]
       IN Add(IF pw = 1 THEN v ELSE Mul(v, v), SumCells(X, S \ {p}, pw))

Finite(X, S) == {p \in S : ~IsNaN(X[p[1]][p[2]])}

\* name in {"mean","max","min","range","std","var","sum"}; "std" is given as its square (= var)
StatOfCells(name, X, S0) ==
  LET S == Finite(X, S0)
      n == Cardinality(S)
      s1 == SumCells(X, S, 1)
      s2 == SumCells(X, S, 2)
      mx == CHOOSE p \in S : \A q \in S : Leq(X[q[1]][q[2]], X[p[1]][p[2]])
      mn == CHOOSE p \in S : \A q \in S : Leq(X[p[1]][p[2]], X[q[1]][q[2]])
  IN CASE name = "sum" -> s1
       [] n = 0 -> NaN
       [] name = "mean" -> DivN(s1, n)
       [] name = "max" -> X[mx[1]][mx[2]]
       [] name = "min" -> X[mn[1]][mn[2]]
       [] name = "range" -> Sub(X[mx[1]][mx[2]], X[mn[1]][mn[2]])
       [] name \in {"var", "std"} -> Sub(DivN(s2, n), Mul(DivN(s1, n), DivN(s1, n)))

\* ------------------------------------------------------------------ reducers on a buffer (sequence form)
RECURSIVE Flatten(_)
Flatten(m) == IF m = <<>> THEN <<>> ELSE Head(m) \o Flatten(Tail(m))
NotNaN(v) == ~IsNaN(v)
FinVals(buf) == SelectSeq(Flatten(buf), NotNaN)

RECURSIVE SumSeq(_)
SumSeq(s) == IF s = <<>> THEN Q(0) ELSE Add(Head(s), SumSeq(Tail(s)))
RECURSIVE SumSqSeq(_)
SumSqSeq(s) == IF s = <<>> THEN Q(0) ELSE Add(Mul(Head(s), Head(s)), SumSqSeq(Tail(s)))
RECURSIVE MaxSeq(_)
MaxSeq(s) == IF Len(s) = 1 THEN s[1] ELSE LET m == MaxSeq(Tail(s)) IN IF Less(m, Head(s)) THEN Head(s) ELSE m
RECURSIVE MinSeq(_)
MinSeq(s) == IF Len(s) = 1 THEN s[1] ELSE LET m == MinSeq(Tail(s)) IN IF Less(Head(s), m) THEN Head(s) ELSE m

\* position-coded weighted sum: entry (i, j) of a kh x kw buffer has weight (i-1)*kw + j
RECURSIVE WSum(_, _, _)
WSum(flat, k, acc) == IF k > Len(flat) THEN acc
                      ELSE WSum(flat, k + 1, IF IsNaN(flat[k]) THEN acc ELSE Add(acc, Mul(Q(k), flat[k])))

\* built-in statistics (np.nanmean, ...) and the positioned user reducers
Red(name, buf) ==
  LET vs == FinVals(buf)
      n == Len(vs)
  IN CASE name = "sum" -> SumSeq(vs)
       [] name = "nancount" -> Q(Rows(buf) * Cols(buf) - n)
       [] name = "wsum" -> WSum(Flatten(buf), 1, Q(0))
       [] name = "at_0_0" -> buf[1][1]
       [] name = "at_0_last" -> buf[1][Cols(buf)]
       [] name = "at_last_0" -> buf[Rows(buf)][1]
       [] name = "at_centre" -> buf[HalfR(buf) + 1][HalfC(buf) + 1]
       [] name = "shape" -> Q(Rows(buf) * 100 + Cols(buf))
       [] n = 0 -> NaN
       [] name = "mean" -> DivN(SumSeq(vs), n)
       [] name = "max" -> MaxSeq(vs)
       [] name = "min" -> MinSeq(vs)
       [] name = "range" -> Sub(MaxSeq(vs), MinSeq(vs))
       [] name \in {"var", "std"} -> Sub(DivN(SumSqSeq(vs), n), Mul(DivN(SumSeq(vs), n), DivN(SumSeq(vs), n)))

\* focal.apply / one layer of focal_stats
Apply(X, K, name) == [r \in 1..Rows(X) |-> [c \in 1..Cols(X) |-> Red(name, Buffer(X, K, r, c))]]

\* ------------------------------------------------------------------ focal.mean
Ones3 == <<<<1, 1, 1>>, <<1, 1, 1>>, <<1, 1, 1>>>>
\* _equal_numpy: equal, or both NaN
Excluded(v, excl) == \E k \in 1..Len(excl) : (IsNaN(v) /\ IsNaN(excl[k])) \/ (~IsNaN(v) /\ ~IsNaN(excl[k]) /\ v = excl[k])
MeanStep(X, excl) ==
  [r \in 1..Rows(X) |-> [c \in 1..Cols(X) |->
      IF Excluded(X[r][c], excl) THEN X[r][c] ELSE Red("mean", Buffer(X, Ones3, r, c))]]
RECURSIVE MeanIter(_, _, _)
MeanIter(X, excl, passes) == IF passes = 0 THEN X ELSE MeanIter(MeanStep(X, excl), excl, passes - 1)

\* ------------------------------------------------------------------ convolution_2d
\* Wt: kernel of rational weights.  NaN where the full window leaves the raster or holds a NaN.
WindowInside(X, K, r, c) ==
  r - HalfR(K) >= 1 /\ r + HalfR(K) <= Rows(X) /\ c - HalfC(K) >= 1 /\ c + HalfC(K) <= Cols(X)

RECURSIVE ConvSum(_, _, _, _, _)
ConvSum(X, Wt, r, c, k) ==      \* k runs over the kernel entries in row-major order
  IF k > Rows(Wt) * Cols(Wt) THEN Q(0)
  ELSE LET i == (k - 1) \div Cols(Wt) + 1
           j == ((k - 1) % Cols(Wt)) + 1
       IN Add(Mul(Wt[i][j], X[r + i - 1 - HalfR(Wt)][c + j - 1 - HalfC(Wt)]), ConvSum(X, Wt, r, c, k + 1))

ConvCell(X, Wt, r, c) ==
  IF ~WindowInside(X, Wt, r, c) THEN NaN
  ELSE IF \E i \in 1..Rows(Wt), j \in 1..Cols(Wt) : IsNaN(X[r + i - 1 - HalfR(Wt)][c + j - 1 - HalfC(Wt)]) THEN NaN
  ELSE ConvSum(X, Wt, r, c, 1)
Conv(X, Wt) == [r \in 1..Rows(X) |-> [c \in 1..Cols(X) |-> ConvCell(X, Wt, r, c)]]

\* ------------------------------------------------------------------ hotspots
\* sign of a/b - c/d for naturals a, c and positive b, d, without forming a*d (32-bit safe)
RECURSIVE CmpFrac(_, _, _, _)
CmpFrac(a, b, c, d) ==
  LET qa == a \div b  qc == c \div d
      ra == a % b     rc == c % d
  IN IF qa # qc THEN (IF qa > qc THEN 1 ELSE -1)
     ELSE IF ra = 0 /\ rc = 0 THEN 0
     ELSE IF ra = 0 THEN -1
     ELSE IF rc = 0 THEN 1
     ELSE CmpFrac(d, rc, b, ra)        \* ra/b vs rc/d  <=>  d/rc vs b/ra

\* confidence level of |z| with z^2 = a2/b, thresholds (1.65, 1.96, 2.58) shifted by sh thousandths
LevelAt(a2, b, sh) ==
  LET gt(t) == CmpFrac(a2, b, (t + sh) * (t + sh), 1000000) > 0
  IN IF gt(2580) THEN 99 ELSE IF gt(1960) THEN 95 ELSE IF gt(1650) THEN 90 ELSE 0

AllCells(X) == (1..Rows(X)) \X (1..Cols(X))
\* integer rasters only (values <<n, 1>> or NaN); K a 0/1 kernel with at least one 1.
\* global statistics of the raster: n finite cells, s1 = sum, vn = n^2 * variance
HotStats(X) ==
  LET S == Finite(X, AllCells(X))
      n == Cardinality(S)
      s1 == SumCells(X, S, 1)[1]
      s2 == SumCells(X, S, 2)[1]
  IN [n |-> n, s1 |-> s1, vn |-> n * s2 - s1 * s1]

\* the set of admitted outputs for cell (r, c); band = half-width of the borderline band around each
\* threshold, in thousandths of z.  z = a / (kones * sqrt(vn)) with a = ws*n - s1*kones, so the sign of z is
\* the sign of a and |z| > t  <=>  a^2 / (kones^2 * vn) > t^2  (no square roots).
HotCell(X, K, r, c, band, st) ==
  LET kones == Cardinality({q \in (1..Rows(K)) \X (1..Cols(K)) : K[q[1]][q[2]] = 1})
      full == [i \in 1..Rows(K) |-> [j \in 1..Cols(K) |-> 1]]
      hasnan == \E p \in WindowCells(X, full, r, c) : IsNaN(X[p[1]][p[2]])
      ws == SumCells(X, WindowCells(X, K, r, c), 1)[1]
      a == ws * st.n - st.s1 * kones
      sgn == IF a > 0 THEN 1 ELSE IF a < 0 THEN -1 ELSE 0
      b == kones * kones * st.vn
  IN IF ~WindowInside(X, K, r, c) \/ hasnan THEN {0}
     ELSE {sgn * LevelAt(a * a, b, band), sgn * LevelAt(a * a, b, 0 - band)}

HotAdmitted(X, K, r, c, band) == HotCell(X, K, r, c, band, HotStats(X))

Neg(X) == [r \in 1..Rows(X) |-> [c \in 1..Cols(X) |-> IF IsNaN(X[r][c]) THEN NaN ELSE <<0 - X[r][c][1], X[r][c][2]>>]]
=============================================================================
