------------------------------ MODULE Aliasing ------------------------------
(* C10 - a session of public calls over a heap of buffers.                                        *)
(*                                                                                                *)
(* The store holds raster objects; every object is backed by buffers (ids).  `Call(f, args)`      *)
(* models the MECHANISM each class of public wrapper uses (anchors of C10):                       *)
(*   - kernels cast with astype (a copy) and allocate a fresh output,                             *)
(*   - the result is wrapped with the coords / dims / attrs of the input,                         *)
(*   - hotspots copies attrs before adding `unit`,                                                *)
(*   - trim / crop return a window of the input's buffer,                                         *)
(*   - viewshed rebinds the input to a float64 copy, zonal.apply rebinds `values`,                *)
(*   - perlin / generate_terrain build their own raster from a template.                          *)
(* `Probe` is the user writing into the result.  The properties (AliasOps: InputsUntouched,       *)
(* NoAlias + write probe, IdentityKept) are ACTION properties over every step; the same operators *)
(* judge the observations of the real code in Aliasing_Trace.tla.                                 *)
(* MUT selects deliberately broken mechanisms (negative twins).  PERLIN = "fixed" is perlin's      *)
(* mechanism (fresh array of the template's shape, /repo c6e6981); PERLIN = "asis" is the one it   *)
(* had before (writes into the template and returns it) and is kept only as a negative twin.       *)
EXTENDS AliasOps

CONSTANTS DT,        \* dtypes of the initial rasters, e.g. {"int32","float32","float64"}
          BK,        \* backends of a session, subset of {"numpy","dask"}
          NOBJ,      \* number of initial rasters (1..2)
          MAXCALLS,  \* calls per session
          FM,        \* functions of the model alphabet
          MUT,       \* "none" | negative twins, see Effect
          PERLIN     \* "fixed" | "asis"

VARIABLES objs, phase, last, ncalls, tok, nbuf,
          hist      \* history of the session <<f, args>>.. (read by the harness from simulated behaviours)
vars == <<objs, phase, last, ncalls, tok, nbuf, hist>>
MCView == <<objs, phase, last, ncalls, tok, nbuf>>     \* model checking: the history itself is not state

BaseCoords == << <<"band", "b1", 0>>, <<"x", "cx", 1>>, <<"y", "cy", 1>> >>      \* <<name, digest, ndim>>
BaseAttrs  == << <<"res", "r0">>, <<"crs", "c0">> >>
Dims2 == <<"y", "x">>
WindowOf(pairs) == [i \in 1..Len(pairs) |-> IF pairs[i][3] > 0 THEN <<pairs[i][1], pairs[i][2] \o "w", pairs[i][3]>> ELSE pairs[i]]
DimOnly(pairs) == SelectSeq(pairs, LAMBDA p : p[1] \in {"x", "y"})

NoRes == [id |-> "", kind |-> "none", bufs |-> <<>>, wr |-> FALSE, val |-> 0, dtype |-> "", coords |-> <<>>,
          attrs |-> <<>>, dims |-> <<>>, shape |-> <<>>, backend |-> "", name |-> "", cbufs |-> <<>>, val2 |-> 0]

MkObj(id, buf, wr, val, dt, bk) ==
  [id |-> id, kind |-> "raster", bufs |-> <<buf>>, wr |-> wr, val |-> val, dtype |-> dt, coords |-> BaseCoords,
   attrs |-> BaseAttrs, dims |-> Dims2, shape |-> <<6, 7>>, backend |-> bk, name |-> id, cbufs |-> <<100 + buf>>, val2 |-> val]

Init ==
  /\ \E bk \in BK : \E d1 \in DT, d2 \in DT : \E w1 \in BOOLEAN, w2 \in BOOLEAN :
        objs = IF NOBJ = 1 THEN << MkObj("a", 1, w1, 1, d1, bk) >>
               ELSE << MkObj("a", 1, w1, 1, d1, bk), MkObj("b", 2, w2, 2, d2, bk) >>
  /\ phase = "idle" /\ last = [f |-> "", args |-> <<>>, res |-> NoRes]
  /\ ncalls = 0 /\ tok = 10 /\ nbuf = 10
  /\ hist = << [i \in 1..Len(objs) |-> <<"init", objs[i].id, objs[i].dtype, IF objs[i].wr THEN "C" ELSE "readonly", objs[i].backend>>] >>

\* ---- heap write: every object backed by one of `bufs` sees new content
WriteBufs(os, bufs, t) == [i \in 1..Len(os) |-> IF Range(os[i].bufs) \cap Range(bufs) # {} THEN [os[i] EXCEPT !.val = t + i] ELSE os[i]]
Replace(os, id, o) == [i \in 1..Len(os) |-> IF os[i].id = id THEN o ELSE os[i]]

CastTo(f) == IF f = "focal_mean" \/ f = "viewshed" THEN "float64" ELSE "float32"
Unit == <<"unit", "pct">>
RId == "r" \o ToString(ncalls + 1)

\* ---- Effect(f, args) -> [objs, res]: the mechanisms, with the negative twins
EffNormal(f, a) ==
  LET same  == a.dtype = CastTo(f) /\ a.backend = "numpy"
      attrs == IF f = "hotspots" THEN Append(a.attrs, Unit) ELSE a.attrs
      r0 == [id |-> RId, kind |-> "raster", bufs |-> <<nbuf + 1>>, wr |-> TRUE, val |-> tok + 1, dtype |-> CastTo(f),
             coords |-> IF MUT = "coords_dropped" THEN DimOnly(a.coords) ELSE a.coords,
             attrs |-> attrs, dims |-> a.dims, shape |-> a.shape,
             backend |-> IF MUT = "eager_on_dask" THEN "numpy" ELSE a.backend, name |-> f,
             \* DataArray(out, coords=agg.coords) copies the coordinate variables; agg.copy(deep=False, data=out) shares them
             cbufs |-> IF MUT = "coords_shared" THEN a.cbufs ELSE <<100 + nbuf + 1>>,
             \* a Dask kernel that writes over the raster's own blocks: recomputing the lazy result gives other values
             val2 |-> IF MUT = "dask_kernel_inplace" /\ a.backend = "dask" /\ a.dtype = CastTo(f) THEN tok + 3 ELSE tok + 1]
      \* astype(copy=False) is a no-op exactly when the dtype already matches
      r  == IF MUT = "astype_noop_return" /\ same THEN [r0 EXCEPT !.bufs = a.bufs, !.wr = a.wr] ELSE r0
      \* dask.Array.astype to the SAME dtype returns the array itself: a kernel writing over its argument then overwrites
      \* the raster's own blocks when the result is computed
      daskSame == a.dtype = CastTo(f) /\ a.backend = "dask"
      o1 == IF (MUT = "astype_noop_inplace" /\ same /\ a.wr) \/ (MUT = "dask_kernel_inplace" /\ daskSame)
            THEN WriteBufs(objs, a.bufs, tok + 10) ELSE objs
      o2 == IF MUT = "attrs_shared" /\ f = "hotspots" THEN Replace(o1, a.id, [Obj(o1, a.id) EXCEPT !.attrs = Append(a.attrs, Unit)]) ELSE o1
  IN [objs |-> o2, res |-> r]

EffView(f, src) ==
  [objs |-> objs,
   res |-> [id |-> RId, kind |-> "raster",
            bufs |-> IF MUT = "view_copies" THEN <<nbuf + 1>> ELSE src.bufs, wr |-> IF MUT = "view_copies" THEN TRUE ELSE src.wr,
            val |-> tok + 1, dtype |-> src.dtype,
            coords |-> IF MUT = "coords_dropped" THEN DimOnly(WindowOf(src.coords)) ELSE WindowOf(src.coords),
            attrs |-> IF MUT = "view_drops_attrs" THEN <<>> ELSE src.attrs,
            dims |-> src.dims, shape |-> <<3, 5>>, backend |-> src.backend, name |-> f, cbufs |-> src.cbufs, val2 |-> tok + 1]]

EffPerlin(a) ==
  IF PERLIN = "asis" /\ a.backend = "numpy"
  THEN [objs |-> WriteBufs(objs, a.bufs, tok + 10),
        res |-> [id |-> RId, kind |-> "raster", bufs |-> a.bufs, wr |-> a.wr, val |-> tok + 1, dtype |-> a.dtype,
                 coords |-> <<>>, attrs |-> a.attrs, dims |-> a.dims, shape |-> a.shape, backend |-> a.backend, name |-> "perlin", cbufs |-> <<>>, val2 |-> tok + 1]]
  ELSE [objs |-> objs,
        res |-> [id |-> RId, kind |-> "raster", bufs |-> <<nbuf + 1>>, wr |-> TRUE, val |-> tok + 1, dtype |-> "float32",
                 coords |-> <<>>, attrs |-> a.attrs, dims |-> a.dims, shape |-> a.shape, backend |-> a.backend, name |-> "perlin", cbufs |-> <<>>, val2 |-> tok + 1]]

EffViewshed(a) ==
  LET a2 == [a EXCEPT !.bufs = <<nbuf + 2>>, !.dtype = "float64", !.wr = TRUE,
                      !.val = IF MUT = "widen_changes_values" /\ a.dtype # "float64" THEN tok + 2 ELSE a.val]
  IN [objs |-> Replace(objs, a.id, a2),
      res |-> [id |-> RId, kind |-> "raster", bufs |-> <<nbuf + 1>>, wr |-> TRUE, val |-> tok + 1, dtype |-> "float64",
               coords |-> a.coords, attrs |-> a.attrs, dims |-> a.dims, shape |-> a.shape, backend |-> a.backend, name |-> "viewshed", cbufs |-> <<100 + nbuf + 1>>, val2 |-> tok + 1]]

EffApply(z, v) ==
  LET v2 == [v EXCEPT !.bufs = <<nbuf + 1>>, !.val = tok + 1, !.wr = TRUE, !.backend = "numpy"]
      o1 == Replace(objs, v.id, v2)
      o2 == IF MUT = "apply_touches_zones" THEN WriteBufs(o1, z.bufs, tok + 10) ELSE o1
  IN [objs |-> o2, res |-> NoRes]

EffTable(f, z, v) ==
  [objs |-> objs,
   res |-> [NoRes EXCEPT !.kind = "table", !.bufs = <<nbuf + 1, nbuf + 2>>, !.wr = TRUE, !.val = tok + 1, !.val2 = tok + 1]]

EffOwnShape(f, a) ==
  [objs |-> objs,
   res |-> [id |-> RId, kind |-> "raster", bufs |-> <<nbuf + 1>>, wr |-> TRUE, val |-> tok + 1, dtype |-> "float32",
            coords |-> Append(a.coords, <<"stats", "s0", 1>>), attrs |-> a.attrs, dims |-> <<"stats", "y", "x">>,
            shape |-> <<7>> \o a.shape, backend |-> IF MUT = "eager_on_dask" THEN "numpy" ELSE a.backend, name |-> f, cbufs |-> <<100 + nbuf + 1>>, val2 |-> tok + 1]]

Arity(f) == IF f \in {"crop", "zonal_apply", "zonal_stats", "zonal_crosstab", "gci", "nbr", "nbr2", "ndvi", "ndmi", "savi"} THEN 2
            ELSE IF f \in {"arvi", "evi", "sipi", "ebbi", "true_color"} THEN 3 ELSE 1

Effect(f, args) ==
  LET a == Obj(objs, args[1]) IN
  CASE f \in Normal      -> EffNormal(f, a)
    [] f = "trim"        -> EffView(f, a)
    [] f = "crop"        -> EffView(f, Obj(objs, args[2]))
    [] f = "perlin"      -> EffPerlin(a)
    [] f = "viewshed"    -> EffViewshed(a)
    [] f = "zonal_apply" -> EffApply(a, Obj(objs, args[2]))
    [] f \in Tables      -> EffTable(f, a, Obj(objs, args[2]))
    [] f \in {"focal_stats", "true_color"} -> EffOwnShape(f, a)
    [] f = "generate_terrain" -> EffPerlin(a)

\* the domain: configurations the library supports (AliasOps!Supported) and well-formed arguments
Enabled(f, args) ==
  LET a == Obj(objs, args[1]) IN
  /\ \A i \in 1..Len(args) : Obj(objs, args[i]).kind = "raster" /\ Len(Obj(objs, args[i]).dims) = 2
  /\ \A i \in 1..Len(args) : Supported(f, Obj(objs, args[i]).backend, Obj(objs, args[i]).dtype,
                                       IF Obj(objs, args[i]).wr THEN "C" ELSE "readonly")
  /\ \A i, j \in 1..Len(args) : Obj(objs, args[i]).shape = Obj(objs, args[j]).shape
  /\ (f = "zonal_apply" => a.dtype \in IntDT /\ args[1] # args[2] /\ ~Shares(a, Obj(objs, args[2])))

Call(f, args) ==
  /\ phase = "idle" /\ ncalls < MAXCALLS /\ Enabled(f, args)
  /\ LET e == Effect(f, args) IN
       /\ objs' = e.objs
       /\ last' = [f |-> f, args |-> args, res |-> e.res]
  /\ phase' = "called" /\ ncalls' = ncalls + 1 /\ tok' = tok + 20 /\ nbuf' = nbuf + 2
  /\ hist' = Append(hist, <<"call", f>> \o args)

\* the user writes into the result; a 2-D raster result then joins the store
Probe ==
  /\ phase = "called"
  /\ LET r == last.res
         o1 == IF r.kind # "none" /\ r.wr THEN WriteBufs(objs, r.bufs, tok) ELSE objs
     IN objs' = IF r.kind = "raster" /\ Len(r.dims) = 2 /\ Len(o1) < NOBJ + 2 THEN Append(o1, r) ELSE o1
  /\ phase' = "idle" /\ tok' = tok + 20
  /\ UNCHANGED <<last, ncalls, nbuf, hist>>

Ids == {objs[i].id : i \in 1..Len(objs)}
Next == \/ \E f \in FM : \E args \in [1..Arity(f) -> Ids] : Call(f, args)
        \/ Probe
Spec == Init /\ [][Next]_vars

\* ------------------------------------------------------------------ properties (action level)
Pre(os) == SubSeq(os, 1, Len(objs))
CalledStep == phase = "idle" /\ phase' = "called"
ProbeStep  == phase = "called" /\ phase' = "idle"

InputsUntouchedP == [][CalledStep => InputsUntouched(last'.f, last'.args, objs, objs') = "ok"]_vars
NoAliasP == [][/\ CalledStep => NoAlias(last'.f, last'.args, objs', last'.res) = "ok"
               /\ ProbeStep  => ProbeOK(last.f, last.args, objs, objs', last.res) = "ok"]_vars
RecomputeP == [][CalledStep => (last'.res.kind = "none" \/ last'.res.val2 = last'.res.val)]_vars
IdentityKeptP == [][CalledStep => IdentityKept(last'.f, last'.args, objs, last'.res) = "ok"]_vars

TypeOK == /\ phase \in {"idle", "called"} /\ ncalls \in 0..MAXCALLS
          /\ \A i, j \in 1..Len(objs) : i # j => objs[i].id # objs[j].id
=============================================================================
