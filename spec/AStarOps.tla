------------------------------ MODULE AStarOps ------------------------------
(* Operators shared by AStar.tla (exhaustive model) and AStar_Trace.tla (judging of       *)
(* observations of xrspatial.pathfinding.a_star_search), property C14.                     *)
(*                                                                                         *)
(* Cells are row-major ids 0..H*W-1.  Environment record                                   *)
(*   e = [H, W, cross (id -> 0/1, 1 = crossable: not NaN and not a barrier value),         *)
(*        conn (4 | 8), gy, gx (goal cell as the search sees it; may be -1,-1), mut]        *)
(* Costs are surds <<a, b>> = a + b*sqrt2 (Surd.tla).                                       *)
(*                                                                                         *)
(* Two layers:                                                                             *)
(*   ABSTRACT   Adj, Weight, ShortestMap (Bellman-Ford fixpoint), ChainClause              *)
(*              -- what the property text says, no reference to the algorithm              *)
(*   ALGORITHM  Offs, HN, PopCands, RelaxOne, ReconstructPath                              *)
(*              -- transcription of _min_cost_pixel_id / the relax loop / _reconstruct_path *)
EXTENDS Integers, Sequences, FiniteSets, Surd

NONE == -1
INF == <<-1, -1>>          \* "no route" in distance maps
NAN == <<-1, -1>>          \* NaN cell of a path image
BAD == <<-2, -2>>          \* float bridge failure: observed value is not a + b*sqrt2

Abs(x) == IF x < 0 THEN -x ELSE x
NCells(e) == e.H * e.W
Ids(e) == 0..(e.H * e.W - 1)
Row(e, i) == i \div e.W
Col(e, i) == i % e.W
Crossable(e, i) == e.cross[i] = 1
MinOf(S) == CHOOSE x \in S : \A y \in S : x <= y

\* ------------------------------------------------------------------ ABSTRACT LAYER
\* 4-/8-neighbourhood and the length of a step
Adj(e, i, j) ==
  LET dr == Abs(Row(e, i) - Row(e, j))  dc == Abs(Col(e, i) - Col(e, j)) IN
  /\ i # j /\ dr <= 1 /\ dc <= 1 /\ (e.conn = 4 => dr + dc = 1)
Weight(e, i, j) == IF Row(e, i) # Row(e, j) /\ Col(e, i) # Col(e, j) THEN <<0, 1>> ELSE <<1, 0>>
AbsNbrs(e, i) == {j \in ({i - e.W - 1, i - e.W, i - e.W + 1, i - 1, i + 1, i + e.W - 1, i + e.W, i + e.W + 1}
                          \cap Ids(e)) : Adj(e, i, j)}

SMin(S) == CHOOSE x \in S : \A y \in S : ~SLess(y, x)

\* Bellman-Ford: D[i] = least cost of a route of crossable cells from s to i (INF = none)
BFStep(e, D) ==
  [i \in Ids(e) |->
     IF ~Crossable(e, i) THEN INF
     ELSE LET cands == {SAdd(D[j], Weight(e, j, i)) : j \in {k \in AbsNbrs(e, i) : D[k] # INF}}
                       \cup (IF D[i] = INF THEN {} ELSE {D[i]})
          IN IF cands = {} THEN INF ELSE SMin(cands)]
RECURSIVE BFFix(_, _, _)
BFFix(e, D, n) == LET D2 == BFStep(e, D) IN IF D2 = D \/ n = 0 THEN D2 ELSE BFFix(e, D2, n - 1)
ShortestMap(e, s) ==
  BFFix(e, [i \in Ids(e) |-> IF i = s /\ Crossable(e, s) THEN <<0, 0>> ELSE INF], NCells(e))

\* The non-NaN cells P of a path image form ONE chain s -> t: first failing clause or "ok".
\* Values strictly increase along a chain, so the chain is P ordered by value.
ChainClause(e, path, P, s, t) ==
  IF \E i \in P : ~Crossable(e, i) THEN "enters_noncrossable_cell"
  ELSE IF \E i \in P, j \in P : i # j /\ path[i] = path[j] THEN "chain_two_cells_same_cost"
  ELSE IF path[s] # <<0, 0>> THEN "start_value_not_zero"
  ELSE IF \E i \in P \ {s} :
            LET below == {j \in P : SLess(path[j], path[i])} IN
            \/ below = {}
            \/ LET pred == CHOOSE j \in below : \A k \in below : ~SLess(path[j], path[k]) IN
               ~(Adj(e, pred, i) /\ path[i] = SAdd(path[pred], Weight(e, pred, i)))
       THEN "chain_step_not_neighbour_plus_length"
  ELSE IF \E i \in P : SLess(path[t], path[i]) THEN "goal_not_at_end_of_chain"
  ELSE "ok"

\* ------------------------------------------------------------------ ALGORITHM LAYER
\* _neighborhood_structure(connectivity): offsets <<dy, dx>> in the order the code visits them
Offs(conn) == IF conn = 8 THEN << <<-1,-1>>, <<0,-1>>, <<1,-1>>, <<-1,0>>, <<1,0>>, <<-1,1>>, <<0,1>>, <<1,1>> >>
              ELSE << <<0,-1>>, <<-1,0>>, <<1,0>>, <<0,1>> >>

\* _heuristic: euclidean pixel distance to the goal, as its square n (h = sqrt n)
\* (negative twin "hsquared": the sqrt forgotten, h = dy^2 + dx^2, not admissible.  Milder inadmissible
\* heuristics -- Manhattan under 8-connectivity, 2 * euclid -- were found by TLC to be harmless on every
\* layout of the 3x3 (and Manhattan up to 2x5) grid; they are caught on the larger mazes of T.)
HN(e, i) == LET dy == Abs(Row(e, i) - e.gy)  dx == Abs(Col(e, i) - e.gx)  n == dy * dy + dx * dx IN
            IF e.mut = "hsquared" THEN n * n ELSE n

\* _distance(px, py, neighbor_x, neighbor_y) for one offset
StepCost(e, o) == IF o[1] # 0 /\ o[2] # 0 THEN (IF e.mut = "diag1" THEN <<1, 0>> ELSE <<0, 1>>) ELSE <<1, 0>>

\* st = [open, closed, g, parent]: is_open, is_closed, d_from_start, parent_ys/xs
FLess(e, st, i, j) == FCmp(st.g[i], HN(e, i), st.g[j], HN(e, j)) < 0
MinSet(e, st) == {i \in st.open : \A j \in st.open : ~FLess(e, st, j, i)}
\* _min_cost_pixel_id: first row-major cell among the open cells of least f.  Exact ties between
\* cells whose g is an integer (b = 0) are float ties as well (f = fl(a + fl(sqrt n)) is a function
\* of (a, n), and such ties have equal (a, n) or perfect squares n) -> the first one wins.
\* A tie involving a g with a sqrt2 part may fall either way in floating point -> any of them.
PopCands(e, st) ==
  IF e.mut = "popany" THEN st.open ELSE
  LET M == MinSet(e, st)
      D == {i \in M : st.g[i][2] = 0}
  IN (M \ D) \cup (IF D = {} THEN {} ELSE {MinOf(D)})

Same(st) == [st |-> st, amb |-> NONE]
\* one iteration of `for y, x in zip(neighbor_ys, neighbor_xs)` for the popped cell cur.
\* Result: st = state when the neighbour is (re)written; amb = the neighbour when an exact tie
\* d = d_from_start[nbr] with a sqrt2 part makes `d > d_from_start[nbr]` float-ambiguous
\* (then leaving the state unchanged is admissible too; g is the same either way).
RelaxOne(e, st, cur, k) ==
  LET o == Offs(e.conn)[k]
      r == Row(e, cur) + o[1]
      c == Col(e, cur) + o[2]
  IN IF r > e.H - 1 \/ r < 0 \/ c > e.W - 1 \/ c < 0 THEN Same(st)
     ELSE LET j == r * e.W + c IN
       IF ~Crossable(e, j) THEN Same(st)
       ELSE IF e.mut # "noclosedskip" /\ j \in st.closed THEN Same(st)
       ELSE LET d == SAdd(st.g[cur], StepCost(e, o))
                cmp == IF j \in st.open /\ e.mut # "nogreater" THEN SCmp(d, st.g[j]) ELSE -1
            IN IF cmp > 0 THEN Same(st)
               ELSE [st |-> [open |-> st.open \cup {j}, closed |-> st.closed,
                             g |-> [st.g EXCEPT ![j] = d],
                             parent |-> IF e.mut = "noparent" /\ j \in st.open THEN st.parent
                                        ELSE [st.parent EXCEPT ![j] = cur]],
                     amb |-> IF cmp = 0 /\ d[2] # 0 THEN j ELSE NONE]

\* the whole neighbour loop of one pop, tie-ambiguous neighbours collected (used by the trace spec)
RECURSIVE RelaxAll(_, _, _, _, _)
RelaxAll(e, st, cur, k, amb) ==
  IF k > Len(Offs(e.conn)) THEN [st |-> st, amb |-> amb]
  ELSE LET r == RelaxOne(e, st, cur, k) IN
       RelaxAll(e, r.st, cur, k + 1, IF r.amb = NONE THEN amb ELSE amb \cup {r.amb})

\* _reconstruct_path as a whole (the model in AStar.tla walks it step by step)
RECURSIVE WalkBack(_, _, _, _, _, _)
WalkBack(e, st, img, cur, s, fuel) ==
  IF cur = s \/ fuel = 0 \/ cur = NONE THEN img
  ELSE WalkBack(e, st, [img EXCEPT ![cur] = st.g[cur]], st.parent[cur], s, fuel - 1)
ReconstructPath(e, st, s, t) ==
  LET blank == [i \in Ids(e) |-> NAN] IN
  IF st.parent[t] = NONE THEN blank
  ELSE WalkBack(e, st, [blank EXCEPT ![s] = st.g[s]], t, s, NCells(e))
=============================================================================
