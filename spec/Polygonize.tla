----------------------------- MODULE Polygonize -----------------------------
(* C15: polygonize is lossless.                                                           *)
(* Algorithm model of xrspatial/experimental/polygonize.py, with the implementation's       *)
(* state: regions / region_lookup / region (one-pass labelling with the merge forest),      *)
(* lower / upper (the while-loop of _merge_regions), visited / region_done / polygons        *)
(* (_scan) and ij / forward / left / prev_forward / pass_ / npoints / points (_follow).      *)
(* One action per labelled pixel, per iteration of the merge loop, per scan test and per     *)
(* iteration of the boundary-following loop (second pass; the counting first pass, which    *)
(* has no side effect, is one step).  Every raster over VALS (NANV = masked-out cell) of an   *)
(* H x W grid is an initial state; the run is then deterministic.                             *)
(* Abstract layer: Components (Components.tla) and Lossless (PolygonizeOps.tla).            *)
EXTENDS PolygonizeOps, TLC

CONSTANTS H, W,     \* raster shape (ny, nx)
          VALS,     \* set of cell values; NANV = -99 stands for "masked out"
          CONN,     \* 4 | 8
          MUT       \* "none" | negative twins "nochain" | "nose" | "straightfirst" | "novisit2"

VARIABLES vals,                                  \* the input
          pc, ij,                                \* control: which loop, which pixel
          regions, lookup, region,               \* _calculate_regions
          lower, upper,                          \* _merge_regions
          visited, region_done, polygons,        \* _scan
          fstart, fhole, fij, forward, left, prev_forward, pass_, npoints, points, alloc,   \* _follow
          allocok,                               \* history: pass 1 produced exactly the points pass 0 counted
          comps                                  \* ghost: Components of the input, fixed at Init
vars == <<vals, pc, ij, regions, lookup, region, lower, upper, visited, region_done, polygons,
          fstart, fhole, fij, forward, left, prev_forward, pass_, npoints, points, alloc, allocok, comps>>

G == [H |-> H, W |-> W, v |-> vals, conn |-> CONN]
A == Flat(G, MUT)
NX == IF W = 1 THEN 2 ELSE W
NN == NX * H

Init == /\ vals \in [0..H-1 -> [0..W-1 -> VALS]]
        /\ pc = "label" /\ ij = 0
        /\ regions = [k \in 0..NN-1 |-> 0] /\ lookup = [i \in 0..NN |-> 0] /\ region = 0
        /\ lower = 0 /\ upper = 0
        /\ visited = [k \in 0..NN-1 |-> 0] /\ region_done = 0 /\ polygons = <<>>
        /\ fstart = 0 /\ fhole = FALSE /\ fij = 0 /\ forward = 0 /\ left = 0 /\ prev_forward = 0
        /\ pass_ = 1 /\ npoints = 0 /\ points = <<>> /\ alloc = 0 /\ allocok = TRUE
        /\ comps = Components(G)

follow_vars == <<fstart, fhole, fij, forward, left, prev_forward, pass_, npoints, points, alloc, allocok>>
scan_vars == <<visited, region_done, polygons>>

\* ------------------------------------------------------------ _calculate_regions
AfterPixel == IF ij = NN - 1 THEN pc' = "compact" /\ ij' = 0 ELSE pc' = "label" /\ ij' = ij + 1

LabelPixel ==
  /\ pc = "label"
  /\ LET r == LabelPixelOp(A, [regions |-> regions, lookup |-> lookup, region |-> region], ij) IN
     /\ regions' = r.st.regions /\ region' = r.st.region
     /\ IF r.merge # <<>>
        THEN pc' = "merge" /\ ij' = ij /\ lower' = r.merge[1] /\ upper' = r.merge[2]
        ELSE AfterPixel /\ UNCHANGED <<lower, upper>>
  /\ UNCHANGED <<vals, lookup, scan_vars, follow_vars, comps>>

\* one iteration of the while-loop of _merge_regions (the lookup-chain rewrite)
MergeStep ==
  /\ pc = "merge"
  /\ LET m == MergeStepOp(A, [lookup |-> lookup, lower |-> lower, upper |-> upper, more |-> TRUE]) IN
     /\ lookup' = m.lookup /\ lower' = m.lower /\ upper' = m.upper
     /\ IF m.more THEN pc' = "merge" /\ ij' = ij ELSE AfterPixel
  /\ UNCHANGED <<vals, regions, region, scan_vars, follow_vars, comps>>

\* new_region_lookup and the final relabelling of regions
CompactLookup ==
  /\ pc = "compact"
  /\ LET nl == Compact(lookup, region) IN
     /\ lookup' = nl
     /\ regions' = [k \in 0..NN-1 |-> nl[regions[k]]]
  /\ pc' = "scan_ext" /\ ij' = 0
  /\ UNCHANGED <<vals, region, lower, upper, scan_vars, follow_vars, comps>>

\* ------------------------------------------------------------ _scan
SC == [visited |-> visited, region_done |-> region_done, polygons |-> polygons]

\* _follow is entered; its first pass (which only counts the points, no side effect) is one step:
\* alloc = the npoints it returns, i.e. points = np.empty(2*(alloc+1)); the second pass is stepwise
StartFollow(k, hole) ==
  LET f0 == FollowLoop(A, regions, FollowInit(A, visited, k, hole, 0, <<>>), regions[k], hole, k, FollowFuel(A))
      f == FollowInit(A, visited, k, hole, 1, <<>>) IN
  /\ pc' = "follow" /\ fstart' = k /\ fhole' = hole
  /\ fij' = f.ij /\ forward' = f.forward /\ left' = f.left /\ prev_forward' = f.prev_forward
  /\ pass_' = 1 /\ npoints' = 0 /\ points' = <<>> /\ alloc' = IF f0.fin THEN f0.npoints ELSE -1
  /\ UNCHANGED <<allocok, ij>>

AfterScanPixel == IF ij = NN - 1 THEN pc' = "done" /\ ij' = ij ELSE pc' = "scan_ext" /\ ij' = ij + 1

ScanExt ==
  /\ pc = "scan_ext"
  /\ IF ExteriorStarts(A, regions, SC, ij)
     THEN StartFollow(ij, FALSE)
     ELSE pc' = "scan_hole" /\ UNCHANGED <<ij, follow_vars>>
  /\ UNCHANGED <<vals, regions, lookup, region, lower, upper, scan_vars, comps>>

ScanHole ==
  /\ pc = "scan_hole"
  /\ IF HoleStarts(A, regions, SC, ij)
     THEN StartFollow(ij - NX, TRUE)
     ELSE AfterScanPixel /\ UNCHANGED follow_vars
  /\ UNCHANGED <<vals, regions, lookup, region, lower, upper, scan_vars, comps>>

\* ------------------------------------------------------------ _follow
FS == [ij |-> fij, forward |-> forward, left |-> left, prev_forward |-> prev_forward, pass |-> pass_,
       npoints |-> npoints, points |-> points, visited |-> visited, fin |-> FALSE]

FollowStep ==
  /\ pc = "follow"
  /\ LET f1 == FollowStepOp(A, regions, FS, regions[fstart], fhole, fstart) IN
     IF ~f1.fin
     THEN /\ fij' = f1.ij /\ forward' = f1.forward /\ left' = f1.left /\ prev_forward' = f1.prev_forward
          /\ npoints' = f1.npoints /\ points' = f1.points /\ visited' = f1.visited
          /\ UNCHANGED <<pc, ij, pass_, alloc, allocok, region_done, polygons, fstart, fhole>>
     ELSE \* end of the second pass: close the ring and hand it to _scan
          LET ring == Append(f1.points, f1.points[1]) IN
          /\ visited' = f1.visited
          /\ allocok' = (allocok /\ f1.npoints = alloc)
          /\ npoints' = f1.npoints /\ points' = f1.points
          /\ fij' = f1.ij /\ forward' = f1.forward /\ left' = f1.left /\ prev_forward' = f1.prev_forward
          /\ IF ~fhole
             THEN /\ polygons' = Append(polygons, [val |-> A.val[fstart], rings |-> <<ring>>])
                  /\ region_done' = regions[fstart]
                  /\ pc' = "scan_hole" /\ ij' = ij
             ELSE /\ polygons' = [polygons EXCEPT ![regions[fstart]].rings = Append(@, ring)]
                  /\ region_done' = region_done
                  /\ AfterScanPixel
          /\ UNCHANGED <<pass_, alloc, fstart, fhole>>
  /\ UNCHANGED <<vals, regions, lookup, region, lower, upper, comps>>

Next == LabelPixel \/ MergeStep \/ CompactLookup \/ ScanExt \/ ScanHole \/ FollowStep
Spec == Init /\ [][Next]_vars

\* ------------------------------------------------------------------ properties (C15)
Done == pc = "done"
Labelling == pc \in {"label", "merge"}
RowOf(k) == k \div NX
ColOf(k) == k % NX
Real(k) == ColOf(k) < W                         \* not in the column added for W = 1
Cell(k) == <<RowOf(k), ColOf(k)>>
Pixels == {k \in 0..NN-1 : Real(k) /\ InMask(A, k)}

\* the result
LosslessHolds == Done => Lossless(G, polygons)

\* ---- the labelling
RECURSIVE Root(_, _)
Root(lk, i) == IF lk[i] = 0 THEN i ELSE Root(lk, lk[i])
CompOf(p) == CHOOSE C \in comps : p \in C
Processed(k) == k < ij \/ (pc = "merge" /\ k = ij)

\* the merge forest always points to smaller ids (so chains end, and compaction reads ids already set)
LookupDecreasing == Labelling => \A i \in 1..NN : lookup[i] # 0 => lookup[i] < i
\* ids are handed out in scan order and never exceed the counter
IdsBounded == Labelling => \A k \in 0..NN-1 : regions[k] <= region
\* the forest never joins two components ...
ForestNeverJoins ==
  Labelling =>
    LET P == {k \in Pixels : Processed(k)}
        root == [k \in P |-> Root(lookup, regions[k])]
        comp == [k \in P |-> CompOf(Cell(k))]
    IN \A k1 \in P, k2 \in P : root[k1] = root[k2] => comp[k1] = comp[k2]
\* ... and between two pixels every pair of adjacent equal pixels already scanned is joined
ForestJoinsScanned ==
  pc = "label" =>
    LET P == {k \in Pixels : k < ij}
        root == [k \in P |-> Root(lookup, regions[k])]
    IN \A k1 \in P : \A q \in SameNbrs(G, Cell(k1)) :
          LET k2 == q[1] * NX + q[2] IN k2 < ij => root[k1] = root[k2]
\* after compaction: regions are the components, masked pixels are region 0, and ids are numbered
\* in the order of their first pixel (which _scan relies on: "regions[ij] == region_done+1")
Labelled == pc \in {"scan_ext", "scan_hole", "follow", "done"}
\* (regions is not written after compaction - every later action says UNCHANGED regions - so the two
\* statements about it are evaluated in the state right after compaction and in the final state only)
Compacted == (pc = "scan_ext" /\ ij = 0) \/ pc = "done"
RegionsAreComponents ==
  Compacted => /\ \A k \in 0..NN-1 : (regions[k] = 0) <=> (k \notin Pixels)
               /\ {{Cell(k2) : k2 \in {k3 \in Pixels : regions[k3] = regions[k1]}} : k1 \in Pixels} = comps
FirstPixelOrder ==
  Compacted => \A k \in 0..NN-1 : regions[k] > 1 => \E k0 \in 0..k : regions[k0] = regions[k] - 1

\* ---- the scan and the boundary following
\* a hole is only ever attached to a polygon that already exists
HoleOwnerExists == (pc = "follow" /\ fhole) => regions[fstart] \in 1..Len(polygons)
\* the second pass never writes past the array sized by the first pass, and fills it exactly
PointsFitAllocation == (pc = "follow" /\ pass_ = 1) => npoints <= alloc
AllocationExact == allocok
\* the boundary is closed within 4n steps (alloc = -1 records a counting pass that was not back at its start)
FollowTerminates == alloc >= 0
\* polygons are produced in region order
PolygonsInRegionOrder == Labelled => Len(polygons) = region_done
TypeOK == /\ pc \in {"label", "merge", "compact", "scan_ext", "scan_hole", "follow", "done"}
          /\ ij \in 0..NN-1 /\ region \in 0..NN /\ pass_ \in {0, 1}
          /\ \A k \in 0..NN-1 : visited[k] \in 0..3 /\ regions[k] \in 0..NN
=============================================================================
