----------------------------- MODULE PixelId_MC -----------------------------
(* Exhaustive check of the coordinate -> cell and snapping algorithms of PixelId.tla        *)
(* against their abstract definitions (constant level: the space is enumerated by ASSUME).  *)
(*   AXES      set of axes [den, o, s, n]                                                  *)
(*   PV        variant of Idx ("round" = the code, must pass; "trunc" = negative twin, the code    *)
(*             before fix 1c57f27)                                                          *)
(*   SV        variant of ScanNearest ("infinit" = the code, must pass; "maxinit" = negative  *)
(*             twin, the code before fix a4d4ad0)                                            *)
(*   SH, SW    grid on which every layout x every cell is snapped                          *)
EXTENDS PixelId, TLC

CONSTANTS AXES, PV, SV, SH, SW

\* test points: every centre displaced by k/10 of a step, k = -4..4 (never midway);
\* in units of 1/(10*den) so that everything stays an integer
Fine(ax) == [den |-> 10 * ax.den, o |-> 10 * ax.o, s |-> 10 * ax.s, n |-> ax.n]
PointOf(ax, i, k) == 10 * ax.o + 10 * i * ax.s + k * ax.s

OwnOK == \A ax \in AXES : OwnCoordinate(ax)
PixelOK == \A ax \in AXES : \A i \in 0..ax.n-1 : \A k \in -4..4 :
             /\ NearestIdx(Fine(ax), PointOf(ax, i, k)) = {i}
             /\ Idx(Fine(ax), PointOf(ax, i, k), PV) = i

Env(cr) == [H |-> SH, W |-> SW, cross |-> cr, conn |-> 8, gy |-> 0, gx |-> 0, mut |-> "none"]
SnapOK == \A cr \in [0..SH*SW-1 -> {0, 1}] : \A c \in 0..SH*SW-1 :
            LET e == Env(cr)  r == ScanNearest(e, c, SV) IN
            IF CrossSet(e) = {} THEN r = NONE ELSE r \in SnapSet(e, c)

\* points exactly midway are outside C14's domain; whatever the algorithm answers there must still be
\* one of the two nearest centres (checked for the positive variant only)
MidwayOK == PV = "round" => \A ax \in AXES : MidwayStillNearest(ax)

ASSUME OwnOK
ASSUME PixelOK
ASSUME MidwayOK
ASSUME SnapOK
=============================================================================
