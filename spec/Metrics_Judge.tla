--------------------------- MODULE Metrics_Judge ---------------------------
(* C19: the metric axioms evaluated by TLC on distance tables RECORDED from the real        *)
(* euclidean_distance / manhattan_distance / great_circle_distance, and the range           *)
(* validation of great_circle_distance as a case table.                                     *)
(*                                                                                          *)
(* kind = "plane":  metric "E" | "M", points (xs[i], ys[i]) integers (coordinates scaled by *)
(*     `scale`), obs[i][j] = observed distance: M -> distance*scale as an integer,          *)
(*     E -> (distance*scale)^2 as an integer; -2 = not such an integer, -3 = NaN/inf;       *)
(*     bits[i][j] = hex of the float64 bit pattern (exact symmetry).                        *)
(* kind = "sphere": lon[i], lat[i] integers in 1/sc degrees, m[i][j] = distance rounded to metres    *)
(*     (-3 = NaN/inf), zero[i][j] = 1 iff the float is exactly 0.0, bits as above,          *)
(*     piR = ceil(pi * radius) in metres, slack = 2 (metres, triangle inequality only),     *)
(*     ztol = 0: two names of one point are 0 m apart.  For arguments of a narrow type      *)
(*     (float32, small ints) numba evaluates the haversine in single precision; the driver  *)
(*     then widens slack / ztol / piR to that precision (64 m / 8 m / +16 m).               *)
(* kind = "range":  cls = <<c_x1, c_x2, c_y1, c_y2>>, each 1 below min, 2 = min, 3 inside,  *)
(*     4 = max, 5 above max;  raised = 1 iff the call raised ValueError; finite = 1 iff a   *)
(*     finite number was returned.                                                          *)
EXTENDS Integers, Sequences, FiniteSets, TLC, Json, IOUtils

Cases == ndJsonDeserialize(IOEnv.VERIF_CASES)

Abs(x) == IF x < 0 THEN -x ELSE x
SqrtTri(a, b, c) == c <= a + b \/ (c - a - b) * (c - a - b) <= 4 * a * b

\* ---------------------------------------------------------------- plane
PlaneAbs(c, i, j) ==
  LET dx == c.xs[i] - c.xs[j]
      dy == c.ys[i] - c.ys[j]
  IN IF c.metric = "M" THEN Abs(dx) + Abs(dy) ELSE dx * dx + dy * dy

PlaneV(c) ==
  LET n == Len(c.xs)
      I == 1..n
      same(i, j) == c.xs[i] = c.xs[j] /\ c.ys[i] = c.ys[j]
      badval == {<<i, j>> \in I \X I : c.obs[i][j] # PlaneAbs(c, i, j)}
      badsym == {<<i, j>> \in I \X I : c.bits[i][j] # c.bits[j][i]}
      badzero == {<<i, j>> \in I \X I : (c.obs[i][j] = 0) # same(i, j)}
      tri(i, j, k) == IF c.metric = "M" THEN c.obs[i][k] <= c.obs[i][j] + c.obs[j][k]
                      ELSE SqrtTri(c.obs[i][j], c.obs[j][k], c.obs[i][k])
      badfin == {<<i, j>> \in I \X I : c.obs[i][j] < 0}
      badtri == {<<i, j, k>> \in I \X I \X I : ~tri(i, j, k)}
  IN CASE badfin # {}  -> <<"value", ToString(CHOOSE x \in badfin : TRUE)>>
       [] badsym # {}  -> <<"symmetry", ToString(CHOOSE x \in badsym : TRUE)>>
       [] badzero # {} -> <<"zero_iff_coincident", ToString(CHOOSE x \in badzero : TRUE)>>
       [] badtri # {}  -> <<"triangle", ToString(CHOOSE x \in badtri : TRUE)>>
       [] badval # {}  -> <<"value", ToString(CHOOSE x \in badval : TRUE)>>
       [] OTHER        -> <<"ok", "">>

\* ---------------------------------------------------------------- sphere
\* two coordinate pairs name the same point of the sphere
SameOnSphere(c, i, j) ==
  /\ c.lat[i] = c.lat[j]
  /\ \/ c.lon[i] = c.lon[j]
     \/ Abs(c.lat[i]) = 90 * c.sc
     \/ {c.lon[i], c.lon[j]} = {(0 - 180) * c.sc, 180 * c.sc}

SphereV(c) ==
  LET n == Len(c.lon)
      I == 1..n
      ident(i, j) == c.lon[i] = c.lon[j] /\ c.lat[i] = c.lat[j]
      badfin == {<<i, j>> \in I \X I : c.m[i][j] < 0}
      badsym == {<<i, j>> \in I \X I : c.bits[i][j] # c.bits[j][i]}
      \* identical arguments -> exactly 0.0 ; same point of the sphere -> 0 m ; different points -> > 0
      badzero == {<<i, j>> \in I \X I :
                    \/ ident(i, j) /\ c.zero[i][j] # 1
                    \/ SameOnSphere(c, i, j) /\ c.m[i][j] > c.ztol
                    \/ ~SameOnSphere(c, i, j) /\ (c.m[i][j] <= c.ztol \/ c.zero[i][j] = 1)}
      badhalf == {<<i, j>> \in I \X I : c.m[i][j] > c.piR}
      badtri == {<<i, j, k>> \in I \X I \X I : c.m[i][k] > c.m[i][j] + c.m[j][k] + c.slack}
  IN CASE badfin # {}  -> <<"finite", ToString(CHOOSE x \in badfin : TRUE)>>
       [] badsym # {}  -> <<"symmetry", ToString(CHOOSE x \in badsym : TRUE)>>
       [] badzero # {} -> <<"zero_iff_coincident", ToString(CHOOSE x \in badzero : TRUE)>>
       [] badhalf # {} -> <<"half_circumference", ToString(CHOOSE x \in badhalf : TRUE)>>
       [] badtri # {}  -> <<"triangle", ToString(CHOOSE x \in badtri : TRUE)>>
       [] OTHER        -> <<"ok", "">>

\* ---------------------------------------------------------------- range validation
RangeV(c) ==
  LET outside == \E k \in 1..4 : c.cls[k] \in {1, 5}
  IN CASE outside /\ c.raised = 0  -> <<"range_outside_accepted", ToString(c.cls)>>
       [] ~outside /\ c.raised = 1 -> <<"range_inside_rejected", ToString(c.cls)>>
       [] ~outside /\ c.finite = 0 -> <<"finite", ToString(c.cls)>>
       [] OTHER -> <<"ok", "">>

V(c) == CASE c.kind = "plane"  -> PlaneV(c)
          [] c.kind = "sphere" -> SphereV(c)
          [] c.kind = "range"  -> RangeV(c)

ASSUME \A i \in 1..Len(Cases) : LET v == V(Cases[i]) IN PrintT(<<"VERDICT", i, v[1], v[2]>>)
=============================================================================
