------------------------ MODULE Polygonize_MergeJudge ------------------------
(* C15: the compiled _merge_regions driven directly with a sequence of merge(lower, upper)   *)
(* calls (direct drive, DESIGN 2.3).  case = [m (largest id), seq (<<lower, upper>> pairs),   *)
(* lookup (observed region_lookup[0..m] after the last call)].  TLC folds the model's          *)
(* MergeRegions over the same sequence and checks the forest against the partition generated   *)
(* by the pairs.  These states need not be reachable through polygonize(): a failure is       *)
(* reported as drift by the driver (DESIGN 3, rule 5).                                        *)
EXTENDS PolygonizeOps, TLC, Json, IOUtils

Cases == ndJsonDeserialize(IOEnv.VERIF_CASES)

AEnv == [mut |-> "none"]
RECURSIVE Fold(_, _, _)
Fold(c, lk, k) == IF k > Len(c.seq) THEN lk ELSE Fold(c, MergeRegions(AEnv, lk, c.seq[k][1], c.seq[k][2]), k + 1)
Model(c) == Fold(c, [i \in 0..c.m |-> 0], 1)

Obs(c) == [i \in 0..c.m |-> c.lookup[i + 1]]
RECURSIVE ORoot(_, _, _)
ORoot(lk, i, fuel) == IF lk[i] = 0 \/ fuel = 0 THEN i ELSE ORoot(lk, lk[i], fuel - 1)

\* ids connected by the pairs: least fixpoint
RECURSIVE Reach(_, _)
Reach(c, S) ==
  LET T == S \cup {c.seq[k][1] : k \in {k \in 1..Len(c.seq) : c.seq[k][2] \in S}}
             \cup {c.seq[k][2] : k \in {k \in 1..Len(c.seq) : c.seq[k][1] \in S}}
  IN IF T = S THEN S ELSE Reach(c, T)

Clause(c) ==
  LET lk == Obs(c) IN
  IF \E i \in 1..c.m : lk[i] # 0 /\ lk[i] >= i THEN "lookup_not_decreasing"
  ELSE IF \E i \in 1..c.m : \E j \in Reach(c, {i}) : ORoot(lk, i, c.m) # ORoot(lk, j, c.m) THEN "merged_ids_left_unconnected"
  ELSE IF \E i \in 1..c.m, j \in 1..c.m : ORoot(lk, i, c.m) = ORoot(lk, j, c.m) /\ j \notin Reach(c, {i}) THEN "unmerged_ids_connected"
  ELSE "ok"

Drift(c) == IF Model(c) = Obs(c) THEN "steps_ok" ELSE "drift_lookup_differs_from_model"

ASSUME \A i \in 1..Len(Cases) : PrintT(<<"VERDICT", i, Clause(Cases[i]), Drift(Cases[i])>>)
=============================================================================
