------------------------------ MODULE Classify ------------------------------
(* C12 - the hand-written binary search of xrspatial.classify._cpu_bin (used by reclassify, *)
(* quantile, equal_interval, natural_breaks) as a state machine: the code's variables        *)
(* start, end, mid, val_bin, one step per loop iteration (ClassifyOps!BSStep).               *)
(*                                                                                           *)
(* Initial states: EVERY ascending bin list (duplicates allowed) of length 1..MAXLEN over    *)
(* 0..MAXV x EVERY position of a value relative to the bins: the half-integers from -1/2 to  *)
(* MAXV + 1/2 (below, on, between, above), and NaN, +inf, -inf.                              *)
(* Property: the search terminates with val_bin = the first i with bins[i] >= v, and -1      *)
(* (NaN) above the last bin and for non-finite values.                                       *)
(* MUT: "none" or a deliberately broken search (negative twins).                             *)
EXTENDS ClassifyOps, TLC

CONSTANTS MAXLEN, MAXV, MUT

VARIABLES bins, v2, st
vars == <<bins, v2, st>>

Ascending(s) == \A i \in 1..(Len(s) - 1) : s[i] <= s[i + 1]
BinLists == UNION {{s \in [1..n -> 0..MAXV] : Ascending(s)} : n \in 1..MAXLEN}
Values2 == (-1..(2 * MAXV + 1)) \cup {NaN, PInf, NInf}

Init == /\ bins \in BinLists
        /\ v2 \in Values2
        /\ st = BSInit

Next == /\ st.pc # "done"
        /\ st' = BSStep(bins, v2, st, MUT)
        /\ UNCHANGED <<bins, v2>>

Spec == Init /\ [][Next]_vars /\ WF_vars(Next)

N == Len(bins)
Answer == FirstGE2(bins, v2)

TypeOK == /\ st.pc \in {"first", "loop", "done"}
          /\ st.start \in 0..N /\ st.end \in -1..(N - 1) /\ st.mid \in -1..(N - 1)
          /\ st.val_bin \in -1..(N - 1)

\* ---- the property
ResultIsFirstGE == st.pc = "done" => st.val_bin = Answer
NonFiniteIsNaN == st.pc = "done" /\ ~IsFinite(v2) => st.val_bin = -1
AboveLastIsNaN == st.pc = "done" /\ IsFinite(v2) /\ v2 > 2 * bins[N] => st.val_bin = -1
FiniteInRangeGetsBin == st.pc = "done" /\ IsFinite(v2) /\ v2 <= 2 * bins[N] => st.val_bin \in 0..(N - 1)

\* ---- loop invariants of the search
\* the answer is >= 1 once the loop runs, and it always lies in the window start..end
WindowHoldsAnswer == st.pc = "loop" /\ st.start <= st.end => Answer \in st.start..st.end
\* everything left of the window is < v, everything right of it is >= v
LeftBelow == st.pc = "loop" => \A i \in 0..(st.start - 1) : 2 * bins[i + 1] < v2
RightAtLeast == st.pc = "loop" => \A i \in (st.end + 1)..(N - 1) : 2 * bins[i + 1] >= v2
MidIsMiddle == st.pc = "loop" => st.mid = (st.start + st.end) \div 2
\* bins[mid - 1] is only read with mid >= 1: the negative index never wraps to the last bin
NoWrapAround == st.pc = "loop" /\ st.start <= st.end /\ 2 * bins[st.mid + 1] >= v2 => st.mid >= 1
\* the loop is only left through `break`: the window never becomes empty
NeverExhausted == st.pc = "loop" => st.start <= st.end

\* ---- termination: every step changes the state, and the variant end - start decreases
StepMakesProgress == st.pc # "done" => BSStep(bins, v2, st, MUT) # st
Terminates == <>(st.pc = "done")
VariantDecreases == [][st.pc = "loop" /\ st'.pc = "loop" => st'.end - st'.start < st.end - st.start]_vars
=============================================================================
