--------------------------- MODULE Aliasing_Trace ---------------------------
(* Trace validation for C10.  One case = one SESSION replayed in one process of the real library: *)
(*   init   : objects in the store before the first call                                           *)
(*   events : alternating                                                                          *)
(*     call  [f, args, cfg <<backend,dtype,layout>> | <<"","","">>, fam, raised, new (inputs built for  *)
(*            this call, they enter the heap before it), objs (every pre-existing object AFTER the *)
(*            call), res (result record)]                                                          *)
(*     probe [objs (every object after the harness wrote into the result's buffers),               *)
(*            store (the store after the harness restored the result and added it)]                *)
(* The state of the monitor is the observed heap/object state; each event must be a step the      *)
(* Aliasing model allows: Call(f,args) /\ logged fields, judged with the SAME clause operators     *)
(* (AliasOps) that the model is checked against.  TLC prints one verdict per session: the first    *)
(* failing clause, the index of the failing event and the function.                                *)
EXTENDS AliasOps, Json, IOUtils

Cases == ndJsonDeserialize(IOEnv.VERIF_CASES)

VARIABLES tid, l, objs, phase, lastf, lastargs, lastres, verdict, where, note
vars == <<tid, l, objs, phase, lastf, lastargs, lastres, verdict, where, note>>

Tr == Cases[tid]
NoRes == [kind |-> "none", bufs |-> <<>>, wr |-> FALSE]

Init == /\ tid \in 1..Len(Cases) /\ l = 1 /\ objs = Tr.init /\ phase = "idle"
        /\ lastf = "" /\ lastargs = <<>> /\ lastres = NoRes
        /\ verdict = "ok" /\ where = "" /\ note = ""

Ev == Tr.events[l]
HasCfg(e) == e.cfg[1] # "" /\ e.fam = "std"     \* the non-finite family may be refused by a function (outside its domain)
Sup(e) == Supported(e.f, e.cfg[1], e.cfg[2], e.cfg[3])

\* IsEvent("call") /\ Call(f, args) /\ logged post-state
CallEv ==
  /\ phase = "idle" /\ l <= Len(Tr.events) /\ Ev.ev = "call"
  /\ LET e == Ev
         P == objs \o e.new
     IN IF e.raised
        THEN \* the library refused the configuration: outside the domain (errors are not mutations)
             /\ note' = IF HasCfg(e) /\ Sup(e) /\ note = "" THEN "drift_supported_but_raised_" \o e.f ELSE note
             /\ phase' = "stopped" /\ UNCHANGED <<objs, verdict, where, lastf, lastargs, lastres>>
        ELSE LET c == IF e.f \notin AllFuncs THEN "unknown_function"
                      \* a non-raster array argument (kernel, transform) was edited: "no function changes the values of the
                      \* arguments passed to it"
                      ELSE IF e.argchg THEN "argument_array_changed"
                      ELSE CallClause(e.f, e.args, P, e.objs, e.res) IN
             /\ verdict' = IF verdict = "ok" THEN c ELSE verdict
             /\ where' = IF verdict = "ok" /\ c # "ok" THEN e.f \o "@" \o ToString(l) ELSE where
             /\ note' = IF HasCfg(e) /\ ~Sup(e) /\ note = "" THEN "drift_unsupported_but_ran_" \o e.f ELSE note
             /\ objs' = e.objs /\ phase' = "called"
             /\ lastf' = e.f /\ lastargs' = e.args /\ lastres' = e.res
  /\ l' = l + 1 /\ UNCHANGED tid

\* IsEvent("probe") /\ Probe /\ logged post-state
ProbeEv ==
  /\ phase = "called" /\ l <= Len(Tr.events) /\ Ev.ev = "probe"
  /\ LET e == Ev
         c == ProbeOK(lastf, lastargs, objs, e.objs, lastres)
     IN /\ verdict' = IF verdict = "ok" THEN c ELSE verdict
        /\ where' = IF verdict = "ok" /\ c # "ok" THEN lastf \o "@" \o ToString(l) ELSE where
        /\ objs' = e.store /\ phase' = "idle"
  /\ l' = l + 1 /\ UNCHANGED <<tid, note, lastf, lastargs, lastres>>

Judge ==
  /\ phase \in {"idle", "stopped"} /\ (l = Len(Tr.events) + 1 \/ phase = "stopped")
  /\ PrintT(<<"VERDICT", tid, verdict, IF where # "" THEN where ELSE IF note # "" THEN note ELSE "session_ok">>)
  /\ phase' = "judged"
  /\ UNCHANGED <<tid, l, objs, lastf, lastargs, lastres, verdict, where, note>>

\* a log that does not alternate call / probe is the harness's fault, never a verdict on the library
Malformed ==
  /\ phase \in {"idle", "called"} /\ l <= Len(Tr.events)
  /\ ~(phase = "idle" /\ Ev.ev = "call") /\ ~(phase = "called" /\ Ev.ev = "probe")
  /\ PrintT(<<"VERDICT", tid, "malformed_log", "drift_event_" \o ToString(l)>>)
  /\ phase' = "judged"
  /\ UNCHANGED <<tid, l, objs, lastf, lastargs, lastres, verdict, where, note>>
Truncated ==
  /\ phase = "called" /\ l = Len(Tr.events) + 1
  /\ PrintT(<<"VERDICT", tid, "malformed_log", "drift_probe_missing">>)
  /\ phase' = "judged"
  /\ UNCHANGED <<tid, l, objs, lastf, lastargs, lastres, verdict, where, note>>

Next == CallEv \/ ProbeEv \/ Judge \/ Malformed \/ Truncated
Spec == Init /\ [][Next]_vars
=============================================================================
