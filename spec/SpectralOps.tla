------------------------------ MODULE SpectralOps ------------------------------
(* C13 - the ten spectral indices of xrspatial.multispectral as exact rational functions,  *)
(* plus the alpha rule of true_color.  Shared by Spectral.tla (exhaustive model) and       *)
(* Spectral_Judge.tla (observations of the real functions).                                *)
(*                                                                                         *)
(* Two layers:                                                                             *)
(*  * Formula(idx, bands, par)  - the ABSTRACT definition: the formula each function       *)
(*    publishes, over band NAMES (a record nir/red/blue/green/swir1/swir2/swir/tir).       *)
(*    The library's own forms are the reference (DESIGN 3 rule 6): ARVI has +blue in the   *)
(*    denominator, SAVI divides by (1+L), EBBI takes the band it calls red.                *)
(*  * Code(idx, args, par, m)   - the code-shaped layer: the public wrapper receives its   *)
(*    POSITIONAL arguments `args` (signature order), hands them to a per-cell kernel in    *)
(*    some slot order; the kernel has the explicit `denominator != 0` guard over a         *)
(*    NaN-initialised output.  m selects "none" or a deliberately broken variant.          *)
(*                                                                                         *)
(* Values: bands are integers or NAN.  Parameters are carried in HALVES (integer = 2 x     *)
(* value): par = <<c1h, c2h, Lh, Gh>> for c1, c2, soil_factor, gain.                       *)
(* Results: <<p, q>> with q > 0 is the rational p/q;  <<0, 0>> is NaN;  <<+-1, 0>> is      *)
(* +-infinity (only a broken kernel produces it).  EBBI = (swir-red)/(10 sqrt(swir+tir))   *)
(* is irrational in general: its result is given as the SIGNED SQUARE times 100,           *)
(* 100 * x * |x| = (swir-red)|swir-red| / (swir+tir), which is rational and order-         *)
(* isomorphic to x; a negative radicand gives sqrt = NaN, hence NaN; a zero radicand gives *)
(* denominator 0, hence NaN.                                                               *)
EXTENDS Integers, Sequences, FiniteSets

NAN == -2000000000        \* sentinel; never enters arithmetic (would overflow TLC's 32-bit integers)
RNaN == <<0, 0>>
IsNaN(v) == v = NAN
Abs(x) == IF x < 0 THEN -x ELSE x
Sgn(x) == IF x < 0 THEN -1 ELSE IF x > 0 THEN 1 ELSE 0

Indices == {"arvi", "evi", "gci", "nbr", "nbr2", "ndvi", "ndmi", "savi", "sipi", "ebbi"}
NRFamily == {"nbr", "nbr2", "ndvi", "ndmi"}          \* the wrappers over the shared normalised-ratio kernel

\* public signatures: band names in positional order
Sig(idx) ==
  CASE idx = "arvi" -> <<"nir", "red", "blue">>
    [] idx = "evi"  -> <<"nir", "red", "blue">>
    [] idx = "gci"  -> <<"nir", "green">>
    [] idx = "nbr"  -> <<"nir", "swir2">>
    [] idx = "nbr2" -> <<"swir1", "swir2">>
    [] idx = "ndvi" -> <<"nir", "red">>
    [] idx = "ndmi" -> <<"nir", "swir1">>
    [] idx = "savi" -> <<"nir", "red">>
    [] idx = "sipi" -> <<"nir", "red", "blue">>
    [] idx = "ebbi" -> <<"red", "swir", "tir">>
Arity(idx) == Len(Sig(idx))

\* p/q with the sign carried by p; q = 0: undefined -> NaN (the guard), never +-inf
Ratio(p, q) == IF q = 0 THEN RNaN ELSE IF q < 0 THEN <<-p, -q>> ELSE <<p, q>>
\* the same division WITHOUT the guard (what IEEE would give): x/0 = +-inf, 0/0 = NaN
RatioUnguarded(p, q) == IF q = 0 THEN <<Sgn(p), 0>> ELSE IF q < 0 THEN <<-p, -q>> ELSE <<p, q>>

\* ------------------------------------------------------------------ abstract layer: formulas over band names
\* B is a record of the named bands the index uses (all finite here; NaN handled in Formula)
FormulaFinite(idx, B, par) ==
  CASE idx = "arvi" -> Ratio(B.nir - 2 * B.red + B.blue, B.nir + 2 * B.red + B.blue)
    [] idx = "evi"  -> \* G (nir - red) / (nir + c1 red - c2 blue + L), all doubled
                       Ratio(par[4] * (B.nir - B.red), 2 * B.nir + par[1] * B.red - par[2] * B.blue + par[3])
    [] idx = "gci"  -> Ratio(B.nir - B.green, B.green)                       \* nir/green - 1
    [] idx = "nbr"  -> Ratio(B.nir - B.swir2, B.nir + B.swir2)
    [] idx = "nbr2" -> Ratio(B.swir1 - B.swir2, B.swir1 + B.swir2)
    [] idx = "ndvi" -> Ratio(B.nir - B.red, B.nir + B.red)
    [] idx = "ndmi" -> Ratio(B.nir - B.swir1, B.nir + B.swir1)
    [] idx = "savi" -> \* (nir - red) / ((nir + red + L)(1 + L)), numerator and denominator times 4
                       Ratio(4 * (B.nir - B.red), (2 * B.nir + 2 * B.red + par[3]) * (2 + par[3]))
    [] idx = "sipi" -> Ratio(B.nir - B.blue, B.nir - B.red)
    [] idx = "ebbi" -> IF B.swir + B.tir <= 0 THEN RNaN
                       ELSE Ratio((B.swir - B.red) * Abs(B.swir - B.red), B.swir + B.tir)

Named(idx, args) == [n \in {Sig(idx)[i] : i \in 1..Arity(idx)} |->
                       args[CHOOSE i \in 1..Arity(idx) : Sig(idx)[i] = n]]
AnyNaN(args) == \E i \in 1..Len(args) : IsNaN(args[i])
Formula(idx, args, par) == IF AnyNaN(args) THEN RNaN ELSE FormulaFinite(idx, Named(idx, args), par)

\* ------------------------------------------------------------------ code layer: wrapper -> kernel slots
\* the shared kernel  _normalized_ratio_cpu(arr1, arr2)
NRKernel(v1, v2, m) ==
  IF m = "nonanprop" THEN          \* broken: NaN treated as 0
      LET a == IF IsNaN(v1) THEN 0 ELSE v1  b == IF IsNaN(v2) THEN 0 ELSE v2 IN Ratio(a - b, a + b)
  ELSE IF IsNaN(v1) \/ IsNaN(v2) THEN RNaN          \* NaN arithmetic: NaN != 0 is true, NaN/NaN stored
  ELSE IF m = "noguard" THEN RatioUnguarded(v1 - v2, v1 + v2)
  ELSE IF m = "wrap16" THEN Ratio((v1 - v2) % 16, (v1 + v2) % 16)        \* broken: arithmetic in a narrow integer type
  ELSE Ratio(v1 - v2, v1 + v2)

\* which positional argument of the wrapper lands in which kernel slot
Slots(idx, args, m) ==
  IF m = "swapslots" /\ idx = "nbr2" THEN <<args[2], args[1]>>
  ELSE IF m = "swapslots" /\ idx = "ebbi" THEN <<args[2], args[1], args[3]>>
  ELSE args

Code(idx, args, par, m) ==
  LET s == Slots(idx, args, m) IN
  IF idx \in NRFamily THEN NRKernel(s[1], s[2], m)
  ELSE IF AnyNaN(s) THEN RNaN
  ELSE LET R(p, q) == IF m = "noguard" THEN RatioUnguarded(p, q) ELSE Ratio(p, q) IN
    CASE idx = "arvi" -> R(s[1] - 2 * s[2] + s[3], s[1] + 2 * s[2] + s[3])                 \* _arvi_cpu(nir, red, blue)
      [] idx = "evi"  -> R(par[4] * (s[1] - s[2]), 2 * s[1] + par[1] * s[2] - par[2] * s[3] + par[3])
      [] idx = "gci"  -> R(s[1] - s[2], s[2])                                              \* _gci_cpu(nir, green)
      [] idx = "savi" -> R(4 * (s[1] - s[2]), (2 * s[1] + 2 * s[2] + par[3]) * (2 + par[3]))
      [] idx = "sipi" -> R(s[1] - s[3], s[1] - s[2])                                       \* _sipi_cpu(nir, red, blue)
      [] idx = "ebbi" -> IF s[2] + s[3] < 0 THEN RNaN                                      \* _ebbi_cpu(red, swir, tir)
                         ELSE R((s[2] - s[1]) * Abs(s[2] - s[1]), s[2] + s[3])

\* ------------------------------------------------------------------ exact rationals
RIsNaN(a) == a = RNaN
RIsInf(a) == a[2] = 0 /\ a[1] # 0
REq(a, b) == IF a[2] = 0 \/ b[2] = 0 THEN a = b ELSE a[1] * b[2] = b[1] * a[2]
RNeg(a) == <<-a[1], a[2]>>
RLe(a, b) == a[1] * b[2] <= b[1] * a[2]            \* both finite
RInUnit(a) == a[2] > 0 /\ -a[2] <= a[1] /\ a[1] <= a[2]          \* in [-1, 1]

\* does scaling every band by a common factor leave the index unchanged?  (EVI / SAVI only without the soil term)
ScaleInvariant(idx, par) ==
  CASE idx \in {"evi", "savi"} -> par[3] = 0
    [] idx = "ebbi" -> FALSE                       \* scales with the square root (signed square: linearly)
    [] OTHER -> TRUE

\* ------------------------------------------------------------------ true_color
\* alpha channel: 0 where red is NaN or red <= nodata, 255 elsewhere (nodata in halves)
Alpha(red, nodata2) == IF IsNaN(red) \/ 2 * red <= nodata2 THEN 0 ELSE 255
=============================================================================
