---------------------------- MODULE CellSize_MC ----------------------------
(* Lemmas about the cell-size case analysis (CellSize.tla), evaluated by TLC over the     *)
(* complete small scope below (constant level: no behaviours).  MUT = "none" checks the   *)
(* specification; any other value selects a broken variant that TLC must reject.          *)
EXTENDS CellSize, TLC
CONSTANT MUT

\* ---------------------------------------------------------------------------------------
\* Lemmas, evaluated by TLC over the complete small scope below (constant level).
Steps == {<<1,1>>, <<2,1>>, <<3,1>>, <<1,2>>}          \* coordinate spacings 1, 2, 3, 1/2
Ns == {2, 3, 4}
Step2(s) == (2 * s[1]) \div s[2]          \* the spacing s = <<n,d>> in units of 1/2
Ramp(x0, st, n, desc) ==                 \* n equally spaced coordinates from x0, integer step st
  [i \in 1..n |-> IF desc THEN x0 + (n - i) * st ELSE x0 + (i - 1) * st]

\* equally spaced coordinates, ascending or descending, any origin: the resolution is the spacing
L_Spacing ==
  \A sx \in Steps, sy \in Steps, W \in Ns, H \in Ns, dx \in BOOLEAN, dy \in BOOLEAN, x0 \in {-3, 0, 5} :
    LET xs == Ramp(x0, Step2(sx), W, dx)        \* common denominator 2
        ys == Ramp(-x0, Step2(sy), H, dy)
        r == ResolutionM(MUT, "none", <<0,1>>, <<0,1>>, xs, ys, 2, H, W)
    IN CsEq(r[1], sx) /\ CsEq(r[2], sy) /\ CsPos(r[1]) /\ CsPos(r[2])

\* a usable `res` wins over the coordinates, x first; unusable ones fall back to the coordinates
L_Priority ==
  \A k \in ResKinds, sx \in Steps, sy \in Steps :
    LET xs == Ramp(0, 3, 3, FALSE)
        ys == Ramp(0, 2, 4, TRUE)
        r == ResolutionM(MUT, k, sx, sy, xs, ys, 1, 4, 3)
    IN /\ UsesPair(k) => r = <<sx, sy>>
       /\ UsesScalar(k) => r = <<sx, sx>>
       /\ UsesCoords(k) => CsEq(r[1], <<3,1>>) /\ CsEq(r[2], <<2,1>>)

\* no coordinates and no res: unit cells
L_Default == \A H \in Ns, W \in Ns : ResolutionM(MUT, "none", <<0,1>>, <<0,1>>, <<>>, <<>>, 1, H, W) = <<<<1,1>>, <<1,1>>>>

\* x is bound to the LAST dimension: exchanging the two coordinate vectors (and the shape) exchanges the result
L_Axes ==
  \A sx \in Steps, sy \in Steps :
    LET xs == Ramp(1, Step2(sx), 3, FALSE)
        ys == Ramp(7, Step2(sy), 4, TRUE)
        r1 == ResolutionM(MUT, "none", <<0,1>>, <<0,1>>, xs, ys, 2, 4, 3)
        r2 == ResolutionM(MUT, "none", <<0,1>>, <<0,1>>, ys, xs, 2, 3, 4)
    IN CsEq(r1[1], r2[2]) /\ CsEq(r1[2], r2[1]) /\ CsEq(r1[1], sx) /\ CsEq(r1[2], sy)

ASSUME L_Spacing
ASSUME L_Priority
ASSUME L_Default
ASSUME L_Axes
=============================================================================
