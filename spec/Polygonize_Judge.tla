-------------------------- MODULE Polygonize_Judge --------------------------
(* C15: judge of observations of the real xrspatial.experimental.polygonize().             *)
(* One case = one public call polygonize(raster, mask, connectivity, transform,             *)
(* return_type="numpy"), recorded by harness/workers/polygonize_worker.py:                  *)
(*   H, W, conn   raster shape (ny, nx), connectivity 4 | 8                                 *)
(*   raw          H x W cell values as integer codes (the value itself for integer rasters, *)
(*                twice the value for float rasters whose values are multiples of 1/2)       *)
(*   mask         H x W, 1 = cell takes part, 0 = masked out (all 1 when no mask was given)  *)
(*   tr           the affine transform <<a, b, c, d, e, f>> as integers, multiplied by the    *)
(*                case's denominator; identity when none was supplied                         *)
(*   polys        the returned polygons: [val (code of the column entry), rings]; a ring is   *)
(*                the returned vertex list, coordinates multiplied by the same denominator    *)
(*                (a coordinate that is not an integer after that is sent as -1000000)         *)
(*   regs         output of the compiled _calculate_regions on the same input (flat), or <<>>  *)
(*   idx, base, maskenum   claimed position of the case in the exhaustive enumeration; TLC     *)
(*                re-derives it (idx = -1: not enumerated)                                     *)
(*   steps        1: also evaluate the algorithm model and compare (drift)                     *)
(* TLC prints <<"VERDICT", i, clause, drift>>.  The clause is decided on the *pre-image* of    *)
(* the returned vertices under the transform: every vertex must be the affine image of a cell  *)
(* corner, and the polygons over those corners must be Lossless for the raster.                *)
EXTENDS PolygonizeOps, TLC, Json, IOUtils

Cases == ndJsonDeserialize(IOEnv.VERIF_CASES)

Identity == <<1, 0, 0, 0, 1, 0>>

Env(c) == [H |-> c.H, W |-> c.W, conn |-> c.conn,
           v |-> [r \in 0..c.H-1 |-> [k \in 0..c.W-1 |->
                    IF c.mask[r+1][k+1] = 1 THEN c.raw[r+1][k+1] ELSE NANV]]]

RECURSIVE PosIn(_, _, _)
PosIn(base, x, k) == IF k > Len(base) THEN -1 ELSE IF base[k] = x THEN k - 1 ELSE PosIn(base, x, k + 1)
RECURSIVE EnumIndex(_, _, _)
EnumIndex(c, k, acc) ==            \* acc = <<raw index, mask index>>
  IF k = c.H * c.W THEN acc
  ELSE LET d == PosIn(c.base, c.raw[(k \div c.W) + 1][(k % c.W) + 1], 1)
           m == c.mask[(k \div c.W) + 1][(k % c.W) + 1]
       IN IF d < 0 THEN <<-1, -1>> ELSE EnumIndex(c, k + 1, <<acc[1] * Len(c.base) + d, acc[2] * 2 + m>>)
RECURSIVE Pow2(_)
Pow2(k) == IF k = 0 THEN 1 ELSE 2 * Pow2(k - 1)
ClaimedIndexOK(c) ==
  LET e == EnumIndex(c, 0, <<0, 0>>) IN
  IF c.maskenum = 1 THEN c.idx = e[1] * Pow2(c.H * c.W) + e[2]
  ELSE c.idx = e[1] /\ e[2] = Pow2(c.H * c.W) - 1

Pre(c) == PreImagePolys(Env(c), c.tr, c.polys)

Clause(c) ==
  IF c.idx >= 0 /\ ~ClaimedIndexOK(c) THEN "enum_index_mismatch"
  ELSE
  LET g == Env(c)
      pre == Pre(c)
      lost == \E k \in 1..Len(pre) : \E h \in 1..Len(pre[k].rings) :
                 \E m \in 1..Len(pre[k].rings[h]) : pre[k].rings[h][m] = <<-1, -1>>
  IN IF lost THEN (IF c.tr = Identity THEN "vertex_not_a_cell_corner"
                   ELSE "vertex_not_affine_image_of_a_cell_corner")
     ELSE LosslessClause(g, pre)

Drift(c) ==
  IF c.steps # 1 THEN "nosteps"
  ELSE LET a == Flat(Env(c), "none")
           mregs == CalculateRegions(a)
       IN IF c.regs # <<>> /\ c.regs # [k \in 1..a.n |-> mregs[k-1]] THEN "drift_regions_differ_from_model"
          ELSE IF Polygonize(a) # Pre(c) THEN "drift_polygons_differ_from_model"
          ELSE "steps_ok"

ASSUME \A i \in 1..Len(Cases) : PrintT(<<"VERDICT", i, Clause(Cases[i]), Drift(Cases[i])>>)
=============================================================================
