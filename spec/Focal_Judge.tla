---------------------------- MODULE Focal_Judge ----------------------------
(* C09: verdicts on the outputs OBSERVED from the real focal.apply / focal_stats / mean /    *)
(* hotspots / _calc_hotspots_numpy and convolution.convolution_2d (abstract definitions:     *)
(* FocalOps.tla).  Values are rationals <<n, d>> in lowest terms, <<0,0>> = NaN, <<1,0>> =   *)
(* a float that is not within tolerance of any admissible rational (never equal to an        *)
(* expected value).  The statistic "std" is observed as its square.                          *)
(*   kind "apply": X, K (0/1), outs = sequence of [red, out], offset (see Exp)                *)
(*   kind "mean" : X, passes, excl (sequence of values), out, only_excl (0/1, see MeanV)      *)
(*   kind "conv" : X, Wt (rational weights), out                                             *)
(*   kind "hot"  : X (integers), K (0/1), out, outneg (result on the negated raster), as     *)
(*                 integer matrices; band = borderline half-width in thousandths of z        *)
(*   kind "ladder": zs (z in thousandths), outs (what _calc_hotspots_numpy returned)         *)
(* The raster may have been NumPy- or Dask-backed (any chunking): the expected value is the   *)
(* definition in both cases.                                                                  *)
EXTENDS FocalOps, TLC, Json, IOUtils

Cases == ndJsonDeserialize(IOEnv.VERIF_CASES)

CellsOf(X) == (1..Rows(X)) \X (1..Cols(X))
First(S) == CHOOSE p \in S : \A q \in S : p[1] < q[1] \/ (p[1] = q[1] /\ p[2] <= q[2])
BuiltIn == {"mean", "max", "min", "range", "std", "var", "sum"}

\* ---------------------------------------------------------------- apply / focal_stats
\* c.offset # 0: the library saw the raster offset + X (large offset, small spread); X holds the deviations.
\* Variance, std, range and the NaN count are translation invariant; mean / max / min / the positioned values move
\* by the offset, the sum by offset * (number of finite cells of the window).
Exp(c, red, buf) ==
  LET v == Red(red, buf) IN
  IF c.offset = 0 \/ IsNaN(v) THEN v
  ELSE CASE red \in {"mean", "max", "min", "at_0_0", "at_0_last", "at_last_0", "at_centre"} -> Add(v, Q(c.offset))
         [] red = "sum" -> Add(v, Q(c.offset * Len(FinVals(buf))))
         [] OTHER -> v

ApplyV(c) ==
  LET bad == {p \in CellsOf(c.X) :
                LET buf == Buffer(c.X, c.K, p[1], p[2])
                IN \E k \in 1..Len(c.outs) : c.outs[k].out[p[1]][p[2]] # Exp(c, c.outs[k].red, buf)}
  IN IF bad = {} THEN <<"ok", "">>
     ELSE LET p == First(bad)
              buf == Buffer(c.X, c.K, p[1], p[2])
              k == CHOOSE k \in 1..Len(c.outs) : c.outs[k].out[p[1]][p[2]] # Exp(c, c.outs[k].red, buf)
                                                /\ \A m \in 1..(k-1) : c.outs[m].out[p[1]][p[2]] = Exp(c, c.outs[m].red, buf)
              red == c.outs[k].red
          IN <<(IF red \in BuiltIn THEN "stat_" ELSE "reducer_") \o red,
               ToString(<<p, c.outs[k].out[p[1]][p[2]], Exp(c, red, buf)>>)>>

\* ---------------------------------------------------------------- mean
\* "a cell is passed through iff its value EQUALS (NaN = NaN) a listed value; every other cell is the window mean".
\* Values that are not small rationals (0.1, -9999.9, 2^24+1 ...) are carried as the exact rationals they denote
\* (the float bridge maps the observed float to that rational); only_excl = 1 restricts the verdict to the
\* pass-through clause on rasters whose iterated means would not fit TLC's 32-bit integers: a cell excluded in
\* the input keeps its value in every pass, so it must come out untouched.
MeanV(c) ==
  LET dev == MeanIter(c.X, c.excl, c.passes)      \* on the deviations; the mean moves with the offset
      exp == IF c.offset = 0 THEN dev
             ELSE [r \in 1..Rows(dev) |-> [q \in 1..Cols(dev) |->
                     IF IsNaN(dev[r][q]) THEN dev[r][q] ELSE Add(dev[r][q], Q(c.offset))]]
      bad == IF c.only_excl = 1
             THEN {p \in CellsOf(c.X) : c.passes > 0 /\ Excluded(c.X[p[1]][p[2]], c.excl)
                                        /\ c.out[p[1]][p[2]] # c.X[p[1]][p[2]]}
             ELSE {p \in CellsOf(c.X) : c.out[p[1]][p[2]] # exp[p[1]][p[2]]}
  IN IF bad = {} THEN <<"ok", "">>
     ELSE IF c.only_excl = 1 THEN <<"mean_excluded_passthrough",
                                    ToString(<<First(bad), c.out[First(bad)[1]][First(bad)[2]], c.X[First(bad)[1]][First(bad)[2]]>>)>>
     ELSE LET p == First(bad) IN
          <<IF c.passes > 0 /\ Excluded(c.X[p[1]][p[2]], c.excl) THEN "mean_excluded_passthrough" ELSE "mean_window",
            ToString(<<p, c.out[p[1]][p[2]], exp[p[1]][p[2]]>>)>>

\* ---------------------------------------------------------------- convolution_2d
ConvV(c) ==
  LET bad == {p \in CellsOf(c.X) : c.out[p[1]][p[2]] # ConvCell(c.X, c.Wt, p[1], p[2])}
  IN IF bad = {} THEN <<"ok", "">>
     ELSE LET p == First(bad) IN
          <<IF ~WindowInside(c.X, c.Wt, p[1], p[2]) THEN "convolution_nan_border" ELSE "convolution_sum",
            ToString(<<p, c.out[p[1]][p[2]], ConvCell(c.X, c.Wt, p[1], p[2])>>)>>

\* ---------------------------------------------------------------- hotspots
Seven == {0, 90, 95, 99, -90, -95, -99}
HotV(c) ==
  LET cells == CellsOf(c.X)
      NX == Neg(c.X)
      st == HotStats(c.X)
      stn == HotStats(NX)
      adm == [p \in cells |-> HotCell(c.X, c.K, p[1], p[2], c.band, st)]
      admn == [p \in cells |-> HotCell(NX, c.K, p[1], p[2], c.band, stn)]
      badval == {p \in cells : c.out[p[1]][p[2]] \notin Seven \/ c.outneg[p[1]][p[2]] \notin Seven}
      badcls == {p \in cells : c.out[p[1]][p[2]] \notin adm[p]}
      badcln == {p \in cells : c.outneg[p[1]][p[2]] \notin admn[p]}
      \* negation symmetry is asserted on the cells that are not borderline
      badneg == {p \in cells : Cardinality(adm[p]) = 1 /\ c.outneg[p[1]][p[2]] # 0 - c.out[p[1]][p[2]]}
  IN CASE badval # {} -> <<"hotspots_values", ToString(First(badval))>>
       [] badcls # {} -> <<"hotspots_class", ToString(<<First(badcls), c.out[First(badcls)[1]][First(badcls)[2]],
                                                       adm[First(badcls)]>>)>>
       [] badcln # {} -> <<"hotspots_class", "negated raster " \o ToString(First(badcln))>>
       [] badneg # {} -> <<"hotspots_negation", ToString(First(badneg))>>
       [] OTHER -> <<"ok", ToString(Cardinality({p \in cells : Cardinality(adm[p]) > 1}))>>

\* ---------------------------------------------------------------- the ladder, driven directly
Threshold(zz) ==
  LET az == Abs(zz)
      conf == IF az > 2580 THEN 99 ELSE IF az > 1960 THEN 95 ELSE IF az > 1650 THEN 90 ELSE 0
  IN (IF zz > 0 THEN 1 ELSE IF zz < 0 THEN -1 ELSE 0) * conf
\* exactly on a threshold both neighbouring classes are admitted (soundness rule 3)
LadderAdmitted(zz) == IF Abs(zz) \in {1650, 1960, 2580}
                      THEN {Threshold(zz), Threshold(IF zz > 0 THEN zz + 1 ELSE zz - 1)}
                      ELSE {Threshold(zz)}
LadderV(c) ==
  LET bad == {k \in 1..Len(c.zs) : c.outs[k] \notin LadderAdmitted(c.zs[k])}
      odd == {k \in 1..Len(c.zs) : \E m \in 1..Len(c.zs) : c.zs[m] = 0 - c.zs[k] /\ c.outs[m] # 0 - c.outs[k]}
  IN CASE bad # {} -> <<"hotspots_ladder", ToString(<<c.zs[CHOOSE k \in bad : TRUE], c.outs[CHOOSE k \in bad : TRUE]>>)>>
       [] odd # {} -> <<"hotspots_negation", ToString(c.zs[CHOOSE k \in odd : TRUE])>>
       [] OTHER -> <<"ok", "">>

\* every case carries lazy: 0 iff the input was Dask-backed and the result was not a lazy Dask array before
\* it was computed (1 for NumPy inputs); the values of Dask-backed cases are judged by the same clauses
V(c) == CASE c.lazy = 0 -> <<"result_not_dask_backed_before_compute", "">>
          [] c.kind = "apply" -> ApplyV(c)
          [] c.kind = "mean" -> MeanV(c)
          [] c.kind = "conv" -> ConvV(c)
          [] c.kind = "hot" -> HotV(c)
          [] c.kind = "ladder" -> LadderV(c)

ASSUME \A i \in 1..Len(Cases) : LET v == V(Cases[i]) IN PrintT(<<"VERDICT", i, v[1], v[2]>>)
=============================================================================
