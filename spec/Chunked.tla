------------------------------ MODULE Chunked ------------------------------
(* C01: the halo pipeline every Dask path of the library relies on:                        *)
(*     out = data.map_overlap(kernel, depth=(DY,DX), boundary=Fill)                          *)
(* modelled symbolically.  A chunking is a set of row cuts x a set of column cuts; each      *)
(* block is extended by the halo (cells outside the raster are Fill), the kernel is applied  *)
(* to the extended block exactly as the NumPy path applies it to the whole raster, the halo  *)
(* is trimmed and the blocks are assembled.  Values are symbolic terms, so "equal" means     *)
(* "computed from the same input cells at the same kernel positions".                        *)
(*   Rule "NaNBorder"   : slope/aspect/curvature/hillshade - outermost ring of the array the  *)
(*                        kernel sees is NaN, NaN in the window propagates                    *)
(*   Rule "Clip"        : focal mean/apply/focal_stats - positions outside the array are      *)
(*                        skipped, NaN cells ignored by the reducer                           *)
(*   Rule "NaNIfLeaves" : convolution_2d / hotspots - NaN wherever the window leaves the array*)
(* KMASK = set of <<dy,dx>> offsets under the 1-entries of the kernel (KH x KW, odd).         *)
EXTENDS Integers, FiniteSets, TLC

CONSTANTS H, W, KH, KW, KMASK, DY, DX, Rule, PASSES, PERPASS, FILLNAN

VARIABLES rowCuts, colCuts
vars == <<rowCuts, colCuts>>

RY == KH \div 2
RX == KW \div 2
NAN == <<"nan">>
Fill == IF FILLNAN THEN NAN ELSE <<"zero", 0, 0, 0>>
FullWin == {<<dy, dx>> : dy \in (0-RY)..RY, dx \in (0-RX)..RX}
ASSUME KMASK \subseteq FullWin

\* A "domain" is a rectangle [r0,r1) x [c0,c1); an array is a function on its cells.
InDom(d, p) == p[1] >= d.r0 /\ p[1] < d.r1 /\ p[2] >= d.c0 /\ p[2] < d.c1
CellsOf(d) == {<<r, c>> : r \in d.r0..(d.r1-1), c \in d.c0..(d.c1-1)}

\* one application of the kernel to array A on domain d, at cell p
Apply(A, d, p) ==
  CASE Rule = "NaNBorder" ->
         IF p[1] < d.r0 + RY \/ p[1] > d.r1 - 1 - RY \/ p[2] < d.c0 + RX \/ p[2] > d.c1 - 1 - RX THEN NAN
         ELSE IF \E o \in KMASK : A[<<p[1]+o[1], p[2]+o[2]>>] = NAN THEN NAN
         ELSE <<"op", {<<o, A[<<p[1]+o[1], p[2]+o[2]>>]>> : o \in KMASK}>>
    [] Rule = "Clip" ->
         <<"op", {<<o, A[<<p[1]+o[1], p[2]+o[2]>>]>> :
                    o \in {q \in KMASK : InDom(d, <<p[1]+q[1], p[2]+q[2]>>)
                                         /\ A[<<p[1]+q[1], p[2]+q[2]>>] # NAN}}>>
    [] Rule = "NaNIfLeaves" ->
         IF \E o \in FullWin : ~InDom(d, <<p[1]+o[1], p[2]+o[2]>>) THEN NAN
         ELSE IF \E o \in KMASK : A[<<p[1]+o[1], p[2]+o[2]>>] = NAN THEN NAN
         ELSE <<"op", {<<o, A[<<p[1]+o[1], p[2]+o[2]>>]>> : o \in KMASK}>>

ApplyAll(A, d) == [p \in CellsOf(d) |-> Apply(A, d, p)]

Raster == [r0 |-> 0, r1 |-> H, c0 |-> 0, c1 |-> W]
Input == [p \in CellsOf(Raster) |-> <<"in", p[1], p[2]>>]

\* ---- whole-array (NumPy) semantics: PASSES applications on the whole raster
RECURSIVE WholeN(_)
WholeN(n) == IF n = 0 THEN Input ELSE ApplyAll(WholeN(n-1), Raster)

\* ---- chunked (Dask) semantics
Lo(cuts, i) == LET s == {k \in cuts : k <= i} IN IF s = {} THEN 0 ELSE CHOOSE k \in s : \A j \in s : j <= k
Hi(cuts, i, n) == LET s == {k \in cuts : k > i} IN IF s = {} THEN n ELSE CHOOSE k \in s : \A j \in s : k <= j

\* extended block of the block containing (r,c)
Ext(r, c) == [r0 |-> Lo(rowCuts, r) - DY, r1 |-> Hi(rowCuts, r, H) + DY,
              c0 |-> Lo(colCuts, c) - DX, c1 |-> Hi(colCuts, c, W) + DX]
\* the extended block's content taken from array A (defined on the raster)
Padded(A, e) == [p \in CellsOf(e) |-> IF InDom(Raster, p) THEN A[p] ELSE Fill]

RECURSIVE InBlockN(_,_,_)
InBlockN(B, e, n) == IF n = 0 THEN B ELSE ApplyAll(InBlockN(B, e, n-1), e)

\* one map_overlap of a kernel that is applied n times inside the block
Overlap(A, n) == [p \in CellsOf(Raster) |->
                    LET e == Ext(p[1], p[2]) IN InBlockN(Padded(A, e), e, n)[p]]

RECURSIVE ChunkedN(_)
ChunkedN(n) == IF n = 0 THEN Input ELSE Overlap(ChunkedN(n-1), 1)

Chunked == IF PERPASS THEN ChunkedN(PASSES) ELSE Overlap(Input, PASSES)

Init == rowCuts \in SUBSET (1..H-1) /\ colCuts \in SUBSET (1..W-1)
Next == UNCHANGED vars
Spec == Init /\ [][Next]_vars

SameAsWhole == Chunked = WholeN(PASSES)
=============================================================================
