-------------------------------- MODULE Focal --------------------------------
(* C09, first clause: "focal apply and focal_stats at each cell equal the statistic of       *)
(* exactly those input cells lying under the 1-entries of the kernel centred on the cell -   *)
(* window clipped at the raster edge, NaN cells ignored - for any odd kernel shape and any    *)
(* user-supplied reducer (which receives the window with every other position NaN)".          *)
(*                                                                                            *)
(* ALGORITHM model = focal._apply_numpy: for every cell (y, x) (0-based, row-major; one      *)
(* transition per cell) a kernel-shaped buffer is filled with NaN, then                       *)
(*     for ky in y-hrows .. y+hrows, kx in x-hcols .. x+hcols:                                *)
(*        if (ky, kx) inside the raster:  kyidx, kxidx = ky-(y-hrows), kx-(x-hcols)           *)
(*            if kernel[kyidx, kxidx] == 1:  buffer[kyidx, kxidx] = data[ky, kx]              *)
(* and the reducer is applied to the buffer.  ABSTRACT definition (FocalOps): the SET of      *)
(* raster cells under the 1-entries (WindowCells), the statistic of that set (StatOfCells),   *)
(* and the positioned buffer (Buffer).  Invariants relate them for the cell being processed.  *)
(*                                                                                            *)
(* Scenario space: raster shapes SHAPES, kernels = every 0/1 mask of the shapes KSHAPES plus   *)
(* the explicit list KFAMILY; rasters: RMODE = "ids" (cell (r,c) holds the number (r-1)*W+c,   *)
(* so that a wrong cell under a kernel entry is always visible), "all" (every raster over     *)
(* VALS), "sparse" (all-zero rasters with at most two cells replaced by a value of VALS).      *)
(* MUT (negative twins): "transpose" kernel[kxidx, kyidx], "mirror_rows", "mirror_cols",       *)
(* "half_up" (half width rounded up), "swap_half" (hrows/hcols exchanged), "noclip" (edge      *)
(* cells wrap instead of being clipped), "nan_counts" (NaN treated as 0 by the statistics).    *)
EXTENDS FocalOps, TLC

CONSTANTS SHAPES, KSHAPES, KFAMILY, VALS, RMODE, STATS, MUT

VARIABLES X, K, y, x, ph
vars == <<X, K, y, x, ph>>

Masks(kh, kw) == [1..kh -> [1..kw -> {0, 1}]]
Kernels == UNION {Masks(s[1], s[2]) : s \in KSHAPES} \cup {KFAMILY[k] : k \in 1..Len(KFAMILY)}

IdRaster(h, w) == [r \in 1..h |-> [c \in 1..w |-> Q((r - 1) * w + c)]]
ZeroRaster(h, w) == [r \in 1..h |-> [c \in 1..w |-> Q(0)]]
Rasters(h, w) ==
  CASE RMODE = "ids" -> {IdRaster(h, w)}
    [] RMODE = "all" -> [1..h -> [1..w -> VALS]]
    [] RMODE = "sparse" ->
         LET cells == (1..h) \X (1..w)
             Z == ZeroRaster(h, w)
         IN {Z} \cup {[Z EXCEPT ![p[1]][p[2]] = v] : p \in cells, v \in VALS}
                \cup {[Z EXCEPT ![p[1]][p[2]] = v, ![q[1]][q[2]] = u] : p \in cells, q \in cells, v \in VALS, u \in VALS}

\* ph = 0: scenario chosen (cheap); the per-cell work is done on the transitions so that TLC's workers share it
Init == /\ \E s \in SHAPES : X \in Rasters(s[1], s[2])
        /\ K \in Kernels
        /\ y = 0 /\ x = 0 /\ ph = 0

\* ------------------------------------------------------------------ _apply_numpy, one cell
Int2(n) == IF MUT = "half_up" THEN (n + 1) \div 2 ELSE n \div 2        \* int(n / 2)
krows == Rows(K)
kcols == Cols(K)
hrows == IF MUT = "swap_half" THEN Int2(kcols) ELSE Int2(krows)
hcols == IF MUT = "swap_half" THEN Int2(krows) ELSE Int2(kcols)
rows == Rows(X)
cols == Cols(X)

\* kernel[kyidx, kxidx] with 0-based indices, as the (possibly mutated) code reads it
KAt(kyidx, kxidx) ==
  CASE MUT = "transpose" /\ kxidx < krows /\ kyidx < kcols -> K[kxidx + 1][kyidx + 1]
    [] MUT = "mirror_rows" -> K[krows - kyidx][kxidx + 1]
    [] MUT = "mirror_cols" -> K[kyidx + 1][kcols - kxidx]
    [] OTHER -> IF kyidx < krows /\ kxidx < kcols THEN K[kyidx + 1][kxidx + 1] ELSE 0

\* the buffer after the two inner loops, for cell (y, x) 0-based
AlgBuffer ==
  [i \in 1..krows |-> [j \in 1..kcols |->
     LET kyidx == i - 1
         kxidx == j - 1
         ky == kyidx + (y - hrows)
         kx == kxidx + (x - hcols)
         inside == ky >= 0 /\ ky < rows /\ kx >= 0 /\ kx < cols
         wy == IF MUT = "noclip" THEN ky % rows ELSE ky
         wx == IF MUT = "noclip" THEN kx % cols ELSE kx
     IN IF (inside \/ MUT = "noclip") /\ ky >= y - hrows /\ ky <= y + hrows /\ kx >= x - hcols /\ kx <= x + hcols
           /\ KAt(kyidx, kxidx) = 1
        THEN X[wy + 1][wx + 1] ELSE NaN]]

\* np.nansum / nanmean / ... as the twins see them
AlgRed(name, buf) ==
  IF MUT = "nan_counts"
  THEN Red(name, [i \in 1..Rows(buf) |-> [j \in 1..Cols(buf) |-> IF IsNaN(buf[i][j]) /\ K[i][j] = 1 THEN Q(0) ELSE buf[i][j]]])
  ELSE Red(name, buf)

Cell == /\ ph = 0 /\ ph' = 1 /\ UNCHANGED <<X, K, y, x>>
Advance == /\ ph = 1
           /\ ~(y = rows - 1 /\ x = cols - 1)
           /\ IF x = cols - 1 THEN y' = y + 1 /\ x' = 0 ELSE y' = y /\ x' = x + 1
           /\ UNCHANGED <<X, K, ph>>
Next == Cell \/ Advance
Spec == Init /\ [][Next]_vars

\* ------------------------------------------------------------------ invariants (cell (y+1, x+1) in 1-based terms)
BufferIsPositionedWindow == ph = 1 => AlgBuffer = Buffer(X, K, y + 1, x + 1)

\* the cells that reached the buffer are exactly the cells under the 1-entries
BufferHoldsExactlyTheWindow == ph = 1 =>
  LET b == AlgBuffer
      W == WindowCells(X, K, y + 1, x + 1)
  IN /\ \A p \in W : b[p[1] - (y + 1) + HalfR(K) + 1][p[2] - (x + 1) + HalfC(K) + 1] = X[p[1]][p[2]]
     /\ Cardinality({q \in (1..krows) \X (1..kcols) : ~IsNaN(b[q[1]][q[2]])}) = Cardinality(Finite(X, W))

StatsAreStatsOfTheWindow == ph = 1 =>
  LET b == AlgBuffer
      W == WindowCells(X, K, y + 1, x + 1)
  IN \A name \in STATS : AlgRed(name, b) = StatOfCells(name, X, W)

\* empty window: sum 0, every other statistic NaN (DESIGN 3 rule 6); otherwise min <= mean <= max, var >= 0
StatLemmas == ph = 1 =>
  LET b == AlgBuffer
      W == Finite(X, WindowCells(X, K, y + 1, x + 1))
  IN IF W = {} THEN /\ Red("sum", b) = Q(0)
                    /\ \A name \in STATS \ {"sum"} : IsNaN(Red(name, b))
     ELSE /\ Leq(Red("min", b), Red("mean", b)) /\ Leq(Red("mean", b), Red("max", b))
          /\ Red("range", b) = Sub(Red("max", b), Red("min", b))
          /\ Leq(Q(0), Red("var", b))
          /\ (Red("var", b) = Q(0) <=> Red("min", b) = Red("max", b))

\* a window with at least two distinct finite values (the non-triviality rule of C09)
NonTrivial == Cardinality({X[p[1]][p[2]] : p \in Finite(X, WindowCells(X, K, y + 1, x + 1))}) >= 2
=============================================================================
