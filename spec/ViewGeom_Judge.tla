--------------------------- MODULE ViewGeom_Judge ---------------------------
(* C05 layer 2, R: the real event-geometry helpers against ViewOps.                        *)
(* One case = one raster shape and observer cell:                                          *)
(*   pos   : <<r, c, type, y2, x2, nr, nc>> for every cell and event type: the position     *)
(*           (doubled) returned by the compiled _calc_event_pos and the neighbour cell       *)
(*           returned by _calculate_event_row_col                                            *)
(*   order : <<r, c, type, tie>> the event list exactly as _viewshed_cpu hands it to the     *)
(*           sweep (after _init_event_list and np.lexsort), tie = 1 when the float angle     *)
(*           equals the previous event's float angle                                         *)
(*   svr, svc : observer row/col handed to the sweep                                         *)
(* Clauses:  corner_table      a helper returns another corner / neighbour than ViewOps      *)
(*           event_multiset    the event list is not "three events per cell but the observer"*)
(*           event_order       the list is not sorted by (exact angle, EXIT<CENTER<ENTER)    *)
(*           float_angle_ties  float angle equality differs from exact angle equality        *)
(*           observer_cell     the sweep is told another observer cell                       *)
EXTENDS ViewOps, TLC, Json, IOUtils

Cases == ndJsonDeserialize(IOEnv.VERIF_CASES)

OrderClause(c, vr, vc) ==
  LET o == c.order
      ev(i) == Ev(o[i][1], o[i][2], o[i][3])
      evset == {ev(i) : i \in 1..Len(o)}
  IN IF ~(Len(o) = 3 * (c.H * c.W - 1) /\ evset = Events(c.H, c.W, vr, vc)) THEN "event_multiset"
     ELSE IF \E i \in 2..Len(o) : EvBefore(ev(i), ev(i-1), vr, vc) THEN "event_order"
     ELSE IF \E i \in 2..Len(o) : (o[i][4] = 1) # AngEq(EvDir(ev(i-1), vr, vc), EvDir(ev(i), vr, vc))
          THEN "float_angle_ties"
     ELSE "ok"

V(c) ==
  LET vr == c.vr  vc == c.vc IN
  IF c.svr # vr \/ c.svc # vc THEN "observer_cell"
  ELSE IF \E i \in 1..Len(c.pos) :
            LET p == c.pos[i]
                e == EvPos(p[3], p[1], p[2], vr, vc)
                nb == IF p[3] = CENTER THEN <<p[1], p[2]>> ELSE EvNbr(p[3], p[1], p[2], vr, vc)
            IN e # <<p[4], p[5]>> \/ nb # <<p[6], p[7]>>
       THEN "corner_table"
  ELSE OrderClause(c, vr, vc)

ASSUME \A i \in 1..Len(Cases) : PrintT(<<"VERDICT", i, V(Cases[i])>>)
=============================================================================
