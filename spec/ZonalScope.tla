----------------------------- MODULE ZonalScope -----------------------------
(* Completeness of a replayed enumeration (C02 / C04): the set of inputs that were run      *)
(* through the real code is exactly the scope "every raster of N cells over ZA x VA"         *)
(* (LAYERS value layers).  One case = [z, vs] (flattened zones, sequence of layers).          *)
EXTENDS ZonalOps, Json, IOUtils
CONSTANTS N, ZA, VA, LAYERS
Cases == ndJsonDeserialize(IOEnv.VERIF_CASES)
Seen == {<<Cases[i].z, Cases[i].vs>> : i \in 1..Len(Cases)}
Scope == {<<zz, vv>> : zz \in [1..N -> ZA], vv \in [1..LAYERS -> [1..N -> VA]]}
Res == IF Seen = Scope THEN "ok" ELSE "enumeration_is_not_the_scope"
ASSUME \A i \in 1..Len(Cases) : PrintT(<<"VERDICT", i, Res>>)
=============================================================================
