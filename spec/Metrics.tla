------------------------------ MODULE Metrics ------------------------------
(* C19, first clause: "euclidean, manhattan and great-circle distance are symmetric, zero   *)
(* exactly for coincident points and obey the triangle inequality".                        *)
(*                                                                                         *)
(* Abstract definitions of the two planar metrics on integer points, argument order of the *)
(* library (x1, x2, y1, y2), and the metric axioms as invariants of a state space whose    *)
(* states are all ordered triples (p, q, r) of an N x N lattice.  Euclid is handled in the *)
(* exact squared form:  sqrt a + sqrt b >= sqrt c  <=>  c <= a+b  \/  (c-a-b)^2 <= 4ab.     *)
(* MUT selects deliberately broken variants (negative twins):                              *)
(*   "abs_of_sum"  manhattan = |dx + dy|            (breaks identity of indiscernibles)    *)
(*   "nosqrt"      euclid returns the squared distance  (breaks the triangle inequality)   *)
(*   "drop_y"      euclid ignores dy                     (breaks identity)                 *)
(*   "asym"        manhattan = |dx| + max(dy, 0)         (breaks symmetry)                 *)
EXTENDS Integers, FiniteSets, TLC

CONSTANTS N, MUT

Abs(x) == IF x < 0 THEN -x ELSE x
Max(a, b) == IF a > b THEN a ELSE b

\* manhattan_distance(x1, x2, y1, y2):  x = x1 - x2 ; y = y1 - y2 ; abs(x) + abs(y)
Man(x1, x2, y1, y2) ==
  LET x == x1 - x2
      y == y1 - y2
  IN CASE MUT = "abs_of_sum" -> Abs(x + y)
       [] MUT = "asym"       -> Abs(x) + Max(y, 0)
       [] OTHER              -> Abs(x) + Abs(y)

\* euclidean_distance(x1, x2, y1, y2)^2 :  x*x + y*y
E2(x1, x2, y1, y2) ==
  LET x == x1 - x2
      y == y1 - y2
  IN CASE MUT = "drop_y" -> x * x
       [] OTHER          -> x * x + y * y

\* sqrt a + sqrt b >= sqrt c, exactly, for naturals
SqrtTri(a, b, c) == c <= a + b \/ (c - a - b) * (c - a - b) <= 4 * a * b
\* the twin "nosqrt" treats the squared value as the distance
EucTri(a, b, c) == IF MUT = "nosqrt" THEN c <= a + b ELSE SqrtTri(a, b, c)

Pts == (0..N-1) \X (0..N-1)

VARIABLES p, q, r
vars == <<p, q, r>>

Init == p \in Pts /\ q \in Pts /\ r \in Pts
Next == UNCHANGED vars
Spec == Init /\ [][Next]_vars

\* a point is <<x, y>>
M(a, b) == Man(a[1], b[1], a[2], b[2])
E(a, b) == E2(a[1], b[1], a[2], b[2])

ManSymmetric == M(p, q) = M(q, p)
ManIdentity  == (M(p, q) = 0) <=> (p = q)
ManNonNeg    == M(p, q) >= 0
ManTriangle  == M(p, r) <= M(p, q) + M(q, r)
EucSymmetric == E(p, q) = E(q, p)
EucIdentity  == (E(p, q) = 0) <=> (p = q)
EucTriangle  == EucTri(E(p, q), E(q, r), E(p, r))
\* the two metrics are comparable: euclid <= manhattan <= sqrt2 * euclid (sanity of the definitions)
Comparable   == E(p, q) <= M(p, q) * M(p, q) /\ M(p, q) * M(p, q) <= 2 * E(p, q)

\* collinear triples are the tight case of the triangle inequality; count the others as non-trivial
NonCollinear == (q[1] - p[1]) * (r[2] - p[2]) # (q[2] - p[2]) * (r[1] - p[1])
=============================================================================
