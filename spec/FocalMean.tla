------------------------------ MODULE FocalMean ------------------------------
(* C09, second clause: "focal mean is the same with a full 3x3 window, applied `passes`      *)
(* times, passing excluded values through untouched".                                        *)
(*                                                                                            *)
(* ALGORITHM model = focal.mean / _mean_numpy: `cur` starts as the raster; one transition    *)
(* per pass; within a pass every cell (y, x) whose value equals (or is NaN like) an entry of  *)
(* `excludes` is copied, every other cell becomes np.nanmean(data[bottom:top, left:right])    *)
(* with left = max(x-1, 0), right = min(x+2, cols), bottom = max(y-1, 0), top = min(y+2,      *)
(* rows) (half-open slices).  ABSTRACT definition (FocalOps.MeanIter): the statistic "mean"   *)
(* of the window of the all-ones 3x3 kernel, iterated.  State space: every raster of the      *)
(* shapes SHAPES over VALS x every exclusion list of EXCLS, PASSES passes.                    *)
(* MUT (negative twins): "no_clip_right" (right = x+1, i.e. the right column is lost),        *)
(* "exclude_to_nan" (excluded cells become NaN), "exclude_neighbours" (excluded values are    *)
(* also left out of the neighbours' means), "nan_not_equal" (NaN never matches an exclusion), *)
(* "one_pass" (passes ignored).                                                               *)
EXTENDS FocalOps, TLC

CONSTANTS SHAPES, VALS, EXCLS, PASSES, MUT

VARIABLES X0, excl, pass, cur, prev
vars == <<X0, excl, pass, cur, prev>>

Init == /\ \E s \in SHAPES : X0 \in [1..s[1] -> [1..s[2] -> VALS]]
        /\ excl \in EXCLS
        /\ pass = 0 /\ cur = X0 /\ prev = X0

Max2(a, b) == IF a > b THEN a ELSE b
Min2(a, b) == IF a < b THEN a ELSE b

\* _equal_numpy(x, y): x == y or (isnan(x) and isnan(y))
EqualNumpy(v, e) == IF MUT = "nan_not_equal" THEN ~IsNaN(v) /\ ~IsNaN(e) /\ v = e
                    ELSE (~IsNaN(v) /\ ~IsNaN(e) /\ v = e) \/ (IsNaN(v) /\ IsNaN(e))
IsExcl(v) == \E k \in 1..Len(excl) : EqualNumpy(v, excl[k])

\* values of data[bottom:top, left:right] (0-based half-open), row-major
RECURSIVE SliceVals(_, _, _, _, _, _)
SliceVals(data, yy, top, xx0, xx, right) ==
  IF yy >= top THEN <<>>
  ELSE IF xx >= right THEN SliceVals(data, yy + 1, top, xx0, xx0, right)
  ELSE <<data[yy + 1][xx + 1]>> \o SliceVals(data, yy, top, xx0, xx + 1, right)

NanMean(vals) ==
  LET fin == SelectSeq(vals, LAMBDA v : ~IsNaN(v) /\ (MUT # "exclude_neighbours" \/ ~IsExcl(v)))
  IN IF Len(fin) = 0 THEN NaN ELSE DivN(SumSeq(fin), Len(fin))

MeanNumpy(data) ==
  LET rows == Rows(data)
      cols == Cols(data)
  IN [r \in 1..rows |-> [c \in 1..cols |->
        LET y == r - 1
            x == c - 1
            left == Max2(x - 1, 0)
            right == IF MUT = "no_clip_right" THEN Min2(x + 1, cols) ELSE Min2(x + 2, cols)
            bottom == Max2(y - 1, 0)
            top == Min2(y + 2, rows)
        IN IF IsExcl(data[r][c]) THEN (IF MUT = "exclude_to_nan" THEN NaN ELSE data[r][c])
           ELSE NanMean(SliceVals(data, bottom, top, left, left, right))]]

Pass == /\ pass < (IF MUT = "one_pass" THEN Min2(PASSES, 1) ELSE PASSES)
        /\ pass' = pass + 1
        /\ prev' = cur
        /\ cur' = MeanNumpy(cur)
        /\ UNCHANGED <<X0, excl>>
\* a final stuttering step marks the end of the loop `for i in range(passes)`
Next == Pass
Spec == Init /\ [][Next]_vars

Cells == (1..Rows(X0)) \X (1..Cols(X0))
Done == pass = PASSES \/ (MUT = "one_pass" /\ pass = Min2(PASSES, 1))

\* the algorithm computes the abstract iterated 3x3 window mean
MeanIsIteratedWindowMean == cur = MeanIter(X0, excl, pass)
ResultAfterAllPasses == Done => cur = MeanIter(X0, excl, PASSES)
\* "passing excluded values through untouched"
ExcludedPassThrough == pass > 0 => \A p \in Cells : Excluded(prev[p[1]][p[2]], excl) => cur[p[1]][p[2]] = prev[p[1]][p[2]]
\* every other cell is the mean of the finite cells of its clipped 3x3 window (sets of cells, not slices)
OthersAreWindowMeans == pass > 0 => \A p \in Cells : ~Excluded(prev[p[1]][p[2]], excl) =>
                           cur[p[1]][p[2]] = StatOfCells("mean", prev, WindowCells(prev, Ones3, p[1], p[2]))
\* a mean never leaves the range of the finite input values; NaN only where nothing finite is in reach
Bounded == \A p \in Cells : LET v == cur[p[1]][p[2]] IN
             IsNaN(v) \/ \E q \in Cells, u \in Cells : ~IsNaN(X0[q[1]][q[2]]) /\ ~IsNaN(X0[u[1]][u[2]])
                                                     /\ Leq(X0[q[1]][q[2]], v) /\ Leq(v, X0[u[1]][u[2]])
=============================================================================
