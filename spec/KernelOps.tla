----------------------------- MODULE KernelOps -----------------------------
(* Abstract definitions shared by Kernels.tla (exhaustive model) and Kernels_Judge.tla      *)
(* (verdicts on kernels observed from the real circle_kernel / annulus_kernel).             *)
(* Rationals are pairs <<n, d>> with d > 0.                                                 *)
EXTENDS Integers, Sequences, FiniteSets

\* trunc(r / c) for positive rationals
TruncDiv(r, c) == (r[1] * c[2]) \div (r[2] * c[1])
CeilDiv(r, c) == LET n == r[1] * c[2]  d == r[2] * c[1] IN (n + d - 1) \div d

\* ------------------------------------------------------------------ abstract
InEllipse(dx, dy, a, b) == (dx * b) * (dx * b) + (dy * a) * (dy * a) <= (a * b) * (a * b)
\* the mask as a set of offsets <<dy, dx>>
CircleSet(a, b) == {o \in ((0-b)..b) \X ((0-a)..a) : InEllipse(o[2], o[1], a, b)}
\* annulus: outer minus the centred inner circle
AnnulusSet(ao, bo, ai, bi) == CircleSet(ao, bo) \ CircleSet(ai, bi)

\* matrix (1-based rows i, columns j) of a set of offsets on the (2b+1) x (2a+1) frame
AsMatrix(S, a, b) == [i \in 1..(2*b+1) |-> [j \in 1..(2*a+1) |-> IF <<i-1-b, j-1-a>> \in S THEN 1 ELSE 0]]

Rows(m) == Len(m)
Cols(m) == IF Len(m) = 0 THEN 0 ELSE Len(m[1])
=============================================================================
