---------------------------- MODULE DistanceOps ----------------------------
(* C19, last clause: "radius strings in metres, kilometres, feet or miles convert to        *)
(* metres and non-positive or malformed distances are rejected".                            *)
(*                                                                                          *)
(* A distance string is a sequence of one-character strings.  DECLARATIVE definition:       *)
(*     distance ::= number  ' '*  unit?                                                     *)
(*     number   ::= '-'? digit* ( '.' digit+ )?      with at least one digit                *)
(*     unit     ::= a name of the published unit list, in any letter case                   *)
(* It is valid iff the number is > 0; its value is number * metres-per-unit (default unit   *)
(* metre).  Everything else is malformed.  The unit vocabulary is the one the library       *)
(* publishes in its own error message:                                                      *)
(*     meter (meter, meters, m), kilometer (kilometer, kilometers, km),                     *)
(*     foot (foot, feet, ft), mile (mile, miles, ml, mls).                                  *)
(* Spaces in other places (leading, inside or after the unit, trailing without a unit) are  *)
(* "odd": the property does not say whether such a string is malformed, so both outcomes    *)
(* are admitted for it (if accepted, the value must be the one obtained by ignoring them).  *)
(* Rationals are pairs <<n, d>>, d > 0.                                                     *)
EXTENDS Integers, Sequences, FiniteSets

Digits == <<"0", "1", "2", "3", "4", "5", "6", "7", "8", "9">>
IsDigit(ch) == \E k \in 1..10 : Digits[k] = ch
DigitVal(ch) == (CHOOSE k \in 1..10 : Digits[k] = ch) - 1

UpperL == <<"A","B","C","D","E","F","G","H","I","J","K","L","M","N","O","P","Q","R","S","T","U","V","W","X","Y","Z">>
LowerL == <<"a","b","c","d","e","f","g","h","i","j","k","l","m","n","o","p","q","r","s","t","u","v","w","x","y","z">>
IsLetter(ch) == \E k \in 1..26 : UpperL[k] = ch \/ LowerL[k] = ch
Lower(ch) == IF \E k \in 1..26 : UpperL[k] = ch THEN LowerL[CHOOSE k \in 1..26 : UpperL[k] = ch] ELSE ch

\* published unit list -> metres per unit
UnitTable ==
  { [name |-> <<"m","e","t","e","r">>, f |-> <<1, 1>>],
    [name |-> <<"m","e","t","e","r","s">>, f |-> <<1, 1>>],
    [name |-> <<"m">>, f |-> <<1, 1>>],
    [name |-> <<"k","i","l","o","m","e","t","e","r">>, f |-> <<1000, 1>>],
    [name |-> <<"k","i","l","o","m","e","t","e","r","s">>, f |-> <<1000, 1>>],
    [name |-> <<"k","m">>, f |-> <<1000, 1>>],
    [name |-> <<"f","o","o","t">>, f |-> <<381, 1250>>],
    [name |-> <<"f","e","e","t">>, f |-> <<381, 1250>>],
    [name |-> <<"f","t">>, f |-> <<381, 1250>>],
    [name |-> <<"m","i","l","e">>, f |-> <<201168, 125>>],
    [name |-> <<"m","i","l","e","s">>, f |-> <<201168, 125>>],
    [name |-> <<"m","l">>, f |-> <<201168, 125>>],
    [name |-> <<"m","l","s">>, f |-> <<201168, 125>>] }

IsUnit(u) == \E e \in UnitTable : e.name = u
FactorOf(u) == IF u = <<>> THEN <<1, 1>> ELSE (CHOOSE e \in UnitTable : e.name = u).f

RECURSIVE Gcd(_, _)
Gcd(a, b) == IF b = 0 THEN a ELSE Gcd(b, a % b)
\* (n/d) * (p/q) with cross-cancellation (keeps the products small)
RMulC(x, y) ==
  LET g1 == Gcd(x[1], y[2])  g2 == Gcd(y[1], x[2])
      a == IF g1 = 0 THEN 0 ELSE x[1] \div g1
      q == IF g1 = 0 THEN y[2] ELSE y[2] \div g1
      p == IF g2 = 0 THEN 0 ELSE y[1] \div g2
      d == IF g2 = 0 THEN x[2] ELSE x[2] \div g2
  IN <<a * p, d * q>>       \* x, y in lowest terms => so is the product
RNorm(x) == LET g == Gcd(x[1], x[2]) IN IF g = 0 THEN x ELSE <<x[1] \div g, x[2] \div g>>
\* equality of non-negative rationals without cross-multiplication (32-bit safe)
REq(p, q) == p[2] # 0 /\ q[2] # 0 /\ RNorm(p) = RNorm(q)

\* ------------------------------------------------------------------ declarative reading
\* number of consecutive characters satisfying P from position i on
RECURSIVE Run(_, _, _)
Run(s, i, kind) ==
  IF i > Len(s) THEN 0
  ELSE IF (kind = "digit" /\ IsDigit(s[i])) \/ (kind = "space" /\ s[i] = " ")
       THEN 1 + Run(s, i + 1, kind) ELSE 0

RECURSIVE DigitsVal(_, _, _)
\* value of the n digits starting at i
DigitsVal(s, i, n) == IF n = 0 THEN 0 ELSE DigitsVal(s, i, n - 1) * 10 + DigitVal(s[i + n - 1])
RECURSIVE Pow10(_)
Pow10(n) == IF n = 0 THEN 1 ELSE 10 * Pow10(n - 1)

RECURSIVE NoSpace(_)
NoSpace(s) == IF s = <<>> THEN <<>> ELSE IF Head(s) = " " THEN NoSpace(Tail(s)) ELSE <<Lower(Head(s))>> \o NoSpace(Tail(s))

\* result: [ok, odd, val]   ok = it is a valid distance (ignoring odd spaces), odd = it has odd spaces
Read(s) ==
  LET lead == Run(s, 1, "space")
      i0 == lead + 1
      neg == i0 <= Len(s) /\ s[i0] = "-"
      i1 == IF neg THEN i0 + 1 ELSE i0
      nint == Run(s, i1, "digit")
      idot == i1 + nint
      hasfrac == idot + 1 <= Len(s) /\ s[idot] = "." /\ IsDigit(s[idot + 1])
      nfrac == IF hasfrac THEN Run(s, idot + 1, "digit") ELSE 0
      iend == IF hasfrac THEN idot + 1 + nfrac ELSE idot        \* first position after the number
      hasnum == nint + nfrac > 0
      num == DigitsVal(s, i1, nint) * Pow10(nfrac) + (IF hasfrac THEN DigitsVal(s, idot + 1, nfrac) ELSE 0)
      rest == SubSeq(s, iend, Len(s))
      gap == Run(rest, 1, "space")
      word == SubSeq(rest, gap + 1, Len(rest))
      unit == NoSpace(rest)
      letters == \A k \in 1..Len(rest) : rest[k] = " " \/ IsLetter(rest[k])
      unitok == rest = <<>> \/ (letters /\ IsUnit(unit))
      lenientunit == unitok \/ (letters /\ unit = <<>>)      \* only spaces after the number
      odd == lead > 0 \/ (\E k \in 1..Len(word) : word[k] = " ") \/ (rest # <<>> /\ word = <<>>)
      positive == hasnum /\ ~neg /\ num > 0
  IN [ok |-> positive /\ lenientunit /\ letters,
      odd |-> odd,
      val |-> IF positive /\ lenientunit /\ letters THEN RMulC(RNorm(<<num, Pow10(nfrac)>>), FactorOf(unit)) ELSE <<0, 1>>,
      why |-> IF ~hasnum THEN "no_number" ELSE IF neg \/ num = 0 THEN "nonpositive"
              ELSE IF ~(lenientunit /\ letters) THEN "bad_unit" ELSE "valid"]

\* A modelled, standing deviation of the helper from the public behaviour: Python's float() reads the words
\* nan / inf / infinity (any case, optional sign), so convolution._get_distance returns NaN or inf for them, while
\* every public caller then fails converting radius/cellsize to an integer.  Through the public API such a
\* string is rejected (which is what the property asks); the helper-level acceptance is recorded, not alarmed.
RECURSIVE LowerSeq(_)
LowerSeq(s) == IF s = <<>> THEN <<>> ELSE <<Lower(Head(s))>> \o LowerSeq(Tail(s))
IsFloatWord(s) ==
  LET t == LowerSeq(s)
      u == IF Len(t) > 0 /\ t[1] \in {"-", "+"} THEN Tail(t) ELSE t
  IN u \in {<<"n","a","n">>, <<"i","n","f">>, <<"i","n","f","i","n","i","t","y">>}

\* outcomes the property admits for s
Admits(s, accepted) ==
  LET r == Read(s) IN
  IF r.ok /\ ~r.odd THEN accepted ELSE IF r.ok /\ r.odd THEN TRUE ELSE ~accepted
=============================================================================
