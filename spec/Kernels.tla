------------------------------ MODULE Kernels ------------------------------
(* C19, kernel clause: "circle_kernel is the 0/1 mask of cells whose offset satisfies the   *)
(* ellipse equation for radius/cellsize, symmetric under both axis flips and of odd shape;  *)
(* annulus_kernel is the outer circle minus the centred inner circle (never negative)".     *)
(*                                                                                          *)
(* Interpretation fixed in DESIGN 3 rule 6 (the docstring examples show it): the ellipse    *)
(* has the integer semi-axes  a = trunc(radius / cellsize_x)  (columns) and                 *)
(* b = trunc(radius / cellsize_y) (rows); a cell with integer offset (dx, dy) from the      *)
(* centre is in the mask iff (dx*b)^2 + (dy*a)^2 <= (a*b)^2  (division-free form of         *)
(* (dx/a)^2 + (dy/b)^2 <= 1, which also defines the degenerate cases a = 0 or b = 0).       *)
(*                                                                                          *)
(* ABSTRACT definition (KernelOps.tla): masks as sets of offsets.  ALGORITHM model shaped like the code:    *)
(* _ellipse_kernel builds index vectors with linspace and a boolean matrix; annulus_kernel  *)
(* pads the inner matrix by (outer.shape - inner.shape) // 2 on each side and subtracts.    *)
(* The state space is every (cellsize_x, cellsize_y, outer radius, inner radius <= outer)   *)
(* of the configuration; the invariants relate algorithm and abstract definition and state  *)
(* the lemmas of the property.  Rationals are pairs <<n, d>>, d > 0.                        *)
(* MUT (negative twins): "lt" strict inequality, "swap_axes" a from cellsize_y,             *)
(* "pad_before_only" all padding put before, "round_up" ceil instead of trunc,              *)
(* "inner_uncentred" inner circle placed at the top-left corner.                            *)
EXTENDS KernelOps, TLC

CONSTANTS CELLS,      \* set of cell sizes <<n, d>>
          RQMAX,      \* radii are k/4 for k in 1..RQMAX
          MUT

HalfW(cx, cy, r) == CASE MUT = "swap_axes" -> TruncDiv(r, cy)
                      [] MUT = "round_up"  -> CeilDiv(r, cx)
                      [] OTHER             -> TruncDiv(r, cx)
HalfH(cx, cy, r) == CASE MUT = "swap_axes" -> TruncDiv(r, cx)
                      [] MUT = "round_up"  -> CeilDiv(r, cy)
                      [] OTHER             -> TruncDiv(r, cy)

\* ------------------------------------------------------------------ algorithm (shape of the code)
\* np.linspace(-h, h, 2h+1)
Linspace(h) == [k \in 1..(2*h+1) |-> k - 1 - h]

EllipseKernel(half_w, half_h) ==
  LET x == Linspace(half_w)
      y == Linspace(half_h)
      lhs(i, j) == (x[j] * half_h) * (x[j] * half_h) + (y[i] * half_w) * (y[i] * half_w)
      rhs == (half_w * half_h) * (half_w * half_h)
  IN [i \in 1..(2*half_h+1) |-> [j \in 1..(2*half_w+1) |->
        IF (IF MUT = "lt" THEN lhs(i, j) < rhs ELSE lhs(i, j) <= rhs) THEN 1 ELSE 0]]

CircleKernel(cx, cy, r) == EllipseKernel(HalfW(cx, cy, r), HalfH(cx, cy, r))

\* np.pad(inner, ((pr, pr), (pc, pc))) with pr = (outer.rows - inner.rows) // 2, then outer - padded
AnnulusKernel(cx, cy, ro, ri) ==
  LET outer == CircleKernel(cx, cy, ro)
      inner == CircleKernel(cx, cy, ri)
      dr == Rows(outer) - Rows(inner)
      dc == Cols(outer) - Cols(inner)
      pr == CASE MUT = "pad_before_only" -> dr [] MUT = "inner_uncentred" -> 0 [] OTHER -> dr \div 2
      pc == CASE MUT = "pad_before_only" -> dc [] MUT = "inner_uncentred" -> 0 [] OTHER -> dc \div 2
      padded == [i \in 1..Rows(outer) |-> [j \in 1..Cols(outer) |->
                   IF i - pr \in 1..Rows(inner) /\ j - pc \in 1..Cols(inner)
                   THEN inner[i - pr][j - pc] ELSE 0]]
  IN [i \in 1..Rows(outer) |-> [j \in 1..Cols(outer) |-> outer[i][j] - padded[i][j]]]

\* ------------------------------------------------------------------ state space
\* ph = 0: a parameter tuple has been chosen; ph = 1: it is being checked (the step from 0 to 1 only
\* exists so that TLC's worker threads, not the serial initial-state phase, evaluate the invariants)
VARIABLES cx, cy, ro, ri, ph
vars == <<cx, cy, ro, ri, ph>>
Radii == {<<k, 4>> : k \in 1..RQMAX}
Init == /\ cx \in CELLS /\ cy \in CELLS
        /\ ro \in Radii /\ ri \in {x \in Radii : x[1] <= ro[1]}
        /\ ph = 0
Next == ph = 0 /\ ph' = 1 /\ UNCHANGED <<cx, cy, ro, ri>>
Spec == Init /\ [][Next]_vars

A(r) == TruncDiv(r, cx)
B(r) == TruncDiv(r, cy)

CircleIsEllipseMask == ph = 1 => CircleKernel(cx, cy, ro) = AsMatrix(CircleSet(A(ro), B(ro)), A(ro), B(ro))
OddShape == ph = 1 => LET K == CircleKernel(cx, cy, ro) IN
            Rows(K) % 2 = 1 /\ Cols(K) % 2 = 1 /\ Rows(K) = 2 * B(ro) + 1 /\ Cols(K) = 2 * A(ro) + 1
Flips == ph = 1 => LET K == CircleKernel(cx, cy, ro) IN
           \A i \in 1..Rows(K), j \in 1..Cols(K) :
              K[i][j] = K[i][Cols(K) + 1 - j] /\ K[i][j] = K[Rows(K) + 1 - i][j]
CentreAndAxesSet == ph = 1 => LET K == CircleKernel(cx, cy, ro) IN
                    /\ K[B(ro) + 1][A(ro) + 1] = 1
                    /\ K[B(ro) + 1][1] = 1 /\ K[1][A(ro) + 1] = 1
Binary == ph = 1 => LET K == CircleKernel(cx, cy, ro) IN
            \A i \in 1..Rows(K), j \in 1..Cols(K) : K[i][j] \in {0, 1}
AnnulusIsDifference == ph = 1 =>
  AnnulusKernel(cx, cy, ro, ri) = AsMatrix(AnnulusSet(A(ro), B(ro), A(ri), B(ri)), A(ro), B(ro))
AnnulusNonNegative == ph = 1 => LET Ann == AnnulusKernel(cx, cy, ro, ri) IN
            \A i \in 1..Rows(Ann), j \in 1..Cols(Ann) : Ann[i][j] \in {0, 1}
\* the inner circle is contained in the outer one, so nothing is subtracted from a 0
InnerInsideOuter == ph = 1 => CircleSet(A(ri), B(ri)) \subseteq CircleSet(A(ro), B(ro))
\* growing the radius never removes a cell
Monotone == ri[1] <= ro[1] => A(ri) <= A(ro) /\ B(ri) <= B(ro)
=============================================================================
