--------------------------- MODULE Chunked_Trace ---------------------------
(* C01 on observations of the real code.  One case = one (function, raster, chunking,       *)
(* scheduler): what the Dask path did (recorded map_overlap / map_blocks calls, laziness) and *)
(* how its computed result compares with the NumPy result of the same call.                  *)
(* Protocol(f) is the specification's table of how each public function is meant to run on    *)
(* Dask (which Chunked.tla rule it instantiates, with which halo); Verdict is the property    *)
(* (values), Drift the protocol (mechanism).                                                  *)
EXTENDS Integers, Sequences, FiniteSets, TLC, Json, IOUtils

Cases == ndJsonDeserialize(IOEnv.VERIF_CASES)

Stencils == {"slope", "aspect", "curvature", "hillshade"}
Windows == {"focal_apply", "focal_stats", "convolution_2d"}
PerCell == {"binary", "reclassify", "arvi", "evi", "gci", "nbr", "nbr2", "ndvi", "ndmi", "savi", "sipi", "ebbi"}
Reduced == {"hotspots", "equal_interval", "true_color", "perlin", "generate_terrain"}

Protocol(c) ==
  CASE c.func \in Stencils  -> [kind |-> "overlap", exact |-> TRUE, ry |-> 1, rx |-> 1, passes |-> 1]
    [] c.func = "focal_mean" -> [kind |-> "overlap", exact |-> TRUE, ry |-> 1, rx |-> 1, passes |-> c.passes]
    [] c.func \in Windows   -> [kind |-> "overlap", exact |-> TRUE, ry |-> c.kh \div 2, rx |-> c.kw \div 2, passes |-> 1]
    [] c.func = "hotspots"  -> [kind |-> "overlap", exact |-> FALSE, ry |-> c.kh \div 2, rx |-> c.kw \div 2, passes |-> 1]
    [] c.func \in PerCell   -> [kind |-> "blocks", exact |-> TRUE, ry |-> 0, rx |-> 0, passes |-> 1]
    [] c.func \in Reduced   -> [kind |-> "blocks", exact |-> FALSE, ry |-> 0, rx |-> 0, passes |-> 1]

\* admissible rounding, in spacings of the largest magnitude of the reference: a re-associated global reduction
\* costs a few ulp; generate_terrain sums 16 noise layers in single precision, cubes the sum and normalises it,
\* which amplifies that rounding (observed up to 13 on the unchanged tree), a wrong block offset or seed gives
\* differences of the order of the whole range
Tol(c) == IF c.func = "generate_terrain" THEN 64 ELSE IF c.func = "perlin" THEN 16 ELSE 4

Verdict(c) ==
  LET p == Protocol(c) IN
  IF c.error # "" THEN "dask_call_raised"
  ELSE IF c.lazy = 0 THEN "result_not_dask_backed_before_compute"
  ELSE IF ~c.shape_ok THEN "shape_differs_from_numpy"
  ELSE IF c.ndiff = 0 THEN "ok"
  ELSE IF p.exact THEN (IF c.ndiff_near = c.ndiff_cells THEN "differs_from_numpy_at_block_edges"
                        ELSE "differs_from_numpy")
  ELSE IF c.maxulp <= Tol(c) THEN "ok"
  ELSE IF c.ndiff_cells <= c.ndiff_borderline THEN "ok"
  ELSE "differs_from_numpy_beyond_float_rounding"

Drift(c) ==
  LET p == Protocol(c)  n == Len(c.overlaps) IN
  IF c.error # "" \/ c.lazy = 0 THEN "na"
  ELSE IF p.kind = "overlap" /\ n < p.passes THEN "drift_fewer_map_overlap_calls_than_passes"
  ELSE IF p.kind = "overlap" /\ \E i \in 1..n : c.overlaps[i].depth[1] < p.ry THEN "drift_halo_rows_smaller_than_kernel_radius"
  ELSE IF p.kind = "overlap" /\ \E i \in 1..n : c.overlaps[i].depth[2] < p.rx THEN "drift_halo_cols_smaller_than_kernel_radius"
  ELSE IF p.kind = "overlap" /\ \E i \in 1..n : ~c.overlaps[i].boundary_nan THEN "drift_halo_boundary_not_nan"
  ELSE IF p.kind = "blocks" /\ n > 0 THEN "drift_per_cell_function_uses_overlap"
  ELSE IF ~c.blocks_same_chunks THEN "drift_operands_not_chunk_aligned"
  ELSE IF ~c.dtype_ok THEN "drift_dtype_differs"
  ELSE IF ~c.meta_ok THEN "drift_coords_attrs_differ"
  ELSE IF c.ndiff > 0 THEN "accepted_float_rounding_or_borderline"
  ELSE "protocol_ok"

ASSUME \A i \in 1..Len(Cases) : PrintT(<<"VERDICT", i, Verdict(Cases[i]), Drift(Cases[i])>>)
=============================================================================
