---------------------------- MODULE Stencil_Judge ----------------------------
(* C08 - TLC judges observations of the real slope / aspect / curvature / hillshade /      *)
(* summarize_terrain (NumPy backend).  One case per line of VERIF_CASES; `kind` selects    *)
(* the clause set.  Floats never enter TLC: the float bridge (harness/workers/             *)
(* stencil_worker.py) turns an observed float into integers                                *)
(*   slope      micro-degrees + the interval [slo, shi]/sk that tan^2(slope -+ 1e-3 deg)   *)
(*              spans (inverse closed form, monotone)                                      *)
(*   aspect     micro-degrees + the compass directions (E,N) * 1e6 of aspect -+ 1e-3 deg   *)
(*   curvature  the interval [clo, chi]/ck around the value                                *)
(*   hillshade  value * 1e6 + the list of gradient arguments <<gx2, gy2>> whose closed     *)
(*              form (given azimuth, altitude) is within 1e-5 of the value                 *)
(* and TLC decides, with the exact arguments of StencilOps and the cell size of            *)
(* CellSize.tla computed from the raster's OWN metadata, whether they are consistent.      *)
(*                                                                                         *)
(* kind "F"  formula case (small integer elevations): every cell of all four outputs       *)
(*           (NumPy backend, or the same raster as a chunked Dask array - judged against   *)
(*           the definition, not against NumPy)                                            *)
(* kind "G"  general raster (any floats): NaN ring, NaN exactly from the cells read, ranges*)
(* kind "P"  two rasters differing in one cell: the sets of output cells that differ       *)
(* kind "K"  raster and raster + integer constant: cells that differ (must be none)        *)
(* kind "R"  raster and np.rot90(raster), square cells: outputs of both                    *)
(* kind "S"  summarize_terrain against the three separate calls: cells that differ         *)
(* kind "C"  get_dataarray_resolution alone: the two cell sizes as exact rationals         *)
EXTENDS StencilOps, CellSize, TLC, Json, IOUtils

Cases == ndJsonDeserialize(IOEnv.VERIF_CASES)

F2(rows) == [r \in 0..Len(rows)-1 |-> [c \in 0..Len(rows[r+1])-1 |-> rows[r+1][c+1]]]
Near(p, q) == Abs(p[1] - q[1]) <= 1 /\ Abs(p[2] - q[2]) <= 1
TOL == 1000                 \* 1e-3 degrees in micro-degrees
FULL == 360000000
FLATV == -1000000           \* aspect -1 in micro-degrees

\* ------------------------------------------------------------------------------- kind "F"
CellSizeOf(c) == LET cs == Resolution(c.rk, c.rx, c.ry, c.xs, c.ys, c.cd, c.H, c.W)
                 IN <<RNorm(cs[1]), RNorm(cs[2])>>

SlopeClause(c, g, cs, r, k) ==
  LET o == c.slope[r+1][k+1]
      e == SlopeAt(g, c.H, c.W, r, k, cs[1], cs[2], "none")
  IN IF ~Interior(c.H, c.W, r, k) THEN (IF o = NAN THEN "ok" ELSE "slope_border_not_nan")
     ELSE IF (o = NAN) # (e[2] = 0) THEN "slope_nan_iff_a_read_cell_is_nan"
     ELSE IF o = NAN THEN "ok"
     ELSE IF o < 0 \/ o > 90000000 THEN "slope_range"
     ELSE IF (e[1] = 0) # (o = 0) THEN "slope_zero_iff_gradient_zero"
     ELSE IF ~(/\ c.slo[r+1][k+1] * e[2] <= e[1] * c.sk
               /\ (c.shi[r+1][k+1] = -1 \/ e[1] * c.sk <= c.shi[r+1][k+1] * e[2])) THEN "slope_formula"
     ELSE "ok"

CW(a, b) == a[2] * b[1] - a[1] * b[2]        \* >= 0: b is clockwise from a (compass sense), vectors <<E,N>>
SectorOK(s, d) ==
  IF s % 2 = 0 THEN (\/ Abs(d - (s \div 2) * 45000000) <= TOL
                     \/ (s = 0 /\ Abs(d - FULL) <= TOL))
  ELSE ((s - 1) \div 2) * 45000000 <= d /\ d <= ((s + 1) \div 2) * 45000000

AspectClause(c, g, r, k) ==
  LET o == c.aspect[r+1][k+1]
      e == AspectAt(g, c.H, c.W, r, k, "none")
  IN IF ~Interior(c.H, c.W, r, k) THEN (IF o = NAN THEN "ok" ELSE "aspect_border_not_nan")
     ELSE IF (o = NAN) # (e[3] = 0) THEN "aspect_nan_iff_a_read_cell_is_nan"
     ELSE IF o = NAN THEN "ok"
     ELSE IF (o = FLATV) # (e[3] = 1) THEN "aspect_minus_one_iff_flat"
     ELSE IF o = FLATV THEN "ok"
     ELSE IF o < 0 \/ o > FULL THEN "aspect_range"
     ELSE IF ~SectorOK(Sector16(e[1], e[2]), o) THEN "aspect_compass_sector"
     ELSE LET v == <<e[1], e[2]>>
              lo == c.alo[r+1][k+1]  hi == c.ahi[r+1][k+1]
          IN IF CW(lo, v) >= 0 /\ CW(v, hi) >= 0 /\ v[1] * (lo[1] + hi[1]) + v[2] * (lo[2] + hi[2]) > 0
             THEN "ok" ELSE "aspect_formula"

CurvClause(c, g, cs, r, k) ==
  LET o == c.curv[r+1][k+1]           \* 0 = NaN, 1 = number
      e == CurvAt(g, c.H, c.W, r, k, cs[1], cs[2], "none")
  IN IF ~Interior(c.H, c.W, r, k) THEN (IF o = 0 THEN "ok" ELSE "curvature_border_not_nan")
     ELSE IF (o = 0) # (e[2] = 0) THEN "curvature_nan_iff_a_read_cell_is_nan"
     ELSE IF o = 0 THEN "ok"
     ELSE IF ~(c.clo[r+1][k+1] * e[2] <= e[1] * c.ck /\ e[1] * c.ck <= c.chi[r+1][k+1] * e[2]) THEN "curvature_formula"
     ELSE "ok"

InSeq(x, s) == \E i \in 1..Len(s) : s[i] = x
HillClause(c, g, r, k) ==
  LET o == c.hill[r+1][k+1]
      e == HillAt(g, c.H, c.W, r, k, "none")
  IN IF ~Interior(c.H, c.W, r, k) THEN (IF o = NAN THEN "ok" ELSE "hillshade_border_not_nan")
     ELSE IF (o = NAN) # (e[3] = 0) THEN "hillshade_nan_iff_a_read_cell_is_nan"
     ELSE IF o = NAN THEN "ok"
     ELSE IF o < 0 \/ o > 1000000 THEN "hillshade_range"
     ELSE IF ~InSeq(<<e[1], e[2]>>, c.hcand[r+1][k+1]) THEN "hillshade_formula"
     ELSE "ok"

CellClauseF(c, g, cs, r, k) ==
  LET a == SlopeClause(c, g, cs, r, k) IN IF a # "ok" THEN a ELSE
  LET b == AspectClause(c, g, r, k) IN IF b # "ok" THEN b ELSE
  LET d == CurvClause(c, g, cs, r, k) IN IF d # "ok" THEN d ELSE
  HillClause(c, g, r, k)

RECURSIVE FirstBadF(_, _, _, _)
FirstBadF(c, g, cs, n) ==
  IF n = c.H * c.W THEN "ok"
  ELSE LET cl == CellClauseF(c, g, cs, n \div c.W, n % c.W) IN IF cl # "ok" THEN cl ELSE FirstBadF(c, g, cs, n + 1)

\* (lazy_ok: on a Dask-backed raster every result must still be a dask array before it is computed)
VF(c) == IF c.lazy_ok # 1 THEN "dask_result_not_lazy"
         ELSE IF c.shape_ok # 1 THEN "output_shape" ELSE FirstBadF(c, F2(c.g), CellSizeOf(c), 0)

\* ------------------------------------------------------------------------------- kind "G"
\* nan : H x W 0/1 mask of the input's NaN cells; out.<fn> : H x W integers (NAN = NaN)
FnNames == <<"slope", "aspect", "curvature", "hillshade">>
RangeOK(fn, o) ==
  CASE fn = "slope" -> o >= 0 /\ o <= 90000000
    [] fn = "aspect" -> o = FLATV \/ (o >= 0 /\ o <= FULL)
    [] fn = "curvature" -> TRUE
    [] fn = "hillshade" -> o >= 0 /\ o <= 1000000
GClause(c, fn, o) ==
  LET bad == {rc \in (0..c.H-1) \X (0..c.W-1) :
                LET v == o[rc[1]+1][rc[2]+1]
                    readsNaN == \E d \in ReadsOf(fn) : c.nan[rc[1] + d[1] + 1][rc[2] + d[2] + 1] = 1
                IN IF ~Interior(c.H, c.W, rc[1], rc[2]) THEN v # NAN
                   ELSE (v = NAN) # readsNaN}
      out == {rc \in (0..c.H-1) \X (0..c.W-1) : LET v == o[rc[1]+1][rc[2]+1] IN v # NAN /\ ~RangeOK(fn, v)}
  IN IF \E rc \in bad : ~Interior(c.H, c.W, rc[1], rc[2]) THEN fn \o "_border_not_nan"
     ELSE IF bad # {} THEN fn \o "_nan_iff_a_read_cell_is_nan"
     ELSE IF out # {} THEN fn \o "_range"
     ELSE "ok"
VG(c) ==
  LET a == GClause(c, "slope", c.slope) IN IF a # "ok" THEN a ELSE
  LET b == GClause(c, "aspect", c.aspect) IN IF b # "ok" THEN b ELSE
  LET d == GClause(c, "curvature", c.curvature) IN IF d # "ok" THEN d ELSE
  GClause(c, "hillshade", c.hillshade)

\* ------------------------------------------------------------------------------- kind "P"
\* p = <<r, c>> the changed cell (0-based); d.<fn> = list of <<r, c>> output cells whose bits differ
PClause(c, fn, diffs) ==
  IF \E i \in 1..Len(diffs) : ~Near(<<c.p[1], c.p[2]>>, <<diffs[i][1], diffs[i][2]>>) THEN "locality_" \o fn ELSE "ok"
PDrift(c, fn, diffs) ==       \* stricter, model-level: only cells whose kernel READS p may change
  \E i \in 1..Len(diffs) : <<c.p[1] - diffs[i][1], c.p[2] - diffs[i][2]>> \notin ReadsOf(fn)
VP(c) ==
  LET a == PClause(c, "slope", c.dslope) IN IF a # "ok" THEN a ELSE
  LET b == PClause(c, "aspect", c.daspect) IN IF b # "ok" THEN b ELSE
  LET d == PClause(c, "curvature", c.dcurvature) IN IF d # "ok" THEN d ELSE
  PClause(c, "hillshade", c.dhillshade)
XP(c) == IF PDrift(c, "slope", c.dslope) \/ PDrift(c, "aspect", c.daspect)
            \/ PDrift(c, "curvature", c.dcurvature) \/ PDrift(c, "hillshade", c.dhillshade)
         THEN "drift_changed_cell_not_read_by_kernel" ELSE "reads_ok"

\* ------------------------------------------------------------------------------- kind "K" / "S"
VK(c) ==
  IF Len(c.dslope) # 0 THEN "offset_slope" ELSE IF Len(c.daspect) # 0 THEN "offset_aspect"
  ELSE IF Len(c.dcurvature) # 0 THEN "offset_curvature" ELSE IF Len(c.dhillshade) # 0 THEN "offset_hillshade" ELSE "ok"
VS(c) ==
  IF c.names_ok # 1 THEN "summarize_terrain_layer_names"
  ELSE IF Len(c.dslope) # 0 THEN "summarize_terrain_slope" ELSE IF Len(c.daspect) # 0 THEN "summarize_terrain_aspect"
  ELSE IF Len(c.dcurvature) # 0 THEN "summarize_terrain_curvature" ELSE "ok"

\* ------------------------------------------------------------------------------- kind "R"
\* s0, a0, c0 : outputs on the raster (H x W); s1, a1, c1 : outputs on np.rot90(raster) (W x H).
\* slope / aspect in micro-degrees, curvature * 1000 (rounded); tolerance ctol on curvature
CircDiff(x, y) == LET d == (x - y) % FULL IN IF d > FULL - d THEN FULL - d ELSE d
RotCellClause(c, i, j) ==         \* cell (i,j) of the turned raster comes from (j, W-1-i)
  LET s1 == c.s1[i+1][j+1]  s0 == c.s0[j+1][c.W-i]
      a1 == c.a1[i+1][j+1]  a0 == c.a0[j+1][c.W-i]
      k1 == c.c1[i+1][j+1]  k0 == c.c0[j+1][c.W-i]
  IN IF (s1 = NAN) # (s0 = NAN) \/ (s1 # NAN /\ Abs(s1 - s0) > TOL) THEN "rot90_slope_turns_with_raster"
     ELSE IF (k1 = NAN) # (k0 = NAN) \/ (k1 # NAN /\ Abs(k1 - k0) > c.ctol) THEN "rot90_curvature_turns_with_raster"
     ELSE IF (a1 = NAN) # (a0 = NAN) \/ (a1 = FLATV) # (a0 = FLATV) THEN "rot90_aspect_nan_or_flat"
     ELSE IF a1 # NAN /\ a1 # FLATV /\ CircDiff(a1, a0 + (RotSectors * 22500000)) > TOL THEN "rot90_aspect_shifts_by_90"
     ELSE "ok"
RECURSIVE FirstBadR(_, _)
FirstBadR(c, n) ==
  IF n = c.H * c.W THEN "ok"
  ELSE LET cl == RotCellClause(c, n \div c.H, n % c.H) IN IF cl # "ok" THEN cl ELSE FirstBadR(c, n + 1)
VR(c) == FirstBadR(c, 0)

\* ------------------------------------------------------------------------------- kind "C"
\* get_dataarray_resolution observed directly: ox, oy exact rationals (<<0,0>>: not a small rational)
VC(c) ==
  LET cs == CellSizeOf(c) IN
  IF c.ox[2] = 0 \/ ~CsEq(c.ox, cs[1]) THEN "cellsize_x"
  ELSE IF c.oy[2] = 0 \/ ~CsEq(c.oy, cs[2]) THEN "cellsize_y" ELSE "ok"

\* -------------------------------------------------------------------------------
V(c) == CASE c.kind = "F" -> <<VF(c), "">>
          [] c.kind = "G" -> <<VG(c), "">>
          [] c.kind = "P" -> <<VP(c), XP(c)>>
          [] c.kind = "K" -> <<VK(c), "">>
          [] c.kind = "S" -> <<VS(c), "">>
          [] c.kind = "R" -> <<VR(c), "">>
          [] c.kind = "C" -> <<VC(c), "">>

ASSUME \A i \in 1..Len(Cases) : LET v == V(Cases[i]) IN PrintT(<<"VERDICT", i, v[1], v[2]>>)
=============================================================================
