------------------------------ MODULE TreeOps ------------------------------
(* Step-level model of the status structure of xrspatial.viewshed (C05 layer 1):          *)
(* a transliteration of _create_status_struct, _left_rotate, _right_rotate,               *)
(* _rb_insert_fixup, _insert_into_tree, _search_for_node, _find_max_value_within_key,     *)
(* _rb_delete_fixup and _delete_from_tree (viewshed.py:93-704) over the same arrays.      *)
(*                                                                                        *)
(* A tree state is a record t of functions over row ids  Ids(n) = -1 .. n-2  (row -1 is    *)
(* the NIL sentinel = the LAST row of the arrays, row 0 the dummy node created by          *)
(* _create_status_struct, key 0):                                                          *)
(*   key g0 g1 g2 a0 a1 a2 mx      -- tree_vals columns (mx = TN_MAX_GRAD_ID)              *)
(*   color left right parent       -- tree_nodes columns                                   *)
(*   root, n                                                                               *)
(* Loops of the code are recursive operators that thread t; every array write of the code *)
(* (including the writes into the NIL row) is one EXCEPT.  Gradients and angles are        *)
(* integers (or order-isomorphic ranks in trace validation); interpolation is compared by  *)
(* cross-multiplication so no division is needed.                                          *)
EXTENDS Integers, Sequences, FiniteSets

NIL == -1
RED == 0
BLACK == 1
SMALL == -1000                    \* stands for SMALLEST_GRAD (driven integers / ranks stay far above)

Ids(n) == (0-1)..(n-2)
Min3(a, b, c) == IF a <= b /\ a <= c THEN a ELSE IF b <= c THEN b ELSE c
MinG(t, x) == Min3(t.g0[x], t.g1[x], t.g2[x])           \* _find_value_min_value
Big(a, b) == IF a > b THEN a ELSE b                      \* "if a > b: a else: b"

\* a node value as passed to _insert_into_tree
Val(k, g0, g1, g2, a0, a1, a2) == [key |-> k, g0 |-> g0, g1 |-> g1, g2 |-> g2, a0 |-> a0, a1 |-> a1, a2 |-> a2]
\* _create_status_struct fills the dummy root and the NIL row from a 10-element array laid out for an
\* older struct: key 0, g0 = g1 = -1, g2 = a0 = a1 = SMALLEST_GRAD, a2 = 0.  Its min gradient is
\* SMALLEST_GRAD, so it never blocks anything.
DummyVal == Val(0, -1, -1, SMALL, SMALL, SMALL, 0)

\* _create_tree_nodes
CreateNode(t, x, v, col) ==
  [t EXCEPT !.key[x] = v.key, !.g0[x] = v.g0, !.g1[x] = v.g1, !.g2[x] = v.g2,
            !.a0[x] = v.a0, !.a1[x] = v.a1, !.a2[x] = v.a2, !.mx[x] = SMALL,
            !.color[x] = col, !.left[x] = NIL, !.right[x] = NIL, !.parent[x] = NIL]

\* _create_status_struct on zeroed arrays of n rows
NewTree(n) ==
  LET z == [i \in Ids(n) |-> 0]
      t0 == [key |-> z, g0 |-> z, g1 |-> z, g2 |-> z, a0 |-> z, a1 |-> z, a2 |-> z, mx |-> z,
             color |-> z, left |-> z, right |-> z, parent |-> z, root |-> 0, n |-> n]
      t1 == CreateNode(t0, 0, DummyVal, BLACK)
      t2 == CreateNode(t1, NIL, DummyVal, BLACK)
  IN [t2 EXCEPT !.left[NIL] = n, !.right[NIL] = n, !.parent[NIL] = n]

\* ---------------------------------------------------------------- rotations
LeftRotate(t, x) ==
  LET y == t.right[x]
      xl == t.left[x]
      yl == t.left[y]
      mxx == Big(Big(t.mx[xl], t.mx[yl]), MinG(t, x))
      t1 == [t EXCEPT !.mx[x] = mxx]
      yr == t1.right[y]
      mxy == Big(Big(t1.mx[x], t1.mx[yr]), MinG(t1, y))
      t2 == [t1 EXCEPT !.mx[y] = mxy]
      t3 == [t2 EXCEPT !.right[x] = yl]
      t4 == [t3 EXCEPT !.parent[yl] = x]
      t5 == [t4 EXCEPT !.parent[y] = t4.parent[x]]
      xp == t5.parent[x]
      t6 == IF xp = NIL THEN [t5 EXCEPT !.root = y]
            ELSE IF x = t5.left[xp] THEN [t5 EXCEPT !.left[xp] = y]
            ELSE [t5 EXCEPT !.right[xp] = y]
      t7 == [t6 EXCEPT !.left[y] = x]
  IN [t7 EXCEPT !.parent[x] = y]

RightRotate(t, y) ==
  LET x == t.left[y]
      xr == t.right[x]
      yr == t.right[y]
      mxy == Big(Big(t.mx[xr], t.mx[yr]), MinG(t, y))
      t1 == [t EXCEPT !.mx[y] = mxy]
      xl == t1.left[x]
      mxx == Big(Big(t1.mx[xl], t1.mx[y]), MinG(t1, x))
      t2 == [t1 EXCEPT !.mx[x] = mxx]
      t3 == [t2 EXCEPT !.left[y] = xr]
      t4 == [t3 EXCEPT !.parent[xr] = y]
      t5 == [t4 EXCEPT !.parent[x] = t4.parent[y]]
      yp == t5.parent[y]
      t6 == IF yp = NIL THEN [t5 EXCEPT !.root = x]
            ELSE IF t5.left[yp] = y THEN [t5 EXCEPT !.left[yp] = x]
            ELSE [t5 EXCEPT !.right[yp] = x]
      t7 == [t6 EXCEPT !.right[x] = y]
  IN [t7 EXCEPT !.parent[y] = x]

\* ---------------------------------------------------------------- insertion
RECURSIVE InsertFixup(_, _)
InsertFixup(t, z) ==
  LET zp == t.parent[z] IN
  IF t.color[zp] # RED THEN [t EXCEPT !.color[t.root] = BLACK]
  ELSE
    LET zpp == t.parent[zp] IN
    IF t.parent[z] = t.left[zpp] THEN
       LET y == t.right[zpp] IN
       IF t.color[y] = RED THEN
          InsertFixup([t EXCEPT !.color[zp] = BLACK, !.color[y] = BLACK, !.color[zpp] = RED], zpp)
       ELSE
          LET case2 == z = t.right[zp]
              z2 == IF case2 THEN zp ELSE z
              tA == IF case2 THEN LeftRotate(t, zp) ELSE t
              zp2 == tA.parent[z2]
              zpp2 == tA.parent[zp2]
              tB == [tA EXCEPT !.color[zp2] = BLACK, !.color[zpp2] = RED]
          IN InsertFixup(RightRotate(tB, zpp2), z2)
    ELSE
       LET y == t.left[zpp] IN
       IF t.color[y] = RED THEN
          InsertFixup([t EXCEPT !.color[zp] = BLACK, !.color[y] = BLACK, !.color[zpp] = RED], zpp)
       ELSE
          LET case2 == z = t.left[zp]
              z2 == IF case2 THEN zp ELSE z
              tA == IF case2 THEN RightRotate(t, zp) ELSE t
              zp2 == tA.parent[z2]
              zpp2 == tA.parent[zp2]
              tB == [tA EXCEPT !.color[zp2] = BLACK, !.color[zpp2] = RED]
          IN InsertFixup(LeftRotate(tB, zpp2), z2)

RECURSIVE Descend(_, _, _)
Descend(t, cur, k) ==                          \* leaf under which key k is attached (equal keys go right)
  LET nxt == IF k < t.key[cur] THEN t.left[cur] ELSE t.right[cur] IN
  IF nxt = NIL THEN cur ELSE Descend(t, nxt, k)

RECURSIVE MaxWalk(_, _)
MaxWalk(t, nd) ==                              \* "update augmented maxGradient" loop
  IF t.parent[nd] = NIL THEN t
  ELSE LET p == t.parent[nd]
           t1 == IF t.mx[p] < t.mx[nd] THEN [t EXCEPT !.mx[p] = t.mx[nd]] ELSE t
       IN IF t1.mx[p] > t1.mx[nd] THEN t1 ELSE MaxWalk(t1, p)

\* _insert_into_tree(tree_vals, tree_nodes, root, node_id, value)
Insert(t, id, v) ==
  LET cur == Descend(t, t.root, v.key)
      t1 == CreateNode(t, id, v, RED)
      t2 == [t1 EXCEPT !.parent[id] = cur]
      t3 == IF v.key < t2.key[cur] THEN [t2 EXCEPT !.left[cur] = id] ELSE [t2 EXCEPT !.right[cur] = id]
      t4 == [t3 EXCEPT !.mx[id] = MinG(t3, id)]
  IN InsertFixup(MaxWalk(t4, id), id)

\* ---------------------------------------------------------------- search / traversal
RECURSIVE Search(_, _, _)
Search(t, cur, k) ==
  IF cur = NIL \/ t.key[cur] = k THEN cur
  ELSE Search(t, IF k < t.key[cur] THEN t.left[cur] ELSE t.right[cur], k)

RECURSIVE TreeMin(_, _)
TreeMin(t, x) == IF t.left[x] = NIL THEN x ELSE TreeMin(t, t.left[x])
RECURSIVE TreeMaxNode(_, _)
TreeMaxNode(t, x) == IF t.right[x] = NIL THEN x ELSE TreeMaxNode(t, t.right[x])

RECURSIVE UpWhileLeft(_, _, _)
UpWhileLeft(t, last, cur) ==
  IF cur # NIL /\ last = t.left[cur] THEN UpWhileLeft(t, cur, t.parent[cur]) ELSE cur
\* "get next smaller key" of the exact walk
Pred(t, cur) ==
  IF t.left[cur] # NIL THEN TreeMaxNode(t, t.left[cur]) ELSE UpWhileLeft(t, cur, t.parent[cur])

\* ---------------------------------------------------------------- the query
\* interpolated gradient of node x at angle ang is  > g  (the three branches of the code),
\* cross-multiplied: a1-a0 > 0 and a2-a1 > 0 on the branches that divide
InterpGT(v, ang, g) ==
  IF ang < v.a1 THEN v.g1 * (v.a1 - v.a0) + (v.g0 - v.g1) * (v.a1 - ang) > g * (v.a1 - v.a0)
  ELSE IF ang > v.a1 THEN v.g1 * (v.a2 - v.a1) + (v.g2 - v.g1) * (ang - v.a1) > g * (v.a2 - v.a1)
  ELSE v.g1 > g
NodeVal(t, x) == Val(t.key[x], t.g0[x], t.g1[x], t.g2[x], t.a0[x], t.a1[x], t.a2[x])

RECURSIVE Phase1(_, _, _)
Phase1(t, cur, m) ==                           \* augmented shortcut: walk up from the key node
  IF t.parent[cur] = NIL THEN m
  ELSE LET p == t.parent[cur]
           m1 == IF cur = t.right[p] THEN Big(MinG(t, p), Big(t.mx[t.left[p]], m)) ELSE m
       IN Phase1(t, p, m1)

\* exact walk over all smaller keys; GT(x) = "interpolated gradient of row x exceeds g"
\* (supplied by the caller: InterpGT on integers, or the float bridge in trace validation)
RECURSIVE Phase2(_, _, _, _, _)
Phase2(t, cur, kn, ang, gt) ==
  IF cur = NIL THEN FALSE
  ELSE IF t.a0[cur] <= ang /\ ang <= t.a2[cur] /\ cur # kn /\ gt[cur] THEN TRUE
  ELSE Phase2(t, Pred(t, cur), kn, ang, gt)

\* _find_max_value_within_key: result as [blocked, phase]  (blocked <=> returned value > g)
QueryGT(t, k, ang, g, gt) ==
  LET kn == Search(t, t.root, k) IN
  IF kn = NIL THEN [blocked |-> FALSE, phase |-> 0]
  ELSE IF Phase1(t, kn, SMALL) > g THEN [blocked |-> TRUE, phase |-> 1]
  ELSE [blocked |-> Phase2(t, kn, kn, ang, gt), phase |-> 2]
Query(t, k, ang, g) ==
  QueryGT(t, k, ang, g, [x \in Ids(t.n) |-> InterpGT(NodeVal(t, x), ang, g)])

\* ---------------------------------------------------------------- deletion
RECURSIVE DeleteFixup(_, _)
DeleteFixup(t, x) ==
  IF x = t.root \/ t.color[x] # BLACK THEN [t EXCEPT !.color[x] = BLACK]
  ELSE
    LET xp == t.parent[x] IN
    IF x = t.left[xp] THEN
      LET w0 == t.right[xp]
          red == t.color[w0] = RED
          t1 == IF red THEN LeftRotate([t EXCEPT !.color[w0] = BLACK, !.color[xp] = RED], xp) ELSE t
          w == IF red THEN t1.right[xp] ELSE w0
      IN IF w = NIL THEN DeleteFixup(t1, t1.parent[x])
         ELSE
           LET wl == t1.left[w]  wr == t1.right[w] IN
           IF t1.color[wl] = BLACK /\ t1.color[wr] = BLACK THEN
              DeleteFixup([t1 EXCEPT !.color[w] = RED], t1.parent[x])
           ELSE
              LET c3 == t1.color[wr] = BLACK
                  t2 == IF c3 THEN RightRotate([t1 EXCEPT !.color[wl] = BLACK, !.color[w] = RED], w) ELSE t1
                  xp2 == t2.parent[x]
                  w2 == IF c3 THEN t2.right[xp2] ELSE w
                  wr2 == t2.right[w2]
                  t3 == [t2 EXCEPT !.color[w2] = t2.color[xp2]]
                  t4 == [t3 EXCEPT !.color[xp2] = BLACK]
                  t5 == [t4 EXCEPT !.color[wr2] = BLACK]
                  t6 == LeftRotate(t5, xp2)
              IN DeleteFixup(t6, t6.root)
    ELSE
      LET w0 == t.left[xp]
          red == t.color[w0] = RED
          t1 == IF red THEN RightRotate([t EXCEPT !.color[w0] = BLACK, !.color[xp] = RED], xp) ELSE t
          w == IF red THEN t1.left[xp] ELSE w0
      IN IF w = NIL THEN DeleteFixup(t1, xp)
         ELSE
           LET wl == t1.left[w]  wr == t1.right[w]
               xp1 == t1.parent[x] IN
           IF t1.color[wr] = BLACK /\ t1.color[wl] = BLACK THEN
              DeleteFixup([t1 EXCEPT !.color[w] = RED], xp1)
           ELSE
              LET c3 == t1.color[wl] = BLACK
                  t2 == IF c3 THEN LeftRotate([t1 EXCEPT !.color[wr] = BLACK, !.color[w] = RED], w) ELSE t1
                  w2 == IF c3 THEN t2.left[xp1] ELSE w
                  t3 == [t2 EXCEPT !.color[w2] = t2.color[xp1]]
                  t4 == [t3 EXCEPT !.color[xp1] = BLACK]
                  wl2 == t4.left[w2]
                  t5 == [t4 EXCEPT !.color[wl2] = BLACK]
                  t6 == RightRotate(t5, xp1)
              IN DeleteFixup(t6, t6.root)

Recompute(t, p) ==                             \* max(children's stored maxima, own min gradient)
  [t EXCEPT !.mx[p] = Big(MinG(t, p), Big(t.mx[t.left[p]], t.mx[t.right[p]]))]

RECURSIVE DelWalkY(_, _, _)
DelWalkY(t, cur, y) ==                         \* "fix augmentation for removing y"
  IF t.parent[cur] = NIL THEN t
  ELSE LET p == t.parent[cur] IN
       IF t.mx[p] = MinG(t, y) THEN DelWalkY(Recompute(t, p), p, y) ELSE t

RECURSIVE DelWalkZ(_, _, _, _)
DelWalkZ(t, z, zg, x) ==                       \* the loop after the successor's values were copied into z
  IF t.parent[z] = NIL THEN t
  ELSE LET zp == t.parent[z]
           zpl == t.left[zp]
           xpr == t.right[t.parent[x]]
           t1 == IF t.mx[zp] = zg THEN
                    (IF MinG(t, zp) # zg /\ ~(t.mx[zpl] = zg /\ t.mx[xpr] = zg) THEN Recompute(t, zp) ELSE t)
                 ELSE IF t.mx[z] > t.mx[zp] THEN [t EXCEPT !.mx[zp] = t.mx[z]]
                 ELSE t
       IN DelWalkZ(t1, zp, zg, x)

\* _delete_from_tree(tree_vals, tree_nodes, root, key) -> [t, deleted]; the key must be present
Delete(t, k) ==
  LET z == Search(t, t.root, k)
      y == IF t.left[z] = NIL \/ t.right[z] = NIL THEN z ELSE TreeMin(t, t.right[z])
      x == IF t.left[y] # NIL THEN t.left[y] ELSE t.right[y]
      t1 == [t EXCEPT !.parent[x] = t.parent[y]]
      yp == t1.parent[y]
      t2 == IF yp = NIL THEN [t1 EXCEPT !.root = x]
            ELSE IF y = t1.left[yp] THEN [t1 EXCEPT !.left[yp] = x]
            ELSE [t1 EXCEPT !.right[yp] = x]
      tofix == IF yp = NIL THEN x ELSE yp
      t3 == DelWalkY(t2, y, y)
      t4 == [t3 EXCEPT !.mx[tofix] = Big(MinG(t3, tofix), Big(t3.mx[t3.left[tofix]], t3.mx[t3.right[tofix]]))]
      t5 == IF y # z THEN
               LET zg == MinG(t4, z)
                   tc == [t4 EXCEPT !.key[z] = t4.key[y], !.g0[z] = t4.g0[y], !.g1[z] = t4.g1[y],
                                    !.g2[z] = t4.g2[y], !.a0[z] = t4.a0[y], !.a1[z] = t4.a1[y], !.a2[z] = t4.a2[y]]
                   td == [tc EXCEPT !.mx[z] = Big(MinG(tc, z), Big(tc.mx[tc.left[z]], tc.mx[tc.right[z]]))]
               IN DelWalkZ(td, z, zg, x)
            ELSE t4
      t6 == IF t5.color[y] = BLACK /\ x # NIL THEN DeleteFixup(t5, x) ELSE t5
  IN [t |-> t6, deleted |-> y]

\* ---------------------------------------------------------------- projections / invariants
RECURSIVE SubtreeRec(_, _, _)
SubtreeRec(t, x, fuel) ==                      \* rows reachable below x (fuel / domain guards: corrupted dumps)
  IF x = NIL \/ fuel = 0 \/ x \notin Ids(t.n) THEN {}
  ELSE {x} \cup SubtreeRec(t, t.left[x], fuel - 1) \cup SubtreeRec(t, t.right[x], fuel - 1)
Subtree(t, x) == SubtreeRec(t, x, t.n)
Nodes(t) == Subtree(t, t.root)

RECURSIVE InOrderRec(_, _, _)
InOrderRec(t, x, fuel) ==
  IF x = NIL \/ fuel = 0 \/ x \notin Ids(t.n) THEN <<>>
  ELSE InOrderRec(t, t.left[x], fuel - 1) \o <<x>> \o InOrderRec(t, t.right[x], fuel - 1)
InOrder(t) == InOrderRec(t, t.root, t.n)

\* shape: child/parent links agree, every row appears once, the root has no parent
LinksOK(t) ==
  /\ t.root \in Ids(t.n)
  /\ t.root # NIL => t.parent[t.root] = NIL
  /\ \A x \in Nodes(t) : t.left[x] \in Ids(t.n) /\ t.right[x] \in Ids(t.n)
  /\ Len(InOrder(t)) = Cardinality(Nodes(t))
  /\ \A x \in Nodes(t) :
       /\ t.left[x] # NIL => t.parent[t.left[x]] = x
       /\ t.right[x] # NIL => t.parent[t.right[x]] = x
IsBST(t) ==                                    \* non-decreasing in-order keys (equal keys are inserted to the right)
  LET s == InOrder(t) IN \A i \in 1..Len(s)-1 : t.key[s[i]] <= t.key[s[i+1]]
NilIntact(t) ==
  /\ t.color[NIL] = BLACK /\ t.mx[NIL] = SMALL
  /\ Min3(t.g0[NIL], t.g1[NIL], t.g2[NIL]) = SMALL
  /\ t.left[NIL] = t.n /\ t.right[NIL] = t.n

RECURSIVE SetMax(_)
SetMax(S) == IF S = {} THEN SMALL ELSE LET a == CHOOSE a \in S : \A b \in S : b <= a IN a
TrueMax(t, x) == SetMax({MinG(t, u) : u \in Subtree(t, x)})
\* the stored maximum may be stale-LOW (the exact walk still finds the blocker) but never HIGH
MaxNeverHigh(t) == \A x \in Nodes(t) : t.mx[x] <= TrueMax(t, x)
MaxExact(t) == \A x \in Nodes(t) : t.mx[x] = TrueMax(t, x)          \* NOT maintained by the code (information)
Contents(t) == {NodeVal(t, x) : x \in Nodes(t)}

\* red-black rules: recorded as information only, never part of a verdict (the code does not keep them)
RECURSIVE BlackHeight(_, _, _)
BlackHeight(t, x, fuel) ==                     \* -1 = unbalanced
  IF x = NIL \/ fuel = 0 THEN 0
  ELSE LET a == BlackHeight(t, t.left[x], fuel - 1)
           b == BlackHeight(t, t.right[x], fuel - 1)
       IN IF a = -1 \/ b = -1 \/ a # b THEN -1 ELSE a + (IF t.color[x] = BLACK THEN 1 ELSE 0)
RedBlackOK(t) ==
  /\ BlackHeight(t, t.root, t.n) # -1
  /\ \A x \in Nodes(t) : t.color[x] = RED => t.color[t.left[x]] = BLACK /\ t.color[t.right[x]] = BLACK
=============================================================================
