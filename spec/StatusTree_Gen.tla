--------------------------- MODULE StatusTree_Gen ---------------------------
(* Generator of operation sequences for the status structure (C05 layer 1, R):            *)
(* `tlc -simulate` walks random behaviours of the abstract ordered map; every step is an   *)
(* insertion of an absent key, a deletion of a present key (the dummy key 0 is never       *)
(* deleted and keys are unique: ViewGeom shows the sweep never holds two equal keys) --    *)
(* the harness drives the sequence through the compiled helpers and StatusTree_Trace       *)
(* validates the dumps.  op = <<code, key, g0, g1, g2, angle-profile>>, code 1 = insert,    *)
(* 2 = delete.                                                                             *)
EXTENDS Integers, Sequences, FiniteSets, TLC

CONSTANTS NKEYS, GVALS, NPROF

VARIABLES present, op
vars == <<present, op>>

Init == present = {} /\ op = <<0, 0, 0, 0, 0, 0>>

Ins(k) == /\ k \notin present
          /\ present' = present \cup {k}
          /\ op' = <<1, k, RandomElement(GVALS), RandomElement(GVALS), RandomElement(GVALS), RandomElement(1..NPROF)>>
Del(k) == /\ k \in present
          /\ present' = present \ {k}
          /\ op' = <<2, k, 0, 0, 0, 0>>
\* |absent| insertions and |present| deletions are enabled: the map hovers around half full
Next == \E k \in 1..NKEYS : Ins(k) \/ Del(k)
Spec == Init /\ [][Next]_vars
=============================================================================
