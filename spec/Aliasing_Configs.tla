--------------------------- MODULE Aliasing_Configs ---------------------------
(* C10: the configuration space  function x backend x dtype x layout  is enumerated BY TLC from   *)
(* the API table of AliasOps (Supported says which configurations are inside the domain).         *)
(*   VERIF_MODE = "emit"  : write every configuration (supported or not) to VERIF_OUT as NDJSON    *)
(*   VERIF_MODE = "cover" : Cases = the configurations the harness actually replayed;              *)
(*                          verdict "ok" iff they are exactly / a subset of the supported space    *)
EXTENDS AliasOps, Json, IOUtils, SequencesExt

Mode == IOEnv.VERIF_MODE
All == AllFuncs \X Backends \X DTypes \X Layouts
Rec(c) == [f |-> c[1], backend |-> c[2], dtype |-> c[3], layout |-> c[4], supported |-> Supported(c[1], c[2], c[3], c[4])]

Emit == ndJsonSerialize(IOEnv.VERIF_OUT, [i \in 1..Cardinality(All) |-> Rec(SetToSeq(All)[i])])

Cases == IF Mode = "cover" THEN ndJsonDeserialize(IOEnv.VERIF_CASES) ELSE <<>>
Ran == {<<Cases[i].f, Cases[i].backend, Cases[i].dtype, Cases[i].layout>> : i \in 1..Len(Cases)}
RanOK == {<<Cases[i].f, Cases[i].backend, Cases[i].dtype, Cases[i].layout>> : i \in {j \in 1..Len(Cases) : ~Cases[j].raised}}

Summary == "ran_" \o ToString(Cardinality(Ran)) \o "_supported_" \o ToString(Cardinality(Configs))
           \o "_supported_and_returned_" \o ToString(Cardinality(RanOK \cap Configs))
           \o "_missing_" \o ToString(Cardinality(Configs \ Ran))
Cover ==
  LET full == IOEnv.VERIF_FULL = "1"
      incomplete == full /\ Configs \ Ran # {}
  IN \A i \in 1..Len(Cases) :
       PrintT(<<"VERDICT", i,
                IF <<Cases[i].f, Cases[i].backend, Cases[i].dtype, Cases[i].layout>> \notin All THEN "unknown_config"
                ELSE IF incomplete THEN "configs_missing" ELSE "ok",
                Summary>>)

ASSUME IF Mode = "emit" THEN Emit ELSE Cover
=============================================================================
