---------------------------- MODULE Spectral_Judge ----------------------------
(* C13 - TLC judges observations of the real xrspatial.multispectral functions.           *)
(*                                                                                         *)
(* kind "I"  one public call of one index on a raster whose cells are band tuples:        *)
(*      idx, par (halves), sh, bs (one tuple of band values per cell, signature order;    *)
(*      integers or NAN), obs (one <<k, p, q>> per cell).  The real input was bs * 2^sh   *)
(*      in the job's dtype (sh > 0: values at the overflow edge of the integer dtype;     *)
(*      sh < 0: float inputs scaled DOWN, sums far below float32 eps but still normal);   *)
(*      that is only admissible for configurations Spectral.tla proves scale-invariant    *)
(*      (DoubleKeeps) - EBBI, which scales with the square root, is divided back by the    *)
(*      bridge.  obs: k = 0 NaN; k = 1 the float is within 4 float32 ulp (of max(|x|,1),  *)
(*      the largest intermediate) of the rational p/q, the unique one with a small        *)
(*      denominator (EBBI: p/q is 100 x |x|); k = 2 +-inf; k = 3 no such rational.        *)
(* kind "M"  metamorphic pairs on arbitrary float bands, outputs as float32 bit patterns  *)
(*      <<sign, magnitude>> (order-isomorphic integers): rel = "swap" | "scale" | "range". *)
(* kind "T"  true_color: red values, nodata (halves), observed alpha, dtype / shape flags. *)
EXTENDS SpectralOps, TLC, Json, IOUtils

Cases == ndJsonDeserialize(IOEnv.VERIF_CASES)

\* ------------------------------------------------------------------------------- kind "I"
CellClause(c, i) ==
  LET b == c.bs[i]
      o == c.obs[i]
      e == Formula(c.idx, b, c.par)
  IN IF o[1] = 2 THEN "never_inf"
     ELSE IF RIsNaN(e) THEN
          (IF o[1] = 0 THEN "ok"
           ELSE IF AnyNaN(b) THEN "nan_band_must_propagate" ELSE "undefined_cell_must_be_nan")
     ELSE IF o[1] = 0 THEN "defined_cell_is_nan"
     ELSE IF o[1] = 3 THEN "formula_value_not_a_nearby_rational"
     ELSE IF ~REq(<<o[2], o[3]>>, e) THEN "formula_value"
     ELSE "ok"

RECURSIVE FirstBadI(_, _)
FirstBadI(c, i) ==
  IF i > Len(c.bs) THEN <<"ok", "">>
  ELSE LET cl == CellClause(c, i) IN
       IF cl # "ok" THEN <<cl \o "_" \o c.idx, "cell_" \o ToString(i)>> ELSE FirstBadI(c, i + 1)

VI(c) ==
  IF c.sh # 0 /\ ~(ScaleInvariant(c.idx, c.par) \/ (c.idx = "ebbi" /\ c.sh % 2 = 0))
     THEN <<"machinery_scaled_case_not_admissible", "">>
  ELSE IF c.shape_ok # 1 THEN <<"output_shape_" \o c.idx, "">>
  ELSE FirstBadI(c, 1)

\* ------------------------------------------------------------------------------- kind "M"
INFMAG == 2139095040          \* 0x7F800000
ONEMAG == 1065353216          \* 0x3F800000 = 1.0f
BNaN(v) == v[2] > INFMAG
BInf(v) == v[2] = INFMAG
MClause(c, i) ==
  LET x == c.x[i]  y == c.y[i] IN
  IF BInf(x) \/ BInf(y) THEN "never_inf"
  ELSE IF BNaN(x) # (c.und[i] = 1) THEN "nan_iff_undefined"
  ELSE IF c.rel = "swap" THEN
        (IF BNaN(x) # BNaN(y) THEN "swap_changes_sign"
         ELSE IF BNaN(x) THEN "ok"
         ELSE IF x[2] # y[2] \/ (x[2] # 0 /\ x[1] = y[1]) THEN "swap_changes_sign" ELSE "ok")
  ELSE IF c.rel = "scale" THEN
        (IF BNaN(x) /\ BNaN(y) THEN "ok" ELSE IF x # y THEN "power_of_two_scaling_keeps_value" ELSE "ok")
  ELSE (IF ~BNaN(x) /\ x[2] > ONEMAG THEN "normalised_difference_in_unit_interval" ELSE "ok")
RECURSIVE FirstBadM(_, _)
FirstBadM(c, i) ==
  IF i > Len(c.x) THEN <<"ok", "">>
  ELSE LET cl == MClause(c, i) IN
       IF cl # "ok" THEN <<cl \o "_" \o c.idx, "cell_" \o ToString(i)>> ELSE FirstBadM(c, i + 1)
VM(c) == FirstBadM(c, 1)

\* ------------------------------------------------------------------------------- kind "T"
RECURSIVE FirstBadT(_, _)
FirstBadT(c, i) ==
  IF i > Len(c.red) THEN <<"ok", "">>
  ELSE IF c.alpha[i] # Alpha(c.red[i], c.nd2) THEN <<"true_color_alpha", "cell_" \o ToString(i)>>
  ELSE FirstBadT(c, i + 1)
VT(c) ==
  IF c.dtype_ok # 1 THEN <<"true_color_not_uint8", "">>
  ELSE IF c.shape_ok # 1 THEN <<"true_color_shape", "">>
  ELSE FirstBadT(c, 1)

V(c) == CASE c.kind = "I" -> VI(c) [] c.kind = "M" -> VM(c) [] c.kind = "T" -> VT(c)

ASSUME \A i \in 1..Len(Cases) : LET v == V(Cases[i]) IN PrintT(<<"VERDICT", i, v[1], v[2]>>)
=============================================================================
