--------------------------- MODULE ClassifyJenks ---------------------------
(* C12 - natural_breaks: the Jenks dynamic programme of                                      *)
(* xrspatial.classify._run_numpy_jenks_matrices and the break extraction of _run_jenks as a   *)
(* state machine over the code's variables (lower_class_limits, var_combinations, sum,        *)
(* sum_squares, w, the loop indices l and m, then kclass, k, count_num), one step per         *)
(* iteration of the `for m` loop resp. of the extraction `while`.                             *)
(*                                                                                            *)
(* Arithmetic is exact: variances are carried multiplied by S = lcm(1..NMAX), so              *)
(* variance = sum_squares - sum^2 / w is the integer S*ss - (S/w)*sum^2.  (The code holds     *)
(* the matrices in float32; on exact ties it may pick another, equally good, partition.)      *)
(*                                                                                            *)
(* Initial states: every sorted sample of 2..NMAX values over 0..VMAX and every class count   *)
(* 2..KMAX not larger than the number of distinct values (otherwise the code does not run     *)
(* Jenks but takes the distinct values as breaks).                                            *)
(* Property: the partition REALISED by the extracted breaks (class of v = first break >= v,   *)
(* last break forced to the maximum) attains the minimum within-class sum of squared          *)
(* deviations over all partitions of the sorted sample into K contiguous classes.             *)
EXTENDS ClassifyOps, TLC

CONSTANTS NMAX, VMAX, KMAX, MUT

VARIABLES data, K, pc, l, m, sum, ss, lcl, vc, kclass, kk, count_num
vars == <<data, K, pc, l, m, sum, ss, lcl, vc, kclass, kk, count_num>>

RECURSIVE Lcm(_, _)
Lcm(a, b) == (a * b) \div Gcd(a, b)
RECURSIVE LcmTo(_)
LcmTo(n) == IF n = 1 THEN 1 ELSE Lcm(LcmTo(n - 1), n)
S == LcmTo(NMAX)
INF == 2000000000

N == Len(data)
Samples == UNION {{s \in [1..n -> 0..VMAX] : \A i \in 1..(n - 1) : s[i] <= s[i + 1]} : n \in 2..NMAX}

\* matrices are indexed [row][col] with rows 0..N, columns 0..K as in the code
Init == /\ data \in Samples
        /\ K \in 2..KMAX
        /\ K <= Distinct(data)
        /\ pc = "dp" /\ l = 2 /\ m = 0 /\ sum = 0 /\ ss = 0
        /\ lcl = [r \in 0..Len(data) |-> [c \in 0..K |-> IF r = 1 /\ c >= 1 THEN 1 ELSE 0]]
        /\ vc = [r \in 0..Len(data) |-> [c \in 0..K |-> IF r >= 2 /\ c >= 1 THEN INF ELSE 0]]
        /\ kclass = [c \in 0..K |-> 0] /\ kk = 0 /\ count_num = 0

\* S * (sum_squares - sum*sum/w)
VarS(s, q, w) == S * q - (S \div w) * s * s

\* the `for j in range(2, n_classes + 1)` loop of one (l, m) iteration, as a fold over j
RECURSIVE JLoop(_, _, _, _, _, _)
JLoop(j, row_lcl, row_vc, variance, i4, lower) ==
  IF j > K THEN <<row_lcl, row_vc>>
  ELSE LET nv == IF vc[i4][j - 1] = INF THEN INF ELSE variance + vc[i4][j - 1]
           upd == IF MUT = "strict_update" THEN row_vc[j] > nv ELSE row_vc[j] >= nv
       IN IF upd THEN JLoop(j + 1, [row_lcl EXCEPT ![j] = lower], [row_vc EXCEPT ![j] = nv], variance, i4, lower)
          ELSE JLoop(j + 1, row_lcl, row_vc, variance, i4, lower)

\* one iteration of `for m in range(l)`
DPStep ==
  /\ pc = "dp"
  /\ LET lower == l - m                      \* lower_class_limit (1-based position in the sorted sample)
         i4 == lower - 1
         val == data[lower]
         w == m + 1
         sum1 == sum + val
         ss1 == ss + val * val
         variance == IF MUT = "variance_no_mean" THEN S * ss1 ELSE VarS(sum1, ss1, w)
         r == IF i4 = 0 THEN <<lcl[l], vc[l]>> ELSE JLoop(2, lcl[l], vc[l], variance, i4, lower)
         lastm == m = l - 1
         \* after the m loop: lower_class_limits[l, 1] = 1 ; var_combinations[l, 1] = variance
         rl == IF lastm THEN [r[1] EXCEPT ![1] = 1] ELSE r[1]
         rv == IF lastm THEN [r[2] EXCEPT ![1] = variance] ELSE r[2]
     IN /\ lcl' = [lcl EXCEPT ![l] = rl]
        /\ vc' = [vc EXCEPT ![l] = rv]
        /\ IF ~lastm THEN /\ m' = m + 1 /\ sum' = sum1 /\ ss' = ss1 /\ l' = l /\ pc' = "dp"
                               /\ UNCHANGED <<kclass, kk, count_num>>
           ELSE IF l < N THEN /\ l' = l + 1 /\ m' = 0 /\ sum' = 0 /\ ss' = 0 /\ pc' = "dp"
                              /\ UNCHANGED <<kclass, kk, count_num>>
           ELSE \* _run_jenks: kclass[0] = data[0]; kclass[-1] = data[-1]; k = n; count_num = n_classes
                /\ pc' = "extract" /\ kk' = N /\ count_num' = K
                /\ kclass' = [[c \in 0..K |-> 0] EXCEPT ![0] = data[1], ![K] = data[N]]
                /\ UNCHANGED <<l, m, sum, ss>>
  /\ UNCHANGED <<data, K>>

\* one iteration of `while count_num > 1`
ExtractStep ==
  /\ pc = "extract"
  /\ IF count_num > 1
     THEN LET elt == lcl[kk][count_num] - (IF MUT = "elt_off_by_one" THEN 1 ELSE 2) IN   \* 0-based index into data
          /\ kclass' = [kclass EXCEPT ![count_num - 1] = data[elt + 1]]
          /\ kk' = lcl[kk][count_num] - 1
          /\ count_num' = count_num - 1
          /\ pc' = "extract"
     ELSE /\ pc' = "done" /\ UNCHANGED <<kclass, kk, count_num>>
  /\ UNCHANGED <<data, K, l, m, sum, ss, lcl, vc>>

Next == DPStep \/ ExtractStep
Spec == Init /\ [][Next]_vars /\ WF_vars(Next)

-----------------------------------------------------------------------------
\* bins = kclass[1:], bins[-1] = max_data
Bins == [i \in 1..K |-> IF i = K THEN data[N] ELSE kclass[i]]
ClassOf(v) == (CHOOSE i \in 1..K : Bins[i] >= v /\ \A j \in 1..(i - 1) : Bins[j] < v) - 1
\* total SSD of the partition the breaks realise on the sample
Members(c) == SelectSeq(data, LAMBDA v : ClassOf(v) = c)
RECURSIVE RealisedFrom(_)
RealisedFrom(c) == IF c = K THEN <<0, 1>>
                   ELSE LET ms == Members(c) IN
                        IF ms = <<>> THEN RealisedFrom(c + 1)
                        ELSE RAdd(SSDR(ms, 1, Len(ms)), RealisedFrom(c + 1))
RealisedSSD == RealisedFrom(0)

TypeOK == /\ pc \in {"dp", "extract", "done"}
          /\ l \in 2..N /\ m \in 0..(N - 1) /\ kk \in 0..N /\ count_num \in 0..K

\* ---- the property
RealisedIsOptimal == pc = "done" => REq(RealisedSSD, MinSSD(data, N, K))
BreaksAscending == pc = "done" => \A i \in 1..(K - 1) : Bins[i] < Bins[i + 1]
EveryClassUsed == pc = "done" => \A c \in 0..(K - 1) : Members(c) # <<>>
\* ---- the dynamic programme: a finished row holds the optimum of every prefix
RowsOptimal == \A r \in 2..N : (r < l \/ pc # "dp") =>
                  \A j \in 1..K : j <= r =>
                     LET q == MinSSD(data, r, j) IN vc[r][j] * q[2] = S * q[1]
\* the walk back through lower_class_limits stays inside the sample
ExtractionInRange == pc = "extract" /\ count_num > 1 =>
                        /\ kk \in 1..N /\ lcl[kk][count_num] \in 2..kk
\* an optimal partition never needs to separate equal values (so a partition by breaks can attain it)
NoSplitNeeded == pc = "dp" /\ l = 2 /\ m = 0 => REq(MinSSD(data, N, K), MinSSDNoSplit(data, N, K))

Terminates == <>(pc = "done")
=============================================================================
