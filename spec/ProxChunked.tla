---------------------------- MODULE ProxChunked ----------------------------
(* C07: Dask proximity = map_overlap(_process_numpy, raster, xs, ys, depth=(PADY,PADX),      *)
(* boundary=NaN).  Each block runs the whole four-sweep model (ProxOps!RunAll) on its halo     *)
(* window - cells outside the raster are non-targets with NaN coordinates - the halo is trimmed *)
(* and the blocks are assembled.  Property: the assembly equals the whole-raster run, for every *)
(* chunking (every set of row cuts x every set of column cuts) and every target layout with at  *)
(* most NT targets.  PADY/PADX are what the code computes: int(max/cellsize + 0.5) per axis.    *)
EXTENDS ProxOps, TLC

CONSTANTS H, W, XS, YS, METRIC, BOUND2, MAXN, PADY, PADX, NT

VARIABLES img, rowCuts, colCuts
vars == <<img, rowCuts, colCuts>>

Whole == [H |-> H, W |-> W, img |-> img,
          xs |-> [c \in 0..W-1 |-> XS[c+1]], ys |-> [r \in 0..H-1 |-> YS[r+1]],
          metric |-> METRIC, tab |-> <<>>, bound2 |-> BOUND2, maxn |-> MAXN]

\* start of the block containing index i / end (exclusive), given the cut positions
Lo(cuts, i) == LET s == {k \in cuts : k <= i} IN IF s = {} THEN 0 ELSE CHOOSE k \in s : \A j \in s : j <= k
Hi(cuts, i, n) == LET s == {k \in cuts : k > i} IN IF s = {} THEN n ELSE CHOOSE k \in s : \A j \in s : k <= j

\* environment of the halo window of the block [r0,r1) x [c0,c1)
BlockEnv(r0, r1, c0, c1) ==
  LET bh == r1 - r0 + 2*PADY   bw == c1 - c0 + 2*PADX
      RR(i) == r0 - PADY + i     CC(j) == c0 - PADX + j
      inR(i) == RR(i) >= 0 /\ RR(i) < H
      inC(j) == CC(j) >= 0 /\ CC(j) < W
  IN [H |-> bh, W |-> bw,
      img |-> [i \in 0..bh-1 |-> [j \in 0..bw-1 |-> IF inR(i) /\ inC(j) THEN img[RR(i)][CC(j)] ELSE 0]],
      \* the coordinate grids are 2-D and padded with NaN: a halo cell outside the raster has NaN
      \* coordinates.  xs/ys here are per-column/per-row, so a cell is "outside" when either is NAC;
      \* rows/columns that are outside are NAC everywhere, which is all DD needs.
      xs |-> [j \in 0..bw-1 |-> IF inC(j) THEN XS[CC(j)+1] ELSE NAC],
      ys |-> [i \in 0..bh-1 |-> IF inR(i) THEN YS[RR(i)+1] ELSE NAC],
      metric |-> METRIC, tab |-> <<>>, bound2 |-> BOUND2, maxn |-> MAXN]

BlockStarts(cuts) == {0} \cup cuts

\* results of all blocks, keyed by block start
BlockRuns == [b \in BlockStarts(rowCuts) \X BlockStarts(colCuts) |->
                RunAll(BlockEnv(b[1], Hi(rowCuts, b[1], H), b[2], Hi(colCuts, b[2], W)))]

\* value assembled for raster cell (r,c): the trimmed block result; allocation translated back
Asm(runs, r, c) ==
  LET r0 == Lo(rowCuts, r)  c0 == Lo(colCuts, c)
      res == runs[<<r0, c0>>]
      i == r - r0 + PADY   j == c - c0 + PADX
      ar == res.aR[i][j]   ac == res.aC[i][j]
  IN [d |-> res.imgD[i][j],
      ar |-> IF ar = NONE THEN NONE ELSE r0 - PADY + ar,
      ac |-> IF ac = NONE THEN NONE ELSE c0 - PADX + ac]

Init == /\ img \in [0..H-1 -> [0..W-1 -> {0,1}]]
        /\ Cardinality({p \in (0..H-1) \X (0..W-1) : img[p[1]][p[2]] = 1}) <= NT
        /\ rowCuts \in SUBSET (1..H-1) /\ colCuts \in SUBSET (1..W-1)
Next == UNCHANGED vars
Spec == Init /\ [][Next]_vars

\* ---- C07
AssembledEqWhole ==
  LET w == RunAll(Whole)  runs == BlockRuns IN
  \A r \in 0..H-1, c \in 0..W-1 :
     LET a == Asm(runs, r, c) IN
     /\ a.d = w.imgD[r][c]
     \* allocation/direction: same target, or (tie) a target at the same distance
     /\ (a.d # NONE => /\ a.ar # NONE /\ a.ac # NONE
                       /\ a.ar >= 0 /\ a.ar < H /\ a.ac >= 0 /\ a.ac < W
                       /\ img[a.ar][a.ac] = 1
                       /\ DD(Whole, r, c, a.ar, a.ac) = a.d)
SameAllocation ==
  LET w == RunAll(Whole)  runs == BlockRuns IN
  \A r \in 0..H-1, c \in 0..W-1 :
     LET a == Asm(runs, r, c) IN a.ar = w.aR[r][c] /\ a.ac = w.aC[r][c]
=============================================================================
