--------------------------- MODULE Kernels_Judge ---------------------------
(* C19: verdicts on kernels and cell sizes OBSERVED from the real circle_kernel,            *)
(* annulus_kernel, calc_cellsize and custom_kernel (abstract definitions: KernelOps.tla).   *)
(*                                                                                          *)
(* kind "circle" / "annulus": cx, cy, r, ri rationals <<n, d>> in metres (ri = <<0,1>> for  *)
(*   a circle), kernel = observed matrix of integers (-99 = entry that is not an integer),  *)
(*   err = 1 iff the call raised.                                                           *)
(* kind "cellsize": mode "attr2" (res attribute pair rx, ry), "attr1" (scalar rx),          *)
(*   "coords" (coordinate vectors xs, ys as integers over the common denominator sc);       *)
(*   unit = attribute string ("" = absent); obs = <<cellsize_x, cellsize_y>> as rationals   *)
(*   (<<1,0>> = the float was not within tolerance of any admissible rational).             *)
(* kind "custom": rows, cols, isarray, raised, same (returned the very object).             *)
EXTENDS KernelOps, TLC, Json, IOUtils

Cases == ndJsonDeserialize(IOEnv.VERIF_CASES)

Abs(x) == IF x < 0 THEN -x ELSE x
REq(p, q) == p[2] # 0 /\ q[2] # 0 /\ p[1] * q[2] = q[1] * p[2]

\* ---------------------------------------------------------------- circle / annulus
MatEq(obs, exp) ==
  /\ Rows(obs) = Rows(exp) /\ Cols(obs) = Cols(exp)
  /\ \A i \in 1..Rows(exp), j \in 1..Cols(exp) : obs[i][j] = exp[i][j]

KernelV(c) ==
  LET a == TruncDiv(c.r, c.cx)
      b == TruncDiv(c.r, c.cy)
      k == c.kernel
      nr == Rows(k)
      nc == Cols(k)
      rect == \A i \in 1..nr : Len(k[i]) = nc
      flips == \A i \in 1..nr, j \in 1..nc : k[i][j] = k[i][nc + 1 - j] /\ k[i][j] = k[nr + 1 - i][j]
      ai == TruncDiv(c.ri, c.cx)
      bi == TruncDiv(c.ri, c.cy)
      exp == IF c.kind = "circle" THEN AsMatrix(CircleSet(a, b), a, b)
             ELSE AsMatrix(AnnulusSet(a, b, ai, bi), a, b)
  IN CASE c.err = 1 -> <<"valid_rejected", "">>
       [] ~rect \/ nr % 2 = 0 \/ nc % 2 = 0 -> <<"odd_shape", ToString(<<nr, nc>>)>>
       [] nr # 2 * b + 1 \/ nc # 2 * a + 1 -> <<"shape", ToString(<<nr, nc, 2 * b + 1, 2 * a + 1>>)>>
       [] \E i \in 1..nr, j \in 1..nc : k[i][j] < 0 ->
            <<IF c.kind = "annulus" THEN "annulus_negative" ELSE "ellipse_mask", "">>
       [] ~flips -> <<"flip_symmetry", "">>
       [] ~MatEq(k, exp) -> <<IF c.kind = "circle" THEN "ellipse_mask" ELSE "annulus_difference", "">>
       [] OTHER -> <<"ok", IF a * 4 * c.cx[1] * c.r[2] # c.r[1] * 4 * c.cx[2] THEN "nonintegral" ELSE "">>

\* ---------------------------------------------------------------- calc_cellsize
\* the published unit list (error message of _get_distance; calc_cellsize's docstring: "Supported units are:
\* meter, kelometer, foot, and mile"), metres per unit
Factor(u) == CASE u \in {"", "meter", "meters", "m"} -> <<1, 1>>
               [] u \in {"kilometer", "kilometers", "km"} -> <<1000, 1>>
               [] u \in {"foot", "feet", "ft"} -> <<381, 1250>>
               [] u \in {"mile", "miles", "mls", "ml"} -> <<201168, 125>>

SeqMax(s) == CHOOSE x \in {s[i] : i \in 1..Len(s)} : \A i \in 1..Len(s) : s[i] <= x
SeqMin(s) == CHOOSE x \in {s[i] : i \in 1..Len(s)} : \A i \in 1..Len(s) : s[i] >= x

CellV(c) ==
  LET f == Factor(c.unit)
      rx == CASE c.mode = "attr2" -> c.rx
               [] c.mode = "attr1" -> c.rx
               [] OTHER -> <<SeqMax(c.xs) - SeqMin(c.xs), (Len(c.xs) - 1) * c.sc>>
      ry == CASE c.mode = "attr2" -> c.ry
               [] c.mode = "attr1" -> c.rx
               [] OTHER -> <<SeqMax(c.ys) - SeqMin(c.ys), (Len(c.ys) - 1) * c.sc>>
      ex == <<rx[1] * f[1], rx[2] * f[2]>>
      ey == <<Abs(ry[1]) * f[1], ry[2] * f[2]>>
  IN CASE c.err = 1 -> <<"valid_rejected", "">>
       [] ~REq(c.obs[1], ex) -> <<"cellsize_x", ToString(<<c.obs[1], ex>>)>>
       [] ~REq(c.obs[2], ey) -> <<"cellsize_y", ToString(<<c.obs[2], ey>>)>>
       [] OTHER -> <<"ok", "">>

\* ---------------------------------------------------------------- custom_kernel
CustomV(c) ==
  LET valid == c.isarray = 1 /\ c.rows % 2 = 1 /\ c.cols % 2 = 1
  IN CASE valid /\ c.raised = 1 -> <<"custom_valid_rejected", "">>
       [] valid /\ c.same = 0 -> <<"custom_not_returned", "">>
       [] ~valid /\ c.raised = 0 -> <<"custom_invalid_accepted", "">>
       [] OTHER -> <<"ok", "">>

V(c) == CASE c.kind \in {"circle", "annulus"} -> KernelV(c)
          [] c.kind = "cellsize" -> CellV(c)
          [] c.kind = "custom" -> CustomV(c)

ASSUME \A i \in 1..Len(Cases) : LET v == V(Cases[i]) IN PrintT(<<"VERDICT", i, v[1], v[2]>>)
=============================================================================
