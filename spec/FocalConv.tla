------------------------------ MODULE FocalConv ------------------------------
(* C09, third clause: "convolution_2d equals the kernel-weighted sum over the full window    *)
(* and is NaN wherever the window leaves the raster".                                        *)
(*                                                                                            *)
(* ALGORITHM model = convolution._convolve_2d_numpy (0-based):                                *)
(*    out[:] = NaN ; wkx, wky = nkx // 2, nky // 2                                            *)
(*    for i in range(wkx, nx - wkx):  iimin = max(i-wkx, 0) ; iimax = min(i+wkx+1, nx)        *)
(*      for j in range(wky, ny - wky):  jjmin, jjmax likewise ; num = 0                       *)
(*        for ii in range(iimin, iimax): iii = wkx + ii - i                                   *)
(*          for jj in range(jjmin, jjmax): jjj = wky + jj - j ; num += kernel[iii,jjj]*data[ii,jj] *)
(*        out[i, j] = num                                                                     *)
(* with IEEE arithmetic on NaN (anything + or * NaN is NaN).  One transition per raster cell. *)
(* ABSTRACT definition: FocalOps.ConvCell.  State space: every raster of SHAPES over VALS x   *)
(* every weighted kernel of WKERNELS (rational weights).                                      *)
(* MUT (negative twins): "flip_kernel" (true convolution instead of correlation),             *)
(* "clip_border" (border cells get the clipped sum instead of NaN), "skip_nan" (NaN cells     *)
(* skipped), "swap_half" (wkx / wky exchanged), "zero_weight_hides_nan" (0 * NaN = 0).        *)
EXTENDS FocalOps, TLC

CONSTANTS SHAPES, VALS, WKERNELS, MUT

VARIABLES X, Wt, y, x, ph
vars == <<X, Wt, y, x, ph>>

Init == /\ \E s \in SHAPES : X \in [1..s[1] -> [1..s[2] -> VALS]]
        /\ \E k \in 1..Len(WKERNELS) : Wt = WKERNELS[k]
        /\ y = 0 /\ x = 0 /\ ph = 0

nx == Rows(X)
ny == Cols(X)
nkx == Rows(Wt)
nky == Cols(Wt)
wkx == IF MUT = "swap_half" THEN nky \div 2 ELSE nkx \div 2
wky == IF MUT = "swap_half" THEN nkx \div 2 ELSE nky \div 2
Max2(a, b) == IF a > b THEN a ELSE b
Min2(a, b) == IF a < b THEN a ELSE b

\* IEEE: NaN absorbs
FAdd(a, b) == IF IsNaN(a) \/ IsNaN(b) THEN NaN ELSE Add(a, b)
FMul(a, b) == IF MUT = "zero_weight_hides_nan" /\ (a = Q(0) \/ b = Q(0)) THEN Q(0)
              ELSE IF IsNaN(a) \/ IsNaN(b) THEN NaN ELSE Mul(a, b)

KAt(iii, jjj) == IF iii < 0 \/ iii >= nkx \/ jjj < 0 \/ jjj >= nky THEN Q(0)
                 ELSE IF MUT = "flip_kernel" THEN Wt[nkx - iii][nky - jjj] ELSE Wt[iii + 1][jjj + 1]

RECURSIVE Acc(_, _, _, _, _, _, _, _)
\* the two inner loops: ii from iimin, jj from jjmin; num accumulated left to right
Acc(i, j, ii, iimax, jjmin, jj, jjmax, num) ==
  IF ii >= iimax THEN num
  ELSE IF jj >= jjmax THEN Acc(i, j, ii + 1, iimax, jjmin, jjmin, jjmax, num)
  ELSE LET iii == wkx + ii - i
           jjj == wky + jj - j
           d == X[ii + 1][jj + 1]
       IN Acc(i, j, ii, iimax, jjmin, jj + 1, jjmax,
              IF MUT = "skip_nan" /\ IsNaN(d) THEN num ELSE FAdd(num, FMul(KAt(iii, jjj), d)))

\* out[i, j] after the loops (0-based i, j)
AlgCell(i, j) ==
  LET inner == i >= wkx /\ i < nx - wkx /\ j >= wky /\ j < ny - wky
      iimin == Max2(i - wkx, 0)
      iimax == Min2(i + wkx + 1, nx)
      jjmin == Max2(j - wky, 0)
      jjmax == Min2(j + wky + 1, ny)
  IN IF inner \/ MUT = "clip_border" THEN Acc(i, j, iimin, iimax, jjmin, jjmin, jjmax, Q(0)) ELSE NaN

Cell == /\ ph = 0 /\ ph' = 1 /\ UNCHANGED <<X, Wt, y, x>>
Advance == /\ ph = 1 /\ ~(y = nx - 1 /\ x = ny - 1)
           /\ IF x = ny - 1 THEN y' = y + 1 /\ x' = 0 ELSE y' = y /\ x' = x + 1
           /\ UNCHANGED <<X, Wt, ph>>
Next == Cell \/ Advance
Spec == Init /\ [][Next]_vars

ConvIsWeightedWindowSum == ph = 1 => AlgCell(y, x) = ConvCell(X, Wt, y + 1, x + 1)
NaNWhereWindowLeaves == ph = 1 => (~WindowInside(X, Wt, y + 1, x + 1) => IsNaN(AlgCell(y, x)))
\* with a 0/1 kernel and no NaN in the window the convolution is the focal sum of the same window
AgreesWithFocalSum == ph = 1 =>
  LET zeroone == \A a \in 1..nkx, b \in 1..nky : Wt[a][b] \in {Q(0), Q(1)}
      K01 == [a \in 1..nkx |-> [b \in 1..nky |-> Wt[a][b][1]]]
      v == ConvCell(X, Wt, y + 1, x + 1)
  IN (zeroone /\ ~IsNaN(v)) => v = Red("sum", Buffer(X, K01, y + 1, x + 1))
=============================================================================
