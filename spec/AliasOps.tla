------------------------------ MODULE AliasOps ------------------------------
(* C10 - shared by Aliasing.tla (model) and Aliasing_Trace.tla (observations of the real code).   *)
(*                                                                                                *)
(* Observable state of a session: a sequence of OBJECT records                                    *)
(*   [id, kind ("raster"|"dataset"), bufs (buffer ids backing it), wr (writable), val (content    *)
(*    digest, dtype independent), dtype, coords <<name,digest,ndim>>.., attrs <<key,digest>>.., dims,  *)
(*    shape, backend, name]                                                                       *)
(* and for a call its RESULT record (same fields + kind "raster"|"dataset"|"table"|"tuple"|       *)
(* "scalar"|"none", lazy).  The heap is implicit in `bufs`: two objects alias iff they have a     *)
(* buffer id in common.                                                                           *)
(*                                                                                                *)
(* The three clauses of the property are operators over a pre-state, a post-state and the result: *)
(*   InputsUntouched, NoAlias (+ the write probe), IdentityKept                                   *)
(* The exception table of the property is SPEC DATA (sets below).                                 *)
EXTENDS Integers, Sequences, FiniteSets, TLC

Range(s) == {s[i] : i \in 1..Len(s)}

\* ------------------------------------------------------------------ the API table (spec data)
\* DataArray in -> DataArray out, every clause applies
Normal == {"slope", "aspect", "curvature", "hillshade", "binary", "reclassify", "quantile", "natural_breaks",
           "equal_interval", "convolution_2d", "focal_mean", "focal_apply", "hotspots",
           "arvi", "evi", "gci", "nbr", "nbr2", "ndvi", "ndmi", "savi", "sipi", "ebbi",
           "a_star_search", "proximity", "allocation", "direction", "regions"}
\* documented exceptions
ViewOf    == {"trim", "crop"}                         \* return a window (view) of an input
InPlace   == {"zonal_apply"}                          \* updates `values` (2nd argument) in place by contract
MayWiden  == {"viewshed"}                             \* may widen the input's dtype, values unchanged
OwnShape  == {"perlin", "generate_terrain", "focal_stats", "true_color", "polygonize", "polygonize_mask", "bump"}
\* Dataset-in / table-returning / scalar-returning / plotting helpers: inputs untouched + no shared memory only
DatasetIn == {"local_cell_stats", "local_combine", "local_lowest_position", "local_highest_position",
              "local_lesser_frequency", "local_equal_frequency", "local_greater_frequency", "local_popularity",
              "local_rank"}
Tables    == {"zonal_stats", "zonal_crosstab"}
Helpers   == {"summarize_terrain", "canvas_like", "calc_res", "get_dataarray_resolution", "get_xy_range",
              "calc_cellsize", "validate_arrays", "color_values", "bands_to_img"}
AllFuncs  == Normal \cup ViewOf \cup InPlace \cup MayWiden \cup OwnShape \cup DatasetIn \cup Tables \cup Helpers

IdentArg(f)  == IF f = "crop" THEN 2 ELSE 1           \* the argument whose identity the result keeps
InPlaceArg(f) == 2
AddsAttrs(f) == IF f = "hotspots" THEN {"unit"} ELSE {}

IntDT   == {"int8", "int16", "int32", "int64", "uint8", "uint16", "uint32", "uint64"}
FloatDT == {"float32", "float64"}
DTypes  == IntDT \cup FloatDT
Layouts == {"C", "F", "strided", "readonly"}
Backends == {"numpy", "dask"}

\* which configurations the library supports (others raise: outside the domain, errors are not mutations)
NumpyOnly == {"natural_breaks", "a_star_search", "viewshed", "regions", "trim", "crop",
              "polygonize", "polygonize_mask"}
Supported(f, backend, dtype, layout) ==
  /\ f \in AllFuncs /\ f # "bands_to_img" /\ f # "bump"
  /\ (f \in NumpyOnly => backend = "numpy")
  /\ (f = "generate_terrain" /\ backend = "numpy" => dtype \in FloatDT)
  /\ (f = "local_rank" => dtype \in IntDT)

Configs == {<<f, b, d, l>> \in AllFuncs \X Backends \X DTypes \X Layouts : Supported(f, b, d, l)}

\* ------------------------------------------------------------------ helpers on object sequences
Has(objs, id) == \E i \in 1..Len(objs) : objs[i].id = id
Obj(objs, id) == objs[CHOOSE i \in 1..Len(objs) : objs[i].id = id]
Shares(a, b) == Range(a.bufs) \cap Range(b.bufs) # {}
Keys(pairs) == {p[1] : p \in Range(pairs)}
Without(pairs, ks) == {p \in Range(pairs) : p[1] \notin ks}

\* ------------------------------------------------------------------ clause 1: inputs untouched
\* every object that existed before the call (argument or not) keeps values, dtype, coordinates, attributes
ObjUntouched(f, args, o, q) ==
  IF f \in InPlace /\ Len(args) >= InPlaceArg(f) /\ o.id = args[InPlaceArg(f)]
  THEN (IF Range(o.coords) # Range(q.coords) THEN "input_coords_changed"
        ELSE IF Range(o.attrs) # Range(q.attrs) THEN "input_attrs_changed"
        ELSE IF o.dims # q.dims \/ o.shape # q.shape THEN "input_shape_changed"
        ELSE "ok")
  ELSE IF o.val # q.val THEN "input_values_changed"
  ELSE IF o.dtype # q.dtype /\ ~(f \in MayWiden /\ Len(args) >= 1 /\ o.id = args[1] /\ q.dtype = "float64")
       THEN "input_dtype_changed"
  ELSE IF Range(o.coords) # Range(q.coords) THEN "input_coords_changed"
  ELSE IF Range(o.attrs) # Range(q.attrs) THEN "input_attrs_changed"
  ELSE IF o.dims # q.dims \/ o.shape # q.shape THEN "input_shape_changed"
  ELSE "ok"

RECURSIVE FirstBadObj(_,_,_,_,_)
FirstBadObj(f, args, P, Q, i) ==
  IF i > Len(P) THEN "ok"
  ELSE IF ~Has(Q, P[i].id) THEN "input_disappeared"
  ELSE LET c == ObjUntouched(f, args, P[i], Obj(Q, P[i].id))
       IN IF c # "ok" THEN c ELSE FirstBadObj(f, args, P, Q, i + 1)

InputsUntouched(f, args, P, Q) == FirstBadObj(f, args, P, Q, 1)

\* ------------------------------------------------------------------ clause 2: no writable memory shared
ArgObjs(args, Q) == {Obj(Q, args[i]) : i \in {j \in 1..Len(args) : Has(Q, args[j])}}

CShares(a, b) == Range(a.cbufs) \cap Range(b.cbufs) # {}

NoAlias(f, args, Q, r) ==
  IF r.kind = "none" THEN "ok"
  \* buffers of the non-index coordinates (scalar / auxiliary): a shallow copy of the input shares them
  ELSE IF r.kind = "raster" /\ f \in Normal \cup MayWiden \cup OwnShape /\ (\E a \in ArgObjs(args, Q) : CShares(r, a))
       THEN "output_coords_share_writable_memory"
  ELSE IF ~r.wr THEN "ok"
  ELSE IF f \in ViewOf
       THEN (IF \E i \in 1..Len(args) : i # IdentArg(f) /\ Has(Q, args[i]) /\ Shares(r, Obj(Q, args[i]))
                                        /\ ~Shares(Obj(Q, args[i]), Obj(Q, args[IdentArg(f)]))
             THEN "output_shares_writable_memory" ELSE "ok")
  ELSE IF \E a \in ArgObjs(args, Q) : Shares(r, a) THEN "output_shares_writable_memory"
  ELSE "ok"

\* the write probe: B = objects before writing into the result, A = after.
\* Only objects that (legitimately) share a buffer with a ViewOf result may change.
ProbeOK(f, args, B, A, r) ==
  IF \E i \in 1..Len(B) : LET o == B[i] IN
        /\ Has(A, o.id)
        /\ (Obj(A, o.id).val # o.val \/ Range(Obj(A, o.id).coords) # Range(o.coords) \/ Range(Obj(A, o.id).attrs) # Range(o.attrs))
        /\ ~(f \in ViewOf /\ (Shares(r, o) \/ CShares(r, o)))
  THEN "write_to_output_changed_input" ELSE "ok"

\* ------------------------------------------------------------------ clause 3: identity of the raster
IdentityKept(f, args, P, r) ==
  IF f \in Normal \cup MayWiden THEN
      IF r.kind # "raster" THEN "result_is_not_a_raster"
      ELSE LET a == Obj(P, args[IdentArg(f)]) IN
           IF r.shape # a.shape THEN "shape_changed"
           ELSE IF r.dims # a.dims THEN "dims_changed"
           ELSE IF Range(r.coords) # Range(a.coords) THEN "coords_changed"
           ELSE IF Without(r.attrs, AddsAttrs(f)) # Without(a.attrs, AddsAttrs(f)) THEN "attrs_changed"
           ELSE IF AddsAttrs(f) \ Keys(r.attrs) # {} THEN "attrs_changed"
           ELSE IF r.backend # a.backend THEN "backend_changed"
           ELSE "ok"
  ELSE IF f \in ViewOf THEN
      IF r.kind # "raster" THEN "result_is_not_a_raster"
      ELSE LET a == Obj(P, args[IdentArg(f)]) IN
           IF r.dims # a.dims THEN "dims_changed"
           ELSE IF Len(r.shape) # Len(a.shape) \/ \E i \in 1..Len(a.shape) : r.shape[i] > a.shape[i] THEN "shape_changed"
           ELSE IF Keys(r.coords) # Keys(a.coords) THEN "coords_changed"
           \* scalar coordinates (ndim 0) are kept as they are; index and auxiliary coordinates are windowed
           ELSE IF \E p \in Range(a.coords) : p[3] = 0 /\ p \notin Range(r.coords) THEN "coords_changed"
           ELSE IF Range(r.attrs) # Range(a.attrs) THEN "attrs_changed"
           ELSE IF r.backend # a.backend THEN "backend_changed"
           ELSE "ok"
  ELSE IF f \in {"perlin", "generate_terrain", "focal_stats", "true_color"} THEN
      \* own shape / coordinates, but still a raster on the caller's array backend
      IF r.kind # "raster" THEN "result_is_not_a_raster"
      ELSE IF r.backend # Obj(P, args[1]).backend THEN "backend_changed"
      ELSE "ok"
  ELSE "ok"

\* ------------------------------------------------------------------ one call, all clauses
CallClause(f, args, P, Q, r) ==
  LET c1 == InputsUntouched(f, args, P, Q) IN
  IF c1 # "ok" THEN c1
  \* a lazy result is computed twice by the harness: other values the second time = the computation consumed its inputs
  ELSE IF r.kind # "none" /\ r.val2 # r.val THEN "lazy_result_changes_on_recompute"
  ELSE LET c2 == NoAlias(f, args, Q, r) IN
       IF c2 # "ok" THEN c2 ELSE IdentityKept(f, args, P, r)
=============================================================================
