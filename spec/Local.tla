------------------------------- MODULE Local -------------------------------
(* C17 - local operators are per-cell functions of the layers, NaN-absorbing.               *)
(*                                                                                          *)
(* (1) The per-cell definitions (LocalOps!Def) and the laws the property states about them, *)
(*     evaluated by TLC over the COMPLETE case space: every tuple over VALS of length       *)
(*     2..LMAX, every reference value 1..L (ASSUMEs below).                                  *)
(* (2) The iteration mechanism as a state machine: one step per np.nditer iteration, the    *)
(*     implementation's iter_list growing by one entry; every assignment of a memory layout *)
(*     from LAYOUTS to each of the NL layers is an initial state.  The output cell <<r,c>>    *)
(*     receives the value computed from iter_list[r*W + c] (reshape by the column count),    *)
(*     so the mechanism is per-cell exactly when that entry stems from cell <<r,c>>.         *)
(*     ORDER = "C" is the code (np.nditer(..., order='C'), fix ffb8ff0): PosIsIdentity must   *)
(*     hold for EVERY layout assignment.  ORDER = "K" (np.nditer's default, the code before   *)
(*     the fix) is a negative twin: TLC must reject PosIsIdentity once Fortran-ordered or     *)
(*     reversed layouts are admitted; IdentityIffNoScramble states its exact frontier.        *)
(* MUT = "none", or the name of a deliberately wrong definition (negative twins of the laws):  *)
(*     "last_min" (position of the LAST minimum), "lesser_or_equal" (<= counted as below).    *)
EXTENDS LocalOps, TLC

CONSTANTS H, W, NL, LAYOUTS, ORDER, LMAX, VALS, MUT

VARIABLES lays, k, iter_list
vars == <<lays, k, iter_list>>

Id(p) == p[1] * W + p[2]

Init == /\ lays \in [1..NL -> LAYOUTS]
        /\ k = 0
        /\ iter_list = <<>>

\* one np.nditer step: the tuple of the cell IterCell(k) is appended (cells stand for their tuples)
Iterate == /\ k < H * W
           /\ iter_list' = Append(iter_list, Id(IterCell(lays, H, W, ORDER, k)))
           /\ k' = k + 1
           /\ UNCHANGED lays

Spec == Init /\ [][Iterate]_vars /\ WF_vars(Iterate)

Done == k = H * W
TypeOK == /\ k \in 0..H*W /\ Len(iter_list) = k
          /\ \A i \in 1..k : iter_list[i] \in 0..H*W-1
\* nothing is visited twice; at the end every cell has been visited
NoRepeat == \A i, j \in 1..k : i # j => iter_list[i] # iter_list[j]
AllVisited == Done => {iter_list[i] : i \in 1..k} = 0..H*W-1
\* the property: the entry that lands on output cell <<r,c>> was computed from cell <<r,c>>
OutputFromOwnCell == \A r \in 0..H-1, c \in 0..W-1 : iter_list[r * W + c + 1] = r * W + c
PosIsIdentity == Done => OutputFromOwnCell
\* exact frontier of the defect of ORDER = "K"
IdentityIffNoScramble == Done => (OutputFromOwnCell <=> ~Scrambles(lays, H, W, ORDER))
Terminates == <>Done

-----------------------------------------------------------------------------
(* Laws of the per-cell definitions over the complete tuple space.                           *)
Tuples(L) == [1..L -> VALS]
Finite(t) == ~HasNaN(t)
Swap(t, i, j) == [t EXCEPT ![i] = t[j], ![j] = t[i]]
RLeq(a, b) == a[1] * b[2] <= b[1] * a[2]          \* a <= b for rationals with positive denominators

AllFuncs == {"max", "min", "sum", "mean", "median", "std", "lesser_frequency", "equal_frequency",
             "greater_frequency", "lowest_position", "highest_position", "rank"}
Symmetric == AllFuncs \ {"lowest_position", "highest_position"}

\* the definitions the laws are stated about (negative twins swap in a wrong one)
LowestP(t) == IF MUT = "last_min"
              THEN CHOOSE i \in 1..Len(t) : t[i] = MinOf(t) /\ \A j \in (i + 1)..Len(t) : t[j] # MinOf(t)
              ELSE LowestPos(t)
LesserF(t, ref) == IF MUT = "lesser_or_equal" THEN Cardinality({i \in 1..Len(t) : t[i] <= ref})
                   ELSE Lesser(t, ref)

ASSUME NaNAbsorbing ==
  \A L \in 2..LMAX : \A t \in Tuples(L), ref \in 1..L, f \in AllFuncs :
     IsNaNR(Def(f, t, ref)) <=> HasNaN(t)

ASSUME FrequenciesSumToLayerCount ==
  \A L \in 2..LMAX : \A t \in Tuples(L), ref \in 1..L :
     Finite(t) => LesserF(t, ref) + Equal(t, ref) + Greater(t, ref) = L

ASSUME PositionsPointAtFirstExtremum ==
  \A L \in 2..LMAX : \A t \in Tuples(L) : Finite(t) =>
     /\ t[LowestP(t)] = MinOf(t) /\ \A j \in 1..LowestP(t)-1 : t[j] > MinOf(t)
     /\ t[HighestPos(t)] = MaxOf(t) /\ \A j \in 1..HighestPos(t)-1 : t[j] < MaxOf(t)
     /\ (LowestP(t) = HighestPos(t) <=> MinOf(t) = MaxOf(t))

ASSUME RankIsSortedOrder ==
  \A L \in 2..LMAX : \A t \in Tuples(L) : Finite(t) =>
     /\ Rank(t, 1) = MinOf(t) /\ Rank(t, L) = MaxOf(t)
     /\ \A i \in 1..L-1 : Rank(t, i) <= Rank(t, i + 1)
     /\ \A v \in VALS : Cardinality({i \in 1..L : Rank(t, i) = v}) = Cardinality({i \in 1..L : t[i] = v})

ASSUME StatisticsBounds ==
  \A L \in 2..LMAX : \A t \in Tuples(L) : Finite(t) =>
     /\ RLeq(R(MinOf(t)), Mean(t)) /\ RLeq(Mean(t), R(MaxOf(t)))
     /\ RLeq(R(MinOf(t)), Median(t)) /\ RLeq(Median(t), R(MaxOf(t)))
     /\ Var(t)[1] >= 0 /\ (Var(t)[1] = 0 <=> MinOf(t) = MaxOf(t))

\* the order of data_vars does not matter for the symmetric operators
ASSUME LayerOrderIrrelevant ==
  \A L \in 2..LMAX : \A t \in Tuples(L), ref \in 1..L, i \in 1..L, j \in 1..L, f \in Symmetric :
     REq(Def(f, Swap(t, i, j), ref), Def(f, t, ref))
=============================================================================
