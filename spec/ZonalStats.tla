----------------------------- MODULE ZonalStats -----------------------------
(* C02: zonal statistics summarise exactly the valid cells of each zone.                     *)
(* State machine shaped like xrspatial.zonal._stats_numpy:                                   *)
(*   Sort        np.argsort(zones.ravel()) + the stripping of non-finite zones               *)
(*               (_sort_and_stride, first half)                                              *)
(*   StrideStep  one iteration of the `for i in range(num_zones)` loop of _strides           *)
(*               (variables count, strides = zone_breaks)                                    *)
(*   Select      the caller's nodata_values / zone_ids (they do not influence the two        *)
(*               phases above, so they are chosen here - fewer states, same coverage)        *)
(*   CalcStep    one iteration of the loop of _calc_stats (variables start, end, the slice   *)
(*               values_by_zones[start:end] and its isfinite & != nodata filter)             *)
(*   at pc = "done" the DataFrame and the DataArray of _stats_numpy are assembled             *)
(* Every raster of the configured scope is an initial state.  Invariants relate the          *)
(* bookkeeping to the abstract definition of ZonalOps (AbsValid, AbsStat, ...).               *)
EXTENDS ZonalOps

CONSTANTS Rasters,      \* set of records [z |-> flattened zones, v |-> flattened values] (codes of ZonalOps)
          Selections,   \* set of records [nd |-> nodata code | NONE, all |-> BOOLEAN, ids |-> sequence of ids]
          STATS,        \* statistic names checked at "done"
          TIES,         \* "stable": the stable argsort only; "any": every sorting permutation (ties free)
          VARIANT,      \* {"dropneginf"} = the code today; {} = before fix 7d7d291; {"strip"} = alternative repair
          MUT           \* "none" | negative twins "lastcell" | "startsel" | "noinf" | "emptyzero" | "paintreq"

VARIABLES inp, sel, pc, sortedIndices, valuesByZones, sortedZones, uz, i, count, zoneBreaks, start, slices
vars == <<inp, sel, pc, sortedIndices, valuesByZones, sortedZones, uz, i, count, zoneBreaks, start, slices>>

\* ---- scope builders (used in the MC constants)
AllRasters(n, ZA, VA) == {[z |-> zz, v |-> vv] : zz \in [1..n -> ZA], vv \in [1..n -> VA]}
FixedValueRasters(n, ZA, VS) == {[z |-> zz, v |-> vv] : zz \in [1..n -> ZA], vv \in VS}
RECURSIVE NonDec(_, _, _)
NonDec(n, lo, K) == IF n = 0 THEN {<<>>} ELSE UNION {{<<p>> \o s : s \in NonDec(n - 1, p, K)} : p \in lo..K}
\* every multiset of n (zone, value) cells, laid out by the fixed cell permutation PI (so zones interleave)
MultisetRasters(n, ZAs, VAs, PI) ==
  LET K == Len(ZAs) * Len(VAs)
      ZoneOf(c) == ZAs[((c - 1) \div Len(VAs)) + 1]
      ValOf(c) == VAs[((c - 1) % Len(VAs)) + 1]
  IN {[z |-> [k \in 1..n |-> ZoneOf(s[PI[k]])], v |-> [k \in 1..n |-> ValOf(s[PI[k]])]] : s \in NonDec(n, 1, K)}
RECURSIVE ListsOver(_)
ListsOver(S) == {<<>>} \cup UNION {{<<x>> \o l : l \in ListsOver(S \ {x})} : x \in S}   \* no repetitions, any order
Sels(NDS, LISTS) == {[nd |-> n, all |-> TRUE, ids |-> <<>>] : n \in NDS}
                    \cup {[nd |-> n, all |-> FALSE, ids |-> l] : n \in NDS, l \in LISTS}

NoSel == [nd |-> NONE, all |-> TRUE, ids |-> <<>>]

Init == /\ inp \in Rasters
        /\ sel = NoSel /\ pc = "sort"
        /\ sortedIndices = <<>> /\ valuesByZones = <<>> /\ sortedZones = <<>>
        /\ uz = UniqueFinite(inp.z)
        /\ i = 1 /\ count = 0 /\ zoneBreaks = <<>> /\ start = 0 /\ slices = <<>>

Sort ==
  /\ pc = "sort"
  /\ \E p \in (IF TIES = "any" THEN SortingPerms(inp.z) ELSE {StableArgSort(inp.z)}) :
       LET s == SortAndStride(inp.z, inp.v, p, VARIANT) IN
       /\ sortedIndices' = s.sortedIndices
       /\ valuesByZones' = s.valuesByZones
       /\ sortedZones' = s.sortedZones
  /\ pc' = "strides" /\ i' = 1 /\ count' = 0
  /\ UNCHANGED <<inp, sel, uz, zoneBreaks, start, slices>>

StrideStep ==
  /\ pc = "strides" /\ i <= Len(uz)
  /\ LET c2 == Advance(sortedZones, uz[i], count, MUT) IN
       /\ count' = c2 /\ zoneBreaks' = Append(zoneBreaks, c2)
  /\ i' = i + 1
  /\ UNCHANGED <<inp, sel, pc, sortedIndices, valuesByZones, sortedZones, uz, start, slices>>

Select ==
  /\ pc = "strides" /\ i > Len(uz)
  /\ sel' \in Selections
  /\ pc' = "calc" /\ i' = 1 /\ start' = 0
  /\ UNCHANGED <<inp, sortedIndices, valuesByZones, sortedZones, uz, count, zoneBreaks, slices>>

Zids == StatsZoneIds(inp.z, sel)

CalcStep ==
  /\ pc = "calc" /\ i <= Len(uz)
  /\ LET end == zoneBreaks[i]
         selected == Member(uz[i], Zids)
     IN /\ slices' = Append(slices,
              IF selected THEN [sel |-> TRUE, vals |-> FilterValid(Slice(valuesByZones, start, end), sel.nd, MUT)]
              ELSE [sel |-> FALSE, vals |-> <<>>])
        /\ start' = IF MUT = "startsel" /\ ~selected THEN start ELSE end
  /\ i' = i + 1
  /\ UNCHANGED <<inp, sel, pc, sortedIndices, valuesByZones, sortedZones, uz, count, zoneBreaks>>

Finish ==
  /\ pc = "calc" /\ i > Len(uz)
  /\ pc' = "done"
  /\ UNCHANGED <<inp, sel, sortedIndices, valuesByZones, sortedZones, uz, i, count, zoneBreaks, start, slices>>

Next == Sort \/ StrideStep \/ Select \/ CalcStep \/ Finish
Spec == Init /\ [][Next]_vars

----------------------------------------------------------------------------
N == Len(inp.z)

TypeOK ==
  /\ pc \in {"sort", "strides", "calc", "done"}
  /\ i \in 1..Len(uz) + 1 /\ count \in 0..N /\ start \in 0..N
  /\ Len(zoneBreaks) <= Len(uz) /\ Len(slices) <= Len(uz)

\* the argsort result is a sorting permutation and the two by-zone arrays are aligned with it
SortedOK ==
  pc # "sort" => /\ \A k \in 1..Len(sortedIndices) : valuesByZones[k] = inp.v[sortedIndices[k]]
                 /\ \A k \in 1..Len(sortedZones) - 1 : sortedZones[k] <= sortedZones[k + 1]
                 /\ \A k \in 1..Len(sortedZones) : Finite(sortedZones[k])

\* zone_breaks: non-decreasing end offsets; break k = number of cells whose zone is finite and <= uz[k]
BreaksOK ==
  \A k \in 1..Len(zoneBreaks) :
     zoneBreaks[k] = Cardinality({c \in 1..N : Finite(inp.z[c]) /\ inp.z[c] <= uz[k]})

\* THE bookkeeping invariant: the slice [start_k, end_k) of the by-zone arrays holds exactly the cells of zone uz[k]
SliceCells(k) == {sortedIndices[j] : j \in (Start(zoneBreaks, k) + 1 .. zoneBreaks[k]) \cap DOMAIN sortedIndices}
SliceIsZone ==
  pc \in {"calc", "done"} =>
     \A k \in 1..Len(uz) : /\ zoneBreaks[k] <= Len(valuesByZones)
                           /\ SliceCells(k) = {c \in 1..N : inp.z[c] = uz[k]}

\* the filtered slice computed for a selected zone is (a permutation of) the values of AbsValid
Sorted(s) == SortSeq(s, Lt)
FilteredIsValid ==
  \A k \in 1..Len(slices) :
     IF uz[k] \in AbsSelected(inp.z, sel)
     THEN slices[k].sel /\ Sorted(slices[k].vals) = Sorted(ValuesOf(inp.v, AbsValid(inp.z, inp.v, sel.nd, uz[k]), 1))
     ELSE ~slices[k].sel

\* rows: ascending, the requested ids that exist
RowsOK == pc = "done" => StatsRows(inp.z, sel) = AbsRows(inp.z, sel)

TableOK ==
  pc = "done" => \A name \in STATS :
     StatsTable(name, uz, Zids, slices, MUT) = AbsStatsTable(name, inp.z, inp.v, sel.nd, sel)

\* a zone with no valid cell gets NaN; cells of NaN / infinite zones carry nothing
RasterOK ==
  pc = "done" => \A name \in STATS :
     StatsRaster(name, N, uz, Zids, slices, zoneBreaks, sortedIndices, MUT)
        = AbsStatsRaster(name, inp.z, inp.v, sel.nd, sel)
=============================================================================
