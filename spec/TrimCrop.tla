------------------------------ MODULE TrimCrop ------------------------------
(* C18 - zonal.trim / zonal.crop return the minimal window.                                *)
(*                                                                                         *)
(* Algorithm model: the four directional scans of xrspatial.zonal._trim / _crop as a       *)
(* state machine over the code's own variables (top, bottom, left, right, scan_complete,   *)
(* the running loop variable), one step per row / column visited (TrimCropOps!ScanStep).   *)
(* Abstract definition: the smallest rectangular window containing every kept cell, where  *)
(* "kept" follows the PROPERTY (NaN is excluded when listed).                              *)
(*                                                                                         *)
(* Every raster over VALS on an H x W grid and every list in LISTS is an initial state     *)
(* (rasters without a kept cell are outside the property's domain and left out).           *)
(*   MODE      "trim" (list = excluded values) | "crop" (list = requested zone ids)        *)
(*   CODE_NANEQ  how the modelled _trim scan compares NaN with NaN: TRUE = the code         *)
(*             (`e == val or (isnan(e) and isnan(val))`), which is what the property asks   *)
(*             for; FALSE = the bare `e == val` of the code before fix 4e18dc9 - a negative  *)
(*             twin: TLC must reject it when NaN is listed.  _crop always uses `==`.        *)
(*   MUT       "none" or the name of a deliberately broken scan (negative twin)            *)
EXTENDS TrimCropOps, TLC

CONSTANTS H, W, VALS, LISTS, MODE, CODE_NANEQ, MUT

VARIABLES data, list, st
vars == <<data, list, st>>

\* the raster as the property sees it / as the modelled code sees it
PE == [H |-> H, W |-> W, data |-> data, list |-> list, mode |-> MODE, naneq |-> TRUE]
CE == [H |-> H, W |-> W, data |-> data, list |-> list, mode |-> MODE, naneq |-> (MODE = "trim" /\ CODE_NANEQ)]

Init == /\ data \in [1..H -> [1..W -> VALS]]
        /\ list \in LISTS
        /\ KeptCells(PE) # {}
        /\ st = ScanInit

Next == /\ st.pc # "done"
        /\ st' = ScanStep(CE, st, MUT)
        /\ UNCHANGED <<data, list>>

Spec == Init /\ [][Next]_vars /\ WF_vars(Next)

TypeOK == /\ st.pc \in {"top", "bottom", "left", "right", "done"}
          /\ st.i \in -1..(IF H > W THEN H ELSE W)
          /\ st.sc \in BOOLEAN
          /\ st.top \in 0..H-1 /\ st.bottom \in 0..H-1
          /\ st.left \in 0..W-1 /\ st.right \in 0..W-1

\* ---- the property: at the end the scans hold the minimal window
ResultIsBox == st.pc = "done" => <<st.top, st.bottom, st.left, st.right>> = Box(PE)
ResultIsMinimalWindow == st.pc = "done" => IsMinimalWindow(PE, st.top, st.bottom, st.left, st.right)
\* the slice [top : bottom+1, left : right+1] is non-empty and inside the raster
SliceWellFormed == st.pc = "done" => st.top <= st.bottom /\ st.left <= st.right

\* ---- loop invariants of the scans (what each loop has established so far)
\* rows above `top` (resp. below `bottom`, columns left of `left`, right of `right`) that
\* the running scan has passed hold no kept cell
TopPrefixEmpty == st.pc \in {"bottom", "left", "right", "done"} =>
                     \A y \in 0..st.top-1 : ~RowKept(CE, y)
BottomSuffixEmpty == st.pc \in {"left", "right", "done"} =>
                     \A y \in st.bottom+1..H-1 : ~RowKept(CE, y)
LeftPrefixEmpty == st.pc \in {"right", "done"} => \A x \in 0..st.left-1 : ~ColKept(CE, x)
RightSuffixEmpty == st.pc = "done" => \A x \in st.right+1..W-1 : ~ColKept(CE, x)
ScanningTop == st.pc = "top" => /\ \A y \in 0..st.i-2 : ~RowKept(CE, y)
                                /\ (st.sc <=> (st.i > 0 /\ RowKept(CE, st.i-1)))

\* ---- termination: every scan ends (at most 2(H+W)+4 steps)
Terminates == <>(st.pc = "done")
=============================================================================
