-------------------------- MODULE ZonalDask_Judge --------------------------
(* C03 on observations of the real code: one case = one (zones, values, parameters, chunking of *)
(* zones, chunking of values): the table computed by the NumPy backend and by the Dask backend. *)
(* Every table entry is a triple <<tag, num, den>>: tag 0 number num/den, 1 NaN, 2 +inf, 3 -inf,  *)
(* 9 "not an admissible exact value" (float bridge failure).  std is carried as its square.      *)
(* Verdict: Dask table = NumPy table (ids, row order, every entry; rationals by cross-multiplying).*)
(* Drift:   the Dask table also equals what the ZonalDask block/combine model predicts for the   *)
(*          block partition induced by the zones chunking (stats only).                          *)
EXTENDS Integers, FiniteSets, Sequences, TLC, Json, IOUtils

Cases == ndJsonDeserialize(IOEnv.VERIF_CASES)

NAN == 99990
PINF == 99980
NINF == -99980
NONE == 99970
Finite(x) == x \notin {NAN, PINF, NINF}

\* tag 4: an opaque exact label (wide-value family: integers beyond 32 bits as decimal strings; for
\* mean/var/std the float bridge has already decided "equal within 1e-9 relative" and hands equal labels)
EntryEq(a, b) == IF a[1] # b[1] THEN FALSE
                 ELSE IF a[1] = 0 THEN a[2]*b[3] = b[2]*a[3]
                 ELSE IF a[1] = 4 THEN a[4] = b[4]
                 ELSE a[1] # 9

RowEq(r, s) == /\ r.zone2 = s.zone2 /\ Len(r.cells) = Len(s.cells)
               /\ \A j \in 1..Len(r.cells) : EntryEq(r.cells[j], s.cells[j])

TablesEq(a, b) == /\ a.columns = b.columns /\ Len(a.rows) = Len(b.rows)
                  /\ \A i \in 1..Len(a.rows) : RowEq(a.rows[i], b.rows[i])

FirstDiff(a, b) ==
  IF a.columns # b.columns THEN "columns_differ"
  ELSE IF Len(a.rows) # Len(b.rows) THEN "row_count_differs"
  ELSE IF \E i \in 1..Len(a.rows) : a.rows[i].zone2 # b.rows[i].zone2 THEN "zone_ids_or_row_order_differ"
  ELSE LET bad == {<<i, j>> \in (1..Len(a.rows)) \X (1..Len(a.columns)) :
                     ~EntryEq(a.rows[i].cells[j], b.rows[i].cells[j])} IN
       IF bad = {} THEN "ok"
       ELSE LET p == CHOOSE q \in bad : \A o \in bad : q[2] <= o[2] IN "entry_differs_" \o a.columns[p[2]]

Verdict(c) ==
  IF c.error # "" THEN "dask_call_raised"
  ELSE IF c.lazy = 0 THEN "result_not_lazy"
  ELSE FirstDiff(c.np, c.dk)

\* ---------------- drift: the block/combine model on this case (stats only)
Idx(c) == 1..Len(c.zones)
Valid(c, i) == Finite(c.values[i]) /\ c.values[i] # c.nodata
ZCells(c, z, S) == {i \in S : c.zones[i] = z /\ Valid(c, i)}
RECURSIVE SumOver(_,_,_)
SumOver(c, S, sq) == IF S = {} THEN 0
                     ELSE LET i == CHOOSE j \in S : TRUE IN
                          (IF sq THEN c.values[i]*c.values[i] ELSE c.values[i]) + SumOver(c, S \ {i}, sq)
MaxOver(c, S) == CHOOSE m \in {c.values[i] : i \in S} : \A i \in S : c.values[i] <= m
MinOver(c, S) == CHOOSE m \in {c.values[i] : i \in S} : \A i \in S : c.values[i] >= m
Basis(c, S) == IF S = {} THEN [max |-> NAN, min |-> NAN, sum |-> NAN, count |-> NAN, sumsq |-> NAN]
               ELSE [max |-> MaxOver(c, S), min |-> MinOver(c, S), sum |-> SumOver(c, S, FALSE),
                     count |-> Cardinality(S), sumsq |-> SumOver(c, S, TRUE)]
Blocks(c) == {c.blk[i] : i \in Idx(c)}
Part(c, z, b) == Basis(c, ZCells(c, z, {i \in Idx(c) : c.blk[i] = b}))
NonNan(c, z, f) == {Part(c, z, b)[f] : b \in {x \in Blocks(c) : Part(c, z, x)[f] # NAN}}
RECURSIVE AddUp(_,_,_,_)
AddUp(c, z, f, B) == IF B = {} THEN 0
                     ELSE LET b == CHOOSE x \in B : TRUE IN
                          (IF Part(c, z, b)[f] = NAN THEN 0 ELSE Part(c, z, b)[f]) + AddUp(c, z, f, B \ {b})
Comb(c, z) ==
  LET mx == NonNan(c, z, "max")  mn == NonNan(c, z, "min")
      empty == \A b \in Blocks(c) : Part(c, z, b).count = NAN IN
  [max |-> IF mx = {} THEN NAN ELSE CHOOSE m \in mx : \A x \in mx : x <= m,
   min |-> IF mn = {} THEN NAN ELSE CHOOSE m \in mn : \A x \in mn : x >= m,
   sum |-> IF empty THEN NAN ELSE AddUp(c, z, "sum", Blocks(c)),
   count |-> IF empty THEN NAN ELSE AddUp(c, z, "count", Blocks(c)),
   sumsq |-> IF empty THEN NAN ELSE AddUp(c, z, "sumsq", Blocks(c))]
Num(x) == IF x = NAN THEN <<1, 0, 1>> ELSE <<0, x, 1>>
Expected(c, z, col) ==
  LET k == Comb(c, z) IN
  CASE col = "max" -> Num(k.max) [] col = "min" -> Num(k.min) [] col = "sum" -> Num(k.sum)
    [] col = "count" -> Num(k.count)
    [] col = "mean" -> IF k.count = NAN THEN <<1,0,1>> ELSE <<0, k.sum, k.count>>
    [] col \in {"var", "std"} -> IF k.count = NAN THEN <<1,0,1>>
                                 ELSE <<0, k.count*k.sumsq - k.sum*k.sum, k.count*k.count>>
Drift(c) ==
  IF c.kind # "stats" \/ c.error # "" \/ c.model = 0 THEN "nomodel"
  ELSE IF \E i \in 1..Len(c.dk.rows) : \E j \in 1..Len(c.dk.columns) :
            ~EntryEq(c.dk.rows[i].cells[j], Expected(c, c.dk.rows[i].zone2, c.dk.columns[j]))
       THEN "drift_dask_table_differs_from_block_combine_model"
  ELSE "model_ok"

ASSUME \A i \in 1..Len(Cases) : PrintT(<<"VERDICT", i, Verdict(Cases[i]), Drift(Cases[i])>>)
=============================================================================
