-------------------------- MODULE StatusTree_Trace --------------------------
(* Trace validation of the real status structure of xrspatial.viewshed (C05 layer 1).     *)
(* One case = one operation sequence executed by the REAL helpers, with the raw arrays     *)
(* dumped after every operation:                                                           *)
(*   n      : number of array rows (row ids -1..n-2, -1 = NIL = last row)                   *)
(*   mode   : "int"    values are the integers the helpers were driven with; TLC computes   *)
(*                     the interpolation itself (cross-multiplied, exact)                   *)
(*            "bridge" values are order-isomorphic ranks of the float64 contents recorded   *)
(*                     from a real sweep; each query carries per-row flags from the float   *)
(*                     bridge: 0 interpolated gradient <= g, 1 > g, 2 borderline            *)
(*   events : {op "N"|"I"|"D"|"Q", id, key, v = <<g0,g1,g2,a0,a1,a2>>, deleted, root,           *)
(*             rows = <<key,g0,g1,g2,a0,a1,a2,mx,color,left,right,parent>> per row,          *)
(*             qs = <<qkey, ang, g, res, flags>> queries answered on the post-state}         *)
(* Monitor style: the pre-state of every step is the REAL dump; the step applies the        *)
(* transliterated helper of TreeOps to it and compares with the next dump ("drift" when     *)
(* different).  The verdict clauses are evaluated on the real arrays only:                  *)
(*   tree_is_not_a_search_tree_of_the_entries   links, BST order, contents = abstract map   *)
(*   nil_sentinel_damaged                                                                   *)
(*   stored_max_too_high                        (stale-LOW maxima are accepted)             *)
(*   query_semantics                            res = 1  <=>  some smaller-key entry        *)
(*                                              spanning ang interpolates above g           *)
(* Red-black colour rules are deliberately NOT checked (the code does not maintain them).   *)
EXTENDS TreeOps, TLC, Json, IOUtils

Cases == ndJsonDeserialize(IOEnv.VERIF_CASES)

VARIABLES tid, l, t, entries, drift, clause, phase
vars == <<tid, l, t, entries, drift, clause, phase>>

Tr == Cases[tid]
NN == Tr.n
RowOf(ev, x) == ev.rows[IF x = NIL THEN NN ELSE x + 1]
Load(ev) ==
  [key    |-> [x \in Ids(NN) |-> RowOf(ev, x)[1]],
   g0     |-> [x \in Ids(NN) |-> RowOf(ev, x)[2]],
   g1     |-> [x \in Ids(NN) |-> RowOf(ev, x)[3]],
   g2     |-> [x \in Ids(NN) |-> RowOf(ev, x)[4]],
   a0     |-> [x \in Ids(NN) |-> RowOf(ev, x)[5]],
   a1     |-> [x \in Ids(NN) |-> RowOf(ev, x)[6]],
   a2     |-> [x \in Ids(NN) |-> RowOf(ev, x)[7]],
   mx     |-> [x \in Ids(NN) |-> RowOf(ev, x)[8]],
   color  |-> [x \in Ids(NN) |-> RowOf(ev, x)[9]],
   left   |-> [x \in Ids(NN) |-> RowOf(ev, x)[10]],
   right  |-> [x \in Ids(NN) |-> RowOf(ev, x)[11]],
   parent |-> [x \in Ids(NN) |-> RowOf(ev, x)[12]],
   root   |-> ev.root, n |-> NN]

EvVal(ev) == Val(ev.key, ev.v[1], ev.v[2], ev.v[3], ev.v[4], ev.v[5], ev.v[6])

Fields == {"key", "g0", "g1", "g2", "a0", "a1", "a2", "mx", "color", "left", "right", "parent"}
\* live part of the arrays: every row reachable from the root, plus what the code reads of the NIL row
SameLive(m, r) ==
  /\ m.root = r.root
  /\ Nodes(m) = Nodes(r)
  /\ \A x \in Nodes(r) : \A f \in Fields : m[f][x] = r[f][x]
  /\ \A f \in Fields \ {"parent"} : m[f][NIL] = r[f][NIL]

\* ---- queries
SpansAng(v, ang) == v.a0 <= ang /\ ang <= v.a2
RowOfKey(r, k) == Search(r, r.root, k)
\* abstract answer over the entries: <<definitely blocked, possibly blocked>>
AbsBlocked(r, ents, q) ==
  LET k == q[1]  ang == q[2]  g == q[3]
      fl(v) == IF Tr.mode = "int" THEN (IF InterpGT(v, ang, g) THEN 1 ELSE 0)
               ELSE q[5][(IF RowOfKey(r, v.key) = NIL THEN NN ELSE RowOfKey(r, v.key) + 1)]
      cand == {v \in ents : v.key < k /\ SpansAng(v, ang)}
  IN <<\E v \in cand : fl(v) = 1, \E v \in cand : fl(v) \in {1, 2}>>
QueryAccepted(r, ents, q) ==
  LET ab == AbsBlocked(r, ents, q) IN (q[4] = 1 => ab[2]) /\ (q[4] = 0 => ~ab[1])
\* the transliterated two-phase query on the real arrays (step-level comparison)
ModelQuery(r, q) ==
  LET gt == IF Tr.mode = "int" THEN [x \in Ids(NN) |-> InterpGT(NodeVal(r, x), q[2], q[3])]
            ELSE [x \in Ids(NN) |-> q[5][IF x = NIL THEN NN ELSE x + 1] = 1]
  IN QueryGT(r, q[1], q[2], q[3], gt).blocked
NoBorderline(q) == Tr.mode = "int" \/ \A i \in 1..Len(q[5]) : q[5][i] # 2

\* ---- one step
Init == /\ tid \in 1..Len(Cases) /\ l = 1
        /\ t = NewTree(2) /\ entries = {} /\ drift = 0 /\ clause = "ok" /\ phase = "run"

StepClause(r, ents, ev) ==
  IF ~(LinksOK(r) /\ IsBST(r) /\ Contents(r) = ents /\ Cardinality(Nodes(r)) = Cardinality(ents))
     THEN "tree_is_not_a_search_tree_of_the_entries"
  ELSE IF ~NilIntact(r) THEN "nil_sentinel_damaged"
  ELSE IF ~MaxNeverHigh(r) THEN "stored_max_too_high"
  ELSE IF \E i \in 1..Len(ev.qs) : ~QueryAccepted(r, ents, ev.qs[i]) THEN "query_semantics"
  ELSE "ok"

Step ==
  /\ phase = "run" /\ l <= Len(Tr.events)
  /\ LET ev == Tr.events[l]
         r == Load(ev)
         ents == CASE ev.op = "N" -> {NodeVal(r, 0)}            \* the dummy root (in "bridge" mode its values are ranks)
                   [] ev.op = "I" -> entries \cup {EvVal(ev)}
                   [] ev.op = "D" -> {v \in entries : v.key # ev.key}
                   [] ev.op = "Q" -> entries
         cl == StepClause(r, ents, ev)
         model == CASE ev.op = "N" -> (IF Tr.mode = "int" THEN NewTree(NN) ELSE r)
                    [] ev.op = "I" -> Insert(t, ev.id, EvVal(ev))
                    [] ev.op = "D" -> Delete(t, ev.key).t
                    [] ev.op = "Q" -> t                          \* a query must leave the arrays alone
         stepok == /\ SameLive(model, r)
                   /\ ev.op = "D" => Delete(t, ev.key).deleted = ev.deleted
                   /\ \A i \in 1..Len(ev.qs) : NoBorderline(ev.qs[i]) => (ModelQuery(r, ev.qs[i]) = (ev.qs[i][4] = 1))
     IN /\ t' = r /\ entries' = ents
        /\ clause' = cl
        /\ drift' = IF cl = "ok" /\ drift = 0 /\ ~stepok THEN l ELSE drift
        /\ phase' = IF cl # "ok" THEN "stop" ELSE "run"
  /\ l' = l + 1 /\ UNCHANGED tid

Judge ==
  /\ phase = "stop" \/ (phase = "run" /\ l = Len(Tr.events) + 1)
  /\ PrintT(<<"VERDICT", tid, clause,
              IF clause # "ok" THEN "at_event_" \o ToString(l - 1)
              ELSE IF drift # 0 THEN "drift_at_event_" \o ToString(drift) ELSE "steps_ok">>)
  /\ phase' = "judged"
  /\ UNCHANGED <<tid, l, t, entries, drift, clause>>

Next == Step \/ Judge
Spec == Init /\ [][Next]_vars
=============================================================================
