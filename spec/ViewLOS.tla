------------------------------- MODULE ViewLOS -------------------------------
(* C05 layer 3: THE PROPERTY.  "A cell is reported visible exactly when, in the line-of-   *)
(* sight model the function implements, no cell nearer to the observer that spans the      *)
(* cell's bearing has a greater gradient than the cell's own.  The observer's cell is 180; *)
(* every visible cell holds the vertical angle (0-180, 90 = level); every other cell -1."  *)
(*                                                                                         *)
(* The reading of "the model the function implements" fixed here (see notes/C05.md):       *)
(*  * bearings are measured in index space (row/col), counter-clockwise from due east;      *)
(*    cell n spans the bearing of c iff c's centre direction lies STRICTLY inside the cone  *)
(*    between n's entering and exiting corners (ViewOps!Spans; ties on a cone edge do not   *)
(*    span, because the sweep processes EXIT before CENTER before ENTER at equal angles);   *)
(*  * n is nearer than c iff its squared map distance (cell sizes ew, ns) is strictly       *)
(*    smaller (ViewOps!Nearer);                                                             *)
(*  * n blocks c iff n's gradient profile (enter corner, centre, exit corner; corner         *)
(*    elevation = mean of the 2x2 block of cells meeting there, the cell's own elevation     *)
(*    when the block leaves the raster; gradient = atan(height above the observer's eye /    *)
(*    map distance); linear in the bearing between the three points) evaluated at c's        *)
(*    bearing is STRICTLY greater than c's own gradient, where c's own elevation is raised   *)
(*    by target_elev and the blockers' elevations are not;                                   *)
(*  * that last comparison is a float64 fact supplied by the bridge as B[n][c]:              *)
(*    0 = not greater, 1 = greater, 2 = borderline (within 1e-9): both outcomes admitted.    *)
(* Everything else -- which cells are candidates, the visibility of every cell, the value   *)
(* classes of the output -- is decided here by TLC.                                         *)
EXTENDS ViewOps

\* cells that could hide c: nearer and spanning c's bearing
Candidates(h, w, r, c, vr, vc, ew, ns) ==
  {n \in CellsOf(h, w, vr, vc) : /\ n # <<r, c>>
                                /\ Nearer(n[1], n[2], r, c, vr, vc, ew, ns)
                                /\ Spans(n[1], n[2], r, c, vr, vc)}

\* a cell that spans c's bearing at exactly c's distance: the status structure cannot tell them apart
EqualKeyRival(h, w, r, c, vr, vc, ew, ns) ==
  \E n \in CellsOf(h, w, vr, vc) : /\ n # <<r, c>> /\ Spans(n[1], n[2], r, c, vr, vc)
                                   /\ Key(n[1], n[2], vr, vc, ew, ns) = Key(r, c, vr, vc, ew, ns)

\* B(n) in {0,1,2}
DefinitelyHidden(cand, B(_)) == \E n \in cand : B(n) = 1
PossiblyHidden(cand, B(_)) == \E n \in cand : B(n) \in {1, 2}

\* vertical angle in millidegrees must lie on the right side of level and hit the exact special values
\* dhs = sign of dh = elevation of c + target_elev - observer eye elevation (2 = too close to level to call),
\* dh4 = 4 * dh when that is a small integer (dh4ok = 1), d2 = squared map distance
AngleSideOK(mdeg, dhs, dh4ok, dh4, d2) ==
  /\ dhs = 0 => mdeg = 90000
  /\ dhs = 1 => mdeg > 90000 /\ mdeg <= 180000
  /\ dhs = -1 => mdeg < 90000 /\ mdeg >= 0
  /\ (dh4ok = 1 /\ dh4 # 0 /\ dh4 * dh4 = 16 * d2) =>
        (IF dh4 > 0 THEN mdeg \in 134999..135001 ELSE mdeg \in 44999..45001)

\* verdict for one cell.  o = [neg1, is180, inrange, angok, mdeg, dhs, dh4ok, dh4] observed output class of the cell
CellClause(o, isObserver, cand, B(_), d2) ==
  IF isObserver THEN (IF o.is180 = 1 THEN "ok" ELSE "observer_cell_is_not_180")
  ELSE IF o.neg1 = 1 THEN (IF PossiblyHidden(cand, B) THEN "ok" ELSE "reported_invisible_but_nothing_hides_it")
  ELSE IF DefinitelyHidden(cand, B) THEN "reported_visible_but_a_nearer_cell_hides_it"
  ELSE IF o.inrange # 1 THEN "visible_value_outside_0_180"
  ELSE IF o.angok # 1 \/ ~AngleSideOK(o.mdeg, o.dhs, o.dh4ok, o.dh4, d2) THEN "vertical_angle_wrong"
  ELSE "ok"
=============================================================================
