------------------------------ MODULE ViewOps ------------------------------
(* Exact integer geometry of xrspatial.viewshed's radial sweep (C05), shared by          *)
(* ViewGeom.tla (exhaustive model), ViewGeom_Judge.tla, ViewLOS.tla / ViewLOS_Judge.tla   *)
(* and ViewSweep_Trace.tla.                                                                *)
(*                                                                                         *)
(* All positions are in INDEX space (row, col), doubled so that cell corners are integers: *)
(* the centre of cell (r,c) is (y2,x2) = (2r,2c), its corners are (2r+-1, 2c+-1).          *)
(* The code measures bearings in index space (_calculate_angle is called with row/col      *)
(* positions, never with the resolution) and distances in map units (ew_res, ns_res).      *)
(* A direction is a vector [dx, du]: dx = x2 - 2*vc (east positive), du = 2*vr - y2        *)
(* (up = towards row 0 positive); the sweep runs counter-clockwise starting due east,      *)
(* which is what _calculate_angle returns (0 east, PI/2 up, PI west, 3PI/2 down).          *)
EXTENDS Integers, Sequences, FiniteSets

ENTER == 1       \* event types, as in the code: lexsort key order EXIT < CENTER < ENTER
CENTER == 0
EXIT == -1

Sgn(x) == IF x > 0 THEN 1 ELSE IF x < 0 THEN -1 ELSE 0

\* ---- the 9-sector x 2-type corner table of _calc_event_pos / _calculate_event_row_col.
\* Offset <<sy, sx>> of the event corner relative to the cell centre, in half cells
\* (the same signs give the diagonal neighbour cell used for the corner elevation).
\* sr = Sgn(r - vr), sc = Sgn(c - vc).
CornerOff(type, sr, sc) ==
  CASE sr = -1 /\ sc = -1 -> IF type = ENTER THEN <<-1,  1>> ELSE << 1, -1>>   \* up-left   ("first quadrant" in the code)
    [] sr = -1 /\ sc =  0 -> IF type = ENTER THEN << 1,  1>> ELSE << 1, -1>>   \* straight up
    [] sr = -1 /\ sc =  1 -> IF type = ENTER THEN << 1,  1>> ELSE <<-1, -1>>   \* up-right
    [] sr =  0 /\ sc =  1 -> IF type = ENTER THEN << 1, -1>> ELSE <<-1, -1>>   \* due east (initially on the sweep line)
    [] sr =  1 /\ sc =  1 -> IF type = ENTER THEN << 1, -1>> ELSE <<-1,  1>>   \* down-right
    [] sr =  1 /\ sc =  0 -> IF type = ENTER THEN <<-1, -1>> ELSE <<-1,  1>>   \* straight down
    [] sr =  1 /\ sc = -1 -> IF type = ENTER THEN <<-1, -1>> ELSE << 1,  1>>   \* down-left
    [] sr =  0 /\ sc = -1 -> IF type = ENTER THEN <<-1,  1>> ELSE << 1,  1>>   \* due west
    [] sr =  0 /\ sc =  0 -> << 0, 0>>                                         \* the observer's own cell

\* position (doubled) of an event of cell (r,c): <<y2, x2>>
EvPos(type, r, c, vr, vc) ==
  IF type = CENTER THEN <<2*r, 2*c>>
  ELSE LET o == CornerOff(type, Sgn(r - vr), Sgn(c - vc)) IN <<2*r + o[1], 2*c + o[2]>>

\* diagonal neighbour whose 2x2 block is averaged for the corner elevation: <<row, col>>
EvNbr(type, r, c, vr, vc) ==
  LET o == CornerOff(type, Sgn(r - vr), Sgn(c - vc)) IN <<r + o[1], c + o[2]>>

\* direction vector of an event as seen from the observer
Dir(type, r, c, vr, vc) ==
  LET p == EvPos(type, r, c, vr, vc) IN [dx |-> p[2] - 2*vc, du |-> 2*vr - p[1]]

Cross(p, q) == p.dx * q.du - p.du * q.dx        \* > 0 : q is counter-clockwise of p (within 180 deg)
Dot(p, q) == p.dx * q.dx + p.du * q.du

\* the eight angular classes in sweep order; axes get their own class (exact angles 0, PI/2, PI, 3PI/2)
Oct(p) ==
  CASE p.du = 0 /\ p.dx > 0 -> 0
    [] p.dx > 0 /\ p.du > 0 -> 1
    [] p.dx = 0 /\ p.du > 0 -> 2
    [] p.dx < 0 /\ p.du > 0 -> 3
    [] p.dx < 0 /\ p.du = 0 -> 4
    [] p.dx < 0 /\ p.du < 0 -> 5
    [] p.dx = 0 /\ p.du < 0 -> 6
    [] p.dx > 0 /\ p.du < 0 -> 7
    [] OTHER -> 0                                \* the zero vector: _calculate_angle returns 0

AngLess(p, q) == Oct(p) < Oct(q) \/ (Oct(p) = Oct(q) /\ Cross(p, q) > 0)
AngEq(p, q) == Oct(p) = Oct(q) /\ Cross(p, q) = 0

\* ---- events.  An event is a record [r, c, type].
Ev(r, c, t) == [r |-> r, c |-> c, type |-> t]
EvDir(e, vr, vc) == Dir(e.type, e.r, e.c, vr, vc)
CellsOf(h, w, vr, vc) == {rc \in (0..h-1) \X (0..w-1) : rc # <<vr, vc>>}
Events(h, w, vr, vc) == {Ev(rc[1], rc[2], t) : rc \in CellsOf(h, w, vr, vc), t \in {ENTER, CENTER, EXIT}}

\* the key of np.lexsort((type, ang)): angle first, then type; equal (angle, type) is a tie
EvBefore(e1, e2, vr, vc) ==
  LET p == EvDir(e1, vr, vc)  q == EvDir(e2, vr, vc) IN
  AngLess(p, q) \/ (AngEq(p, q) /\ e1.type < e2.type)
EvTie(e1, e2, vr, vc) == AngEq(EvDir(e1, vr, vc), EvDir(e2, vr, vc)) /\ e1.type = e2.type
\* lexsort is stable and _init_event_list emits cells row-major: a total order
EvBeforeStable(e1, e2, w, vr, vc) ==
  EvBefore(e1, e2, vr, vc) \/ (EvTie(e1, e2, vr, vc) /\ e1.r * w + e1.c < e2.r * w + e2.c)

\* ---- "cell n spans the bearing of cell c": the centre of c lies strictly inside the cone
\* from n's entering corner to n's exiting corner (the cone is < 180 deg for every cell but the
\* observer's).  Strict on both sides because of the tie order EXIT < CENTER < ENTER: a cell whose
\* exit (enter) corner is exactly on c's bearing has already left (not yet entered) the status
\* structure when c's CENTER event is processed.
Spans(nr, nc, r, c, vr, vc) ==
  LET en == Dir(ENTER, nr, nc, vr, vc)
      ex == Dir(EXIT, nr, nc, vr, vc)
      cv == Dir(CENTER, r, c, vr, vc)
  IN Cross(en, cv) > 0 /\ Cross(cv, ex) > 0

\* squared map distance to the observer = the key of the status structure
Key(r, c, vr, vc, ew, ns) == (c - vc)*(c - vc)*ew*ew + (r - vr)*(r - vr)*ns*ns
Nearer(nr, nc, r, c, vr, vc, ew, ns) == Key(nr, nc, vr, vc, ew, ns) < Key(r, c, vr, vc, ew, ns)

\* where c's bearing falls on n's corner-centre-corner profile: -1 first half (enter..centre),
\* 0 exactly the centre bearing, 1 second half (centre..exit)
Half(nr, nc, r, c, vr, vc) ==
  Sgn(Cross(Dir(CENTER, nr, nc, vr, vc), Dir(CENTER, r, c, vr, vc)))

\* cells initially on the sweep line (due east of the observer): inserted before the sweep
InitialActive(h, w, vr, vc) == {<<vr, c>> : c \in (vc+1)..(w-1)}
=============================================================================
