--------------------------- MODULE Crosstab_Judge ---------------------------
(* Judge for C04.  One case = one call of the real xrspatial.zonal.crosstab:                  *)
(*   dim      2 | 3                                                                            *)
(*   z        flattened zones (codes of ZonalOps, ids doubled)                                  *)
(*   vs       sequence of flattened layers (one for 2-D), values scaled                         *)
(*   cats     3-D: labels of the layers (coordinate of the category dimension); 2-D: <<>>        *)
(*   nd       nodata code | NONE                                                                 *)
(*   zall/zids, call/cids   zone_ids / cat_ids (xall = TRUE means None)                          *)
(*   agg      "count" | "percentage" | one of the seven aggregates (3-D)                         *)
(*   rows     observed "zone" column, cols observed category columns, tab[k][m] = <<num,den>>    *)
(*   steps    1 when si (argsort result) and ev (one record per _single_zone_crosstab_2d call:    *)
(*            zv = slice handed in, breaks = zone_cat_breaks, counts = values appended) were      *)
(*            recorded                                                                            *)
(* Clause: decided against the abstract contingency table only.  Extra: comparison with the       *)
(* transcription of the code (CrosstabAlg, variant CODEVARIANT): steps_ok / model_ok / drift_*     *)
(* when the property holds, like_without_<repair> / unexplained when it does not.                  *)
EXTENDS ZonalOps, Json, IOUtils

CONSTANT CODEVARIANT

Cases == ndJsonDeserialize(IOEnv.VERIF_CASES)

MinOf(S) == CHOOSE x \in S : \A y \in S : x <= y
ZReq(c) == [all |-> c.zall, ids |-> c.zids]
CReq(c) == [all |-> c.call, ids |-> c.cids]

CatUniverse(c) == IF c.dim = 2 THEN AbsCats(c.vs[1], c.nd) ELSE Range(c.cats)
ExpRows(c) == IF c.zall THEN AbsZoneIds(c.z) ELSE AbsZoneIds(c.z) \cap Range(c.zids)
ExpCols(c) == IF c.call THEN CatUniverse(c) ELSE CatUniverse(c) \cap Range(c.cids)
LayerOf(c, cat) == LET l == CHOOSE ll \in DOMAIN c.cats : c.cats[ll] = cat IN c.vs[l]
AbsCell(c, zone, cat) == IF c.dim = 2 THEN AbsEntry2D(c.agg, c.z, c.vs[1], c.nd, zone, cat)
                         ELSE AbsEntry3D(c.agg, c.z, LayerOf(c, cat), c.nd, zone)

RowMatches(c, k, zone) == \A m \in 1..Len(c.cols) : c.tab[k][m] = AbsCell(c, zone, c.cols[m])

\* sum of the percentages of row k as a rational over the common denominator `total`
RowSum100(c, k) ==
  LET t == AbsTotal(c.z, c.vs[1], c.nd, c.rows[k]) IN
  t = 0 \/ ( /\ \A m \in 1..Len(c.cols) : c.tab[k][m][2] > 0 /\ t % c.tab[k][m][2] = 0
             /\ SumSeq([m \in 1..Len(c.cols) |-> c.tab[k][m][1] * (t \div c.tab[k][m][2])]) = 100 * t )

Clause(c) ==
  IF Range(c.rows) # ExpRows(c) \/ Len(c.rows) # Cardinality(ExpRows(c)) THEN "rows_not_the_requested_existing_zones"
  ELSE IF Range(c.cols) # ExpCols(c) \/ Len(c.cols) # Cardinality(ExpCols(c))
       THEN "columns_not_the_requested_existing_categories"
  ELSE IF Len(c.tab) # Len(c.rows) \/ \E k \in 1..Len(c.tab) : Len(c.tab[k]) # Len(c.cols) THEN "table_shape"
  ELSE LET bad == {k \in 1..Len(c.rows) : ~RowMatches(c, k, c.rows[k])} IN
       IF bad = {} THEN "ok"
       ELSE LET k == MinOf(bad) IN
            IF \E m \in 1..Len(c.cols) : c.tab[k][m] = BadQ THEN "bridge_entry"
            ELSE IF \E zz \in ExpRows(c) : RowMatches(c, k, zz) THEN "row_labelled_with_another_zone"
            ELSE IF c.dim = 2 /\ c.agg = "percentage" /\ c.call /\ ~RowSum100(c, k) THEN "row_does_not_sum_to_100"
            ELSE IF c.dim = 3 THEN "entry_not_the_layer_aggregate_over_the_zone"
            ELSE IF c.agg = "percentage" THEN "entry_not_the_percentage_of_the_zone_valid_cells"
            ELSE "entry_not_the_count_of_zone_and_category"

\* ---- comparison with the transcription of the code
\* a full sorting permutation from the recorded sorted_indices (which has lost its leading -inf cells when the
\* code drops them) or, without a record, the stable one
Negs(c) == SelectSeq([k \in 1..Len(c.z) |-> k], LAMBDA k : c.z[k] = NINF)
FullPerm(c) ==
  IF c.steps = 1 /\ IsSortingPerm(c.si, c.z) THEN c.si
  ELSE IF c.steps = 1 /\ IsSortingPerm(Negs(c) \o c.si, c.z) THEN Negs(c) \o c.si
  ELSE StableArgSort(c.z)
Alg(c, variant) == CrosstabAlg(c.dim, c.z, c.vs, c.cats, FullPerm(c), c.nd, ZReq(c), CReq(c), c.agg, variant, "none")
TableSame(c, a) ==
  /\ a.labels = c.rows /\ a.cols = c.cols /\ Len(a.rows) = Len(c.tab)
  /\ \A k \in 1..Len(c.tab) : /\ Len(c.tab[k]) = Len(c.cols)
                              /\ \A m \in 1..Len(c.cols) :
                                   /\ HasCat(a.rows[k], c.cols[m])
                                   /\ Shown(c.dim, c.agg, a.rows[k], c.cols[m]) = c.tab[k][m]
EventsSame(c, a) ==
  /\ Len(c.ev) = Len(a.rows)
  /\ \A k \in 1..Len(c.ev) :
        /\ c.ev[k].zv = a.rows[k].slice
        /\ c.ev[k].breaks = a.rows[k].breaks
        /\ c.ev[k].counts = [m \in 1..Len(a.rows[k].entries) |-> a.rows[k].entries[m].val[1]]

\* property holds: does the code still follow the transcription (drift only, never a violation)?
Drift(c) ==
  IF c.steps = 1 /\ ~("strip" \in CODEVARIANT) /\ ~IsSortingPerm(c.si, c.z) /\ ~IsSortingPerm(Negs(c) \o c.si, c.z)
  THEN "drift_sorted_indices"
  \* without the recorded argsort result the shifted slices of a raster with -inf zones depend on numpy's
  \* (unspecified) order among equal zones: no model to compare with
  ELSE IF c.steps = 0 /\ ~("strip" \in CODEVARIANT) /\ ~("dropneginf" \in CODEVARIANT)
          /\ \E k \in DOMAIN c.z : c.z[k] = NINF THEN "nomodel"
  ELSE LET a == Alg(c, CODEVARIANT) IN
       IF ~TableSame(c, a) THEN "drift_table"
       ELSE IF c.steps = 1 /\ c.dim = 2 THEN (IF EventsSame(c, a) THEN "steps_ok" ELSE "drift_events")
       ELSE "model_ok"

\* property fails: which single repair, taken out of the transcription, reproduces exactly what was observed?
\* (used by the driver only to choose among the known classes a failing case belongs to)
Diagnose(c) ==
  IF TableSame(c, Alg(c, CODEVARIANT \ {"dropneginf"})) THEN "like_without_dropneginf"
  ELSE IF TableSame(c, Alg(c, CODEVARIANT \ {"labels"})) THEN "like_without_labels"
  ELSE IF TableSame(c, Alg(c, CODEVARIANT \ {"catstart"})) THEN "like_without_catstart"
  ELSE "unexplained"

Verdict(i) == LET c == Cases[i]
                  cl == Clause(c)
              IN <<"VERDICT", i, cl, IF cl = "ok" THEN Drift(c) ELSE Diagnose(c)>>

ASSUME \A i \in 1..Len(Cases) : PrintT(Verdict(i))
=============================================================================
