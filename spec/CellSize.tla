------------------------------ MODULE CellSize ------------------------------
(* Case analysis of xrspatial.utils.get_dataarray_resolution / calc_res (utils.py:194-267), *)
(* the cell size slope() and curvature() use (C08; shared with C19).                       *)
(*                                                                                         *)
(* A raster's metadata as the model sees it:                                               *)
(*   rk          : what agg.attrs.get("res") is (one of ResKinds)                          *)
(*   rx, ry      : first / second element of `res` as rationals <<num,den>> (for a scalar  *)
(*                 rx is the value; unused kinds carry <<0,1>>)                            *)
(*   xs, ys      : coordinate values of the last / second-last dimension, integers over    *)
(*                 the common denominator cd; <<>> = the dimension has no coordinate       *)
(*                 variable (xarray then supplies the index 0..n-1)                        *)
(*   H, W        : raster shape                                                            *)
(* The result is <<cellsize_x, cellsize_y>>, two rationals <<num,den>>.                    *)
(*                                                                                         *)
(* Transcription of the code:                                                              *)
(*   cellsize = attrs.get("res")                                                           *)
(*   if isinstance(cellsize,(tuple,ndarray,list)) and len==2 and both elements are        *)
(*      Python int/float instances          -> cellsize_x, cellsize_y = cellsize           *)
(*   elif isinstance(cellsize,(int,float))  -> both = cellsize                             *)
(*   else (and on any exception)            -> calc_res: (max-min)/(n-1) per dimension     *)
(* np.float64 is a subclass of float, np.int64 is NOT a subclass of int: a pair of numpy   *)
(* integers (or an integer ndarray) falls through to the coordinates.                      *)
EXTENDS Integers, Sequences, FiniteSets

ResKinds == {"none", "tuple", "list", "ndarray_float", "tuple_npfloat",   \* ... the last four use the pair
             "ndarray_int", "tuple_npint",                               \* numpy ints: not (int, float) instances
             "scalar_int", "scalar_float",
             "triple", "str"}

UsesPair(k)   == k \in {"tuple", "list", "ndarray_float", "tuple_npfloat"}
UsesScalar(k) == k \in {"scalar_int", "scalar_float"}
UsesCoords(k) == ~UsesPair(k) /\ ~UsesScalar(k)

SeqMax(s) == CHOOSE m \in {s[i] : i \in 1..Len(s)} : \A j \in 1..Len(s) : s[j] <= m
SeqMin(s) == CHOOSE m \in {s[i] : i \in 1..Len(s)} : \A j \in 1..Len(s) : s[j] >= m

\* calc_res for one dimension of n cells: (max - min) / (n - 1); default index 0..n-1 gives 1
Span(s, n, cd) == IF Len(s) = 0 THEN <<1, 1>> ELSE <<SeqMax(s) - SeqMin(s), (n - 1) * cd>>

\* m = "none" is the specification; the other values are deliberately broken variants (negative twins
\* of CellSize_MC: they must be rejected by the lemmas there)
ResolutionM(m, rk, rx, ry, xs, ys, cd, H, W) ==
  IF UsesPair(rk) /\ m # "ignore_attr" THEN (IF m = "attr_yx" THEN <<ry, rx>> ELSE <<rx, ry>>)
  ELSE IF UsesScalar(rk) /\ m # "ignore_attr" THEN <<rx, rx>>
  ELSE IF m = "coords_yx" THEN <<Span(ys, H, cd), Span(xs, W, cd)>>
  ELSE IF m = "span_n" THEN <<Span(xs, W + 1, cd), Span(ys, H + 1, cd)>>      \* (max-min)/n
  ELSE <<Span(xs, W, cd), Span(ys, H, cd)>>

Resolution(rk, rx, ry, xs, ys, cd, H, W) == ResolutionM("none", rk, rx, ry, xs, ys, cd, H, W)

CsEq(a, b) == a[1] * b[2] = b[1] * a[2]
CsPos(a) == a[1] * a[2] > 0

=============================================================================
