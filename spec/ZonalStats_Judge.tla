-------------------------- MODULE ZonalStats_Judge --------------------------
(* Judge for C02.  One case = one call of the real xrspatial.zonal.stats:                    *)
(*   z, v     flattened zones / values as codes of ZonalOps (zone ids doubled, values scaled)  *)
(*   nd       nodata code or NONE;  all / ids : zone_ids (all = TRUE means zone_ids=None)       *)
(*   stats    names of the requested statistics, in request order                               *)
(*   rt       "df" (pandas.DataFrame) | "da" (xarray.DataArray)                                 *)
(*   rows     observed "zone" column (codes; 2999999 = not an id)                               *)
(*   tab      observed table   tab[s][k]  = <<num,den>> for statistic s, row k      (rt = df)   *)
(*   ras      observed raster  ras[s][c]  = <<num,den>> for statistic s, cell c      (rt = da)  *)
(*   steps    1 when si / zb (sorted_indices 1-based, zone_breaks) were recorded from            *)
(*            _sort_and_stride                                                                    *)
(* The clause is decided against the ABSTRACT definition only.  The extra field compares the     *)
(* recorded bookkeeping and the observed output with the transcription of the code in ZonalOps   *)
(* (variant CODEVARIANT): steps_ok / drift_*.                                                     *)
EXTENDS ZonalOps, Json, IOUtils

CONSTANT CODEVARIANT      \* the variant of the transcription that describes the code today

Cases == ndJsonDeserialize(IOEnv.VERIF_CASES)

Req(c) == [all |-> c.all, ids |-> c.ids]
MinOf(S) == CHOOSE x \in S : \A y \in S : x <= y

EntryClause(name, obs, exp, what) ==
  IF obs = exp THEN "ok"
  ELSE IF obs = BadQ THEN "bridge_" \o name
  ELSE IF exp = NaNQ THEN "empty_zone_not_nan"
  ELSE what \o name

TableClause(c) ==
  LET req == Req(c)
      exp == AbsRows(c.z, req)
  IN IF Range(c.rows) # Range(exp) \/ Len(c.rows) # Len(exp) THEN "rows_not_the_requested_existing_zones"
     ELSE IF c.rows # exp THEN "rows_not_ascending"
     ELSE IF \E s \in 1..Len(c.stats) : Len(c.tab[s]) # Len(exp) THEN "table_shape"
     ELSE LET bad == {p \in (1..Len(c.stats)) \X (1..Len(exp)) :
                        c.tab[p[1]][p[2]] # AbsStat(c.stats[p[1]], c.z, c.v, c.nd, exp[p[2]])}
          IN IF bad = {} THEN "ok"
             ELSE LET s == MinOf({p[1] : p \in bad})
                      k == MinOf({p[2] : p \in {q \in bad : q[1] = s}})
                  IN EntryClause(c.stats[s], c.tab[s][k], AbsStat(c.stats[s], c.z, c.v, c.nd, exp[k]), "table_")

RasterClause(c) ==
  LET req == Req(c)
      sel == AbsSelected(c.z, req)
      n == Len(c.z)
  IN IF \E s \in 1..Len(c.stats) : Len(c.ras[s]) # n THEN "raster_shape"
     ELSE LET expAt(s, cell) == IF c.z[cell] \in sel THEN AbsStat(c.stats[s], c.z, c.v, c.nd, c.z[cell]) ELSE NaNQ
              bad == {p \in (1..Len(c.stats)) \X (1..n) : c.ras[p[1]][p[2]] # expAt(p[1], p[2])}
          IN IF bad = {} THEN "ok"
             ELSE LET s == MinOf({p[1] : p \in bad})
                      cell == MinOf({p[2] : p \in {q \in bad : q[1] = s}})
                  IN IF c.z[cell] \notin sel THEN "raster_cell_outside_selected_zones_not_nan"
                     ELSE EntryClause(c.stats[s], c.ras[s][cell], expAt(s, cell), "raster_zone_cell_")

Clause(c) == IF c.rt = "df" THEN TableClause(c) ELSE RasterClause(c)

\* ---- step-level comparison with the transcription (never a violation, only drift)
SiOK(c) ==
  IF "strip" \in CODEVARIANT \/ "dropneginf" \in CODEVARIANT
  THEN /\ Range(c.si) = {k \in 1..Len(c.z) : IF "strip" \in CODEVARIANT THEN Finite(c.z[k]) ELSE c.z[k] # NINF}
       /\ Len(c.si) = Cardinality(Range(c.si))
       /\ \A k \in 1..Len(c.si) - 1 : c.z[c.si[k]] <= c.z[c.si[k + 1]]
  ELSE IsSortingPerm(c.si, c.z)

Extra(c) ==
  IF c.steps = 0 THEN "nosteps"
  ELSE IF ~SiOK(c) THEN "drift_sorted_indices"
  ELSE LET uz == UniqueFinite(c.z)
           vbz == [k \in 1..Len(c.si) |-> c.v[c.si[k]]]
           sz == SelectSeq([k \in 1..Len(c.si) |-> c.z[c.si[k]]], Finite)
           zb == Strides(sz, uz, "none")
           zids == StatsZoneIds(c.z, Req(c))
           slices == CalcSlices(vbz, zb, uz, zids, c.nd, "none")
       IN IF zb # c.zb THEN "drift_zone_breaks"
          ELSE IF c.rt = "df" /\ (c.rows # zids \/
                    \E s \in 1..Len(c.stats) : c.tab[s] # StatsTable(c.stats[s], uz, zids, slices, "none"))
               THEN "drift_table"
          ELSE IF c.rt = "da" /\
                    \E s \in 1..Len(c.stats) :
                       c.ras[s] # StatsRaster(c.stats[s], Len(c.z), uz, zids, slices, zb, c.si, "none")
               THEN "drift_raster"
          ELSE "steps_ok"

ASSUME \A i \in 1..Len(Cases) : PrintT(<<"VERDICT", i, Clause(Cases[i]), Extra(Cases[i])>>)
=============================================================================
