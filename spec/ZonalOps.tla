------------------------------ MODULE ZonalOps ------------------------------
(* Operators shared by ZonalStats.tla / Crosstab.tla (exhaustive models) and their judges   *)
(* (ZonalStats_Judge.tla, Crosstab_Judge.tla).  No variables here.                          *)
(*                                                                                          *)
(* Value domain (zones and values alike): a cell is an integer code                          *)
(*     NINF < every finite number < PINF < NAN                                               *)
(* which is exactly the total order numpy's argsort / sort use (-inf first, NaN last).       *)
(* Zone ids are carried doubled (id*2, so -1, 1/2, 2 are -2, 1, 4), values multiplied by the *)
(* case's value scale.  A statistic is a pair <<num, den>> in lowest terms, den > 0;         *)
(* NaN is <<0,0>>;  <<1,0>> is "the float bridge found no admissible exact value".           *)
(*                                                                                          *)
(* Two layers:                                                                              *)
(*   Abs...  the abstract definition (sets of cell indices per zone, folds over the raster)  *)
(*   the transcription of xrspatial/zonal.py: SortedZones, Strides/Advance (_strides),       *)
(*   SortAndStride (_sort_and_stride), CalcSlices (_calc_stats), StatsTable/StatsRaster      *)
(*   (_stats_numpy), FindCats, SingleZone2D (_single_zone_crosstab_2d with cat_start),       *)
(*   SingleZone3D, CrosstabTable (_crosstab_numpy incl. the "zone" column).                  *)
(* `variant` is a set of repairs applied to the transcription:  {} = the code before the     *)
(* fix: commits 7d7d291 / a1fb154 / 2bd4c42 of /repo; the code today is                      *)
(* {"dropneginf"} (stats) resp. {"dropneginf", "catstart", "labels"} (crosstab).              *)
(*   "dropneginf" the leading -inf cells are dropped from sorted_indices / sorted_zones       *)
(*              (hence from values_by_zones) before the strides are taken      [7d7d291]      *)
(*   "strip"    every non-finite zone removed from values_by_zones / sorted_indices (an        *)
(*              alternative repair, kept as a model only)                                      *)
(*   "catstart" cat_start advanced for every category                          [a1fb154]      *)
(*   "labels"   zone_ids = [z for z in unique_zones if z in zone_ids]: the "zone" column is   *)
(*              the existing requested zones in unique_zones order = the zone each row was     *)
(*              computed for                                                    [2bd4c42]      *)
(* `mut` selects a negative twin (deliberately broken, must be rejected by TLC).             *)
EXTENDS Integers, Sequences, FiniteSets, TLC

NINF == -1000000
PINF == 1000000
NAN  == 2000000
NONE == 3000000      \* nodata_values = None

Finite(x) == x > NINF /\ x < PINF

NaNQ == <<0, 0>>
BadQ == <<1, 0>>

Abs(x) == IF x < 0 THEN -x ELSE x
RECURSIVE GCD(_, _)
GCD(a, b) == IF b = 0 THEN a ELSE GCD(b, a % b)
\* a/b in lowest terms, b > 0
Norm(a, b) == LET g == GCD(Abs(a), b) IN <<a \div g, b \div g>>
IntQ(a) == <<a, 1>>

Range(s) == {s[i] : i \in DOMAIN s}
Lt(a, b) == a < b
RECURSIVE SetToSeqR(_)
SetToSeqR(T) == IF T = {} THEN <<>> ELSE LET x == CHOOSE y \in T : TRUE IN <<x>> \o SetToSeqR(T \ {x})
SortSet(S) == SortSeq(SetToSeqR(S), Lt)
Member(x, s) == \E i \in DOMAIN s : s[i] = x

RECURSIVE SumSeq(_)
SumSeq(s) == IF s = <<>> THEN 0 ELSE Head(s) + SumSeq(Tail(s))
RECURSIVE SumSqSeq(_)
SumSqSeq(s) == IF s = <<>> THEN 0 ELSE Head(s) * Head(s) + SumSqSeq(Tail(s))
RECURSIVE MaxSeq(_)
MaxSeq(s) == IF Len(s) = 1 THEN s[1] ELSE LET m == MaxSeq(Tail(s)) IN IF s[1] > m THEN s[1] ELSE m
RECURSIVE MinSeq(_)
MinSeq(s) == IF Len(s) = 1 THEN s[1] ELSE LET m == MinSeq(Tail(s)) IN IF s[1] < m THEN s[1] ELSE m

StatNames == {"mean", "max", "min", "sum", "std", "var", "count", "dsum", "range", "sumsq", "n"}

\* statistic of a NON-EMPTY sequence of finite integers.  std is carried as std^2 (the bridge squares it).
\* dsum, range, sumsq, n are the user-supplied reducers 2*sum, max-min, sum of squares, len.
StatOf(name, s) ==
  LET n == Len(s)  sm == SumSeq(s)  q == SumSqSeq(s) IN
  CASE name = "mean"  -> Norm(sm, n)
    [] name = "max"   -> IntQ(MaxSeq(s))
    [] name = "min"   -> IntQ(MinSeq(s))
    [] name = "sum"   -> IntQ(sm)
    [] name = "var"   -> Norm(n * q - sm * sm, n * n)
    [] name = "std"   -> Norm(n * q - sm * sm, n * n)
    [] name = "count" -> IntQ(n)
    [] name = "dsum"  -> IntQ(2 * sm)
    [] name = "range" -> IntQ(MaxSeq(s) - MinSeq(s))
    [] name = "sumsq" -> IntQ(q)
    [] name = "n"     -> IntQ(n)

\* what NumPy's reduction gives on an empty array (3-D crosstab); min/max raise: outside the domain
EmptyStatOf(name) == CASE name = "sum" -> IntQ(0) [] name = "count" -> IntQ(0) [] OTHER -> NaNQ

----------------------------------------------------------------------------
(* ABSTRACT DEFINITION                                                                      *)

Cells(z) == DOMAIN z
AbsZoneIds(z) == {z[i] : i \in {j \in DOMAIN z : Finite(z[j])}}
IsValidValue(x, nd) == Finite(x) /\ x # nd
\* the valid cells of zone id
AbsValid(z, v, nd, id) == {i \in DOMAIN z : z[i] = id /\ IsValidValue(v[i], nd)}
\* values of an index set as a sequence (ascending cell index; the statistics are order-free)
RECURSIVE ValuesOf(_, _, _)
ValuesOf(v, S, k) == IF k > Len(v) THEN <<>>
                     ELSE (IF k \in S THEN <<v[k]>> ELSE <<>>) \o ValuesOf(v, S, k + 1)
AbsStat(name, z, v, nd, id) ==
  LET S == AbsValid(z, v, nd, id) IN IF S = {} THEN NaNQ ELSE StatOf(name, ValuesOf(v, S, 1))
\* requested ids: req = [all |-> BOOLEAN, ids |-> sequence]
AbsSelected(z, req) == IF req.all THEN AbsZoneIds(z) ELSE AbsZoneIds(z) \cap Range(req.ids)
AbsRows(z, req) == SortSet(AbsSelected(z, req))
AbsStatsTable(name, z, v, nd, req) ==
  LET rows == AbsRows(z, req) IN [k \in 1..Len(rows) |-> AbsStat(name, z, v, nd, rows[k])]
AbsStatsRaster(name, z, v, nd, req) ==
  LET sel == AbsSelected(z, req) IN
  [i \in DOMAIN z |-> IF z[i] \in sel THEN AbsStat(name, z, v, nd, z[i]) ELSE NaNQ]

\* ---- crosstab, 2-D
AbsCats(v, nd) == {v[i] : i \in {j \in DOMAIN v : IsValidValue(v[j], nd)}}
AbsCount(z, v, nd, id, c) == Cardinality({i \in DOMAIN z : z[i] = id /\ v[i] = c /\ IsValidValue(v[i], nd)})
AbsTotal(z, v, nd, id) == Cardinality(AbsValid(z, v, nd, id))
AbsEntry2D(agg, z, v, nd, id, c) ==
  IF agg = "count" THEN IntQ(AbsCount(z, v, nd, id, c))
  ELSE LET t == AbsTotal(z, v, nd, id) IN IF t = 0 THEN NaNQ ELSE Norm(100 * AbsCount(z, v, nd, id, c), t)
\* ---- crosstab, 3-D: vs = sequence of layers, each a flattened raster
AbsEntry3D(agg, z, layer, nd, id) ==
  LET S == AbsValid(z, layer, nd, id) IN
  IF S = {} THEN EmptyStatOf(agg) ELSE StatOf(agg, ValuesOf(layer, S, 1))

----------------------------------------------------------------------------
(* TRANSCRIPTION OF THE CODE                                                                *)

\* p sorts z (numpy argsort: any permutation putting z in non-decreasing code order)
IsPerm(p, n) == Len(p) = n /\ Range(p) = 1..n
IsSortingPerm(p, z) == IsPerm(p, Len(z)) /\ \A k \in 1..Len(z) - 1 : z[p[k]] <= z[p[k + 1]]
StableArgSort(z) ==
  SortSeq([i \in 1..Len(z) |-> i], LAMBDA a, b : z[a] < z[b] \/ (z[a] = z[b] /\ a < b))
Perms(n) == {p \in [1..n -> 1..n] : Range(p) = 1..n}
SortingPerms(z) == {p \in Perms(Len(z)) : \A k \in 1..Len(z) - 1 : z[p[k]] <= z[p[k + 1]]}

UniqueFinite(z) == SortSet(AbsZoneIds(z))          \* np.unique(zones[np.isfinite(zones)])

\* _strides: the while loop for one unique id (count is the 0-based cursor)
RECURSIVE Advance(_, _, _, _)
Advance(fz, u, count, mut) ==
  LET lim == IF mut = "lastcell" THEN Len(fz) - 1 ELSE Len(fz) IN
  IF count < lim /\ fz[count + 1] = u THEN Advance(fz, u, count + 1, mut) ELSE count
RECURSIVE StridesFrom(_, _, _, _, _)
StridesFrom(fz, uz, i, count, mut) ==
  IF i > Len(uz) THEN <<>>
  ELSE LET c2 == Advance(fz, uz[i], count, mut) IN <<c2>> \o StridesFrom(fz, uz, i + 1, c2, mut)
Strides(fz, uz, mut) == StridesFrom(fz, uz, 1, 0, mut)

\* _sort_and_stride for a given argsort result p
SortAndStride(z, v, p, variant) ==
  LET n == Len(z)
      sortedZones == [k \in 1..n |-> z[p[k]]]
      keep == IF "strip" \in variant THEN SelectSeq([k \in 1..n |-> k], LAMBDA k : Finite(sortedZones[k]))
              ELSE IF "dropneginf" \in variant
                   THEN SelectSeq([k \in 1..n |-> k], LAMBDA k : sortedZones[k] # NINF)   \* sorted_indices[num_neg_inf:]
              ELSE [k \in 1..n |-> k]
  IN [sortedIndices |-> [k \in 1..Len(keep) |-> p[keep[k]]],
      valuesByZones |-> [k \in 1..Len(keep) |-> v[p[keep[k]]]],
      sortedZones   |-> SelectSeq(sortedZones, Finite)]        \* +inf / NaN: stripped in the zone array only (they sort last)

Slice(s, start, end) == SubSeq(s, start + 1, end)             \* python s[start:end]
Start(zb, i) == IF i = 1 THEN 0 ELSE zb[i - 1]

FilterValid(s, nd, mut) ==
  SelectSeq(s, LAMBDA x : (IF mut = "noinf" THEN x # NAN ELSE Finite(x)) /\ x # nd)

\* zone_ids as used by _stats_numpy: np.unique(zone_ids) restricted to existing zones (a sorted sequence)
StatsZoneIds(z, req) == IF req.all THEN UniqueFinite(z)
                        ELSE SortSet(Range(req.ids) \cap AbsZoneIds(z))

\* _calc_stats: one entry per unique zone: "skip" (not selected) or the filtered slice
RECURSIVE CalcFrom(_, _, _, _, _, _, _, _)
CalcFrom(vbz, zb, uz, zids, nd, i, start, mut) ==
  IF i > Len(uz) THEN <<>>
  ELSE LET end == zb[i]
           sel == Member(uz[i], zids)
           here == IF sel THEN <<[sel |-> TRUE, vals |-> FilterValid(Slice(vbz, start, end), nd, mut)]>>
                   ELSE <<[sel |-> FALSE, vals |-> <<>>]>>
           nxt == IF mut = "startsel" /\ ~sel THEN start ELSE end
       IN here \o CalcFrom(vbz, zb, uz, zids, nd, i + 1, nxt, mut)
CalcSlices(vbz, zb, uz, zids, nd, mut) == CalcFrom(vbz, zb, uz, zids, nd, 1, 0, mut)

ResultOf(name, sl, mut) ==
  IF ~sl.sel THEN NaNQ
  ELSE IF Len(sl.vals) > 0 THEN StatOf(name, sl.vals)
  ELSE IF mut = "emptyzero" /\ name \in {"sum", "count"} THEN IntQ(0) ELSE NaNQ

\* DataFrame of _stats_numpy: rows = zone_ids, data = results[selected_indexes]
StatsRows(z, req) == StatsZoneIds(z, req)
StatsTable(name, uz, zids, slices, mut) ==
  LET selIdx == SelectSeq([k \in 1..Len(uz) |-> k], LAMBDA k : Member(uz[k], zids))
  IN [k \in 1..Len(selIdx) |-> ResultOf(name, slices[selIdx[k]], mut)]
\* raster of _stats_numpy: result[zs] = stats_results[iz], zs = sorted_indices[zone_breaks[iz-1]:zone_breaks[iz]]
PosIn(x, s) == CHOOSE k \in DOMAIN s : s[k] = x
StatsRaster(name, n, uz, zids, slices, zb, sortedIndices, mut) ==
  [c \in 1..n |->
     LET hits == {k \in 1..Len(zids) :
                    LET iz == IF mut = "paintreq" THEN k ELSE PosIn(zids[k], uz)
                    IN \E j \in Start(zb, iz) + 1 .. zb[iz] : j <= Len(sortedIndices) /\ sortedIndices[j] = c}
     IN IF hits = {} THEN NaNQ
        ELSE LET k == CHOOSE kk \in hits : \A h \in hits : h <= kk      \* later zone_ids overwrite
             IN ResultOf(name, slices[PosIn(zids[k], uz)], mut)]

\* ---- crosstab
FindCats2D(v, nd) == SortSet(AbsCats(v, nd))
\* ids as used by crosstab: existing ones, in REQUEST order (no sort)
RequestOrder(req, universe) == IF req.all THEN universe ELSE SelectSeq(req.ids, LAMBDA x : Member(x, universe))

\* _single_zone_crosstab_2d: returns [total, counts] where counts = the values appended, in unique_cats order
RECURSIVE CatLoop(_, _, _, _, _, _, _)
CatLoop(breaks, ucats, cids, j, catStart, variant, mut) ==
  IF j > Len(ucats) THEN <<>>
  ELSE IF Member(ucats[j], cids)
       THEN <<[cat |-> ucats[j], count |-> breaks[j] - catStart]>>
            \o CatLoop(breaks, ucats, cids, j + 1, breaks[j], variant, mut)
       ELSE CatLoop(breaks, ucats, cids, j + 1,
                    IF "catstart" \in variant THEN breaks[j] ELSE catStart, variant, mut)
SingleZone2D(zoneValues, ucats, cids, nd, variant, mut) ==
  LET valid == FilterValid(zoneValues, nd, mut)
      srt == SortSeq(valid, Lt)
      breaks == Strides(srt, ucats, mut)
  IN [total |-> IF mut = "totalsel" THEN Len(SelectSeq(valid, LAMBDA x : Member(x, cids))) ELSE Len(valid),
      breaks |-> breaks,
      counts |-> CatLoop(breaks, ucats, cids, 1, 0, variant, mut)]

\* _single_zone_crosstab_3d: one entry per selected layer (unique_cats = layer labels in the given order)
RECURSIVE LayerLoop(_, _, _, _, _, _, _, _, _)
LayerLoop(vbzLayers, ucats, cids, nd, agg, j, start, end, mut) ==
  IF j > Len(ucats) THEN <<>>
  ELSE (IF Member(ucats[j], cids)
        THEN LET d == FilterValid(Slice(vbzLayers[j], start, end), nd, mut)
             IN <<[cat |-> ucats[j], val |-> IF Len(d) = 0 THEN EmptyStatOf(agg) ELSE StatOf(agg, d)]>>
        ELSE <<>>) \o LayerLoop(vbzLayers, ucats, cids, nd, agg, j + 1, start, end, mut)

\* the zone loop of _crosstab_numpy.  e = [dim, vbz (sequence of layers), zb, uz, zids, ucats, cids, nd, agg,
\*                                        variant, mut]
ZoneRow(e, i, start, end) ==
  IF e.dim = 2
  THEN LET r == SingleZone2D(Slice(e.vbz[1], start, end), e.ucats, e.cids, e.nd, e.variant, e.mut)
       IN [zone |-> e.uz[i], total |-> r.total, slice |-> Slice(e.vbz[1], start, end), breaks |-> r.breaks,
           entries |-> [k \in 1..Len(r.counts) |-> [cat |-> r.counts[k].cat, val |-> IntQ(r.counts[k].count)]]]
  ELSE [zone |-> e.uz[i], total |-> 0, slice |-> <<>>, breaks |-> <<>>,
        entries |-> LayerLoop(e.vbz, e.ucats, e.cids, e.nd, e.agg, 1, start, end, e.mut)]
RECURSIVE ZoneLoop(_, _, _)
ZoneLoop(e, i, start) ==
  IF i > Len(e.uz) THEN <<>>
  ELSE LET end == e.zb[i] IN
       (IF Member(e.uz[i], e.zids) THEN <<ZoneRow(e, i, start, end)>> ELSE <<>>) \o ZoneLoop(e, i + 1, end)

\* the whole of crosstab() on the NumPy path for a given argsort result p.
\* vs = sequence of layers (one for 2-D), cats = layer labels (3-D; ignored for 2-D)
\* result: labels (the "zone" column), rows (as computed, unique_zones order), cols (cat_ids in request order)
CrosstabAlg(dim, z, vs, cats, p, nd, zreq, creq, agg, variant, mut) ==
  LET uz == UniqueFinite(z)
      ss == [l \in 1..Len(vs) |-> SortAndStride(z, vs[l], p, variant)]
      zb == Strides(ss[1].sortedZones, uz, mut)
      ucats == IF dim = 2 THEN FindCats2D(vs[1], nd) ELSE cats
      cids == RequestOrder(creq, ucats)
      zids == RequestOrder(zreq, uz)
      e == [dim |-> dim, vbz |-> [l \in 1..Len(vs) |-> ss[l].valuesByZones], zb |-> zb, uz |-> uz, zids |-> zids,
            ucats |-> ucats, cids |-> cids, nd |-> nd, agg |-> agg, variant |-> variant, mut |-> mut]
      rows == ZoneLoop(e, 1, 0)
  IN [labels |-> IF "labels" \in variant THEN [k \in 1..Len(rows) |-> rows[k].zone] ELSE zids,
      rows |-> rows, cols |-> cids, zb |-> zb]

HasCat(row, c) == \E k \in DOMAIN row.entries : row.entries[k].cat = c
ValFor(row, c) == LET k == CHOOSE kk \in DOMAIN row.entries : row.entries[kk].cat = c IN row.entries[k].val
\* the number shown in the DataFrame for a computed row and a column
Shown(dim, agg, row, c) ==
  IF dim = 2 /\ agg = "percentage"
  THEN (IF (IF row.total = 0 THEN TRUE ELSE FALSE) THEN NaNQ ELSE Norm(100 * ValFor(row, c)[1], row.total))
  ELSE ValFor(row, c)
=============================================================================
