------------------------ MODULE DistanceParse_Judge ------------------------
(* C19: verdicts on the distance strings replayed into the real parser.                      *)
(* case = [chars  : the string as a sequence of one-character strings,                       *)
(*         pub    : 1 iff the public circle_kernel(cellsize, cellsize, string) returned,     *)
(*         helper : 1 iff convolution._get_distance(string) returned,                        *)
(*         metres : <<n, d>> value returned by _get_distance through the float bridge        *)
(*                  (<<0,0>> = did not return / NaN, <<1,0>> = not within tolerance of a     *)
(*                  rational with an admissible denominator)]                                *)
(* The public call decides accepted / rejected; the helper supplies the value in metres.     *)
(* Helper and public call may only disagree on the modelled float words (DistanceOps.         *)
(* IsFloatWord: nan / inf / infinity), any other disagreement is reported as drift.           *)
EXTENDS DistanceOps, TLC, Json, IOUtils

Cases == ndJsonDeserialize(IOEnv.VERIF_CASES)

V(c) ==
  LET r == Read(c.chars)
      acc == c.pub = 1
  IN CASE r.ok /\ ~r.odd /\ ~acc -> <<"valid_rejected", r.why>>
       [] ~r.ok /\ acc -> <<IF r.why = "nonpositive" THEN "nonpositive_accepted" ELSE "malformed_accepted", r.why>>
       [] r.ok /\ acc /\ c.helper = 1 /\ ~REq(c.metres, r.val) -> <<"wrong_metres", ToString(<<c.metres, r.val>>)>>
       [] c.helper = 1 /\ c.pub = 0 /\ IsFloatWord(c.chars) -> <<"ok", "known float word read by the helper only">>
       [] c.helper # c.pub -> <<"ok", "drift helper and public call disagree">>
       [] OTHER -> <<"ok", IF r.odd THEN "odd" ELSE r.why>>

ASSUME \A i \in 1..Len(Cases) : LET v == V(Cases[i]) IN PrintT(<<"VERDICT", i, v[1], v[2]>>)
=============================================================================
