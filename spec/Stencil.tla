------------------------------ MODULE Stencil ------------------------------
(* C08 - exhaustive model.  The state is one H x W elevation raster over VALS (integers   *)
(* and NAN); the only transition changes one cell (to NaN or to any other value).  Every  *)
(* raster over VALS is reachable from the all-zero raster, so the invariants are checked  *)
(* on ALL rasters of the configuration and the action properties on ALL single-cell       *)
(* perturbations.                                                                          *)
(*                                                                                         *)
(* What is proved on the model (= the clauses of C08 that follow from the formulas):       *)
(*   NaNRing, NaNExactly   border cells NaN; an interior cell is NaN iff a cell the kernel *)
(*                         reads is NaN                                                    *)
(*   Locality, ReadsOnly   a single-cell change alters outputs only inside the 3x3         *)
(*                         neighbourhood of that cell (only at cells whose kernel reads it)*)
(*   OffsetInv             adding a constant to all elevations changes nothing             *)
(*   ScaleLaw              multiplying all elevations by k > 0: aspect unchanged, tan(slope),*)
(*                         curvature and the hillshade gradient scale by k                 *)
(*   FlatLaw               flat window => slope 0, aspect -1, curvature 0, no shading tilt *)
(*   Ranges                tan^2 >= 0 finite (slope in [0,90)), the aspect vector is       *)
(*                         non-zero, its compass sector agrees with the code's three-way   *)
(*                         branch, hillshade in [0,1] for every (rational) light vector    *)
(*   RotLaw                square cells: np.rot90 turns slope and curvature with the       *)
(*                         raster and turns every aspect vector by a quarter turn; RotS    *)
(*                         (derived below from the model itself) says which way            *)
EXTENDS StencilOps, TLC

CONSTANTS H, W,        \* raster shape
          VALS,        \* cell values, e.g. {0, 1, 2, NAN}
          CX, CY,      \* cell sizes <<num,den>>
          MUT,         \* "none" or the name of a broken variant
          KS,          \* offsets tried by OffsetInv
          LIGHTS       \* light vectors <<lx, ly, lz, ld>> with lx^2+ly^2+lz^2 = ld^2 (rational sun positions)

VARIABLE g

ASSUME 0 \in VALS /\ H >= 3 /\ W >= 3
ASSUME \A l \in LIGHTS : l[1]*l[1] + l[2]*l[2] + l[3]*l[3] = l[4]*l[4] /\ l[4] > 0

Rows == 0..H-1
Cols == 0..W-1
Init == g = [r \in Rows |-> [c \in Cols |-> 0]]
\* One cell changes from 0 to any other value (NaN included).  Every raster over VALS is reachable; a change
\* a -> b of one cell is the composition of (0 -> a) reversed and (0 -> b), so "output unchanged" proved for
\* the 0 -> v steps holds for every single-cell change.
Perturb(r, c, v) == g[r][c] = 0 /\ v # 0 /\ g' = [g EXCEPT ![r][c] = v]
Next == \E r \in Rows, c \in Cols, v \in VALS : Perturb(r, c, v)
Spec == Init /\ [][Next]_g

TypeOK == g \in [Rows -> [Cols -> VALS]]

Fns == {"slope", "aspect", "curvature", "hillshade"}
Out(fn, gr, h, w) ==
  CASE fn = "slope" -> SlopeR(gr, h, w, CX, CY, MUT)
    [] fn = "aspect" -> AspectR(gr, h, w, MUT)
    [] fn = "curvature" -> CurvR(gr, h, w, CX, CY, MUT)
    [] fn = "hillshade" -> HillR(gr, h, w, MUT)
OutNaN(fn, v) == IF fn \in {"slope", "curvature"} THEN v[2] = 0 ELSE v[3] = 0

At(fn, gr, h, w, r, c) ==
  CASE fn = "slope" -> SlopeAt(gr, h, w, r, c, CX, CY, MUT)
    [] fn = "aspect" -> AspectAt(gr, h, w, r, c, MUT)
    [] fn = "curvature" -> CurvAt(gr, h, w, r, c, CX, CY, MUT)
    [] fn = "hillshade" -> HillAt(gr, h, w, r, c, MUT)
InteriorCells(h, w) == {rc \in (0..h-1) \X (0..w-1) : Interior(h, w, rc[1], rc[2])}

\* ---------------------------------------------------------------- NaN ring, NaN propagation
NaNRing ==
  \A r \in Rows, c \in Cols : ~Interior(H, W, r, c) =>
     \A fn \in Fns : OutNaN(fn, At(fn, g, H, W, r, c))

NaNExactly ==
  \A rc \in InteriorCells(H, W) : \A fn \in Fns :
       (OutNaN(fn, At(fn, g, H, W, rc[1], rc[2])) <=> \E d \in ReadsOf(fn) : IsNaN(g[rc[1] + d[1]][rc[2] + d[2]]))

\* ---------------------------------------------------------------- locality (action properties)
Changed == {rc \in Rows \X Cols : g'[rc[1]][rc[2]] # g[rc[1]][rc[2]]}
Near(p, q) == Abs(p[1] - q[1]) <= 1 /\ Abs(p[2] - q[2]) <= 1
\* (contrapositive form: a cell that is not near / does not read any changed cell keeps its value; border cells
\* are NaN before and after by NaNRing, so only interior cells need to be compared)
LocalityA ==
  LET ch == Changed IN
  \A q \in InteriorCells(H, W) : (\A p \in ch : ~Near(p, q)) =>
      \A fn \in Fns : At(fn, g', H, W, q[1], q[2]) = At(fn, g, H, W, q[1], q[2])
ReadsOnlyA ==
  LET ch == Changed IN
  \A q \in InteriorCells(H, W) : \A fn \in Fns :
      (\A p \in ch : <<p[1] - q[1], p[2] - q[2]>> \notin ReadsOf(fn)) =>
          At(fn, g', H, W, q[1], q[2]) = At(fn, g, H, W, q[1], q[2])
Locality == [][LocalityA]_g
ReadsOnly == [][ReadsOnlyA]_g

\* ---------------------------------------------------------------- offset invariance
\* (border cells are NaN on both sides by NaNRing: the interior cells carry the content)
OffsetInv ==
  \A k \in KS : LET gk == AddK(g, H, W, k) IN
     \A rc \in InteriorCells(H, W) : \A fn \in Fns : At(fn, gk, H, W, rc[1], rc[2]) = At(fn, g, H, W, rc[1], rc[2])

\* ---------------------------------------------------------------- positive scaling
\* multiplying every elevation by k > 0: the aspect vector is multiplied by k (same direction, same sector, flat
\* iff flat), tan^2(slope) by k^2, the curvature and the hillshade gradient by k, NaN cells stay NaN.
\* (The SCALE family of the replay uses k = 2^-24, 2^-30, 2^20, exact in floating point.)
MulK(gr, k) == [r \in Rows |-> [c \in Cols |-> IF IsNaN(gr[r][c]) THEN NAN ELSE k * gr[r][c]]]
ScaleLaw ==
  \A k \in {2, 3} : LET gk == MulK(g, k) IN
    \A rc \in InteriorCells(H, W) :
      LET r == rc[1]  c == rc[2]
          s0 == SlopeAt(g, H, W, r, c, CX, CY, MUT)   s1 == SlopeAt(gk, H, W, r, c, CX, CY, MUT)
          a0 == AspectAt(g, H, W, r, c, MUT)          a1 == AspectAt(gk, H, W, r, c, MUT)
          k0 == CurvAt(g, H, W, r, c, CX, CY, MUT)    k1 == CurvAt(gk, H, W, r, c, CX, CY, MUT)
          h0 == HillAt(g, H, W, r, c, MUT)            h1 == HillAt(gk, H, W, r, c, MUT)
      IN /\ s1 = <<k * k * s0[1], s0[2]>>
         /\ a1 = <<k * a0[1], k * a0[2], a0[3]>>
         /\ a0[3] = 2 => Sector16(a1[1], a1[2]) = Sector16(a0[1], a0[2])
         /\ k1 = <<k * k0[1], k0[2]>>
         /\ h1 = <<k * h0[1], k * h0[2], h0[3]>>

\* ---------------------------------------------------------------- flat windows
FlatAt(r, c) == ~IsNaN(g[r][c]) /\ \A d \in Off8 : g[r + d[1]][c + d[2]] = g[r][c]
FlatLaw ==
  \A r \in Rows, c \in Cols : Interior(H, W, r, c) /\ FlatAt(r, c) =>
     /\ SlopeAt(g, H, W, r, c, CX, CY, MUT)[1] = 0 /\ SlopeAt(g, H, W, r, c, CX, CY, MUT)[2] > 0
     /\ AspectAt(g, H, W, r, c, MUT) = <<0, 0, 1>>
     /\ CurvAt(g, H, W, r, c, CX, CY, MUT)[1] = 0 /\ CurvAt(g, H, W, r, c, CX, CY, MUT)[2] > 0
     /\ HillAt(g, H, W, r, c, MUT) = <<0, 0, 1>>
\* the aspect is -1 ONLY where the Horn gradient vanishes, and then the slope is 0 as well
FlatIffZeroSlope ==
  \A r \in Rows, c \in Cols :
     LET s == SlopeAt(g, H, W, r, c, CX, CY, MUT)  a == AspectAt(g, H, W, r, c, MUT) IN
     (s[2] # 0 /\ a[3] # 0) => ((a[3] = 1) <=> (s[1] = 0))

\* ---------------------------------------------------------------- ranges
Ranges ==
  \A r \in Rows, c \in Cols :
    LET s == SlopeAt(g, H, W, r, c, CX, CY, MUT)
        a == AspectAt(g, H, W, r, c, MUT)
        hs == HillAt(g, H, W, r, c, MUT)
    IN /\ s[2] # 0 => s[2] > 0 /\ s[1] >= 0                          \* tan^2 in [0, oo): slope in [0, 90)
       /\ a[3] = 2 => /\ ~(a[1] = 0 /\ a[2] = 0)
                      /\ LET sec == Sector16(a[1], a[2])  br == BranchRange(Branch(a[1], a[2]))
                         IN sec \in 0..15 /\ 2 * br[1] <= sec /\ sec <= 2 * br[2]      \* value in [0, 360)
       /\ hs[3] = 1 => \A l \in LIGHTS :                               \* shaded in [-1, 1]: hillshade in [0, 1]
             LET num == 2 * l[3] + l[1] * hs[1] + l[2] * hs[2]
             IN num * num <= l[4] * l[4] * (4 + hs[1] * hs[1] + hs[2] * hs[2])

\* ---------------------------------------------------------------- cell sizes bind to the right axis
\* a surface rising by one unit per column (per row) has slope atan(1/cellsize_x) (atan(1/cellsize_y))
RampLaw ==
  LET gx == [r \in 0..2 |-> [c \in 0..2 |-> c]]
      gy == [r \in 0..2 |-> [c \in 0..2 |-> r]]
  IN /\ REq(SlopeAt(gx, 3, 3, 1, 1, CX, CY, MUT), <<CX[2] * CX[2], CX[1] * CX[1]>>)
     /\ REq(SlopeAt(gy, 3, 3, 1, 1, CX, CY, MUT), <<CY[2] * CY[2], CY[1] * CY[1]>>)
ASSUME RampLaw

\* ---------------------------------------------------------------- quarter turn
\* RotS / RotSectors (StencilOps) are derived from the model: which way the aspect turns under np.rot90
\* cell (i,j) of the turned raster (shape W x H) comes from cell (j, W-1-i); interior cells map to interior cells
RotLaw ==
  CX = CY =>
  LET gr == Rot(g, H, W) IN
  \A ij \in InteriorCells(W, H) :
    LET i == ij[1]  j == ij[2]
        a1 == AspectAt(gr, W, H, i, j, MUT)
        a0 == AspectAt(g, H, W, j, W-1-i, MUT)
    IN /\ SlopeAt(gr, W, H, i, j, CX, CY, MUT) = SlopeAt(g, H, W, j, W-1-i, CX, CY, MUT)
       /\ CurvAt(gr, W, H, i, j, CX, CY, MUT) = CurvAt(g, H, W, j, W-1-i, CX, CY, MUT)
       /\ a1 = TurnVec(a0, RotS)
       /\ a0[3] = 2 => Sector16(a1[1], a1[2]) = (Sector16(a0[1], a0[2]) + RotSectors) % 16
=============================================================================
