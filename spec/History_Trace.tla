--------------------------- MODULE History_Trace ---------------------------
(* Trace validation for C11.  One case = one HISTORY replayed in one process of the real library:  *)
(*   threads : NUMBA_NUM_THREADS / dask workers of that process                                    *)
(*   init    : hidden state before the first call [defaults, tables, jit]                          *)
(*   events  : per call [c (call id), eff (id of the effective arguments: a call that omits a      *)
(*             parameter and one that passes the default value explicitly share it), unseeded,     *)
(*             fresh (digest of this call alone in a fresh interpreter, 1 thread), digest (observed),*)
(*             defaults, tables, jit (hidden state after the call)]                                 *)
(* The monitor state is History.tla's state (hist, outs, defaults, tables, jit, last); each event  *)
(* is the step  IsEvent /\ Call(c) /\ logged fields  judged by HistOps!StepClause, the operator    *)
(* History.tla is model-checked against.  One verdict per history: first failing clause + where.   *)
EXTENDS HistOps, Json, IOUtils

Cases == ndJsonDeserialize(IOEnv.VERIF_CASES)

VARIABLES tid, l, hist, outs, defaults, tables, jit, last, verdict, where, note
vars == <<tid, l, hist, outs, defaults, tables, jit, last, verdict, where, note>>

Tr == Cases[tid]
Init == /\ tid \in 1..Len(Cases) /\ l = 1 /\ hist = <<>> /\ outs = <<>>
        /\ defaults = Tr.init.defaults /\ tables = Tr.init.tables /\ jit = Tr.init.jit
        /\ last = "" /\ verdict = "ok" /\ where = "" /\ note = ""

CallEv ==
  /\ l <= Len(Tr.events)
  /\ LET e == Tr.events[l]
         pre  == [hist |-> hist, outs |-> outs, defaults |-> defaults, tables |-> tables, jit |-> jit]
         post == [hist |-> Append(hist, e.eff), outs |-> Append(outs, e.digest), defaults |-> e.defaults,
                  tables |-> e.tables, jit |-> e.jit]
         \* repeat-call idempotence is judged on the effective arguments
         c == [id |-> e.eff, unseeded |-> e.unseeded, fresh |-> e.fresh, digest |-> e.digest]
         cl == StepClause(pre, post, c)
         jn == JitNote(pre, post, c)
     IN /\ hist' = post.hist /\ outs' = post.outs /\ last' = e.digest
        \* the monitor keeps the PRISTINE hidden state as reference: every later step is compared with it
        /\ defaults' = defaults /\ tables' = tables /\ jit' = e.jit
        /\ verdict' = IF verdict = "ok" THEN cl ELSE verdict
        /\ where' = IF verdict = "ok" /\ cl # "ok" THEN e.c \o "@" \o ToString(l) ELSE where
        /\ note' = IF note = "" /\ jn # "" THEN jn \o "_" \o e.c ELSE note
  /\ l' = l + 1 /\ UNCHANGED tid

Judge ==
  /\ l = Len(Tr.events) + 1 /\ last # "judged"
  /\ PrintT(<<"VERDICT", tid, verdict, IF where # "" THEN where ELSE IF note # "" THEN note ELSE "history_ok">>)
  /\ last' = "judged"
  /\ UNCHANGED <<tid, l, hist, outs, defaults, tables, jit, verdict, where, note>>

Next == CallEv \/ Judge
Spec == Init /\ [][Next]_vars
=============================================================================
