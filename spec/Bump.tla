------------------------------- MODULE Bump -------------------------------
(* The bump accumulator of xrspatial/bump.py (`_finish_bump`) as an explicit state machine: *)
(* one action per bump, exactly the outer loop of the code.  Operators: ExtrasOps.tla.      *)
EXTENDS ExtrasOps

\* ---- the accumulator as a state machine, for exhaustive checking on a small scope
CONSTANTS BW, BH, BN, BZ, BSP, MUT      \* raster, number of bumps, heights 0..BZ, spread, negative twin
VARIABLES out, done, hist
bvars == <<out, done, hist>>
BD == IF BSP = 0 THEN 1 ELSE (BSP * BSP) ^ BN        \* common denominator

BInit == out = Zeros(BW, BH) /\ done = 0 /\ hist = <<>>
BNext == /\ done < BN
         /\ \E x \in 0..BW-1, y \in 0..BH-1, z \in 0..BZ :
              /\ out' = BumpStep(out, BW, BH, x, y, z * BD, BSP, MUT)
              /\ hist' = Append(hist, <<x, y, z * BD>>)
         /\ done' = done + 1
Spec == BInit /\ [][BNext]_bvars

\* a cell farther than the spread from every bump stays zero.  (A bump of height 0 counts: dropped on a centre that
\* already carries height it spreads that accumulated height again - found by TLC on the first version of this
\* invariant, which exempted zero-height bumps.)
InvReach == \A r \in 0..BH-1, q \in 0..BW-1 :
              (\A k \in 1..Len(hist) : Max(q - hist[k][1], hist[k][1] - q) > BSP
                                       \/ Max(r - hist[k][2], hist[k][2] - r) > BSP)
              => out[r][q] = 0
InvAllZero == (\A k \in 1..Len(hist) : hist[k][3] = 0) => out = Zeros(BW, BH)
\* the window is half-open: the column x+spread and the row y+spread never receive spread from that bump
InvHalfOpen == Len(hist) = 1 /\ BSP > 0 =>
                 \A r \in 0..BH-1, q \in 0..BW-1 :
                   (q = hist[1][1] + BSP \/ r = hist[1][2] + BSP) => out[r][q] = 0
\* heights are non-negative here, so the surface never decreases and never goes negative
InvNonNeg == \A r \in 0..BH-1, q \in 0..BW-1 : out[r][q] >= 0
MonoStep == [][\A r \in 0..BH-1, q \in 0..BW-1 : out'[r][q] >= out[r][q]]_bvars
\* every centre holds at least the sum of the heights dropped on it
InvCentre == \A k \in 1..Len(hist) :
               LET tot == LET S == {j \in 1..Len(hist) : hist[j][1] = hist[k][1] /\ hist[j][2] = hist[k][2]}
                              f[T \in SUBSET S] == IF T = {} THEN 0
                                                   ELSE LET j == CHOOSE j \in T : TRUE IN hist[j][3] + f[T \ {j}]
                          IN f[S]
               IN out[hist[k][2]][hist[k][1]] >= tot
\* two bumps on one centre: the second spreads the ACCUMULATED centre height z1 + z2, so a neighbour holds
\* (z1 + (z1 + z2)) * d2 / s
InvAccumulated == Len(hist) = 2 /\ BSP > 0 /\ hist[1][1] = hist[2][1] /\ hist[1][2] = hist[2][2] =>
                    \A r \in 0..BH-1, q \in 0..BW-1 :
                      LET x == hist[1][1]  y == hist[1][2]  d == D2(x, y, q, r) IN
                      InWindow(BW, BH, x, y, BSP, q, r, "none") /\ d <= BSP * BSP /\ d > 0
                        => out[r][q] = ((2 * hist[1][3] + hist[2][3]) * d) \div (BSP * BSP)
\* the state machine and the closed-form fold agree (the judge uses the fold)
InvFold == out = BumpAll(Zeros(BW, BH), BW, BH, hist, BSP, 1, MUT)
\* exactness of the scaled representation on this scope

=============================================================================
