------------------------------ MODULE ViewGeom ------------------------------
(* C05 layer 2: the discrete geometry of the radial sweep of xrspatial.viewshed, exact     *)
(* integers.  TLC explores every raster shape h x w (1..MAXH x 1..MAXW) and every observer  *)
(* cell: the event list is generated and sorted exactly like _init_event_list + np.lexsort  *)
(* ((type, ang)), then processed exactly like _viewshed_cpu_sweep (cells due east of the    *)
(* observer are in the status structure initially; ENTER inserts, EXIT deletes by key,      *)
(* CENTER queries).  One state per event.                                                   *)
(*                                                                                          *)
(* Invariants:                                                                              *)
(*   CornersAreExtreme     the 9-sector corner table picks, for every cell, the two corners *)
(*                         that bound the cell as seen from the observer (enter = first met *)
(*                         by the counter-clockwise sweep), centre strictly between         *)
(*   SweepMatchesGeometry  at every CENTER event the set of cells in the status structure   *)
(*                         is exactly {n : Spans(n, c)} (sweep-independent cone test)       *)
(*   WellFormedOps         never insert an active cell / delete an inactive one             *)
(*   NoDupKeys             two cells that are active together never have the same key       *)
(*                         (squared map distance): _delete_from_tree and the query locate   *)
(*                         cells by key only                                                *)
(*   EndsWhereItStarted    after the last event the east row is active again                *)
(* MUT selects deliberately broken variants (negative twins).                               *)
EXTENDS ViewOps, SequencesExt, TLC

CONSTANTS MAXH, MAXW, MINH, MINW, EW, NS, MUT

VARIABLES h, w, vr, vc, evs, i, active
vars == <<h, w, vr, vc, evs, i, active>>

\* --- mutants
MDir(e, r0, c0) ==
  IF MUT = "corner" /\ e.type = ENTER /\ e.r < r0 /\ e.c = c0
  THEN Dir(EXIT, e.r, e.c, r0, c0)            \* "straight up" sector: both events at the exit corner
  ELSE EvDir(e, r0, c0)
TypeRank(t) == IF MUT = "tie" THEN -t ELSE t  \* "tie": ENTER < CENTER < EXIT at equal angles
MBefore(e1, e2, w0, r0, c0) ==
  LET p == MDir(e1, r0, c0)  q == MDir(e2, r0, c0) IN
  \/ AngLess(p, q)
  \/ AngEq(p, q) /\ TypeRank(e1.type) < TypeRank(e2.type)
  \/ AngEq(p, q) /\ e1.type = e2.type /\ e1.r * w0 + e1.c < e2.r * w0 + e2.c

Sorted(h0, w0, r0, c0) ==
  SetToSortSeq(Events(h0, w0, r0, c0), LAMBDA a, b : MBefore(a, b, w0, r0, c0))

Init == /\ h \in MINH..MAXH /\ w \in MINW..MAXW /\ h * w >= 2
        /\ vr \in 0..h-1 /\ vc \in 0..w-1
        /\ evs = Sorted(h, w, vr, vc)
        /\ i = 1
        /\ active = InitialActive(h, w, vr, vc)

Step == /\ i <= Len(evs)
        /\ LET e == evs[i]  cell == <<e.r, e.c>> IN
           active' = CASE e.type = ENTER  -> active \cup {cell}
                       [] e.type = EXIT   -> active \ {cell}
                       [] e.type = CENTER -> active
        /\ i' = i + 1
        /\ UNCHANGED <<h, w, vr, vc, evs>>
Next == Step
Spec == Init /\ [][Next]_vars

Cells == CellsOf(h, w, vr, vc)
KeyOf(cell) == Key(cell[1], cell[2], vr, vc, EW, NS)
CornerDirs(r, c) == {[dx |-> 2*c + sx - 2*vc, du |-> 2*vr - (2*r + sy)] : sy \in {-1, 1}, sx \in {-1, 1}}

CornersAreExtreme ==
  i = 1 => \A cell \in Cells :
     LET en == Dir(ENTER, cell[1], cell[2], vr, vc)
         ex == Dir(EXIT, cell[1], cell[2], vr, vc)
         ce == Dir(CENTER, cell[1], cell[2], vr, vc)
     IN /\ en \in CornerDirs(cell[1], cell[2]) /\ ex \in CornerDirs(cell[1], cell[2])
        /\ \A k \in CornerDirs(cell[1], cell[2]) : Cross(en, k) >= 0 /\ Cross(k, ex) >= 0
        /\ Cross(en, ce) > 0 /\ Cross(ce, ex) > 0 /\ Cross(en, ex) > 0

SweepMatchesGeometry ==
  (i <= Len(evs) /\ evs[i].type = CENTER) =>
     active = {n \in Cells : Spans(n[1], n[2], evs[i].r, evs[i].c, vr, vc)}

WellFormedOps ==
  i <= Len(evs) => LET e == evs[i] IN
     /\ e.type = ENTER => <<e.r, e.c>> \notin active
     /\ e.type \in {EXIT, CENTER} => <<e.r, e.c>> \in active

NoDupKeys == \A a, b \in active : a # b => KeyOf(a) # KeyOf(b)

EndsWhereItStarted == i = Len(evs) + 1 => active = InitialActive(h, w, vr, vc)

TypeOK == /\ Len(evs) = 3 * (h * w - 1) /\ i \in 1..Len(evs)+1 /\ active \subseteq Cells
=============================================================================
