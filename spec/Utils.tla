------------------------------- MODULE Utils -------------------------------
(* Shared machinery of xrspatial.utils that the Dask paths (C01/C03/C07) and the terrain tools  *)
(* (C08) rely on, as explicit case analyses that TLC enumerates completely; every enumerated    *)
(* case is replayed into the real function (MongoDB "merge rules" style).                        *)
(*  - Dispatch        ArrayTypeFunctionMapping.__call__ : which implementation a raster gets     *)
(*  - ValidateArrays  validate_arrays : shape / type checks and Dask chunk alignment             *)
(*  - Resolution      get_dataarray_resolution / calc_res : `res` attribute vs coordinates        *)
(*  - HeightImplied   height_implied_by_aspect_ratio                                              *)
EXTENDS Integers, Sequences, FiniteSets, TLC, Json, IOUtils

Cases == ndJsonDeserialize(IOEnv.VERIF_CASES)

\* ------------------------------------------------------------------ Dispatch
\* backing array kinds; the sandbox has no GPU, so cupy kinds can only be specified, not replayed
Kinds == {"numpy", "dask_numpy", "list", "cupy", "dask_cupy"}
Dispatch(kind, gpu) ==
  CASE kind = "numpy" -> "numpy_func"
    [] kind = "cupy" /\ gpu -> "cupy_func"
    [] kind = "dask_cupy" /\ gpu -> "dask_cupy_func"
    [] kind \in {"dask_numpy", "dask_cupy"} -> "dask_func"   \* without a GPU a dask array is dask+numpy
    [] OTHER -> "TypeError"

\* ------------------------------------------------------------------ validate_arrays
\* an array is [kind, shape (<<h,w>>), chunks (<<rows, cols>> as sequences, <<>> for numpy)]
ValidateArrays(arrs) ==
  IF Len(arrs) < 2 THEN [err |-> "ValueError_fewer_than_2", chunks |-> <<>>]
  ELSE LET bad == {i \in 2..Len(arrs) : arrs[i].shape # arrs[1].shape \/ arrs[i].kind # arrs[1].kind} IN
       IF bad # {} THEN
          \* operands are examined in order; for each one the shape is checked before the type
          LET i == CHOOSE k \in bad : \A m \in bad : k <= m IN
          [err |-> IF arrs[i].shape # arrs[1].shape THEN "ValueError_shapes" ELSE "ValueError_types", chunks |-> <<>>]
       ELSE [err |-> "none",
             \* postcondition: every Dask operand ends up with the FIRST operand's chunks; the first is untouched
             chunks |-> [i \in 1..Len(arrs) |-> IF arrs[1].kind = "dask_numpy" THEN arrs[1].chunks ELSE arrs[i].chunks]]

\* ------------------------------------------------------------------ resolution
\* res attribute forms: "none", "scalar" (int/float), "pair" (tuple/list/ndarray of two numbers),
\* "pair_str" (pair of non-numbers), "triple", "str"; coordinates give (max-min)/(n-1) per axis.
\* numbers are rationals <<num, den>>
Rat(n, d) == <<n, d>>
RatEq(a, b) == a[1]*b[2] = b[1]*a[2]
CalcRes(c) == [x |-> Rat(c.xmax - c.xmin, c.w - 1), y |-> Rat(c.ymax - c.ymin, c.h - 1)]
Resolution(c) ==
  CASE c.resform = "pair" -> [x |-> Rat(c.res1, 1), y |-> Rat(c.res2, 1)]
    [] c.resform = "scalar" -> [x |-> Rat(c.res1, 1), y |-> Rat(c.res1, 1)]
    [] OTHER -> CalcRes(c)

\* ------------------------------------------------------------------ height implied by aspect ratio
\* int() truncates toward zero
Trunc(n, d) == IF (n >= 0) = (d > 0) THEN (IF n >= 0 THEN n ELSE -n) \div (IF d > 0 THEN d ELSE -d)
               ELSE -((IF n >= 0 THEN n ELSE -n) \div (IF d > 0 THEN d ELSE -d))
HeightImplied(c) == Trunc(c.W * (c.y1 - c.y0), c.x1 - c.x0)

\* ------------------------------------------------------------------ judge
Verdict(c) ==
  CASE c.op = "dispatch" -> IF c.got = Dispatch(c.kind, FALSE) THEN "ok" ELSE "dispatch_wrong_implementation"
    [] c.op = "validate" ->
         LET e == ValidateArrays(c.arrs) IN
         IF c.goterr # e.err THEN "validate_arrays_wrong_error"
         ELSE IF e.err = "none" /\ c.gotchunks # e.chunks THEN "validate_arrays_chunks_not_aligned_to_first"
         ELSE "ok"
    [] c.op = "resolution" ->
         LET r == Resolution(c) IN
         IF RatEq(r.x, c.gotx) /\ RatEq(r.y, c.goty) THEN "ok" ELSE "resolution_wrong"
    [] c.op = "height" -> IF c.got = HeightImplied(c) THEN "ok" ELSE "height_implied_wrong"

ASSUME \A i \in 1..Len(Cases) : PrintT(<<"VERDICT", i, Verdict(Cases[i])>>)

\* ---- lemmas TLC evaluates over the complete small case space (constant level)
ASSUME \A k \in Kinds : Dispatch(k, FALSE) \in {"numpy_func", "dask_func", "TypeError"}
ASSUME \A k \in Kinds : Dispatch(k, TRUE) = "TypeError" <=> k = "list"
ASSUME \A n \in -20..20, d \in {-3, -2, -1, 1, 2, 3} :
          LET t == Trunc(n, d) IN /\ (IF t >= 0 THEN t ELSE -t) * (IF d >= 0 THEN d ELSE -d) <= (IF n >= 0 THEN n ELSE -n)
                                  /\ ((IF t >= 0 THEN t ELSE -t) + 1) * (IF d >= 0 THEN d ELSE -d) > (IF n >= 0 THEN n ELSE -n)
=============================================================================
