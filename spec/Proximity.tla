----------------------------- MODULE Proximity -----------------------------
(* C06: the four-sweep GDAL proximity propagation of xrspatial.proximity._process_numpy, *)
(* one action per _process_proximity_line call, against the abstract definition          *)
(* "distance to the nearest target".  Every target layout of an H x W grid is an initial  *)
(* state; the algorithm then runs deterministically.                                      *)
EXTENDS ProxOps, TLC

CONSTANTS H, W,         \* grid size
          XS, YS,       \* coordinate vectors as sequences (1-based) of integers
          METRIC,       \* "E" squared euclidean | "M" squared manhattan
          BOUND2, MAXN, \* n < BOUND2 <=> n < 2*max^2 ; n <= MAXN <=> n <= max^2 ; both -1 = unbounded
          MUT           \* "none" | negative twins: "nodiag" | "nolast" | "le" | "nowithin"

Unlimited == -1

VARIABLES img, phase, line, sub, panX, panY, lp, nx, ny, imgD, allocR, allocC
vars == <<img, phase, line, sub, panX, panY, lp, nx, ny, imgD, allocR, allocC>>

E == [H |-> H, W |-> W, img |-> img,
      xs |-> [c \in 0..W-1 |-> XS[c+1]], ys |-> [r \in 0..H-1 |-> YS[r+1]],
      metric |-> METRIC, tab |-> <<>>,
      bound2 |-> BOUND2, maxn |-> MAXN]

NR == [c \in 0..W-1 |-> NONE]
NImg == [r \in 0..H-1 |-> NR]

\* ---- negative twins (vacuity guards): deliberately broken variants of the line sweep
MutPixelStep(e, st, px, ln, start, stepd, endd) ==
  IF e.img[ln][px] = 1 THEN
     [st EXCEPT !.lp[px] = 0, !.nx[px] = px, !.ny[px] = ln, !.panX[px] = px, !.panY[px] = ln]
  ELSE
   LET nd0 == Bound2(e)
       hasUp == st.panX[px] # NONE
       dUp == IF hasUp THEN DD(e, st.panY[px], st.panX[px], ln, px) ELSE INF
       keepUp == hasUp /\ dUp < nd0
       nd1 == IF keepUp THEN dUp ELSE nd0
       pX1 == IF hasUp /\ ~keepUp THEN NONE ELSE st.panX[px]
       pY1 == IF hasUp /\ ~keepUp THEN NONE ELSE st.panY[px]
       last == px - stepd
       hasL == MUT # "nolast" /\ px # start /\ st.panX[last] # NONE
       dL == IF hasL THEN DD(e, st.panY[last], st.panX[last], ln, px) ELSE INF
       takeL == hasL /\ dL < nd1
       nd2 == IF takeL THEN dL ELSE nd1
       pX2 == IF takeL THEN st.panX[last] ELSE pX1
       pY2 == IF takeL THEN st.panY[last] ELSE pY1
       tr == px + stepd
       hasT == MUT # "nodiag" /\ tr # endd /\ st.panX[tr] # NONE
       dT == IF hasT THEN DD(e, st.panY[tr], st.panX[tr], ln, px) ELSE INF
       takeT == hasT /\ dT < nd2
       nd3 == IF takeT THEN dT ELSE nd2
       pX3 == IF takeT THEN st.panX[tr] ELSE pX2
       pY3 == IF takeT THEN st.panY[tr] ELSE pY2
       upd == pX3 # NONE /\ (MUT = "nowithin" \/ WithinMax(e, nd3)) /\
              (st.lp[px] < 0 \/ (IF MUT = "le" THEN FALSE ELSE nd3 < st.lp[px]))
   IN [panX |-> [st.panX EXCEPT ![px] = pX3], panY |-> [st.panY EXCEPT ![px] = pY3],
       lp |-> IF upd THEN [st.lp EXCEPT ![px] = nd3] ELSE st.lp,
       nx |-> IF upd THEN [st.nx EXCEPT ![px] = pX3] ELSE st.nx,
       ny |-> IF upd THEN [st.ny EXCEPT ![px] = pY3] ELSE st.ny]
RECURSIVE MutLoop(_,_,_,_,_,_,_)
MutLoop(e, st, px, ln, start, stepd, endd) ==
  IF px = endd THEN st
  ELSE MutLoop(e, MutPixelStep(e, st, px, ln, start, stepd, endd), px + stepd, ln, start, stepd, endd)
Proc(e, st, ln, fwd) ==
  IF MUT = "none" THEN ProcLine(e, st, ln, fwd)
  ELSE IF fwd THEN MutLoop(e, st, 0, ln, 0, 1, e.W) ELSE MutLoop(e, st, e.W-1, ln, e.W-1, -1, -1)

Init == /\ img \in [0..H-1 -> [0..W-1 -> {0,1}]]
        /\ phase = "down" /\ line = 0 /\ sub = 0
        /\ panX = NR /\ panY = NR /\ lp = NR /\ nx = NR /\ ny = NR
        /\ imgD = NImg /\ allocR = NImg /\ allocC = NImg

\* one _process_proximity_line call
SweepLine ==
  /\ phase # "done"
  /\ LET lp0 == IF sub = 0 THEN (IF phase = "down" THEN NR ELSE imgD[line]) ELSE lp
         pX0 == IF phase = "up" /\ line = H-1 /\ sub = 0 THEN NR ELSE panX
         pY0 == IF phase = "up" /\ line = H-1 /\ sub = 0 THEN NR ELSE panY
         s1 == Proc(E, [panX |-> pX0, panY |-> pY0, lp |-> lp0, nx |-> NR, ny |-> NR], line, Fwd(phase, sub))
     IN /\ panX' = s1.panX /\ panY' = s1.panY /\ lp' = s1.lp /\ nx' = s1.nx /\ ny' = s1.ny
        /\ allocC' = [allocC EXCEPT ![line] = Merge(E, allocC[line], s1.nx, s1.lp)]
        /\ allocR' = [allocR EXCEPT ![line] = Merge(E, allocR[line], s1.ny, s1.lp)]
        /\ imgD' = IF sub = 1 THEN [imgD EXCEPT ![line] = s1.lp] ELSE imgD
  /\ IF sub = 0 THEN sub' = 1 /\ line' = line /\ phase' = phase
     ELSE /\ sub' = 0
          /\ IF phase = "down"
             THEN (IF line = H-1 THEN phase' = "up" /\ line' = H-1 ELSE phase' = "down" /\ line' = line + 1)
             ELSE (IF line = 0 THEN phase' = "done" /\ line' = 0 ELSE phase' = "up" /\ line' = line - 1)
  /\ UNCHANGED img

Next == SweepLine
Spec == Init /\ [][Next]_vars

\* ------------------------------------------------------------------ properties (C06)
Done == phase = "done"
Prox(r, c) == imgD[r][c]
\* P1  proximity is 0 exactly on target cells
P1_ZeroIffTarget == Done => \A p \in Cells(E) : (Prox(p[1],p[2]) = 0) <=> (img[p[1]][p[2]] = 1)
\* P2  every non-NaN proximity is the distance to the real target that allocation names
P2_NamesRealTarget == Done => \A p \in Cells(E) : LET r == p[1] c == p[2] IN
      Prox(r,c) # NONE => /\ allocR[r][c] # NONE /\ allocC[r][c] # NONE
                          /\ img[allocR[r][c]][allocC[r][c]] = 1
                          /\ DD(E, r, c, allocR[r][c], allocC[r][c]) = Prox(r,c)
\* P3  never smaller than the distance to the truly nearest target
P3_NeverUnder == Done => \A p \in Cells(E) : Prox(p[1],p[2]) # NONE => Prox(p[1],p[2]) >= TrueNearest(E, p[1], p[2])
\* P4  never larger than max_distance
P4_WithinMax == Done => \A p \in Cells(E) : Prox(p[1],p[2]) # NONE => WithinMax(E, Prox(p[1],p[2]))
\* P5  at least one target and no bound => no NaN
P5_NoNaNUnbounded == (Done /\ MAXN = -1 /\ Targets(E) # {}) => \A p \in Cells(E) : Prox(p[1],p[2]) # NONE
\* P6  no target within max => NaN (in all outputs: allocation is never written without a proximity)
P6_NaNBeyondMax == Done => \A p \in Cells(E) : Expected(E, p[1], p[2]) = NONE =>
                               /\ Prox(p[1],p[2]) = NONE
P6b_AllocOnlyWithProx == \A p \in Cells(E) : (allocR[p[1]][p[2]] # NONE) => (imgD[p[1]][p[2]] # NONE \/ phase # "done")
\* P7  exactness (holds on the scope stated in DESIGN.md: min(H,W) <= 3, single targets)
P7_Exact == Done => \A p \in Cells(E) : Prox(p[1],p[2]) = Expected(E, p[1], p[2])
P7_ExactSingle == (Done /\ Cardinality(Targets(E)) = 1) => \A p \in Cells(E) : Prox(p[1],p[2]) = Expected(E, p[1], p[2])

TypeOK == /\ phase \in {"down", "up", "done"} /\ line \in 0..H-1 /\ sub \in {0,1}
          /\ \A c \in 0..W-1 : panX[c] \in -1..W-1 /\ panY[c] \in -1..H-1
\* remembered targets are always real targets
PanIsTarget == \A c \in 0..W-1 : panX[c] # NONE => (panY[c] # NONE /\ img[panY[c]][panX[c]] = 1)
=============================================================================
