-------------------------------- MODULE AStar --------------------------------
(* C14: xrspatial.pathfinding._a_star_search as a state machine, one action per loop       *)
(* iteration, with the implementation's variables:                                        *)
(*    open, closed   is_open / is_closed              g       d_from_start as <<a,b>> = a+b*sqrt2 *)
(*    parent         parent_ys/parent_xs (cell id)    cur     the popped cell (py, px)      *)
(*    nbrIdx         position in zip(neighbor_ys, neighbor_xs)                              *)
(*    wcur, path     _reconstruct_path's cursor and the output image path_img              *)
(* Every layout of crossable / non-crossable cells, every (start, goal) pair and every     *)
(* connectivity in CONNS is an initial state.  `sp` is a ghost variable: the abstract      *)
(* Bellman-Ford distance map from `start` (computed once in Init, never read by an action). *)
EXTENDS AStarOps, TLC

CONSTANTS H, W,       \* grid size
          CONNS,      \* set of connectivities to explore, subset of {4, 8}
          MUT         \* "none" | negative twins "hsquared" "diag1" "noclosedskip" "nogreater" "noparent" "popany"

VARIABLES cross, conn, start, goal, open, closed, g, parent, cur, nbrIdx, pc, wcur, path, sp
vars == <<cross, conn, start, goal, open, closed, g, parent, cur, nbrIdx, pc, wcur, path, sp>>

N == H * W
E == [H |-> H, W |-> W, cross |-> cross, conn |-> conn, gy |-> goal \div W, gx |-> goal % W, mut |-> MUT]
St == [open |-> open, closed |-> closed, g |-> g, parent |-> parent]

Init ==
  /\ cross \in [0..N-1 -> {0, 1}]
  /\ conn \in CONNS
  /\ start \in 0..N-1
  /\ goal \in 0..N-1
  \* parent of start is itself; d_from_start zero-initialised; start opened only if crossable
  /\ parent = [i \in 0..N-1 |-> IF i = start THEN start ELSE NONE]
  /\ g = [i \in 0..N-1 |-> <<0, 0>>]
  /\ open = IF cross[start] = 1 THEN {start} ELSE {}
  /\ closed = {}
  /\ cur = NONE /\ nbrIdx = 0 /\ pc = "init" /\ wcur = NONE
  /\ path = [i \in 0..N-1 |-> NAN]
  /\ sp = <<>>

\* ghost step (not in the code): evaluate the abstract definition once per input.  Kept out of Init
\* because TLC computes initial states on one thread.
Setup ==
  /\ pc = "init"
  /\ sp' = ShortestMap([H |-> H, W |-> W, cross |-> cross, conn |-> conn, gy |-> 0, gx |-> 0, mut |-> "none"], start)
  /\ pc' = "pop"
  /\ UNCHANGED <<cross, conn, start, goal, open, closed, g, parent, cur, nbrIdx, wcur, path>>

\* py, px = _min_cost_pixel_id(cost, is_open); is_open[py][px] = 0; is_closed[py][px] = True
Pop ==
  /\ pc = "pop" /\ open # {}
  /\ \E i \in PopCands(E, St) :
       /\ open' = open \ {i}
       /\ closed' = closed \cup {i}
       /\ cur' = i
       /\ IF i = goal THEN pc' = "reconstruct" /\ nbrIdx' = 0
          ELSE pc' = "relax" /\ nbrIdx' = 1
  /\ UNCHANGED <<cross, conn, start, goal, g, parent, wcur, path, sp>>

\* while num_open > 0 falls through: nothing written
Exhausted ==
  /\ pc = "pop" /\ open = {}
  /\ pc' = "done"
  /\ UNCHANGED <<cross, conn, start, goal, open, closed, g, parent, cur, nbrIdx, wcur, path, sp>>

\* one neighbour of the popped cell
Relax ==
  /\ pc = "relax"
  /\ LET r == RelaxOne(E, St, cur, nbrIdx) IN
     \E s2 \in {r.st} \cup (IF r.amb = NONE THEN {} ELSE {St}) :
        /\ open' = s2.open /\ g' = s2.g /\ parent' = s2.parent
  /\ IF nbrIdx = Len(Offs(conn)) THEN pc' = "pop" /\ nbrIdx' = 0
     ELSE pc' = "relax" /\ nbrIdx' = nbrIdx + 1
  /\ UNCHANGED <<cross, conn, start, goal, closed, cur, wcur, path, sp>>

\* _reconstruct_path: head
Reconstruct ==
  /\ pc = "reconstruct"
  /\ IF parent[goal] # NONE
     THEN /\ path' = [path EXCEPT ![start] = g[start]]
          /\ wcur' = goal /\ pc' = "walk"
     ELSE /\ pc' = "done" /\ UNCHANGED <<path, wcur>>
  /\ UNCHANGED <<cross, conn, start, goal, open, closed, g, parent, cur, nbrIdx, sp>>

\* _reconstruct_path: one iteration of `while current != start`
Walk ==
  /\ pc = "walk"
  /\ IF wcur # start
     THEN /\ path' = [path EXCEPT ![wcur] = g[wcur]]
          /\ wcur' = parent[wcur] /\ pc' = "walk"
     ELSE /\ pc' = "done" /\ UNCHANGED <<path, wcur>>
  /\ UNCHANGED <<cross, conn, start, goal, open, closed, g, parent, cur, nbrIdx, sp>>

Next == Setup \/ Pop \/ Exhausted \/ Relax \/ Reconstruct \/ Walk
Spec == Init /\ [][Next]_vars
FairSpec == Spec /\ WF_vars(Next)

\* ------------------------------------------------------------------ properties (C14)
Done == pc = "done"
PathCells == {i \in 0..N-1 : path[i] # NAN}

TypeOK == /\ pc \in {"init", "pop", "relax", "reconstruct", "walk", "done"}
          /\ open \subseteq 0..N-1 /\ closed \subseteq 0..N-1 /\ open \cap closed = {}
          /\ \A i \in open \cup closed : cross[i] = 1
          /\ wcur \in -1..N-1 /\ (pc = "walk" => wcur # NONE)

\* the written cells form one chain start -> goal of neighbour steps, each adding exactly 1 or sqrt2,
\* never through a non-crossable cell
ChainOK == (Done /\ PathCells # {}) =>
             /\ start \in PathCells /\ goal \in PathCells
             /\ ChainClause(E, path, PathCells, start, goal) = "ok"
\* the goal's value is the minimum over all routes
CostOptimal == (Done /\ PathCells # {}) => path[goal] = sp[goal]
\* no route (or an end point not crossable) <=> every cell NaN
AllNaNIffUnreachable == Done => ((PathCells = {}) <=> (sp[goal] = INF))
\* a settled cell carries its final (shortest) cost -- what makes the closed-set skip sound
ClosedAreFinal == pc # "init" => \A i \in closed : g[i] = sp[i]
\* frontier costs are costs of real routes
OpenSound == pc # "init" => \A i \in open : sp[i] # INF /\ ~SLess(g[i], sp[i])
\* back-pointers: parent settled, adjacent, g = g[parent] + step length (so the walk terminates)
ParentOK == \A i \in (open \cup closed) \ {start} :
              /\ parent[i] \in closed /\ Adj(E, parent[i], i)
              /\ g[i] = SAdd(g[parent[i]], Weight(E, parent[i], i))

Termination == <>(pc = "done")
=============================================================================
