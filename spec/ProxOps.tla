------------------------------ MODULE ProxOps ------------------------------
(* Operators shared by Proximity.tla (exhaustive model), ProxChunked.tla and              *)
(* Proximity_Trace.tla (trace validation).  Everything takes an environment record        *)
(*   e = [H, W, img (H x W function 0-based -> 0/1 target mask), xs, ys (integer          *)
(*        coordinate vectors, 0-based functions), metric ("E" | "M" | "T"), tab           *)
(*        (rank table for metric "T": tab[p][q], p,q row-major cell ids), bound2, maxn]    *)
(* bound2 = maxn = -1 means unbounded; otherwise, in the units of DD,                     *)
(*   n < bound2  <=>  n < 2*max_distance^2      and      n <= maxn  <=>  n <= max_distance^2 *)
(* The body of PixelStep is a transcription of xrspatial.proximity._process_proximity_line *)
EXTENDS Integers, Sequences, FiniteSets

NONE == -1
INF == 1000000000

Abs(x) == IF x < 0 THEN -x ELSE x

\* coordinate of a halo cell outside the raster (Dask pads the coordinate grids with NaN):
\* every distance to or from it is NaN, and every comparison with NaN is false -> INF behaves the same
NAC == -999999

\* squared distance between cell (r1,c1) and (r2,c2) in the units the code compares
DD(e, r1, c1, r2, c2) ==
  IF e.xs[c1] = NAC \/ e.xs[c2] = NAC \/ e.ys[r1] = NAC \/ e.ys[r2] = NAC THEN INF ELSE
  CASE e.metric = "E" -> (e.xs[c1]-e.xs[c2])*(e.xs[c1]-e.xs[c2]) + (e.ys[r1]-e.ys[r2])*(e.ys[r1]-e.ys[r2])
    [] e.metric = "M" -> (Abs(e.xs[c1]-e.xs[c2]) + Abs(e.ys[r1]-e.ys[r2])) * (Abs(e.xs[c1]-e.xs[c2]) + Abs(e.ys[r1]-e.ys[r2]))
    [] e.metric = "T" -> e.tab[r1*e.W + c1 + 1][r2*e.W + c2 + 1]

Bound2(e) == IF e.bound2 = -1 THEN INF ELSE e.bound2          \* near_distance_square = 2*max^2
WithinMax(e, n) == IF e.maxn = -1 THEN TRUE ELSE n <= e.maxn   \* max^2 >= n

NoneRow(e) == [c \in 0..e.W-1 |-> NONE]

\* st = [panX, panY, lp, nx, ny] : the five arrays the helper mutates
PixelStep(e, st, px, ln, start, stepd, endd) ==
  IF e.img[ln][px] = 1 THEN
     [st EXCEPT !.lp[px] = 0, !.nx[px] = px, !.ny[px] = ln, !.panX[px] = px, !.panY[px] = ln]
  ELSE
   LET nd0 == Bound2(e)
       \* candidate remembered for this column (above / below)
       hasUp == st.panX[px] # NONE
       dUp == IF hasUp THEN DD(e, st.panY[px], st.panX[px], ln, px) ELSE INF
       keepUp == hasUp /\ dUp < nd0
       nd1 == IF keepUp THEN dUp ELSE nd0
       pX1 == IF hasUp /\ ~keepUp THEN NONE ELSE st.panX[px]
       pY1 == IF hasUp /\ ~keepUp THEN NONE ELSE st.panY[px]
       \* candidate of the previous pixel of this sweep
       last == px - stepd
       hasL == px # start /\ st.panX[last] # NONE
       dL == IF hasL THEN DD(e, st.panY[last], st.panX[last], ln, px) ELSE INF
       takeL == hasL /\ dL < nd1
       nd2 == IF takeL THEN dL ELSE nd1
       pX2 == IF takeL THEN st.panX[last] ELSE pX1
       pY2 == IF takeL THEN st.panY[last] ELSE pY1
       \* diagonal candidate (column ahead, still holding the previous line's value)
       tr == px + stepd
       hasT == tr # endd /\ st.panX[tr] # NONE
       dT == IF hasT THEN DD(e, st.panY[tr], st.panX[tr], ln, px) ELSE INF
       takeT == hasT /\ dT < nd2
       nd3 == IF takeT THEN dT ELSE nd2
       pX3 == IF takeT THEN st.panX[tr] ELSE pX2
       pY3 == IF takeT THEN st.panY[tr] ELSE pY2
       upd == pX3 # NONE /\ WithinMax(e, nd3) /\ (st.lp[px] < 0 \/ nd3 < st.lp[px])
   IN [panX |-> [st.panX EXCEPT ![px] = pX3], panY |-> [st.panY EXCEPT ![px] = pY3],
       lp |-> IF upd THEN [st.lp EXCEPT ![px] = nd3] ELSE st.lp,
       nx |-> IF upd THEN [st.nx EXCEPT ![px] = pX3] ELSE st.nx,
       ny |-> IF upd THEN [st.ny EXCEPT ![px] = pY3] ELSE st.ny]

RECURSIVE LineLoop(_,_,_,_,_,_,_)
LineLoop(e, st, px, ln, start, stepd, endd) ==
  IF px = endd THEN st
  ELSE LineLoop(e, PixelStep(e, st, px, ln, start, stepd, endd), px + stepd, ln, start, stepd, endd)

ProcLine(e, st, ln, fwd) ==
  IF fwd THEN LineLoop(e, st, 0, ln, 0, 1, e.W) ELSE LineLoop(e, st, e.W-1, ln, e.W-1, -1, -1)

\* which direction the code sweeps in each (phase, sub):  down: fwd, bwd;  up: bwd, fwd
Fwd(ph, sb) == (ph = "down" /\ sb = 0) \/ (ph = "up" /\ sb = 1)

\* allocation / direction images are overwritten wherever the sweep named a cell
Merge(e, old, nxy, lp) == [c \in 0..e.W-1 |-> IF nxy[c] # NONE /\ lp[c] >= 0 THEN nxy[c] ELSE old[c]]

\* ---------------------------------------------------------------- the whole run as a function
\* state of the outer loops: [ph, line, sub, panX, panY, lp, imgD, aR, aC]
StepRun(e, s) ==
  LET NRw == NoneRow(e)
      lp0 == IF s.sub = 0 THEN (IF s.ph = "down" THEN NRw ELSE s.imgD[s.line]) ELSE s.lp
      pX0 == IF s.ph = "up" /\ s.line = e.H-1 /\ s.sub = 0 THEN NRw ELSE s.panX
      pY0 == IF s.ph = "up" /\ s.line = e.H-1 /\ s.sub = 0 THEN NRw ELSE s.panY
      s1 == ProcLine(e, [panX |-> pX0, panY |-> pY0, lp |-> lp0, nx |-> NRw, ny |-> NRw], s.line, Fwd(s.ph, s.sub))
      nph == IF s.sub = 0 THEN s.ph
             ELSE IF s.ph = "down" THEN (IF s.line = e.H-1 THEN "up" ELSE "down")
             ELSE (IF s.line = 0 THEN "done" ELSE "up")
      nline == IF s.sub = 0 THEN s.line
               ELSE IF s.ph = "down" THEN (IF s.line = e.H-1 THEN e.H-1 ELSE s.line + 1)
               ELSE (IF s.line = 0 THEN 0 ELSE s.line - 1)
  IN [ph |-> nph, line |-> nline, sub |-> 1 - s.sub, panX |-> s1.panX, panY |-> s1.panY, lp |-> s1.lp,
      imgD |-> IF s.sub = 1 THEN [s.imgD EXCEPT ![s.line] = s1.lp] ELSE s.imgD,
      aC |-> [s.aC EXCEPT ![s.line] = Merge(e, s.aC[s.line], s1.nx, s1.lp)],
      aR |-> [s.aR EXCEPT ![s.line] = Merge(e, s.aR[s.line], s1.ny, s1.lp)]]
RECURSIVE RunFrom(_,_)
RunFrom(e, s) == IF s.ph = "done" THEN s ELSE RunFrom(e, StepRun(e, s))
\* final [imgD, aR, aC] of _process_numpy on environment e
RunAll(e) ==
  LET NRw == NoneRow(e)  NI == [r \in 0..e.H-1 |-> NRw]
  IN RunFrom(e, [ph |-> "down", line |-> 0, sub |-> 0, panX |-> NRw, panY |-> NRw, lp |-> NRw,
                 imgD |-> NI, aR |-> NI, aC |-> NI])

\* ---------------------------------------------------------------- abstract definition
Cells(e) == (0..e.H-1) \X (0..e.W-1)
Targets(e) == {p \in Cells(e) : e.img[p[1]][p[2]] = 1}
MinOf(S) == CHOOSE d \in S : \A x \in S : d <= x
TrueNearest(e, r, c) == IF Targets(e) = {} THEN NONE
                        ELSE MinOf({DD(e, r, c, p[1], p[2]) : p \in Targets(e)})
Expected(e, r, c) == LET t == TrueNearest(e, r, c) IN IF t = NONE \/ ~WithinMax(e, t) THEN NONE ELSE t
=============================================================================
