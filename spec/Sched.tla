------------------------------- MODULE Sched -------------------------------
(* C01, scheduler half: a Dask graph with a global reduction feeding a second block stage  *)
(* (hotspots' global mean/std, true_color / perlin / generate_terrain min-max, equal_interval *)
(* min/max): per-block partials P_b, a combine tree merging them in ANY order, stage-2 tasks  *)
(* S_b that must read the GLOBAL value.  NW workers start and finish tasks independently,     *)
(* so TLC explores every interleaving.  Partials are symbolic (the set of blocks they cover), *)
(* i.e. the combiner is assumed associative/commutative (min, max, (sum,count)); what is      *)
(* checked is the dependency structure: every complete schedule yields the same assembly.    *)
EXTENDS Integers, FiniteSets, Sequences, TLC

CONSTANTS NB, NW, PERBLOCK     \* PERBLOCK = TRUE is the negative twin "reduction taken per block"

Blocks == 1..NB
Workers == 1..NW
Tasks == {<<"P", b>> : b \in Blocks} \cup {<<"M", b>> : b \in Blocks} \cup {<<"S", b>> : b \in Blocks}

VARIABLES st,        \* task -> "todo" | "running" | "done"
          on,        \* worker -> task or <<"idle", 0>>
          part,      \* block -> partial (set of blocks) or {}
          acc,       \* accumulated global value (set of blocks merged so far)
          order,     \* history: order in which partials were merged (not part of the view)
          out        \* block -> value read by stage 2, or {}
vars == <<st, on, part, acc, order, out>>
view == <<st, on, part, acc, out>>

Idle == <<"idle", 0>>

Deps(t) ==
  CASE t[1] = "P" -> {}
    [] t[1] = "M" -> {<<"P", t[2]>>}
    [] t[1] = "S" -> IF PERBLOCK THEN {<<"P", t[2]>>} ELSE {<<"M", b>> : b \in Blocks}

Init == /\ st = [t \in Tasks |-> "todo"] /\ on = [w \in Workers |-> Idle]
        /\ part = [b \in Blocks |-> {}] /\ acc = {} /\ order = <<>> /\ out = [b \in Blocks |-> {}]

Start(w, t) == /\ on[w] = Idle /\ st[t] = "todo" /\ \A d \in Deps(t) : st[d] = "done"
               /\ st' = [st EXCEPT ![t] = "running"] /\ on' = [on EXCEPT ![w] = t]
               /\ UNCHANGED <<part, acc, order, out>>

Finish(w) == /\ on[w] # Idle
             /\ LET t == on[w] IN
                /\ st' = [st EXCEPT ![t] = "done"] /\ on' = [on EXCEPT ![w] = Idle]
                /\ CASE t[1] = "P" -> /\ part' = [part EXCEPT ![t[2]] = {t[2]}]
                                      /\ UNCHANGED <<acc, order, out>>
                     [] t[1] = "M" -> /\ acc' = acc \cup part[t[2]] /\ order' = Append(order, t[2])
                                      /\ UNCHANGED <<part, out>>
                     [] t[1] = "S" -> /\ out' = [out EXCEPT ![t[2]] = IF PERBLOCK THEN part[t[2]] ELSE acc]
                                      /\ UNCHANGED <<part, acc, order>>

Next == \E w \in Workers : Finish(w) \/ \E t \in Tasks : Start(w, t)
Spec == Init /\ [][Next]_vars /\ WF_vars(Next)

AllDone == \A t \in Tasks : st[t] = "done"
\* every complete schedule yields the same assembly: each stage-2 block saw the global value
Deterministic == AllDone => \A b \in Blocks : out[b] = Blocks
\* a stage-2 task never runs before the global value is complete
NoEarlyRead == \A b \in Blocks : st[<<"S", b>>] # "todo" => acc = Blocks
\* at most one worker per task
OneWorkerPerTask == \A w1, w2 \in Workers : (on[w1] = on[w2] /\ on[w1] # Idle) => w1 = w2
Terminates == <>AllDone
=============================================================================
