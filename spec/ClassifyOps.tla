----------------------------- MODULE ClassifyOps -----------------------------
(* Operators shared by Classify.tla (binary search of xrspatial.classify._cpu_bin as a     *)
(* state machine), ClassifyJenks.tla (the Jenks dynamic programme) and Classify_Judge.tla   *)
(* (observations of the real classifiers).                                                  *)
(*                                                                                          *)
(* Values: raster values are integers (codes); the real value is an increasing affine       *)
(* function of the code, under which every classifier here is invariant.  Non-finite:       *)
(*   NaN = -99, +inf = -97, -inf = -96.   Classes: 0..k-1, NaN = -99.                       *)
(* For the binary search the searched value is carried TWICE (v2 = 2*value) so that the     *)
(* half-integers between, below and above integer bins are available.                       *)
EXTENDS Integers, Sequences, FiniteSets

NaN == -99
PInf == -97
NInf == -96
IsFinite(v) == v # NaN /\ v # PInf /\ v # NInf

-----------------------------------------------------------------------------
(* reclassify / _cpu_bin: abstract result = 0-based index of the first bin whose upper      *)
(* bound is >= the value; none (-1, i.e. NaN) above the last bin and for non-finite values. *)
FirstGE2(bins, v2) ==
  IF ~IsFinite(v2) \/ \A i \in 1..Len(bins) : 2 * bins[i] < v2 THEN -1
  ELSE (CHOOSE i \in 1..Len(bins) : 2 * bins[i] >= v2 /\ \A j \in 1..(i - 1) : 2 * bins[j] < v2) - 1

(* The search of _cpu_bin as a deterministic step function over the code's variables.       *)
(*   st = [pc, start, end, mid, val_bin];  pc: "first" (the two guards before the loop),     *)
(*   "loop" (about to test `while start <= end`), "done".  One step = one loop iteration.    *)
(* bins[mid - 1] with mid = 0 would wrap around to the last bin in the compiled code:       *)
(* BinAt models that, and Classify!NoWrapAround shows it never happens.                     *)
BinAt(bins, i) == IF i < 0 THEN bins[Len(bins) + i + 1] ELSE bins[i + 1]

BSInit == [pc |-> "first", start |-> 0, end |-> 0, mid |-> 0, val_bin |-> -1]

BSStep(bins, v2, st, mut) ==
  LET n == Len(bins) IN
  CASE st.pc = "first" ->
         IF ~IsFinite(v2) THEN [st EXCEPT !.pc = "done"]
         ELSE IF (IF mut = "first_strict" THEN v2 < 2 * bins[1] ELSE v2 <= 2 * bins[1])
              THEN [st EXCEPT !.pc = "done", !.val_bin = 0]
         ELSE IF (IF mut = "last_strict" THEN v2 < 2 * bins[n] ELSE v2 <= 2 * bins[n])
              THEN [st EXCEPT !.pc = "loop", !.start = 0, !.end = n - 1, !.mid = (n - 1) \div 2]
         ELSE [st EXCEPT !.pc = "done"]
    [] st.pc = "loop" ->
         IF st.start <= st.end THEN
            IF 2 * BinAt(bins, st.mid) < v2 THEN
               LET s == IF mut = "start_mid" THEN st.mid ELSE st.mid + 1 IN
               [st EXCEPT !.start = s, !.mid = (st.end + s) \div 2]
            ELSE IF (IF mut = "break_ge" THEN v2 >= 2 * BinAt(bins, st.mid - 1)
                                         ELSE v2 > 2 * BinAt(bins, st.mid - 1)) THEN
               [st EXCEPT !.pc = "done", !.val_bin = st.mid]                  \* break
            ELSE
               [st EXCEPT !.end = st.mid - 1, !.mid = (st.mid - 1 + st.start) \div 2]
         ELSE [st EXCEPT !.pc = "done", !.val_bin = st.mid]
    [] st.pc = "done" -> st

\* the sequence of <<start, end, mid>> seen at every evaluation of the loop test
RECURSIVE BSTrace(_, _, _, _)
BSTrace(bins, v2, st, fuel) ==
  IF st.pc = "done" \/ fuel = 0 THEN <<>>
  ELSE (IF st.pc = "loop" THEN <<<<st.start, st.end, st.mid>>>> ELSE <<>>)
       \o BSTrace(bins, v2, BSStep(bins, v2, st, "none"), fuel - 1)

RECURSIVE BSRun(_, _, _, _)
BSRun(bins, v2, st, fuel) ==
  IF st.pc = "done" \/ fuel = 0 THEN st ELSE BSRun(bins, v2, BSStep(bins, v2, st, "none"), fuel - 1)
BSResult(bins, v2) == LET s == BSRun(bins, v2, BSInit, 4 * Len(bins) + 4) IN
                      IF s.pc = "done" THEN s.val_bin ELSE -2

-----------------------------------------------------------------------------
(* Data-driven classifiers on a sample xs = sorted sequence of the finite values.           *)
RECURSIVE SortedInsert(_, _)
SortedInsert(s, x) == IF s = <<>> THEN <<x>>
                      ELSE IF x <= Head(s) THEN <<x>> \o s ELSE <<Head(s)>> \o SortedInsert(Tail(s), x)
RECURSIVE SortInts(_)
SortInts(s) == IF s = <<>> THEN <<>> ELSE SortedInsert(SortInts(Tail(s)), Head(s))

FiniteVals(vals) == SelectSeq(vals, IsFinite)

\* equal_interval: k * (i-th cut) = k*min + i*(max - min), i = 1..k  (kept multiplied by k: integers)
CutK(mn, mx, k, i) == k * mn + i * (mx - mn)

\* quantile: k * (numpy linear-interpolation percentile at 100*i/k), xs sorted, n = Len(xs)
\*   virtual index (n-1)*i/k = f + g/k;   value = xs[f] + (g/k)*(xs[f+1] - xs[f])
PercK(xs, k, i) ==
  LET n == Len(xs)
      f == ((n - 1) * i) \div k
      g == ((n - 1) * i) % k
  IN IF g = 0 THEN k * xs[f + 1] ELSE k * xs[f + 1] + g * (xs[f + 2] - xs[f + 1])
\* the virtual index is an integer: in floating point it may come out a hair off
PercFlagged(xs, k, i) == i < k /\ ((Len(xs) - 1) * i) % k = 0

\* natural_breaks: within-class sum of squared deviations, times the class size (an integer):
\*   n * SSD(class) = n * sum(x^2) - (sum x)^2
RECURSIVE SumFromTo(_, _, _), SumSqFromTo(_, _, _)
SumFromTo(xs, a, b) == IF a > b THEN 0 ELSE xs[a] + SumFromTo(xs, a + 1, b)
SumSqFromTo(xs, a, b) == IF a > b THEN 0 ELSE xs[a] * xs[a] + SumSqFromTo(xs, a + 1, b)
\* SSD of xs[a..b] as a rational <<num, den>>
SSDR(xs, a, b) == LET n == b - a + 1 IN <<n * SumSqFromTo(xs, a, b) - SumFromTo(xs, a, b) * SumFromTo(xs, a, b), n>>

\* exact rationals with small denominators
RECURSIVE Gcd(_, _)
Gcd(a, b) == IF b = 0 THEN a ELSE Gcd(b, a % b)
RNorm(q) == LET g == Gcd(IF q[1] < 0 THEN -q[1] ELSE q[1], q[2]) IN
            IF g = 0 THEN q ELSE <<q[1] \div g, q[2] \div g>>
RAdd(a, b) == RNorm(<<a[1] * b[2] + b[1] * a[2], a[2] * b[2]>>)
RLess(a, b) == a[1] * b[2] < b[1] * a[2]
REq(a, b) == a[1] * b[2] = b[1] * a[2]

\* minimum total SSD over all partitions of xs[1..m] into j non-empty contiguous classes
RECURSIVE MinSSD(_, _, _)
MinSSD(xs, m, j) ==
  IF j = 1 THEN RNorm(SSDR(xs, 1, m))
  ELSE LET cands == {RAdd(MinSSD(xs, s - 1, j - 1), SSDR(xs, s, m)) : s \in j..m} IN
       CHOOSE q \in cands : \A p \in cands : ~RLess(p, q)

\* the same, but a class boundary may only fall between two DIFFERENT values
RECURSIVE MinSSDNoSplit(_, _, _)
MinSSDNoSplit(xs, m, j) ==
  IF j = 1 THEN RNorm(SSDR(xs, 1, m))
  ELSE LET cands == {RAdd(MinSSDNoSplit(xs, s - 1, j - 1), SSDR(xs, s, m)) :
                       s \in {s \in j..m : xs[s - 1] # xs[s] /\ Cardinality({xs[i] : i \in 1..(s-1)}) >= j - 1}} IN
       CHOOSE q \in cands : \A p \in cands : ~RLess(p, q)

Distinct(xs) == Cardinality({xs[i] : i \in 1..Len(xs)})
=============================================================================
