------------------------------- MODULE History -------------------------------
(* C11 - results depend only on the arguments, not on earlier calls or thread timing.             *)
(*                                                                                                *)
(* The library is a state machine whose hidden state is everything a call could read besides its  *)
(* arguments (anchors of C11):                                                                    *)
(*   jit[f]      signatures compiled so far (Numba specialises per argument types; a closure       *)
(*               freezes the values it captured when it was compiled)                              *)
(*   cache[f]    what a compiled closure captured, per signature (only read by a broken variant)   *)
(*   defaults[f] the mutable default argument objects (excludes=[nan], stats_funcs=[..], ..)       *)
(*   tables      module level tables (_DEFAULT_STATS, funcs, UNITS, DISTANCE_METRICS)              *)
(*   rng         the global NumPy generator (re-seeded by perlin / generate_terrain on every call)  *)
(* A call is [f, p, sig]: function, parameter value ("dflt" = parameter omitted, the default object *)
(* is used), argument type signature (dtype/backend).  Fresh(c) is the result of c alone in a      *)
(* fresh interpreter.  Impl(c) is what the implementation returns given the hidden state; for the  *)
(* intended design it never reads it.  MUT selects broken designs (negative twins):                *)
(*   stale_closure   compiled closure cached per (f, sig) only - parameters frozen at first compile *)
(*   mutable_default an explicit parameter is appended to the shared default object                *)
(*   table_pop       a call with a subset parameter removes entries from the module table          *)
(*   rng_no_reseed   generators draw from the global generator without re-seeding                  *)
(*   race            with Threads > 1 a kernel may return a torn result                             *)
(*   result_is_cache the function memoises its result and hands out the CACHED OBJECT itself       *)
(* CallerWritesResult: the caller edits the last result in place.  A result must not alias hidden  *)
(* library state: the action leaves tables / cache / defaults / dirty unchanged in the intended     *)
(* design; in the result_is_cache twin the cached object becomes dirty and later calls return it.  *)
EXTENDS HistOps

CONSTANTS Funcs,        \* ordinary analysis functions
          Gens,         \* seeded generators (perlin, generate_terrain): p is the seed
          Unseeded,     \* random by design, no seed parameter (bump): result unconstrained, consumes rng
          Params,       \* explicit parameter values, "dflt" is added
          Sigs,         \* type signatures
          Alphabet,     \* the calls that may occur: a subset of Calls (Calls itself for the exhaustive model)
          Threads, MAXLEN, MUT

AllF == Funcs \cup Gens \cup Unseeded
PD == Params \cup {"dflt"}
Calls == [f : AllF, p : PD, sig : Sigs]
D0 == "p0"                 \* the value of the pristine default object (p0 \in Params: default == explicit p0)

VARIABLES hist, outs, jit, cache, defaults, tables, rng, last,
          dirty      \* memoised result objects <<f, effective parameter, sig>> that a caller has edited in place
vars == <<hist, outs, jit, cache, defaults, tables, rng, last, dirty>>

Eff(p) == IF p = "dflt" THEN D0 ELSE p
Fresh(c) == <<c.f, <<Eff(c.p), {}>>, c.sig>>      \* <<function, <<parameter, hidden state read>>, signature>>

Init == /\ hist = <<>> /\ outs = <<>>
        /\ jit = [f \in AllF |-> {}]
        /\ cache = [f \in AllF |-> <<>>]           \* sequence of <<sig, captured parameter>>
        /\ defaults = [f \in AllF |-> {}]          \* extra items appended to f's default object
        /\ tables = {"k1", "k2"}
        /\ rng = 0                                 \* 0 = as the user left it; n > 0 = advanced n times
        /\ last = <<>> /\ dirty = {}

Captured(f, sig) == IF \E i \in 1..Len(cache[f]) : cache[f][i][1] = sig
                    THEN cache[f][CHOOSE i \in 1..Len(cache[f]) : cache[f][i][1] = sig][2] ELSE "none"

\* what the implementation returns in the current hidden state
Impl(c) ==
  CASE MUT = "stale_closure" /\ c.f \in Funcs /\ Captured(c.f, c.sig) # "none" -> {<<c.f, <<Captured(c.f, c.sig), {}>>, c.sig>>}
    [] MUT = "mutable_default" /\ c.p = "dflt" /\ defaults[c.f] # {} -> {<<c.f, <<D0, defaults[c.f]>>, c.sig>>}
    [] MUT = "table_pop" /\ c.p = "dflt" /\ c.f \in Funcs /\ tables # {"k1", "k2"} -> {<<c.f, <<D0, tables>>, c.sig>>}
    [] MUT = "rng_no_reseed" /\ c.f \in Gens /\ rng # 0 -> {<<c.f, <<Eff(c.p), {ToString(rng)}>>, c.sig>>}
    [] MUT = "race" /\ Threads > 1 /\ c.f \in Funcs -> {Fresh(c), <<c.f, <<"torn", {}>>, c.sig>>}
    [] MUT = "result_is_cache" /\ <<c.f, Eff(c.p), c.sig>> \in dirty -> {<<c.f, <<"edited_by_caller", {}>>, c.sig>>}
    [] OTHER -> {Fresh(c)}

Call(c) ==
  /\ Len(hist) < MAXLEN
  /\ hist' = Append(hist, c)
  /\ \E r \in (IF c.f \in Unseeded THEN {<<c.f, <<"random", {ToString(rng)}>>, c.sig>>} ELSE Impl(c)) :
        /\ last' = r /\ outs' = Append(outs, r)
  /\ jit' = [jit EXCEPT ![c.f] = @ \cup {c.sig}]
  /\ cache' = IF Captured(c.f, c.sig) = "none" THEN [cache EXCEPT ![c.f] = Append(@, <<c.sig, Eff(c.p)>>)] ELSE cache
  /\ defaults' = IF MUT = "mutable_default" /\ c.p # "dflt" /\ c.p # D0 THEN [defaults EXCEPT ![c.f] = @ \cup {c.p}] ELSE defaults
  /\ tables' = IF MUT = "table_pop" /\ c.p \notin {"dflt", D0} /\ c.f \in Funcs THEN tables \ {"k2"} ELSE tables
  /\ rng' = IF c.f \in Gens /\ MUT # "rng_no_reseed" THEN 100 + Len(hist)     \* re-seeded: a function of the call only
            ELSE IF c.f \in Gens \cup Unseeded THEN rng + 1 ELSE rng
  /\ UNCHANGED dirty

\* the caller overwrites the result of the last call in place (fills the array, adds attrs keys)
CallerWritesResult ==
  /\ Len(hist) > 0 /\ last # <<"written">>
  /\ LET c == hist[Len(hist)] IN
       dirty' = IF MUT = "result_is_cache" /\ c.f \in Funcs THEN dirty \cup {<<c.f, Eff(c.p), c.sig>>} ELSE dirty
  /\ last' = <<"written">>
  /\ UNCHANGED <<hist, outs, jit, cache, defaults, tables, rng>>

Next == (\E c \in Alphabet : Call(c)) \/ CallerWritesResult
Spec == Init /\ [][Next]_vars

\* ------------------------------------------------------------------ properties
Hidden(h, o, d, t, j) == [hist |-> h, outs |-> o, defaults |-> d, tables |-> t, jit |-> <<>>]
C(c, r) == [id |-> c, unseeded |-> c.f \in Unseeded, fresh |-> Fresh(c), digest |-> r]

StepOK == hist' # hist =>
            StepClause(Hidden(hist, outs, defaults, tables, jit), Hidden(hist', outs', defaults', tables', jit'),
                       C(hist'[Len(hist')], last')) = "ok"
ResultDependsOnlyOnArgs == [][StepOK]_vars
\* the same, stated separately
ResultIsFresh == [][hist' # hist /\ hist'[Len(hist')].f \notin Unseeded => last' = Fresh(hist'[Len(hist')])]_vars
HiddenStateFrozen == [][defaults' = defaults /\ tables' = tables]_vars
\* writing into a result reaches no hidden state
CallerWriteIsLocal == [][hist' = hist => UNCHANGED <<tables, cache, defaults, dirty, jit>>]_vars
JitOnlyGrows == [][\A f \in AllF : jit[f] \subseteq jit'[f] /\
                     (hist' # hist => jit'[f] \ jit[f] \subseteq (IF f = hist'[Len(hist')].f THEN {hist'[Len(hist')].sig} ELSE {}))]_vars
RepeatIdempotent == \A i, j \in 1..Len(hist) : hist[i] = hist[j] /\ hist[i].f \notin Unseeded => outs[i] = outs[j]
DefaultIsExplicit == \A i, j \in 1..Len(hist) :
                        (/\ hist[i].f = hist[j].f /\ hist[i].sig = hist[j].sig /\ hist[i].f \notin Unseeded
                         /\ Eff(hist[i].p) = Eff(hist[j].p)) => outs[i] = outs[j]
TypeOK == Len(hist) = Len(outs) /\ Len(hist) <= MAXLEN /\ Alphabet \subseteq Calls
\* hook for the harness: every complete history of the exhaustive enumeration is printed
RECURSIVE Join(_, _)
Join(h, i) == IF i > Len(h) THEN ""
              ELSE h[i].f \o "|" \o h[i].p \o "|" \o h[i].sig \o (IF i < Len(h) THEN ";" ELSE "") \o Join(h, i + 1)
Dump == Len(hist) = MAXLEN => PrintT(<<"HIST", Join(hist, 1)>>)
=============================================================================
