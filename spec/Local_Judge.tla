---------------------------- MODULE Local_Judge ----------------------------
(* C17: observations of the real xrspatial.local operators judged by TLC.                   *)
(* One case = one dataset + one choice of data_vars / ref_var, run through every operator    *)
(* (harness/workers/local_worker.py):                                                        *)
(*   H, W, L   raster shape, number of data layers (in data_vars order)                      *)
(*   layers    L x H x W integers (NaN = -99), layer values in units of the case's scale; for *)
(*             the near-tie datasets (values like 1e6 and 1e6+1, 0 and 5e-9) the RANK of the   *)
(*             value among all values of the dataset: order and equality are all the judged    *)
(*             operators (c.funcs) depend on                                                   *)
(*   ref       H x W integers: the reference layer; refc: the same in units of the layer codes *)
(*   strides   L x <<sy, sx>>: element strides of the layers as handed to the library        *)
(*   iter, iterK  cell ids in the order np.nditer really delivers them for these layouts with  *)
(*             the code's order (CODE_ORDER) and with numpy's default order 'K'                *)
(*   out       record: operator name |-> [h, w, g] with g the h x w grid of results, each a   *)
(*             rational <<num, den>>, NaN = <<0,0>> ("std" carries the SQUARE of the output)  *)
(*   pop       the same for popularity (not defined by the property: NaN rule + per-cell)    *)
(*   comb      [h, w, g] of combine: integer ids (NaN = -99, anything else = -98)             *)
(*   key       combine's attrs['key'] as a sequence of <<id, tuple>> in dictionary order      *)
(*   full      1 when the raster is claimed to carry the complete case space (checked here)   *)
(*   pairs     1 when per-cell consistency of equal inputs is to be checked (small rasters)   *)
(* Verdict: the first clause of the property that fails, "ok" otherwise.  The extra field      *)
(* says whether np.nditer's observed orders match the model (drift otherwise) and, for a       *)
(* failure, whether the outputs are those of the old iteration order 'K' (LocalOps!Src).       *)
EXTENDS LocalOps, TLC, Json, IOUtils

\* the iteration order of the modelled code: "C" (np.nditer(..., order='C')) since fix ffb8ff0
CONSTANT CODE_ORDER

Cases == ndJsonDeserialize(IOEnv.VERIF_CASES)

Tuple(c, r, k) == [i \in 1..c.L |-> c.layers[i][r + 1][k + 1]]
RefAt(c, r, k) == c.ref[r + 1][k + 1]
\* the reference value an operator compares with: rank uses it as an index, the frequencies compare it with
\* the layer values, so there it is expressed in the units of the layer codes (refc = ref / scale)
RefFor(c, f, r, k) == IF f = "rank" THEN c.ref[r + 1][k + 1] ELSE c.refc[r + 1][k + 1]
Cells(c) == (0..c.H-1) \X (0..c.W-1)

ShapeOK(c, o) == o.h = c.H /\ o.w = c.W

\* ---- operators with a per-cell numeric definition
FClause(c, f) ==
  LET o == c.out[f] IN
  IF ~ShapeOK(c, o) THEN "shape"
  ELSE IF \E p \in Cells(c) : HasNaN(Tuple(c, p[1], p[2])) /\ ~IsNaNR(o.g[p[1] + 1][p[2] + 1])
       THEN "nan_in_a_layer_must_give_nan"
  ELSE IF \E p \in Cells(c) : ~REq(o.g[p[1] + 1][p[2] + 1], Def(f, Tuple(c, p[1], p[2]), RefFor(c, f, p[1], p[2])))
       THEN "value_is_not_the_definition_at_that_cell"
  ELSE "ok"

\* the three frequencies of one cell sum to the layer count (on the OBSERVED outputs)
FreqSumOK(c) ==
  \A p \in Cells(c) :
    LET a == c.out["lesser_frequency"].g[p[1] + 1][p[2] + 1]
        b == c.out["equal_frequency"].g[p[1] + 1][p[2] + 1]
        d == c.out["greater_frequency"].g[p[1] + 1][p[2] + 1]
    IN IF HasNaN(Tuple(c, p[1], p[2])) THEN TRUE
       ELSE a[2] = 1 /\ b[2] = 1 /\ d[2] = 1 /\ a[1] + b[1] + d[1] = c.L

\* ---- popularity: NaN rule, and (small rasters) equal inputs give equal outputs
PopClause(c) ==
  LET o == c.pop IN
  IF ~ShapeOK(c, o) THEN "shape"
  ELSE IF \E p \in Cells(c) : HasNaN(Tuple(c, p[1], p[2])) /\ ~IsNaNR(o.g[p[1] + 1][p[2] + 1])
       THEN "nan_in_a_layer_must_give_nan"
  ELSE IF c.pairs = 1 /\ \E p \in Cells(c), q \in Cells(c) :
            /\ Tuple(c, p[1], p[2]) = Tuple(c, q[1], q[2]) /\ RefAt(c, p[1], p[2]) = RefAt(c, q[1], q[2])
            /\ ~REq(o.g[p[1] + 1][p[2] + 1], o.g[q[1] + 1][q[2] + 1])
       THEN "equal_cells_get_different_values"
  ELSE "ok"

\* ---- combine
KeyIds(c) == {c.key[i][1] : i \in 1..Len(c.key)}
KeyOf(c, id) == c.key[CHOOSE i \in 1..Len(c.key) : c.key[i][1] = id][2]
\* scan in row-major order: every non-NaN id is at most (ids seen so far) + 1
RECURSIVE FirstOcc(_, _, _)
FirstOcc(c, n, m) ==      \* n = next flat index, m = largest id so far; returns final m or -1
  IF n = c.H * c.W THEN m
  ELSE LET v == c.comb.g[n \div c.W + 1][(n % c.W) + 1] IN
       IF v = NaN THEN FirstOcc(c, n + 1, m)
       ELSE IF v >= 1 /\ v <= m THEN FirstOcc(c, n + 1, m)
       ELSE IF v = m + 1 THEN FirstOcc(c, n + 1, m + 1)
       ELSE -1

CombClause(c) ==
  LET o == c.comb
      G(p) == o.g[p[1] + 1][p[2] + 1]
  IN
  IF ~ShapeOK(c, o) THEN "shape"
  ELSE IF \E p \in Cells(c) : HasNaN(Tuple(c, p[1], p[2])) /\ G(p) # NaN THEN "nan_in_a_layer_must_give_nan"
  ELSE IF \E p \in Cells(c) : ~HasNaN(Tuple(c, p[1], p[2])) /\ G(p) < 1 THEN "finite_cell_without_id"
  ELSE IF c.pairs = 1 /\ \E p \in Cells(c), q \in Cells(c) :
            /\ ~HasNaN(Tuple(c, p[1], p[2])) /\ ~HasNaN(Tuple(c, q[1], q[2]))
            /\ (G(p) = G(q)) # (Tuple(c, p[1], p[2]) = Tuple(c, q[1], q[2]))
       THEN "same_id_iff_same_tuple"
  ELSE IF \E i, j \in 1..Len(c.key) : i # j /\ (c.key[i][1] = c.key[j][1] \/ c.key[i][2] = c.key[j][2])
       THEN "key_not_one_to_one"
  ELSE IF \E p \in Cells(c) : ~HasNaN(Tuple(c, p[1], p[2])) /\
               (G(p) \notin KeyIds(c) \/ KeyOf(c, G(p)) # Tuple(c, p[1], p[2]))
       THEN "key_does_not_map_id_to_the_cells_tuple"      \* with a one-to-one key: same id <=> same tuple
  ELSE IF FirstOcc(c, 0, 0) = -1 THEN "ids_not_numbered_from_1_in_first_occurrence_order"
  ELSE IF KeyIds(c) # 1..FirstOcc(c, 0, 0) THEN "key_ids_are_not_the_ids_used"
  ELSE "ok"

\* ---- first failing clause, in the order of the property text
Order == <<"max", "mean", "median", "min", "std", "sum", "lesser_frequency", "equal_frequency",
           "greater_frequency", "lowest_position", "highest_position", "rank">>

\* c.funcs = the operators judged on this case, a subsequence of Order (the near-tie datasets, whose values
\* are carried by RANK, are judged on the order-based operators only); c.haspop = 1 when popularity was run
RECURSIVE FirstBad(_, _)
FirstBad(c, i) ==
  IF i > Len(c.funcs) THEN "ok"
  ELSE LET cl == FClause(c, c.funcs[i]) IN
       IF cl # "ok" THEN c.funcs[i] \o ":" \o cl ELSE FirstBad(c, i + 1)

\* exhaustive rasters: TLC itself asserts that the raster carries the COMPLETE case space
\* (every tuple over {0,1,2,NaN}^L with every reference value 1..L), c.full = 1
AllInputs(L) == {<<t, r>> : t \in [1..L -> {0, 1, 2, NaN}], r \in 1..L}
Complete(c) == c.full = 0 \/ {<<Tuple(c, p[1], p[2]), RefAt(c, p[1], p[2])>> : p \in Cells(c)} = AllInputs(c.L)

\* a case of a call SEQUENCE (one operator called on a Dataset whose content was changed in place between
\* calls; layers = the content at the time of the call) runs only that operator: c.funcs, c.hascomb, c.haspop
HasAllFreq(c) == \A f \in {"lesser_frequency", "equal_frequency", "greater_frequency"} :
                    \E i \in 1..Len(c.funcs) : c.funcs[i] = f

Clause(c) ==
  LET a == FirstBad(c, 1) IN
  IF ~Complete(c) THEN "MACHINERY_case_space_incomplete"
  ELSE IF a # "ok" THEN a
  ELSE IF HasAllFreq(c) /\ ~FreqSumOK(c) THEN "frequencies_do_not_sum_to_layer_count"
  ELSE LET b == IF c.hascomb = 1 THEN CombClause(c) ELSE "ok" IN
  IF b # "ok" THEN "combine:" \o b
  ELSE IF c.haspop = 0 THEN "ok"
  ELSE LET d == PopClause(c) IN
  IF d # "ok" THEN "popularity:" \o d ELSE "ok"

\* ---- step level: the iteration model against numpy, and what it says about a failure
\*   iter  = cell ids in the order np.nditer(order = CODE_ORDER) really delivers them for these layouts
\*   iterK = the same for np.nditer's default order 'K' (keeps the negative twin's model bound to numpy)
Lays(c) == c.strides
ModelIter(c, order) == [n \in 1..c.H * c.W |->
                          LET p == IterCell(Lays(c), c.H, c.W, order, n - 1) IN p[1] * c.W + p[2]]
IterOK(c) == (Len(c.iter) = 0 \/ c.iter = ModelIter(c, CODE_ORDER)) /\ (Len(c.iterK) = 0 \/ c.iterK = ModelIter(c, "K"))

\* the outputs are exactly what the definition gives when output cell <<r,k>> is fed the tuple of Src(r,k)
\* (the reference layer is read in logical order by the code, so it is not permuted)
PredictedBy(c, f, order) ==
  LET o == c.out[f] IN
  ShapeOK(c, o) /\ \A p \in Cells(c) :
     LET s == Src(Lays(c), c.H, c.W, order, p[1], p[2]) IN
     REq(o.g[p[1] + 1][p[2] + 1], Def(f, Tuple(c, s[1], s[2]), RefFor(c, f, p[1], p[2])))
AllPredicted(c, order) == \A i \in 1..Len(c.funcs) : PredictedBy(c, c.funcs[i], order)

Extra(c, cl) ==
  IF ~IterOK(c) THEN "drift_nditer_order_differs_from_model"
  ELSE IF cl = "ok" THEN
       \* the property holds; the code follows the model unless the model predicts an observable scramble
       (IF Scrambles(Lays(c), c.H, c.W, CODE_ORDER) /\ ~AllPredicted(c, CODE_ORDER)
        THEN "drift_model_predicts_scramble_but_outputs_ok" ELSE "steps_ok")
  ELSE IF Scrambles(Lays(c), c.H, c.W, CODE_ORDER) /\ AllPredicted(c, CODE_ORDER)
       THEN "scramble_predicted_by_iteration_model"
  ELSE IF Scrambles(Lays(c), c.H, c.W, "K") /\ AllPredicted(c, "K")
       THEN "outputs_are_those_of_nditer_default_order_K"     \* the defect repaired by ffb8ff0 is back
  ELSE "failure_not_explained_by_iteration_model"

Verdict(c) == LET cl == Clause(c) IN <<cl, Extra(c, cl)>>

ASSUME \A i \in 1..Len(Cases) :
   LET v == Verdict(Cases[i]) IN PrintT(<<"VERDICT", i, v[1], v[2]>>)
=============================================================================
