---------------------------- MODULE TrimCropOps ----------------------------
(* Operators shared by TrimCrop.tla (exhaustive model of the four directional scans of    *)
(* xrspatial.zonal._trim / _crop) and TrimCrop_Judge.tla (observations of the real        *)
(* trim / crop judged by TLC).                                                             *)
(*                                                                                         *)
(* Environment record                                                                      *)
(*   e = [H, W, data (H x W, sequences, 1-based: data[y+1][x+1] is the code's data[y, x]), *)
(*        list (sequence: trim's `values` = excluded values / crop's `zones_ids`),         *)
(*        mode ("trim" | "crop"), naneq (BOOLEAN: does the membership test let NaN match   *)
(*        NaN?)]                                                                           *)
(* Cell values are integers; NaN is the reserved integer NaN below; +inf and -inf are the  *)
(* ordinary integers -97 and -96 (they equal themselves and nothing else, like any value). *)
(*                                                                                         *)
(* The PROPERTY (C18) reads "NaN counts as excluded when listed", i.e. naneq = TRUE.       *)
(* _trim tests `e == val or (isnan(e) and isnan(val))`, i.e. naneq = TRUE (since the fix   *)
(* 4e18dc9; before it tested the bare IEEE `e == val`, naneq = FALSE, under which a listed *)
(* NaN is never excluded - kept as a negative twin).  _crop tests `v == val`.              *)
EXTENDS Integers, Sequences, FiniteSets

NaN == -99

\* the membership test `e == val` of the inner-most loop
Matches(e, val, naneq) == IF e = NaN \/ val = NaN THEN naneq /\ e = NaN /\ val = NaN
                          ELSE e = val

Listed(e, val) == \E i \in 1..Len(e.list) : Matches(e.list[i], val, e.naneq)

Val(e, y, x) == e.data[y + 1][x + 1]

\* a cell the window has to contain: trim - value not excluded; crop - zone id requested
Kept(e, y, x) == IF e.mode = "trim" THEN ~Listed(e, Val(e, y, x)) ELSE Listed(e, Val(e, y, x))

\* inner loops of the scans: does row y / column x hold a kept value?
RowKept(e, y) == \E x \in 0..e.W-1 : Kept(e, y, x)
ColKept(e, x) == \E y \in 0..e.H-1 : Kept(e, y, x)

-----------------------------------------------------------------------------
(* The four scans as a deterministic step function over the code's variables.             *)
(*   st = [pc, i, sc, top, bottom, left, right]                                            *)
(* pc names the loop that is running, i is its loop variable (y or x), sc = scan_complete. *)
(* One step = one row / column visited, or the exit of a loop.                             *)
(* mut selects deliberately broken variants (negative twins), "none" = the code.           *)

ScanInit == [pc |-> "top", i |-> 0, sc |-> FALSE, top |-> 0, bottom |-> 0, left |-> 0, right |-> 0]

ScanStep(e, st, mut) ==
  CASE st.pc = "top" ->
         \* for y in range(rows): if scan_complete: break; top = y; <inner loop>
         IF st.sc \/ st.i = e.H
         THEN [st EXCEPT !.pc = "bottom", !.i = e.H - 1, !.sc = FALSE, !.bottom = 0]
         ELSE [st EXCEPT !.top = st.i, !.sc = RowKept(e, st.i), !.i = st.i + 1]
    [] st.pc = "bottom" ->
         \* for y in range(rows - 1, -1, -1): ...
         IF st.sc \/ st.i = (IF mut = "bottom_range" THEN 0 ELSE -1)
         THEN [st EXCEPT !.pc = "left", !.i = 0, !.sc = FALSE, !.left = 0]
         ELSE [st EXCEPT !.bottom = st.i, !.sc = RowKept(e, st.i), !.i = st.i - 1]
    [] st.pc = "left" ->
         \* for x in range(cols): ...
         IF st.sc \/ st.i = (IF mut = "left_rows" THEN e.H ELSE e.W)
         THEN [st EXCEPT !.pc = "right", !.i = e.W - 1, !.sc = FALSE, !.right = 0]
         ELSE [st EXCEPT !.left = st.i,
                         !.sc = IF mut = "left_rows" /\ st.i >= e.W THEN FALSE ELSE ColKept(e, st.i),
                         !.i = st.i + 1]
    [] st.pc = "right" ->
         \* for x in range(cols - 1, -1, -1): ...
         IF st.sc \/ st.i = -1
         THEN [st EXCEPT !.pc = "done"]
         ELSE [st EXCEPT !.right = st.i,
                         !.sc = IF mut = "right_first_only" THEN Kept(e, 0, st.i) ELSE ColKept(e, st.i),
                         !.i = st.i - 1]
    [] st.pc = "done" -> st

RECURSIVE ScanRun(_, _, _)
ScanRun(e, st, mut) == IF st.pc = "done" THEN st ELSE ScanRun(e, ScanStep(e, st, mut), mut)

\* what _trim / _crop return
ScanResult(e) == LET s == ScanRun(e, ScanInit, "none") IN <<s.top, s.bottom, s.left, s.right>>

-----------------------------------------------------------------------------
(* Abstract definition: the smallest rectangular window containing every kept cell.        *)

KeptCells(e) == {p \in (0..e.H-1) \X (0..e.W-1) : Kept(e, p[1], p[2])}

SetMin(S) == CHOOSE a \in S : \A b \in S : a <= b
SetMax(S) == CHOOSE a \in S : \A b \in S : a >= b

\* bounding box <<top, bottom, left, right>> (only defined when there is a kept cell)
Box(e) == LET K == KeptCells(e) IN
          <<SetMin({p[1] : p \in K}), SetMax({p[1] : p \in K}),
            SetMin({p[2] : p \in K}), SetMax({p[2] : p \in K})>>

ContainsAll(K, t, b, l, r) == \A p \in K : t <= p[1] /\ p[1] <= b /\ l <= p[2] /\ p[2] <= r
Contains(e, t, b, l, r) == ContainsAll(KeptCells(e), t, b, l, r)

\* <<t,b,l,r>> contains every kept cell and is inside every window that does
IsMinimalWindow(e, t, b, l, r) ==
  LET K == KeptCells(e) IN
  /\ ContainsAll(K, t, b, l, r)
  /\ \A t2 \in 0..e.H-1, l2 \in 0..e.W-1 : \A b2 \in t2..e.H-1, r2 \in l2..e.W-1 :
        ContainsAll(K, t2, b2, l2, r2) => t2 <= t /\ b2 >= b /\ l2 <= l /\ r2 >= r
=============================================================================
