------------------------------ MODULE ExtrasOps ------------------------------
(* Specification coverage beyond the nineteen listed properties (DESIGN.md section 6):      *)
(* the remaining public surface of xarray-spatial that no listed property speaks about.     *)
(*                                                                                          *)
(*   bump(width, height, count, height_func, spread)      xrspatial/bump.py                  *)
(*   zonal.apply(zones, values, func, nodata)             xrspatial/zonal.py                 *)
(*   zonal.suggest_zonal_canvas / get_full_extent         xrspatial/zonal.py                 *)
(*   utils.lnglat_to_meters (linear x, odd monotone y)    xrspatial/utils.py                 *)
(*   analytics.summarize_terrain (composition)            xrspatial/analytics.py             *)
(*                                                                                          *)
(* The operators below are the abstract results; `Extras_Judge` evaluates them on            *)
(* observations of the real functions.  The bump accumulator is also an explicit state       *)
(* machine (Bump.tla: one action per bump, as `_finish_bump`'s outer loop) whose            *)
(* invariants TLC checks exhaustively on a small scope, with negative twins (`MUT`).        *)
EXTENDS Integers, Sequences, FiniteSets, TLC

Max(a, b) == IF a > b THEN a ELSE b
Min(a, b) == IF a < b THEN a ELSE b
NAN == -999999            \* "not a number" in the integer grids of this module

\* ------------------------------------------------------------------------------- bump
(* `_finish_bump`: out = zeros; for each bump i in order: out[y,x] += z; then, when spread > 0, every cell of the  *)
(* HALF-OPEN window [x-spread, x+spread) x [y-spread, y+spread) (clipped to the raster) whose squared distance d2  *)
(* to the centre is <= spread^2 receives out[y,x] * d2 / spread^2 -- the centre's ACCUMULATED height (earlier       *)
(* bumps included), growing with distance, zero at the centre itself.  Values are carried as integers in units of  *)
(* 1/D with D = (spread^2)^n for n bumps, which keeps every division exact.                                         *)
InWindow(W, H, x, y, sp, q, r, mut) ==
  /\ q >= Max(x - sp, 0) /\ r >= Max(y - sp, 0)
  /\ IF mut = "closed" THEN q <= Min(x + sp, W - 1) /\ r <= Min(y + sp, H - 1)
                       ELSE q <  Min(x + sp, W)     /\ r <  Min(y + sp, H)

D2(x, y, q, r) == (q - x) * (q - x) + (r - y) * (r - y)

\* one bump; `zD` = height in units of 1/D.  Result: new grid, or "inexact" flag through the second component
BumpStep(out, W, H, x, y, zD, sp, mut) ==
  LET s == sp * sp
      c == out[y][x] + zD
      o1 == [out EXCEPT ![y][x] = c]
      src == IF mut = "fresh" THEN zD ELSE c           \* twin: spreads the bump's own height only
  IN IF s = 0 THEN o1
     ELSE [r \in 0..H-1 |-> [q \in 0..W-1 |->
            IF InWindow(W, H, x, y, sp, q, r, mut) /\ D2(x, y, q, r) <= s
            THEN o1[r][q] + (src * D2(x, y, q, r)) \div s
            ELSE o1[r][q]]]

BumpExact(out, x, y, zD, sp) == sp = 0 \/ \A d \in 0..(sp * sp) : ((out[y][x] + zD) * d) % (sp * sp) = 0

RECURSIVE BumpAll(_, _, _, _, _, _, _)
\* bumps = sequence of <<x, y, zD>>
BumpAll(out, W, H, bumps, sp, k, mut) ==
  IF k > Len(bumps) THEN out
  ELSE BumpAll(BumpStep(out, W, H, bumps[k][1], bumps[k][2], bumps[k][3], sp, mut), W, H, bumps, sp, k + 1, mut)

Zeros(W, H) == [r \in 0..H-1 |-> [q \in 0..W-1 |-> 0]]

\* ------------------------------------------------------------------------------- zonal.apply
(* values[r][c] is replaced by func(values[r][c]) where zones[r][c] # nodata and kept elsewhere; a NaN value stays   *)
(* NaN either way (the code multiplies by 0/1 masks).  F is the function's table over the value alphabet.            *)
ApplyCell(z, v, nodata, F) == IF v = NAN THEN NAN ELSE IF z = nodata THEN v ELSE F[v]

\* ------------------------------------------------------------------------------- suggest_zonal_canvas
(* With full extents FX x FY, h = FY*sqrt(P/A) and w = FX*sqrt(P/A) (P = min_pixels, A = smallest_area), hence       *)
(* canvas_h = floor(sqrt(P/A) * yr) and canvas_w = floor(sqrt(P/A) * xr): the largest k with k*k*A <= P*ext*ext.     *)
(* When P*ext*ext / A is a perfect square the float result may legitimately be k or k-1 (tie: both admitted).        *)
FloorSqrtOK(k, P, A, ext) ==
  \/ k >= 0 /\ k * k * A <= P * ext * ext /\ (k + 1) * (k + 1) * A > P * ext * ext
  \/ k >= 0 /\ (k + 1) * (k + 1) * A = P * ext * ext

FullExtent(crs) == CASE crs = "Mercator"   -> <<<<-20000000, 20000000>>, <<-20000000, 20000000>>>>
                     [] crs = "Geographic" -> <<<<-180, 180>>, <<-90, 90>>>>

=============================================================================
