--------------------------- MODULE Classify_Judge ---------------------------
(* C12: observations of the real classifiers judged by TLC.  Three kinds of cases             *)
(* (harness/workers/classify_worker.py); a batch holds one kind.                               *)
(*                                                                                             *)
(* kind "bin"      one ascending bin list and every value position                             *)
(*    bins   integers;  vals2  the values TWICE (half-integers), NaN -99, +inf -97, -inf -96   *)
(*    idx    per value: index returned by the compiled _cpu_bin driven directly with           *)
(*           new_values = 0..n-1 (-1 = NaN, -2 = anything else)                                *)
(*    recl   per value: result of the public reclassify with new_values = 10, 11, ... (-1 NaN) *)
(*    trace  per value: the <<start, end, mid>> triples seen at each evaluation of the loop    *)
(*           test in interpreted mode (<<>> when not recorded)                                 *)
(* kind "binary"   vals (codes), list (codes), out (0 / 1 / NaN -99 / other -98)               *)
(* kind "classes"  func in {"equal_interval", "quantile", "natural_breaks"}, k, vals (codes of *)
(*           the flattened raster), out (class per cell, NaN -99, other -98)                   *)
(*                                                                                             *)
(* Codes: the real raster value is an increasing affine function of the integer code; all      *)
(* three data-driven classifiers are invariant under such maps, so TLC works on the codes.     *)
(* A cell whose value coincides exactly with a class break is borderline for class identity    *)
(* (the break is computed in floating point): both neighbouring classes are admitted and the   *)
(* number of such cells is reported in the extra field ("b<n>").                               *)
EXTENDS ClassifyOps, TLC, Json, IOUtils

Cases == ndJsonDeserialize(IOEnv.VERIF_CASES)

Idx(s) == 1..Len(s)

-----------------------------------------------------------------------------
BinClause(c) ==
  IF Len(c.idx) # Len(c.vals2) \/ Len(c.recl) # Len(c.vals2) THEN "shape"
  ELSE IF \E i \in Idx(c.vals2) : ~IsFinite(c.vals2[i]) /\ (c.idx[i] # -1 \/ c.recl[i] # -1)
       THEN "nonfinite_cell_not_nan"
  ELSE IF \E i \in Idx(c.vals2) : IsFinite(c.vals2[i]) /\ c.vals2[i] > 2 * c.bins[Len(c.bins)]
                                  /\ (c.idx[i] # -1 \/ c.recl[i] # -1)
       THEN "reclassify_value_above_last_bin_not_nan"
  ELSE IF \E i \in Idx(c.vals2) : IsFinite(c.vals2[i]) /\ c.vals2[i] <= 2 * c.bins[Len(c.bins)]
                                  /\ (c.idx[i] = -1 \/ c.recl[i] = -1)
       THEN "finite_cell_is_nan"
  ELSE IF \E i \in Idx(c.vals2) : c.idx[i] # FirstGE2(c.bins, c.vals2[i])
       THEN "cpu_bin_not_first_bin_with_upper_bound_ge_value"
  ELSE IF \E i \in Idx(c.vals2) :
             c.recl[i] # (IF FirstGE2(c.bins, c.vals2[i]) = -1 THEN -1 ELSE 10 + FirstGE2(c.bins, c.vals2[i]))
       THEN "reclassify_not_new_value_of_first_bin_with_upper_bound_ge_value"
  ELSE "ok"

BinExtra(c) ==
  IF \E i \in Idx(c.vals2) : BSResult(c.bins, c.vals2[i]) # c.idx[i] THEN "drift_search_model_result"
  ELSE IF \E i \in Idx(c.vals2) :
            Len(c.trace[i]) > 0 /\ c.trace[i] # BSTrace(c.bins, c.vals2[i], BSInit, 4 * Len(c.bins) + 4)
       THEN "drift_search_model_trace"
  ELSE IF \A i \in Idx(c.vals2) : Len(c.trace[i]) = 0 THEN "nosteps" ELSE "steps_ok"

-----------------------------------------------------------------------------
InList(v, lst) == \E i \in Idx(lst) : lst[i] = v
BinaryClause(c) ==
  IF Len(c.out) # Len(c.vals) THEN "shape"
  ELSE IF \E i \in Idx(c.vals) : ~IsFinite(c.vals[i]) /\ c.out[i] # NaN THEN "nonfinite_cell_not_nan"
  ELSE IF \E i \in Idx(c.vals) : IsFinite(c.vals[i]) /\ c.out[i] = NaN THEN "finite_cell_is_nan"
  ELSE IF \E i \in Idx(c.vals) : IsFinite(c.vals[i]) /\ c.out[i] # (IF InList(c.vals[i], c.list) THEN 1 ELSE 0)
       THEN "binary_is_not_membership_in_values"
  ELSE "ok"

-----------------------------------------------------------------------------
\* ---- data-driven classifiers
FinIdx(c) == {i \in Idx(c.vals) : IsFinite(c.vals[i])}

Common(c) ==
  IF Len(c.out) # Len(c.vals) THEN "shape"
  ELSE IF \E i \in Idx(c.vals) : ~IsFinite(c.vals[i]) /\ c.out[i] # NaN THEN "nonfinite_cell_not_nan"
  ELSE IF \E i \in FinIdx(c) : c.out[i] = NaN THEN "finite_cell_is_nan"
  ELSE IF \E i \in FinIdx(c) : c.out[i] < 0 \/ c.out[i] > c.k - 1 THEN "class_not_an_integer_in_0_to_k_minus_1"
  ELSE IF \E i \in FinIdx(c), j \in FinIdx(c) : c.vals[i] < c.vals[j] /\ c.out[i] > c.out[j]
       THEN "larger_value_got_smaller_class"
  ELSE IF \E i \in FinIdx(c), j \in FinIdx(c) : c.vals[i] = c.vals[j] /\ c.out[i] # c.out[j]
       THEN "equal_values_got_different_classes"
  ELSE "ok"

Sorted(c) == SortInts(FiniteVals(c.vals))
SetCard(S) == Cardinality(S)

\* equal_interval: class = number of cuts below the value; a value ON an inner cut is borderline
EqLo(c, mn, mx, v) == SetCard({i \in 1..c.k : CutK(mn, mx, c.k, i) < c.k * v})
EqOnCut(c, mn, mx, v) == \E i \in 1..(c.k - 1) : CutK(mn, mx, c.k, i) = c.k * v
EqClause(c) ==
  LET xs == Sorted(c)  mn == xs[1]  mx == xs[Len(xs)] IN
  IF \E i \in FinIdx(c) : LET v == c.vals[i]  lo == EqLo(c, mn, mx, v) IN
        ~(c.out[i] = lo \/ (EqOnCut(c, mn, mx, v) /\ c.out[i] = lo + 1))
  THEN "equal_interval_class_is_not_the_interval_of_the_value" ELSE "ok"
EqBorder(c) == LET xs == Sorted(c) IN SetCard({i \in FinIdx(c) : EqOnCut(c, xs[1], xs[Len(xs)], c.vals[i])})

\* quantile: class = number of distinct percentile breaks below the value.  A break whose virtual
\* index is an integer may be off by an ulp: it may separate from an equal break and fall either side
\* of the data value it coincides with.
QLo(c, xs, v) == SetCard({PercK(xs, c.k, i) : i \in {i \in 1..c.k : PercK(xs, c.k, i) < c.k * v}})
QSlack(c, xs, v) == SetCard({i \in 1..c.k : PercFlagged(xs, c.k, i) /\ PercK(xs, c.k, i) <= c.k * v})
QClause(c) ==
  LET xs == Sorted(c) IN
  IF \E i \in FinIdx(c) : LET v == c.vals[i] IN
        ~(c.out[i] >= QLo(c, xs, v) /\ c.out[i] <= QLo(c, xs, v) + QSlack(c, xs, v))
  THEN "quantile_class_is_not_the_percentile_band_of_the_value" ELSE "ok"
QBorder(c) == LET xs == Sorted(c) IN SetCard({i \in FinIdx(c) : QSlack(c, xs, c.vals[i]) > 0})

\* natural_breaks: SSD of the realised partition, times Lc = lcm(1..n) (integers)
RECURSIVE Gcd2(_, _)
Gcd2(a, b) == IF b = 0 THEN a ELSE Gcd2(b, a % b)
RECURSIVE LcmUpTo(_)
LcmUpTo(n) == IF n = 1 THEN 1 ELSE LET p == LcmUpTo(n - 1) IN (p * n) \div Gcd2(p, n)
\* Lc * SSD(xs[a..b])
SSDS(xs, a, b, Lc) == Lc * SumSqFromTo(xs, a, b) - (Lc \div (b - a + 1)) * SumFromTo(xs, a, b) * SumFromTo(xs, a, b)
SetMin(S) == CHOOSE a \in S : \A b \in S : a <= b
RECURSIVE MinSSDS(_, _, _, _)
MinSSDS(xs, m, j, Lc) ==
  IF j = 1 THEN SSDS(xs, 1, m, Lc)
  ELSE SetMin({MinSSDS(xs, s - 1, j - 1, Lc) + SSDS(xs, s, m, Lc) : s \in j..m})
\* the observed classes as a partition of the sorted sample: since classes are monotone in the value
\* (Common), class c holds a contiguous run of the sorted sample
FiniteValsOfClass(c, cl) == [n \in 1..Len(c.vals) |-> IF IsFinite(c.vals[n]) /\ c.out[n] = cl THEN c.vals[n] ELSE NaN]
RECURSIVE RealisedS(_, _, _, _)
RealisedS(c, xs, cl, Lc) ==
  IF cl = c.k THEN 0
  ELSE LET ms == SortInts(SelectSeq(FiniteValsOfClass(c, cl), IsFinite)) IN
       (IF ms = <<>> THEN 0 ELSE SSDS(ms, 1, Len(ms), Lc)) + RealisedS(c, xs, cl + 1, Lc)

NbClause(c) ==
  LET xs == Sorted(c)
      n == Len(xs)
      d == Distinct(xs)
  IN
  IF d < c.k THEN
       \* fewer distinct values than classes: every distinct value is its own class
       (IF \E i \in FinIdx(c) : c.out[i] # SetCard({xs[q] : q \in {q \in 1..n : xs[q] < c.vals[i]}})
        THEN "natural_breaks_distinct_values_not_own_classes" ELSE "ok")
  ELSE LET Lc == LcmUpTo(n) IN
       IF RealisedS(c, xs, 0, Lc) # MinSSDS(xs, n, c.k, Lc)
       THEN "natural_breaks_partition_does_not_attain_minimum_ssd" ELSE "ok"

ClassesClause(c) ==
  LET a == Common(c) IN
  IF a # "ok" THEN a
  ELSE IF FinIdx(c) = {} THEN "ok"
  ELSE CASE c.func = "equal_interval" -> EqClause(c)
         [] c.func = "quantile" -> QClause(c)
         [] c.func = "natural_breaks" -> NbClause(c)

ClassesExtra(c) ==
  IF FinIdx(c) = {} \/ Len(c.out) # Len(c.vals) THEN "b0"
  ELSE CASE c.func = "equal_interval" -> "b" \o ToString(EqBorder(c))
         [] c.func = "quantile" -> "b" \o ToString(QBorder(c))
         [] c.func = "natural_breaks" -> "b0"

-----------------------------------------------------------------------------
Clause(c) == CASE c.kind = "bin" -> BinClause(c)
               [] c.kind = "binary" -> BinaryClause(c)
               [] c.kind = "classes" -> ClassesClause(c)
Extra(c) == CASE c.kind = "bin" -> BinExtra(c)
              [] c.kind = "binary" -> "b0"
              [] c.kind = "classes" -> ClassesExtra(c)

ASSUME \A i \in 1..Len(Cases) : PrintT(<<"VERDICT", i, Clause(Cases[i]), Extra(Cases[i])>>)
=============================================================================
