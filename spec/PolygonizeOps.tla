---------------------------- MODULE PolygonizeOps ----------------------------
(* C15 - operators shared by Polygonize.tla (exhaustive model) and Polygonize_Judge.tla.   *)
(*                                                                                        *)
(* PART 1  abstract layer: Lossless(g, polys) - what the property says about the polygons  *)
(*         returned for a raster, phrased over cell centres, crossing numbers and shoelace  *)
(*         areas; nothing in it looks like the implementation.                             *)
(* PART 2  algorithm layer: transcription of xrspatial/experimental/polygonize.py           *)
(*         (_calculate_regions, _merge_regions, _follow, _scan, the single-column           *)
(*         workaround of _polygonize_numpy) as step operators with the implementation's     *)
(*         names; the state machine of Polygonize.tla applies one step per action, the       *)
(*         judge folds them to obtain the model's regions and polygons.                      *)
(*                                                                                        *)
(* g = [H, W, v, conn]  as in Components.tla; v[r][c] = NANV marks a masked-out cell.      *)
(* Row r is "j" of the code (y = r is the S edge of the row), column c is "i".             *)
(* A polygon is a record [val, rings]; rings[1] is the exterior, the others are holes;     *)
(* a ring is a sequence of points <<x, y>> in pixel-corner coordinates.                    *)
EXTENDS Components, Sequences, TLC

PMin(a, b) == IF a < b THEN a ELSE b
PMax(a, b) == IF a > b THEN a ELSE b

(***************************************************************************************)
(* PART 1 - Lossless                                                                   *)
(***************************************************************************************)
RECURSIVE Shoelace2From(_, _)
Shoelace2From(ring, k) ==         \* twice the signed area (positive = anticlockwise)
  IF k >= Len(ring) THEN 0
  ELSE ring[k][1] * ring[k+1][2] - ring[k+1][1] * ring[k][2] + Shoelace2From(ring, k + 1)
Shoelace2(ring) == Shoelace2From(ring, 1)

\* crossing number of the ray from the centre of cell <<r, c>> towards +x.  Coordinates are
\* doubled so that the centre (2c+1, 2r+1) is integral; vertices have even doubled coordinates,
\* so the ray never passes through a vertex and only vertical edges can cross it.
Crossings(ring, r, c) ==
  Cardinality({k \in 1..Len(ring)-1 :
      LET p == ring[k]  q == ring[k+1] IN
      /\ p[1] = q[1] /\ 2 * p[1] > 2 * c + 1
      /\ 2 * PMin(p[2], q[2]) < 2 * r + 1 /\ 2 * r + 1 < 2 * PMax(p[2], q[2])})
InsideRing(ring, r, c) == Crossings(ring, r, c) % 2 = 1

\* the cell centre is assigned to the polygon whose exterior contains it and whose holes do not
InPolygon(poly, r, c) ==
  /\ InsideRing(poly.rings[1], r, c)
  /\ \A h \in 2..Len(poly.rings) : ~InsideRing(poly.rings[h], r, c)
\* a centre inside a ring lies inside the ring's bounding box: only those cells have to be looked at
SetMin(S) == CHOOSE x \in S : \A y \in S : x <= y
SetMax(S) == CHOOSE x \in S : \A y \in S : x >= y
BBoxCells(g, ring) ==
  LET xs == {ring[k][1] : k \in 1..Len(ring)}  ys == {ring[k][2] : k \in 1..Len(ring)} IN
  {p \in (SetMin(ys)..(SetMax(ys) - 1)) \X (SetMin(xs)..(SetMax(xs) - 1)) :
      p[1] >= 0 /\ p[1] < g.H /\ p[2] >= 0 /\ p[2] < g.W}
CellsOf(g, poly) == {p \in BBoxCells(g, poly.rings[1]) : InPolygon(poly, p[1], p[2])}

RingClosed(ring) == Len(ring) >= 5 /\ ring[1] = ring[Len(ring)]
RingOnCorners(g, ring) == \A k \in 1..Len(ring) : ring[k][1] \in 0..g.W /\ ring[k][2] \in 0..g.H
RingAxisParallel(ring) ==
  \A k \in 1..Len(ring)-1 : (ring[k][1] = ring[k+1][1]) # (ring[k][2] = ring[k+1][2])

RECURSIVE HoleArea2(_, _)
HoleArea2(poly, h) == IF h > Len(poly.rings) THEN 0
                      ELSE CAbs(Shoelace2(poly.rings[h])) + HoleArea2(poly, h + 1)
Area2(poly) == CAbs(Shoelace2(poly.rings[1])) - HoleArea2(poly, 2)

\* first failing clause of the property, "ok" if none.
\* cs[k] = the cells whose centre is assigned to polygon k (evaluated once per polygon).
RECURSIVE SumCard(_, _)
SumCard(cs, k) == IF k = 0 THEN 0 ELSE Cardinality(cs[k]) + SumCard(cs, k - 1)
LosslessClause(g, polys) ==
  LET K == 1..Len(polys)
      RingsOf(k) == 1..Len(polys[k].rings)
  IN
  IF \E k \in K : Len(polys[k].rings) = 0 THEN "polygon_without_exterior"
  ELSE IF \E k \in K : \E h \in RingsOf(k) : ~RingClosed(polys[k].rings[h]) THEN "ring_not_closed"
  ELSE IF \E k \in K : \E h \in RingsOf(k) : ~RingOnCorners(g, polys[k].rings[h]) THEN "vertex_not_a_cell_corner"
  ELSE IF \E k \in K : \E h \in RingsOf(k) : ~RingAxisParallel(polys[k].rings[h]) THEN "edge_not_axis_parallel"
  ELSE
  LET cs == TLCEval([k \in K |-> CellsOf(g, polys[k])])
      covered == UNION {cs[k] : k \in K}
  IN
  IF \E k \in K : \E p \in cs[k] : GVal(g, p) = NANV THEN "masked_cell_in_a_polygon"
  ELSE IF GValid(g) \ covered # {} THEN "cell_in_no_polygon"
  \* the polygons' cell sets are pairwise disjoint iff their sizes add up to the size of their union
  ELSE IF SumCard(cs, Len(polys)) # Cardinality(covered) THEN "cell_in_two_polygons"
  ELSE IF \E k \in K : \E p \in cs[k] : polys[k].val # GVal(g, p) THEN "value_not_reproduced"
  ELSE IF \E k \in K : Area2(polys[k]) # 2 * Cardinality(cs[k]) THEN "area_differs_from_cell_count"
  ELSE IF \E k \in K : Shoelace2(polys[k].rings[1]) <= 0 THEN "exterior_not_anticlockwise"
  ELSE IF \E k \in K : \E h \in 2..Len(polys[k].rings) : Shoelace2(polys[k].rings[h]) >= 0 THEN "hole_not_clockwise"
  \* the polygons are exactly the connected regions of equal value
  ELSE IF {cs[k] : k \in K} # Components(g) THEN "polygon_is_not_a_connected_region"
  ELSE IF Len(polys) # Cardinality(Components(g)) THEN "polygon_count_differs_from_region_count"
  ELSE "ok"

Lossless(g, polys) == LosslessClause(g, polys) = "ok"

\* ---- affine transform (x' = t1 x + t2 y + t3, y' = t4 x + t5 y + t6), integer coefficients
TransformPoint(t, p) == <<t[1] * p[1] + t[2] * p[2] + t[3], t[4] * p[1] + t[5] * p[2] + t[6]>>
\* the cell corner whose affine image is P; <<-1, -1>> if P is the image of no corner
CornerOf(g, t, P) ==
  LET S == {q \in (0..g.W) \X (0..g.H) : TransformPoint(t, q) = P} IN
  IF S = {} THEN <<-1, -1>> ELSE CHOOSE q \in S : TRUE
PreImagePolys(g, t, polys) ==
  [k \in 1..Len(polys) |->
     [val |-> polys[k].val,
      rings |-> [h \in 1..Len(polys[k].rings) |->
                   [m \in 1..Len(polys[k].rings[h]) |-> CornerOf(g, t, polys[k].rings[h][m])]]]]

(***************************************************************************************)
(* PART 2 - the algorithm                                                              *)
(***************************************************************************************)
\* a = [nx, ny, n, val, c8, mut] : the flattened raster handed to _scan.  val[ij] = NANV for a
\* masked pixel.  A single-column raster gets a second, masked-out column (_polygonize_numpy).
Flat(g, mut) ==
  LET nx == IF g.W = 1 THEN 2 ELSE g.W IN
  [nx |-> nx, ny |-> g.H, n |-> nx * g.H, c8 |-> (g.conn = 8), mut |-> mut,
   val |-> [ij \in 0..(nx * g.H - 1) |->
              IF ij % nx < g.W THEN g.v[ij \div nx][ij % nx] ELSE NANV]]

InMask(a, k) == a.val[k] # NANV
IsClose(a, k1, k2) == a.val[k1] = a.val[k2]      \* values are well separated: _is_close is equality

\* ---- _calculate_regions, one pixel.  st = [regions, lookup, region].
\* Result: [st, merge] ; merge = <<lower, upper>> when _merge_regions is called, else <<>>
LabelPixelOp(a, st, ij) ==
  IF ~InMask(a, ij) THEN [st |-> [st EXCEPT !.regions[ij] = 0], merge |-> <<>>]
  ELSE
  LET nx == a.nx
      w0 == ij % nx > 0 /\ InMask(a, ij - 1) /\ IsClose(a, ij, ij - 1)
      s0 == ij >= nx /\ InMask(a, ij - nx) /\ IsClose(a, ij, ij - nx)
      sw == /\ a.c8 /\ ij >= nx /\ ~w0 /\ ij % nx > 0
            /\ InMask(a, ij - nx - 1) /\ IsClose(a, ij, ij - nx - 1)
      se == /\ a.c8 /\ a.mut # "nose" /\ ij >= nx /\ ~s0 /\ ij % nx < nx - 1
            /\ InMask(a, ij - nx + 1) /\ IsClose(a, ij, ij - nx + 1)
      matches_W == w0 \/ sw
      matches_S == s0 \/ se
      region_W == IF sw THEN st.regions[ij - nx - 1] ELSE IF w0 THEN st.regions[ij - 1] ELSE 0
      region_S == IF se THEN st.regions[ij - nx + 1] ELSE IF s0 THEN st.regions[ij - nx] ELSE 0
  IN IF matches_W /\ matches_S
     THEN LET lower_region == PMin(region_W, region_S)
              upper_region == PMax(region_W, region_S)
          IN [st |-> [st EXCEPT !.regions[ij] = lower_region],
              merge |-> IF lower_region # upper_region THEN <<lower_region, upper_region>> ELSE <<>>]
     ELSE IF matches_W THEN [st |-> [st EXCEPT !.regions[ij] = region_W], merge |-> <<>>]
     ELSE IF matches_S THEN [st |-> [st EXCEPT !.regions[ij] = region_S], merge |-> <<>>]
     ELSE [st |-> [st EXCEPT !.region = st.region + 1, !.regions[ij] = st.region + 1], merge |-> <<>>]

\* ---- _merge_regions, one iteration of its while-loop.  ms = [lookup, lower, upper, more]
\* (the resize of region_lookup is abstracted: lookup is a total function, 0 where never set)
MergeStepOp(a, ms) ==
  LET prev0  == ms.lookup[ms.upper]
      repeat == prev0 # 0 /\ prev0 # ms.lower /\ a.mut # "nochain"
      lower1 == IF repeat THEN PMin(ms.lower, prev0) ELSE ms.lower
      prev1  == IF repeat THEN PMax(ms.lower, prev0) ELSE prev0
  IN [lookup |-> [ms.lookup EXCEPT ![ms.upper] = lower1],
      lower  |-> lower1,
      upper  |-> IF repeat THEN prev1 ELSE ms.upper,
      more   |-> repeat]

RECURSIVE MergeLoop(_, _)
MergeLoop(a, ms) == LET m1 == MergeStepOp(a, ms) IN IF m1.more THEN MergeLoop(a, m1) ELSE m1.lookup
MergeRegions(a, lookup, lower, upper) ==
  MergeLoop(a, [lookup |-> lookup, lower |-> lower, upper |-> upper, more |-> TRUE])

\* ---- compaction: new_region_lookup[i] for i = 0..region (ids renumbered in order of their roots)
RECURSIVE CompactFrom(_, _, _, _, _)
CompactFrom(lookup, region, i, newl, new_region) ==
  IF i > region THEN newl
  ELSE LET target == lookup[i] IN
       IF target = 0
       THEN CompactFrom(lookup, region, i + 1, [newl EXCEPT ![i] = new_region], new_region + 1)
       ELSE CompactFrom(lookup, region, i + 1, [newl EXCEPT ![i] = newl[target]], new_region)
Compact(lookup, region) == CompactFrom(lookup, region, 0, [i \in DOMAIN lookup |-> 0], 0)

\* ---- whole _calculate_regions (for the judge)
RECURSIVE LabelFrom(_, _, _)
LabelFrom(a, st, ij) ==
  IF ij = a.n THEN st
  ELSE LET r == LabelPixelOp(a, st, ij)
           s1 == IF r.merge = <<>> THEN r.st
                 ELSE [r.st EXCEPT !.lookup = MergeRegions(a, r.st.lookup, r.merge[1], r.merge[2])]
       IN LabelFrom(a, s1, ij + 1)
LabelInit(a) == [regions |-> [ij \in 0..a.n-1 |-> 0], lookup |-> [i \in 0..a.n |-> 0], region |-> 0]
CalculateRegions(a) ==
  LET st == LabelFrom(a, LabelInit(a), 0)
      nl == Compact(st.lookup, st.region)
  IN [ij \in 0..a.n-1 |-> nl[st.regions[ij]]]

\* ---- _follow.  fs = [ij, forward, left, prev_forward, pass, npoints, points, visited, fin]
OrBit(v, b) == IF (v \div b) % 2 = 1 THEN v ELSE v + b
FollowInit(a, visited, ij, hole, pass, points) ==
  [ij |-> ij, forward |-> IF hole THEN -1 ELSE 1, left |-> IF hole THEN -a.nx ELSE a.nx,
   prev_forward |-> 0, pass |-> pass, npoints |-> 0, points |-> points, visited |-> visited, fin |-> FALSE]

\* the corner at which the boundary enters pixel ij when moving `forward`
Corner(a, ij, forward) ==
  LET i == ij % a.nx  j == ij \div a.nx IN
  IF forward = -1 THEN <<i + 1, j + 1>>
  ELSE IF forward = a.nx THEN <<i + 1, j>>
  ELSE IF forward = -a.nx THEN <<i, j + 1>>
  ELSE <<i, j>>

DiffRow(ij0, ij1, nx) == (ij0 \div nx) # (ij1 \div nx)
OutsideDomain(ij, n) == ij < 0 \/ ij >= n

\* one iteration of `while True`; region/hole/start_ij are fixed for the boundary
FollowStepOp(a, regions, fs, region, hole, start_ij) ==
  LET nx == a.nx  n == a.n
      start_forward == IF hole THEN -1 ELSE 1
      visited1 ==
        IF fs.pass = 1
        THEN IF fs.forward = 1 /\ ~hole
             THEN [fs.visited EXCEPT ![fs.ij] = OrBit(@, 1)]
             ELSE IF fs.forward = -1 /\ fs.ij + nx < n /\ a.mut # "novisit2"
                  THEN [fs.visited EXCEPT ![fs.ij + nx] = OrBit(@, 2)]
                  ELSE fs.visited
        ELSE fs.visited
      add == fs.prev_forward # fs.forward
      points1 == IF add /\ fs.pass = 1 THEN Append(fs.points, Corner(a, fs.ij, fs.forward)) ELSE fs.points
      npoints1 == IF add THEN fs.npoints + 1 ELSE fs.npoints
      ijnext == fs.ij + fs.forward
      ijnext_right == ijnext - fs.left
      right_EW == ~OutsideDomain(ijnext_right, n) /\ regions[ijnext_right] = region
      turn ==
        IF fs.forward = 1 \/ fs.forward = -1          \* facing E or W
        THEN IF DiffRow(fs.ij, ijnext, nx) THEN "Left"
             ELSE IF a.mut = "straightfirst"
                  THEN (IF regions[ijnext] = region THEN "Straight" ELSE IF right_EW THEN "Right" ELSE "Left")
             ELSE IF right_EW THEN "Right"
             ELSE IF regions[ijnext] = region THEN "Straight"
             ELSE "Left"
        ELSE IF OutsideDomain(ijnext, n) THEN "Left"    \* facing N or S
             ELSE IF ~DiffRow(ijnext, ijnext_right, nx) /\ regions[ijnext_right] = region THEN "Right"
             ELSE IF regions[ijnext] = region THEN "Straight"
             ELSE "Left"
      ij2 == IF turn = "Straight" THEN ijnext ELSE IF turn = "Right" THEN ijnext_right ELSE fs.ij
      forward2 == IF turn = "Straight" THEN fs.forward ELSE IF turn = "Left" THEN fs.left ELSE -fs.left
      left2 == IF turn = "Straight" THEN fs.left ELSE IF turn = "Left" THEN -fs.forward ELSE fs.forward
  IN [ij |-> ij2, forward |-> forward2, left |-> left2, prev_forward |-> fs.forward,
      pass |-> fs.pass, npoints |-> npoints1, points |-> points1, visited |-> visited1,
      fin |-> (ij2 = start_ij /\ forward2 = start_forward)]

\* the whole `while True` loop.  A boundary visits every (pixel, direction) state at most once before it is back
\* at its start, so it ends within 4n steps; `fuel` makes the operator total (fin stays FALSE when it runs out)
RECURSIVE FollowLoop(_, _, _, _, _, _, _)
FollowLoop(a, regions, fs, region, hole, start_ij, fuel) ==
  LET f1 == FollowStepOp(a, regions, fs, region, hole, start_ij) IN
  IF f1.fin \/ fuel = 0 THEN f1 ELSE FollowLoop(a, regions, f1, region, hole, start_ij, fuel - 1)
FollowFuel(a) == 4 * a.n + 4
\* second pass only (the first pass only counts the points): ring and visited flags, for the judge
Follow(a, regions, visited, ij, hole) ==
  LET f == FollowLoop(a, regions, FollowInit(a, visited, ij, hole, 1, <<>>), regions[ij], hole, ij, FollowFuel(a)) IN
  [region |-> regions[ij], points |-> Append(f.points, f.points[1]), visited |-> f.visited]

\* ---- _scan.  sc = [visited, region_done, polygons]
ExteriorStarts(a, regions, sc, ij) == (sc.visited[ij] % 2 = 0) /\ regions[ij] = sc.region_done + 1
HoleStarts(a, regions, sc, ij) ==
  /\ ij >= a.nx /\ (sc.visited[ij] \div 2) % 2 = 0
  /\ regions[ij] # regions[ij - a.nx] /\ regions[ij - a.nx] # 0

ScanPixelOp(a, regions, sc, ij) ==
  LET s1 == IF ExteriorStarts(a, regions, sc, ij)
            THEN LET f == Follow(a, regions, sc.visited, ij, FALSE) IN
                 [visited |-> f.visited, region_done |-> f.region,
                  polygons |-> Append(sc.polygons, [val |-> a.val[ij], rings |-> <<f.points>>])]
            ELSE sc
  IN IF HoleStarts(a, regions, s1, ij)
     THEN LET f == Follow(a, regions, s1.visited, ij - a.nx, TRUE) IN
          [visited |-> f.visited, region_done |-> s1.region_done,
           polygons |-> [s1.polygons EXCEPT ![f.region].rings = Append(@, f.points)]]
     ELSE s1
RECURSIVE ScanFrom(_, _, _, _)
ScanFrom(a, regions, sc, ij) ==
  IF ij = a.n THEN sc ELSE ScanFrom(a, regions, ScanPixelOp(a, regions, sc, ij), ij + 1)
ScanInit(a) == [visited |-> [ij \in 0..a.n-1 |-> 0], region_done |-> 0, polygons |-> <<>>]
\* the polygons of the whole call (for the judge)
Polygonize(a) == ScanFrom(a, CalculateRegions(a), ScanInit(a), 0).polygons
=============================================================================
