------------------------------- MODULE Session -------------------------------
(* DESIGN section 6: a USER SESSION - pipelines of public calls over a store of named rasters     *)
(* (slope -> reclassify -> zonal stats; proximity -> binary -> crop; ...).  The store, the heap    *)
(* and the effect of every call are Aliasing.tla's; this module only restricts the order of calls  *)
(* to a pipeline in which every stage consumes the result of the previous one.  It is the source   *)
(* of multi-call behaviours ("before/after comparison over any call sequence") replayed for C10;   *)
(* the same action properties hold along every pipeline.                                           *)
EXTENDS Aliasing

CONSTANT Pipelines          \* set of sequences of function names (all in FM)

VARIABLES pipe, pos
svars == <<objs, phase, last, ncalls, tok, nbuf, hist, pipe, pos>>

SInit == Init /\ pipe \in Pipelines /\ pos = 1

Feeds(args) == \* a stage takes the previous result as its first argument when that result is a raster in the store
  pos = 1 \/ last.res.kind # "raster" \/ ~Has(objs, last.res.id) \/ args[1] = last.res.id

Stage == /\ pos <= Len(pipe)
         /\ \E args \in [1..Arity(pipe[pos]) -> Ids] : Feeds(args) /\ Call(pipe[pos], args)
         /\ pos' = pos + 1 /\ UNCHANGED pipe

SNext == Stage \/ (Probe /\ UNCHANGED <<pipe, pos>>)
SSpec == SInit /\ [][SNext]_svars

SInputsUntouchedP == [][CalledStep => InputsUntouched(last'.f, last'.args, objs, objs') = "ok"]_svars
SNoAliasP == [][/\ CalledStep => NoAlias(last'.f, last'.args, objs', last'.res) = "ok"
                /\ ProbeStep  => ProbeOK(last.f, last.args, objs, objs', last.res) = "ok"]_svars
SIdentityKeptP == [][CalledStep => IdentityKept(last'.f, last'.args, objs, last'.res) = "ok"]_svars
SView == <<objs, phase, last, ncalls, tok, nbuf, pipe, pos>>
=============================================================================
