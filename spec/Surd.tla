-------------------------------- MODULE Surd --------------------------------
(* Exact order on the numbers A* works with (C14):                                        *)
(*     path costs        g = a + b*sqrt(2)            carried as <<a, b>>  (integers)      *)
(*     pop priorities    f = a + b*sqrt(2) + sqrt(n)  (n = squared pixel distance to goal) *)
(* No reals: the sign of  A + B*sqrt2 + sqrt(n1) - sqrt(n2)  is found by nested squaring.  *)
(* TLC integers are 32 bit and overflow is an error, not a wrap: the callers keep          *)
(* |A|,|B| <= 7 and n <= 30 for S4 (grids of <= 12 cells) and |A|,|B| <= 64 for S2.         *)
EXTENDS Integers

Sgn(x) == IF x > 0 THEN 1 ELSE IF x < 0 THEN -1 ELSE 0

\* sign of A + B*sqrt2
S2(A, B) == IF A >= 0 /\ B >= 0 THEN (IF A = 0 /\ B = 0 THEN 0 ELSE 1)
            ELSE IF A <= 0 /\ B <= 0 THEN -1
            ELSE IF A > 0 THEN Sgn(A*A - 2*B*B)          \* A > 0 > B : A > -B*sqrt2 <=> A^2 > 2B^2
            ELSE Sgn(2*B*B - A*A)                         \* B > 0 > A

\* sign of C + E*sqrt2 + sqrt(m), m >= 0
S3(C, E, m) == LET w == S2(C, E) IN
               IF w >= 0 THEN (IF w = 0 /\ m = 0 THEN 0 ELSE 1)
               ELSE S2(m - C*C - 2*E*E, -2*C*E)           \* sqrt(m) > -(C+E sqrt2) > 0  <=>  m > (C+E sqrt2)^2

\* sign of A + B*sqrt2 + sqrt(n1) - sqrt(n2), n1, n2 >= 0
S4(A, B, n1, n2) ==
  LET su == S2(A, B)            \* sign of u = A + B sqrt2
      sv == Sgn(n2 - n1)        \* sign of v = sqrt(n2) - sqrt(n1);  result = sign(u - v)
  IN IF su > sv THEN 1
     ELSE IF su < sv THEN -1
     ELSE IF su = 0 THEN 0
     ELSE \* same non-zero sign: compare u^2 with v^2 = n1 + n2 - sqrt(4 n1 n2)
          LET s == S3(A*A + 2*B*B - n1 - n2, 2*A*B, 4*n1*n2) IN
          IF su = 1 THEN s ELSE -s

\* ---- surd values <<a, b>> = a + b*sqrt2
SAdd(g, w) == <<g[1] + w[1], g[2] + w[2]>>
SCmp(g1, g2) == S2(g1[1] - g2[1], g1[2] - g2[2])          \* -1 / 0 / 1
SLess(g1, g2) == SCmp(g1, g2) < 0
\* compare f1 = g1 + sqrt(n1) with f2 = g2 + sqrt(n2)
FCmp(g1, n1, g2, n2) == S4(g1[1] - g2[1], g1[2] - g2[2], n1, n2)

\* ---- fixed points of the order (evaluated whenever a module extending Surd is loaded)
ASSUME /\ S2(7, -5) = -1 /\ S2(-7, 5) = 1 /\ S2(3, -2) = 1 /\ S2(-3, 2) = -1 /\ S2(0, 0) = 0
       /\ S2(17, -12) = 1 /\ S2(41, -29) = -1 /\ S2(-99, 70) = -1
       /\ S4(0, 0, 2, 2) = 0 /\ S4(1, 0, 1, 4) = 0 /\ S4(0, 1, 0, 2) = 0 /\ S4(0, -1, 8, 2) = 0
       /\ S4(1, 1, 1, 9) = 1        \* 1 + 1.414 + 1 - 3
       /\ S4(-1, 1, 2, 5) = -1      \* -1 + 1.414 + 1.414 - 2.236 = -0.408
       /\ S4(-1, 1, 2, 3) = 1       \* -1 + 1.414 + 1.414 - 1.732 = 0.096
       /\ S4(2, -1, 5, 8) = -1      \*  2 - 1.414 + 2.236 - 2.828 = -0.006
       /\ S4(3, -2, 1, 2) = -1      \*  3 - 2.828 + 1 - 1.414 = -0.243
       /\ FCmp(<<1, 1>>, 1, <<2, 0>>, 2) = 0
=============================================================================
