----------------------------- MODULE RegionsOps -----------------------------
(* Operators shared by Regions.tla (exhaustive model) and Regions_Judge.tla (judge of      *)
(* observations).  Transcription of xrspatial.zonal._area_connectivity (zonal.py:1322-1465) *)
(* with the implementation's own names: src_window / area_window (the clamped window and   *)
(* the *snapshot* of the labels under it), neighbor_matches, assigned_value, uid,          *)
(* assigned_values_min, and the global "replace" loops of the second pass.                 *)
(*                                                                                        *)
(* Environment record  g = [H, W, v, conn, mut]  (H, W, v, conn as in Components.tla;     *)
(* mut = "none" for the real algorithm, other strings select deliberately broken variants  *)
(* used as negative twins).                                                               *)
(* out : row -> (col -> Int): 0 = not yet labelled, NANV = NaN, > 0 = label.              *)
(* Values are integers far apart, so the closeness test (double precision) is equality.   *)
EXTENDS Components, Sequences, TLC

RMax(a, b) == IF a > b THEN a ELSE b
RMin(a, b) == IF a < b THEN a ELSE b

\* the window of cell (y, x) in the order of src_window[0..n-1]; border cells are clamped,
\* so the cell itself (and some neighbours twice) appear in the window of a border cell
Win(g, y, x) ==
  LET u == RMax(y - 1, 0)  d == RMin(y + 1, g.H - 1)
      l == RMax(x - 1, 0)  r == RMin(x + 1, g.W - 1)
  IN IF g.conn = 8
     THEN << <<u, l>>, <<y, l>>, <<d, l>>, <<u, x>>, <<d, x>>, <<u, r>>, <<y, r>>, <<d, r>> >>
     ELSE << <<y, l>>, <<u, x>>, <<d, x>>, <<y, r>> >>

\* neighbor_matches: window positions (ascending) whose source value equals val
\* the closeness test |src - val| <= atol + rtol*|val|, done in double precision (repo commit 8648623): on the
\* integer-valued, well separated values of the domain it is equality.  The two negative twins are the defects
\* the test had while it was evaluated in the raster's own integer dtype:
\*   "absmin" - abs() of the dtype's minimum wraps to a negative number, the tolerance is negative and a cell
\*              holding the minimum (played by the value 0 here) matches nothing, not even an equal neighbour
\*   "wrap64" - a 64-bit difference wraps: seen from value 1 the value 0 looks close (the relation is not symmetric)
CloseTo(g, val, src) ==
  CASE g.mut = "absmin" -> src = val /\ val # 0
    [] g.mut = "wrap64" -> src = val \/ (val = 1 /\ src = 0)
    [] OTHER -> src = val
NeighborMatches(g, win, val) ==
  SelectSeq([j \in 1..Len(win) |-> j],
            LAMBDA j : g.v[win[j][1]][win[j][2]] # NANV /\ CloseTo(g, val, g.v[win[j][1]][win[j][2]]))

\* area_window: snapshot of the labels under the window
AreaWindow(out, win) == [j \in 1..Len(win) |-> out[win[j][1]][win[j][2]]]

\* first pass: "check in has area already assigned" -> first positive label, 0 if none
RECURSIVE FirstAssigned(_, _, _)
FirstAssigned(aw, nm, k) ==
  IF k > Len(nm) THEN 0
  ELSE IF aw[nm[k]] > 0 THEN aw[nm[k]] ELSE FirstAssigned(aw, nm, k + 1)

\* one iteration of the first double loop.  st = [out, uid]
Label1Cell(g, st, y, x) ==
  LET val == g.v[y][x] IN
  IF val = NANV THEN [st EXCEPT !.out[y][x] = NANV]
  ELSE LET win == Win(g, y, x)
           nm  == NeighborMatches(g, win, val)
           assigned_value == FirstAssigned(AreaWindow(st.out, win), nm, 1)
       IN IF assigned_value > 0 /\ g.mut # "alwaysnew"
          THEN [st EXCEPT !.out[y][x] = assigned_value]
          ELSE [out |-> [st.out EXCEPT ![y][x] = st.uid], uid |-> st.uid + 1]

\* the two "replace" loops: every cell labelled `from` becomes `to`.
\* (TLCEval makes TLC build the new array at once instead of keeping a lazy function whose every access
\* re-evaluates the previous one - nested replaces would otherwise cost exponential time in the judge)
Replace(g, out, from, to, win) ==
  TLCEval([r \in 0..g.H-1 |-> [c \in 0..g.W-1 |->
     LET o == out[r][c] IN
     IF o = from /\ (g.mut # "localreplace" \/ \E j \in 1..Len(win) : win[j] = <<r, c>>) THEN to ELSE o]])

\* the walk over neighbor_matches of the second pass; amin = assigned_values_min (0 = None);
\* aw is the snapshot taken before the walk (it is NOT refreshed after a replace, as in the code)
RECURSIVE MergeWalk(_, _, _, _, _, _, _)
MergeWalk(g, out, win, aw, nm, k, amin) ==
  IF k > Len(nm) THEN out
  ELSE LET area_val == aw[nm[k]] IN
       IF amin # 0 /\ amin # area_val
       THEN IF amin > area_val
            THEN MergeWalk(g, Replace(g, out, amin, area_val, win), win, aw, nm, k + 1, area_val)
            ELSE IF g.mut = "noelse"
                 THEN MergeWalk(g, out, win, aw, nm, k + 1, amin)
                 ELSE MergeWalk(g, Replace(g, out, area_val, amin, win), win, aw, nm, k + 1, amin)
       ELSE MergeWalk(g, out, win, aw, nm, k + 1, IF amin = 0 THEN area_val ELSE amin)

\* one iteration of the second double loop
Merge2Cell(g, out, y, x) ==
  LET val == g.v[y][x] IN
  IF val = NANV \/ g.mut = "nopass2" THEN out
  ELSE LET win == Win(g, y, x) IN
       MergeWalk(g, out, win, AreaWindow(out, win), NeighborMatches(g, win, val), 1, 0)

\* ---- the whole function, for the judge: _area_connectivity(data, n)
ZeroOut(g) == [r \in 0..g.H-1 |-> [c \in 0..g.W-1 |-> 0]]
RECURSIVE Pass1(_, _, _)
Pass1(g, st, k) == IF k = g.H * g.W THEN st ELSE Pass1(g, Label1Cell(g, st, k \div g.W, k % g.W), k + 1)
RECURSIVE Pass2(_, _, _)
Pass2(g, out, k) == IF k = g.H * g.W THEN out ELSE Pass2(g, Merge2Cell(g, out, k \div g.W, k % g.W), k + 1)
AreaConnectivity(g) == Pass2(g, Pass1(g, [out |-> ZeroOut(g), uid |-> 1], 0).out, 0)
=============================================================================
