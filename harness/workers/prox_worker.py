"""Worker: runs the real proximity/allocation/direction on a list of jobs and prints one encoded
case per job (NDJSON).  Run with NUMBA_DISABLE_JIT=1 for interpreted mode (step events available),
without it for compiled mode.  stdin: {"jobs": [...]}.

job = {H, W, vals (H x W list; float or "nan"), xs, ys (ints), metric "E"|"M"|"T", max (float|null),
       targets (list; [] = default rule), events (bool), chunks ([rowchunks, colchunks] | null),
       exact (0/1), tag}
"""
import json
import math
import os
import sys
import warnings

warnings.filterwarnings("ignore")
import numpy as np
import xarray as xr

import xrspatial  # noqa
P = sys.modules["xrspatial.proximity"]

METRIC_NAME = {"E": "EUCLIDEAN", "M": "MANHATTAN", "T": "GREAT_CIRCLE"}
INTERP = os.environ.get("NUMBA_DISABLE_JIT") == "1"

_events = []
_overlaps = []
import dask.array as _da
_orig_overlap = _da.map_overlap


def _rec_overlap(func, *args, **kw):
    a0 = args[0]
    _overlaps.append({"depth": [int(kw.get("depth")[0]), int(kw.get("depth")[1])],
                      "boundary_nan": bool(isinstance(kw.get("boundary"), float) and np.isnan(kw.get("boundary"))),
                      "numblocks": [int(n) for n in a0.numblocks],
                      "same_chunks": bool(all(getattr(a, "chunks", None) == a0.chunks for a in args))})
    return _orig_overlap(func, *args, **kw)


_da.map_overlap = _rec_overlap
_orig = P._process_proximity_line
_enc = [None]


def _rec(source_line, xs, ys, pnx, pny, fwd, line_id, width, md, lp, nxs, nys, values, metric):
    _orig(source_line, xs, ys, pnx, pny, fwd, line_id, width, md, lp, nxs, nys, values, metric)
    enc = _enc[0]
    _events.append({"line": int(line_id), "fwd": bool(fwd),
                    "panX": [int(v) for v in pnx], "panY": [int(v) for v in pny],
                    "lp": [(-1 if (v < 0 or np.isnan(v)) else enc(float(v))) for v in lp],
                    "nx": [int(v) for v in nxs], "ny": [int(v) for v in nys]})


def bearing(dx, dy):
    if dx == 0 and dy == 0:
        return 0.0
    b = (90.0 - math.degrees(math.atan2(-dy, dx))) % 360.0
    return 360.0 if b == 0.0 else b


def run_job(j):
    H, W = j["H"], j["W"]
    vals = np.array([[np.nan if v == "nan" else (np.inf if v == "inf" else (-np.inf if v == "-inf" else float(v))) for v in row]
                     for row in j["vals"]], dtype=np.float64)
    if j.get("dtype"):
        # what the library sees is the raster AFTER the dtype cast: masks, value codes and allocation values
        # are all derived from that array
        vals = vals.astype(j["dtype"]).astype(np.float64)
    # "scale": the integer lattice coordinates are multiplied by a (possibly non-binary) cell size;
    # observed distances are mapped back to lattice units before encoding
    sc = float(j.get("scale", 1.0))
    xs = np.array(j["xs"], dtype=np.float64) * sc + float(j.get("xoff", 0.0))
    ys = np.array(j["ys"], dtype=np.float64) * sc + float(j.get("yoff", 0.0))
    metric = j["metric"]
    mx = j.get("max")
    targets = [(np.inf if t == "inf" else (-np.inf if t == "-inf" else t)) for t in (j.get("targets") or [])]
    tv = np.asarray(targets, dtype=np.float64)
    if len(targets) == 0:
        mask = (vals != 0) & np.isfinite(vals)
    else:
        mask = np.isin(vals, tv)
    # distance units
    ncell = H * W
    if metric == "T":
        gx = np.tile(xs, H)
        gy = np.repeat(ys, W)
        tabf = np.zeros((ncell, ncell), dtype=np.float32)
        for p in range(ncell):
            for q in range(ncell):
                tabf[p, q] = np.float32(P.great_circle_distance(gx[p], gx[q], gy[p], gy[q]))
        uniq = np.unique(np.concatenate([tabf.ravel(), np.array([0.0], dtype=np.float32)]))
        rank = {float(v): i for i, v in enumerate(uniq)}
        tab = [[rank[float(tabf[p, q])] for q in range(ncell)] for p in range(ncell)]

        def enc(p):
            k = int(np.argmin(np.abs(uniq.astype(np.float64) - p)))
            return k if abs(float(uniq[k]) - p) <= 1e-5 * max(1.0, p) else -2
        if mx is None:
            bound2, maxn = -1, -1
        else:
            u2 = uniq.astype(np.float64) ** 2
            bound2 = int(np.sum(u2 < 2.0 * mx * mx))
            maxn = int(np.sum(u2 <= mx * mx)) - 1
            maxn = max(maxn, 0)
    else:
        tab = []
        if metric == "E":
            def enc(p):
                p = p / sc
                n = int(round(p * p))
                return n if abs(p * p - n) <= 1e-4 * max(1.0, n) else -2
        else:
            def enc(p):
                p = p / sc
                m = int(round(p))
                return m * m if abs(p - m) <= 1e-4 * max(1.0, m) else -2
        if mx is None:
            bound2, maxn = -1, -1
        elif j.get("bound2") is not None:
            bound2, maxn = j["bound2"], j["maxn"]      # exact values from the driver (off-lattice max)
        else:
            bound2 = int(math.ceil(2.0 * mx * mx - 1e-12))
            maxn = int(math.floor(mx * mx + 1e-12))
    _enc[0] = enc
    kw = dict(distance_metric=METRIC_NAME[metric])
    if mx is not None:
        kw["max_distance"] = mx
    if len(targets):
        kw["target_values"] = list(targets)
    if j.get("dims"):
        kw["y"], kw["x"] = j["dims"]

    def mk():
        data = vals.copy()
        if j.get("dtype"):
            data = data.astype(j["dtype"])
        from harness.workers.layouts import apply_layout
        data = apply_layout(data, j.get("layout"))
        dy, dx = j.get("dims", ["y", "x"])
        r = xr.DataArray(data, dims=[dy, dx], coords={dy: ys.copy(), dx: xs.copy()})
        if j.get("chunks"):
            import dask.array as da
            if j.get("joint"):
                if _shared[0] is None:
                    _shared[0] = da.from_array(data, chunks=(tuple(j["chunks"][0]), tuple(j["chunks"][1])))
                r.data = _shared[0]
            else:
                r.data = da.from_array(data, chunks=(tuple(j["chunks"][0]), tuple(j["chunks"][1])))
        return r

    def comp(a):
        d = a.data
        if hasattr(d, "compute"):
            if j.get("joint") and _shared[0] is not None:
                # evaluate together with the same call on a SECOND raster that shares the dask array but has
                # other coordinates: the two lazy results must not interfere (graph key collisions)
                import dask
                other = _shared[1](a.name)
                d, _o = dask.compute(d, other.data, scheduler=j.get("scheduler", "synchronous"))
            else:
                d = d.compute(scheduler=j.get("scheduler", "synchronous"))
        return np.asarray(d)

    _shared = [None, None]

    def second(name):
        dy, dx = j.get("dims", ["y", "x"])
        r2 = xr.DataArray(_shared[0], dims=[dy, dx], coords={dy: ys * 3.0 + 11.0, dx: xs * 2.0 - 5.0})
        f = {"proximity": P.proximity, "allocation": P.allocation, "direction": P.direction}
        return f[_cur[0]](r2, **kw)
    _cur = ["proximity"]
    _shared[1] = second

    err = None
    evs = []
    try:
        want_ev = bool(j.get("events")) and INTERP and not j.get("chunks")
        if want_ev:
            P._process_proximity_line = _rec
        _events.clear()
        _overlaps.clear()
        rp = P.proximity(mk(), **kw)
        lazy_ok = (not j.get("chunks")) or type(rp.data).__module__.startswith("dask")
        p = comp(rp)
        evs = [dict(e) for e in _events]
        P._process_proximity_line = _orig
        _cur[0] = "allocation"
        a = comp(P.allocation(mk(), **kw))
        _cur[0] = "direction"
        d = comp(P.direction(mk(), **kw))
    except Exception as ex:  # the call itself failed
        P._process_proximity_line = _orig
        err = "%s: %s" % (type(ex).__name__, ex)
    case = {"H": H, "W": W, "img": [[int(bool(v)) for v in row] for row in mask],
            "xs": j["xs"], "ys": j["ys"], "metric": metric, "tab": tab, "bound2": bound2, "maxn": maxn,
            "events": evs, "exact": int(j.get("exact", 0)), "tag": j.get("tag", ""), "job": j}
    if err is not None:
        case["error"] = err
        return case
    # raster values as small integer codes (rank of the distinct non-NaN values); allocation is judged by VALUE:
    # it must be the value of a target cell lying at the reported distance (target values may repeat)
    distinct = sorted({float(v) for v in vals.ravel() if not np.isnan(v)})
    code = {v: i for i, v in enumerate(distinct)}
    tvals = {float(vals[r, c]) for r in range(H) for c in range(W) if mask[r, c]}
    case["vcode"] = [[(-1 if np.isnan(v) else code[float(v)]) for v in row] for row in vals]
    prox, alloc, dirs, dirT = [], [], [], []
    for r in range(H):
        pr, ar, dr, tr = [], [], [], []
        for c in range(W):
            v = float(p[r, c])
            pr.append(-1 if np.isnan(v) else enc(v))
            av = float(a[r, c])
            if np.isnan(av):
                ar.append(-1)
            else:
                # the allocation raster is float32 by design: a value is recognised through its single-precision
                # rounding; if several raster values round to it, prefer one carried by a target cell
                cands = [v for v in distinct if np.float32(v) == np.float32(av)]
                tcands = [v for v in cands if v in tvals]
                ar.append(code[(tcands or cands)[0]] if cands else -2)
            dv = float(d[r, c])
            if np.isnan(dv):
                dr.append(-1)
                tr.append([])
            else:
                dr.append(int(round(dv * 1000)))
                m = []
                for rr in range(H):
                    for cc in range(W):
                        if mask[rr, cc]:
                            b = bearing(xs[cc] - xs[c], ys[rr] - ys[r])
                            if abs(b - dv) <= 2e-3:
                                m.append(rr * W + cc)
                tr.append(m)
        prox.append(pr); alloc.append(ar); dirs.append(dr); dirT.append(tr)
    case.update({"prox": prox, "alloc": alloc, "dir": dirs, "dirT": dirT, "lazy_ok": bool(lazy_ok),
                 "overlap": (_overlaps[0] if _overlaps else {"depth": [-1, -1], "boundary_nan": False,
                                                            "numblocks": [0, 0], "same_chunks": False}),
                 "raw": {"prox": [[None if np.isnan(v) else float(v) for v in row] for row in p]}})
    return case


def main():
    jobs = json.load(sys.stdin)["jobs"]
    out = sys.stdout
    for j in jobs:
        try:
            c = run_job(j)
        except Exception as ex:   # e.g. the library's metric returned NaN: still one line per job
            P._process_proximity_line = _orig
            c = {"H": j["H"], "W": j["W"], "job": j, "tag": j.get("tag", ""),
                 "error": "observation could not be encoded: %s: %s" % (type(ex).__name__, str(ex)[:200])}
        out.write(json.dumps(c) + "\n")
    out.flush()


if __name__ == "__main__":
    main()
