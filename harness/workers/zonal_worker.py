"""Worker for C02 / C04: runs the real xrspatial.zonal.stats / crosstab on a list of jobs and prints one
encoded case per job (NDJSON, same order).  stdin: {"jobs": [...]}.

Codes (see spec/ZonalOps.tla): NINF=-1000000 < finite < PINF=1000000 < NAN=2000000; NONE=3000000 (no nodata).
Zone ids are carried doubled (id*2), values multiplied by the job's value scale `vs` (1 or 2).
A statistic is [num, den] in lowest terms; NaN = [0,0]; [1,0] = the float bridge found no admissible value.

stats job    = {fn:"stats", H, W, z, v, vs, zdt, vdt, nd, all, ids, stats, rt:"df"|"da", backend, steps, tag}
crosstab job = {fn:"crosstab", dim, H, W, z, v:[layer...], vs, zdt, vdt, cats, layer, nd, zall, zids, call, cids,
                agg, backend, steps, tag}
input variation (optional fields, the expected table does not depend on them):
  zlay / vlay  memory layout of the zones / values buffer: "C" | "F" (np.asfortranarray) | "T" (transposed view of a
               C array, axes swapped back) | "S" (every 2nd column of a wider array) | "R" (reversed view [::-1])
  zdt / vdt    any NumPy integer / float dtype name (the driver checks that the numbers fit)
  nd_raw       the nodata value handed to the library when it is a number the encoding cannot carry (fractional for
               an integer raster, negative for unsigned, beyond the dtype range); `nd` is then a code equal to no cell
  dims         names of the two spatial dimensions; catdim: name of the category dimension (3-D)
  layer        3-D: position of the category dimension, 0 | 1 | 2 | -1 | -2
  zmap         {code: float}: zone ids that the doubled-integer encoding cannot carry (ids a few 1e-9 apart); the
               codes are order-isomorphic to the ids, cells / zone_ids are decoded and the observed "zone" column is
               encoded through the table (exact match required)
  keys         stats: column names under which the reducers named in `stats` are registered (a dict stats_funcs of
               the worker's own callables); a key may be a built-in NAME carrying a different reducer
sequence job = {fn:"seq", share:"both"|"zones"|"values", steps:[job, job, ...]}: the steps are run one after the other
               on the SAME zones and/or values DataArray objects, whose buffers are edited in place to the content of
               the next step (share="zones": a new values object per step, and vice versa).  Output: {"seq":[case...]}
"""
import json
import math
import sys
import warnings
from fractions import Fraction

warnings.filterwarnings("ignore")
import numpy as np
import xarray as xr

import xrspatial  # noqa
Z = sys.modules["xrspatial.zonal"]

NINF, PINF, NAN, NONE, BADZ = -1000000, 1000000, 2000000, 3000000, 2999999
NANQ, BADQ = [0, 0], [1, 0]

USER_REDUCERS = {
    "dsum": lambda z: z.sum() * 2,
    "range": lambda z: z.max() - z.min(),
    "sumsq": lambda z: (z.astype(np.float64) ** 2).sum(),
    "n": lambda z: len(z),
}
# the user's own callables for every reducer of the family (used whenever stats_funcs is passed as a dict with `keys`)
OWN = {
    "mean": lambda z: z.sum() / len(z),
    "max": lambda z: z.max(),
    "min": lambda z: z.min(),
    "sum": lambda z: z.sum(),
    "std": lambda z: z.std(),
    "var": lambda z: z.var(),
    "count": lambda z: len(z),
}
OWN.update(USER_REDUCERS)
INT_STATS = {"max", "min", "sum", "count", "dsum", "range", "sumsq", "n"}
SCALE_POW = {"mean": 1, "max": 1, "min": 1, "sum": 1, "std": 2, "var": 2, "count": 0, "dsum": 1, "range": 1,
             "sumsq": 2, "n": 0}


def dec(code, scale):
    if code == NINF:
        return -np.inf
    if code == PINF:
        return np.inf
    if code == NAN:
        return np.nan
    return code / scale


def enc_val(x, scale):
    """raster value -> code (only used for recorded intermediate arrays)."""
    x = float(x)
    if math.isnan(x):
        return NAN
    if math.isinf(x):
        return PINF if x > 0 else NINF
    y = x * scale
    r = int(round(y))
    return r if abs(y - r) <= 1e-9 else BADZ


def enc_stat(name, x, vs, ncell):
    """float bridge: observed statistic -> [num, den] (exact_int / rational rules of DESIGN section 3)."""
    try:
        x = float(x)
    except (TypeError, ValueError):
        return BADQ
    if math.isnan(x):
        return NANQ
    if math.isinf(x):
        return BADQ
    if name == "std":
        x = x * x
    y = x * (vs ** SCALE_POW[name])
    tol = 1e-9 * max(1.0, abs(y))
    if name in INT_STATS:
        r = int(round(y))
        return [r, 1] if abs(y - r) <= tol else BADQ
    D = ncell if name == "mean" else ncell * ncell
    fr = Fraction(y).limit_denominator(max(1, D))
    if abs(float(fr) - y) <= tol:
        return [fr.numerator, fr.denominator]
    return BADQ


def enc_pct(x, ncell):
    x = float(x)
    if math.isnan(x):
        return NANQ
    if math.isinf(x):
        return BADQ
    fr = Fraction(x).limit_denominator(max(1, ncell))
    if abs(float(fr) - x) <= 1e-9 * max(1.0, abs(x)):
        return [fr.numerator, fr.denominator]
    return BADQ


_ZMAP = {}       # code -> id of the current job (see `zmap`), and its inverse
_ZINV = {}


def set_zmap(j):
    _ZMAP.clear()
    _ZINV.clear()
    for k, v in (j.get("zmap") or {}).items():
        _ZMAP[int(k)] = float(v)
        _ZINV[float(v)] = int(k)


def enc_zone(x):
    try:
        x = float(x)
    except (TypeError, ValueError):
        return BADZ
    if not math.isfinite(x):
        return BADZ
    if _ZMAP:
        return _ZINV.get(x, BADZ)
    y = 2 * x
    r = int(round(y))
    return r if abs(y - r) <= 1e-9 else BADZ


def mk_zones(codes, dtype, shape):
    if not _ZMAP:
        return mk_array(codes, 2, dtype, shape)
    a = np.array([_ZMAP[c] if c in _ZMAP else dec(c, 2) for c in codes], dtype=np.float64).reshape(shape)
    return a.astype(dtype)


def zone_ids_arg(codes, as_int):
    if not _ZMAP:
        return ids_arg(codes, 2, as_int)
    return [_ZMAP[c] for c in codes]


def mk_array(codes, scale, dtype, shape):
    a = np.array([dec(c, scale) for c in codes], dtype=np.float64).reshape(shape)
    return a.astype(dtype)


def relayout(a, lay):
    """same numbers, different buffer."""
    if lay in (None, "C"):
        return np.ascontiguousarray(a)
    if lay == "F":
        return np.asfortranarray(a)
    if lay == "T":          # transposed view of a C-ordered array, axes swapped back
        return np.ascontiguousarray(a.transpose()).transpose()
    if lay == "S":          # every 2nd column of a wider array
        wide = np.full(a.shape[:-1] + (2 * a.shape[-1],), 3, dtype=a.dtype)
        wide[..., ::2] = a
        return wide[..., ::2]
    if lay == "R":          # reversed view
        return np.ascontiguousarray(a[::-1])[::-1]
    raise ValueError(lay)


def ids_arg(codes, scale, as_int):
    out = []
    for c in codes:
        x = c / scale
        out.append(int(x) if (as_int and float(x).is_integer()) else float(x))
    return out


def nodata_arg(code, vs, as_int, raw=None):
    if raw is not None:
        return raw          # int (any size) or float, exactly as the driver wrote it
    if code == NONE:
        return None
    x = dec(code, vs)
    if as_int and math.isfinite(x) and float(x).is_integer():
        return int(x)
    return float(x)


def wrap(a, backend):
    if backend == "dask":
        import dask.array as da
        return da.from_array(a, chunks=a.shape)
    return a


# ---------------------------------------------------------------- recorders (plain-Python helpers of zonal.py)
_rec = {"on": False, "sas": [], "single": [], "strides": []}
_orig_sas = Z._sort_and_stride
_orig_single = Z._single_zone_crosstab_2d
_orig_strides = Z._strides


def _sas(zones, values, unique_zones):
    r = _orig_sas(zones, values, unique_zones)
    if _rec["on"]:
        _rec["sas"].append(([int(i) + 1 for i in r[0]], [int(b) for b in r[2]]))
    return r


def _strides(flat, uniq):
    r = _orig_strides(flat, uniq)
    if _rec["on"]:
        _rec["strides"].append([int(b) for b in r])
    return r


def _single(zone_values, unique_cats, cat_ids, nodata_values, crosstab_dict):
    if not _rec["on"]:
        return _orig_single(zone_values, unique_cats, cat_ids, nodata_values, crosstab_dict)
    zv = np.array(zone_values, copy=True)
    n0 = len(_rec["strides"])
    _orig_single(zone_values, unique_cats, cat_ids, nodata_values, crosstab_dict)
    breaks = _rec["strides"][-1] if len(_rec["strides"]) > n0 else None
    counts = [int(crosstab_dict[c][-1]) for c in unique_cats if c in cat_ids]
    _rec["single"].append((zv, breaks, counts))


Z._sort_and_stride = _sas
Z._single_zone_crosstab_2d = _single
Z._strides = _strides


def start_rec(on):
    _rec["on"] = bool(on)
    _rec["sas"] = []
    _rec["single"] = []
    _rec["strides"] = []


# ---------------------------------------------------------------- stats
def inplace(obj, new):
    """edit the buffer of the DataArray `obj` in place so that it holds the numbers of `new` (only the cells that
    differ are written; the object, its array and its memory stay the same)."""
    dst = obj.data
    diff = ~((dst == new) | ((dst != dst) & (new != new)))
    dst[diff] = new[diff]


def stats_inputs(j, held=None, share=""):
    H, W, vs = j["H"], j["W"], j["vs"]
    backend = j.get("backend", "numpy")
    dims = list(j.get("dims") or ["y", "x"])
    za = mk_zones(j["z"], j["zdt"], (H, W))
    va = mk_array(j["v"], vs, j["vdt"], (H, W))
    if held and share in ("both", "zones"):
        zones = held[0]
        inplace(zones, za)
    else:
        zones = xr.DataArray(wrap(relayout(za, j.get("zlay")), backend), dims=dims)
    if held and share in ("both", "values"):
        values = held[1]
        inplace(values, va)
    else:
        values = xr.DataArray(wrap(relayout(va, j.get("vlay")), backend), dims=dims)
    return zones, values


def run_stats(j, held=None, share=""):
    set_zmap(j)
    H, W, vs = j["H"], j["W"], j["vs"]
    n = H * W
    zint = j["zdt"].startswith("int")
    vint = j["vdt"].startswith("int")
    dims = list(j.get("dims") or ["y", "x"])
    names = list(j["stats"])
    keys = list(j.get("keys") or names)
    if j.get("keys"):
        sf = {k: OWN[s] for k, s in zip(keys, names)}
    elif any(s in USER_REDUCERS for s in names):
        sf = {s: (USER_REDUCERS[s] if s in USER_REDUCERS else Z._DEFAULT_STATS[s]) for s in names}
    else:
        sf = names
    kw = dict(stats_funcs=sf, nodata_values=nodata_arg(j["nd"], vs, vint, j.get("nd_raw")))
    if not j["all"]:
        kw["zone_ids"] = zone_ids_arg(j["ids"], zint)
    if j["rt"] == "da":
        kw["return_type"] = "xarray.DataArray"
    backend = j.get("backend", "numpy")
    zones, values = stats_inputs(j, held, share)
    if held is not None:
        held[:] = [zones, values]
    case = {"n": n, "z": j["z"], "v": j["v"], "nd": j["nd"], "all": bool(j["all"]), "ids": j["ids"],
            "stats": names, "rt": j["rt"], "rows": [], "tab": [], "ras": [], "steps": 0, "si": [], "zb": [],
            "job": j, "tag": j.get("tag", "")}
    steps = bool(j.get("steps")) and backend == "numpy"
    start_rec(steps)
    try:
        res = Z.stats(zones, values, **kw)
        if backend == "dask":
            res = res.compute(scheduler="synchronous")
    except Exception as ex:
        start_rec(False)
        case["error"] = "%s: %s" % (type(ex).__name__, ex)
        return case
    sas = list(_rec["sas"])
    start_rec(False)
    if j["rt"] == "df":
        res = res.reset_index(drop=True)
        cols = list(res.columns)
        if cols != ["zone"] + keys:
            case["error"] = "columns %r" % (cols,)
            return case
        case["rows"] = [enc_zone(x) for x in res["zone"].tolist()]
        case["tab"] = [[enc_stat(s, x, vs, n) for x in res[k].tolist()] for k, s in zip(keys, names)]
    else:
        data = np.asarray(res.data)
        if data.shape != (len(names), H, W) or list(res.coords["stats"].values) != keys \
                or list(res.dims) != ["stats"] + dims:
            case["error"] = "raster shape %r" % (data.shape,)
            return case
        case["ras"] = [[enc_stat(s, x, vs, n) for x in data[k].ravel().tolist()] for k, s in enumerate(names)]
    if steps and len(sas) == 1:
        case["steps"] = 1
        case["si"], case["zb"] = sas[0]
    return case


# ---------------------------------------------------------------- crosstab
def run_crosstab(j, held=None, share=""):
    set_zmap(j)
    H, W, vs, dim = j["H"], j["W"], j["vs"], j["dim"]
    n = H * W
    zint = j["zdt"].startswith("int")
    vint = j["vdt"].startswith("int")
    za = mk_zones(j["z"], j["zdt"], (H, W))
    dims = list(j.get("dims") or ["y", "x"])
    catdim = j.get("catdim") or "cat"
    backend = j.get("backend", "numpy")
    cats = list(j.get("cats") or [])
    kw = dict(agg=j["agg"], nodata_values=nodata_arg(j["nd"], vs, vint, j.get("nd_raw")))
    if not j["zall"]:
        kw["zone_ids"] = zone_ids_arg(j["zids"], zint)
    reuse_v = bool(held) and share in ("both", "values")
    if dim == 2:
        va = mk_array(j["v"][0], vs, j["vdt"], (H, W))
        if reuse_v:
            values = held[1]
            inplace(values, va)
        else:
            values = xr.DataArray(wrap(relayout(va, j.get("vlay")), backend), dims=dims)
        if not j["call"]:
            kw["cat_ids"] = ids_arg(j["cids"], vs, vint)
    else:
        va = np.stack([mk_array(l, vs, j["vdt"], (H, W)) for l in j["v"]])
        layer = j.get("layer", 0)
        pos = layer % 3                      # where the category dimension sits: first, middle or last
        va = np.moveaxis(va, 0, pos)
        vdims = list(dims)
        vdims.insert(pos, catdim)
        if reuse_v:
            values = held[1]
            inplace(values, va)
        else:
            values = xr.DataArray(wrap(relayout(va, j.get("vlay")), backend), dims=vdims, coords={catdim: cats})
        if layer != 0 or j.get("layer_explicit"):
            kw["layer"] = layer
        if not j["call"]:
            kw["cat_ids"] = [int(c) for c in j["cids"]]
    if held and share in ("both", "zones"):
        zones = held[0]
        inplace(zones, za)
    else:
        zones = xr.DataArray(wrap(relayout(za, j.get("zlay")), backend), dims=dims)
    if held is not None:
        held[:] = [zones, values]
    case = {"dim": dim, "n": n, "z": j["z"], "vs": j["v"], "cats": cats, "nd": j["nd"],
            "zall": bool(j["zall"]), "zids": j["zids"], "call": bool(j["call"]), "cids": j["cids"], "agg": j["agg"],
            "rows": [], "cols": [], "tab": [], "steps": 0, "si": [], "ev": [], "job": j, "tag": j.get("tag", "")}
    steps = bool(j.get("steps")) and backend == "numpy"
    start_rec(steps)
    try:
        df = Z.crosstab(zones, values, **kw)
        if backend == "dask":
            df = df.compute(scheduler="synchronous")
    except Exception as ex:
        start_rec(False)
        case["error"] = "%s: %s" % (type(ex).__name__, ex)
        return case
    sas, single = list(_rec["sas"]), list(_rec["single"])
    start_rec(False)
    df = df.reset_index(drop=True)
    cols = list(df.columns)
    if not cols or cols[0] != "zone":
        case["error"] = "columns %r" % (cols,)
        return case
    case["rows"] = [enc_zone(x) for x in df["zone"].tolist()]
    colcodes = []
    for c in cols[1:]:
        colcodes.append(enc_val(c, vs) if dim == 2 else (int(c) if float(c).is_integer() else BADZ))
    case["cols"] = colcodes
    tab = []
    for k in range(len(df)):
        row = []
        for m in range(1, len(cols)):
            x = df.iloc[k, m]
            if dim == 2 and j["agg"] == "percentage":
                row.append(enc_pct(x, n))
            elif dim == 2:
                row.append(enc_stat("count", x, vs, n))
            else:
                row.append(enc_stat(j["agg"], x, vs, n))
        tab.append(row)
    case["tab"] = tab
    if steps and len(sas) == 1 and dim == 2 and all(b is not None for _, b, _ in single):
        case["steps"] = 1
        case["si"] = sas[0][0]
        case["ev"] = [{"zv": [enc_val(x, vs) for x in zv.tolist()], "breaks": b, "counts": c}
                      for zv, b, c in single]
    elif steps and len(sas) == 1:
        case["steps"] = 1
        case["si"] = sas[0][0]
    return case


def main():
    jobs = json.load(sys.stdin)["jobs"]
    out = sys.stdout
    for j in jobs:
        try:
            if j["fn"] == "seq":
                held, cs = [], []
                for st in j["steps"]:
                    fn = run_stats if st["fn"] == "stats" else run_crosstab
                    cs.append(fn(st, held, j["share"]))
                case = {"seq": cs, "job": j}
            else:
                case = run_stats(j) if j["fn"] == "stats" else run_crosstab(j)
        except Exception as ex:  # worker-side failure: reported as machinery problem by the driver
            case = {"worker_error": "%s: %s" % (type(ex).__name__, ex), "job": j}
        out.write(json.dumps(case, separators=(",", ":")) + "\n")
    out.flush()


if __name__ == "__main__":
    main()
