"""Worker for C15: runs the real (compiled) xrspatial.experimental.polygonize on a list of jobs and
prints one encoded case per job (NDJSON) in the encoding of spec/Polygonize_Judge.tla.
stdin: {"jobs": [...]}.  Must run compiled (polygonize's _is_close breaks with NUMBA_DISABLE_JIT).

job = {H, W, conn, raw (H x W integer codes), vscale (value = code / vscale), dtype,
       mask (H x W 0/1 | null), mdtype ("bool"|"int32"|"float64"|"uint8"),
       tr (6 integer numerators | null), tden (denominator of the transform),
       regs (bool: also drive the compiled _calculate_regions), idx, base, maskenum, steps, tag}
   or {merge_seq ([[lower, upper], ...]), m (largest id), size0 (initial lookup size)}: direct drive
   of the compiled _merge_regions.
Python only runs the code and encodes; every clause is decided by TLC.
"""
import json
import os
import sys
import warnings

warnings.filterwarnings("ignore")
import numpy as np
import xarray as xr

import xrspatial  # noqa
import xrspatial.experimental.polygonize  # noqa
PZ = sys.modules["xrspatial.experimental.polygonize"]

BAD = -1000000


def to_int(x, scale):
    v = float(x) * scale
    if not np.isfinite(v) or v != round(v) or abs(v) > 900000:
        return BAD
    return int(round(v))


from harness.workers.regions_worker import build_array  # noqa: E402  (same array builder for both checks)


def run_merge_job(j):
    """direct drive of the compiled _merge_regions with a sequence of merge(lower, upper) calls"""
    m = j["m"]
    case = {"m": m, "seq": j["merge_seq"], "tag": j.get("tag", "")}
    try:
        lookup = np.zeros(j.get("size0", 64), dtype=PZ._regions_dtype)
        for lo, hi in j["merge_seq"]:
            lookup = PZ._merge_regions(lookup, lo, hi)
        out = [int(x) for x in lookup[:m + 1]]
        out += [0] * (m + 1 - len(out))
        case["lookup"] = out
    except Exception as ex:
        case["error"] = "%s: %s" % (type(ex).__name__, str(ex)[:300])
    return case


def run_job(j):
    if "merge_seq" in j:
        return run_merge_job(j)
    H, W = j["H"], j["W"]
    vscale = j.get("vscale", 1)
    dtype = j.get("dtype", "int64")
    valmap = j.get("valmap")
    layout = j.get("layout")
    if valmap:
        # the cell values are valmap[str(code)] (extreme values of the dtype); TLC only sees the codes
        values = build_array(j["raw"], dtype, valmap, layout, nan_code=None)
        back = {}
        for code, sv in valmap.items():
            back[np.dtype(dtype).type(float(sv) if np.dtype(dtype).kind == "f" else int(sv)).item()] = int(code)
    else:
        values = build_array(j["raw"], dtype, {str(v): repr(v / vscale) if np.dtype(dtype).kind == "f" else str(v // vscale)
                                               for row in j["raw"] for v in row}, layout, nan_code=None)
        back = None
    raster = xr.DataArray(values, dims=["y", "x"])
    m = j.get("mask")
    mask_np = None
    mask_da = None
    if m is not None:
        mask_np = build_array(m, j.get("mdtype", "bool"), None, layout, nan_code=None)
        mask_da = xr.DataArray(mask_np, dims=["y", "x"])
    tr = j.get("tr")
    tden = j.get("tden", 1)
    tr_arr = None if tr is None else np.array(tr, dtype=np.float64) / tden
    conn = j["conn"]
    case = {"H": H, "W": W, "conn": conn, "raw": j["raw"],
            "mask": m if m is not None else [[1] * W for _ in range(H)],
            "tr": tr if tr is not None else [1, 0, 0, 0, 1, 0],
            "idx": j.get("idx", -1), "base": j.get("base", []), "maskenum": j.get("maskenum", 0),
            "steps": int(j.get("steps", 1)), "tag": j.get("tag", ""), "dtype": dtype,
            "hasmask": 0 if m is None else 1, "hastr": 0 if tr is None else 1, "tden": tden, "job": j}
    try:
        col, polys = PZ.polygonize(raster, mask=mask_da, connectivity=conn, transform=tr_arr)
        out = []
        if len(col) != len(polys):
            raise RuntimeError("column has %d entries, %d polygons" % (len(col), len(polys)))
        for k in range(len(polys)):
            rings = []
            for ring in polys[k]:
                ring = np.asarray(ring)
                if ring.ndim != 2 or ring.shape[1] != 2:
                    raise RuntimeError("ring %d of polygon %d has shape %s" % (len(rings), k, ring.shape))
                rings.append([[to_int(p[0], tden), to_int(p[1], tden)] for p in ring])
            if back is not None:
                cv = col[k].item() if hasattr(col[k], "item") else col[k]
                out.append({"val": back.get(cv, BAD), "rings": rings})
            else:
                out.append({"val": to_int(col[k], vscale), "rings": rings})
        case["polys"] = out
        regs = []
        if j.get("regs"):
            v2, m2 = values, mask_np
            nx, ny = W, H
            if nx == 1:       # the single-column workaround of _polygonize_numpy
                nx = 2
                v2 = np.hstack((v2, np.empty_like(v2)))
                if m2 is not None:
                    m2 = np.hstack((m2, np.zeros_like(m2)))
                else:
                    m2 = np.zeros_like(v2, dtype=bool)
                    m2[:, 0] = True
            r = PZ._calculate_regions(v2.ravel(), None if m2 is None else m2.ravel(), conn == 8, nx, ny)
            regs = [int(x) for x in r]
        case["regs"] = regs
    except Exception as ex:
        case["error"] = "%s: %s" % (type(ex).__name__, str(ex)[:300])
    return case


def signature(j):
    if "merge_seq" in j:
        return ("merge",)
    return (j.get("dtype", "int64"), j.get("mdtype", "bool") if j.get("mask") is not None else None,
            j.get("tr") is not None, bool(j.get("regs")), j.get("layout") or "C", bool(j.get("valmap")))


def _child(jobs, start, conn):
    # compile every specialisation the remaining jobs need before the first result is due, so that
    # afterwards a job that takes long is a job that hangs (not a JIT compilation)
    seen = set()
    for k in range(start, len(jobs)):
        sg = signature(jobs[k])
        if sg in seen:
            continue
        seen.add(sg)
        j = jobs[k]
        if "merge_seq" in j:
            run_job({"merge_seq": [[1, 2]], "m": 2, "size0": 64})
        else:
            c0 = j["raw"][0][0]
            w = dict(j, H=2, W=2, raw=[[c0, c0], [c0, c0]], idx=-1)
            if j.get("mask") is not None:
                w["mask"] = [[1, 1], [1, 1]]
            run_job(w)
    conn.send((-1, len(seen)))
    for k in range(start, len(jobs)):
        conn.send((k, run_job(jobs[k])))
    conn.close()


def timeout_case(j, secs):
    if "merge_seq" in j:
        return {"m": j["m"], "seq": j["merge_seq"], "tag": j.get("tag", ""),
                "error": "Timeout: _merge_regions did not return within %ds" % secs}
    H, W = j["H"], j["W"]
    return {"H": H, "W": W, "conn": j["conn"], "raw": j["raw"], "mask": j.get("mask"), "tr": j.get("tr"),
            "dtype": j.get("dtype", "int64"), "tag": j.get("tag", ""), "timeout": 1, "job": j,
            "error": "Timeout: polygonize did not return within %ds (boundary following does not terminate?)" % secs}


def main():
    """The jobs run in a forked child; the parent watches for progress so that a call that never returns
    (a boundary that is never closed) becomes an observation instead of hanging the check."""
    import multiprocessing as mp
    jobs = json.load(sys.stdin)["jobs"]
    out = sys.stdout
    ctx = mp.get_context("fork")
    nsig = len(set(signature(j) for j in jobs))
    first_wait = float(os.environ.get("VERIF_PZ_FIRST_WAIT", str(300 + 100 * nsig)))   # import + JIT compilation
    next_wait = float(os.environ.get("VERIF_PZ_NEXT_WAIT", "300"))
    k = 0
    timeouts = 0
    while k < len(jobs):
        if timeouts >= 2:
            # give up on the rest: they are reported as not run (the driver ignores them)
            for j in jobs[k:]:
                out.write(json.dumps({"skipped": 1, "tag": j.get("tag", "")}) + "\n")
            break
        pc, cc = ctx.Pipe(duplex=False)
        proc = ctx.Process(target=_child, args=(jobs, k, cc))
        proc.start()
        cc.close()
        wait = first_wait
        while k < len(jobs):
            try:
                ready = pc.poll(wait)
            except Exception:
                ready = False
            if not ready:
                proc.kill()
                proc.join()
                out.write(json.dumps(timeout_case(jobs[k], int(wait)), separators=(",", ":")) + "\n")
                k += 1
                timeouts += 1
                break
            try:
                kk, case = pc.recv()
            except EOFError:
                proc.join()
                if k < len(jobs):
                    out.write(json.dumps(dict(timeout_case(jobs[k], 0), error="worker child died (exit %s)"
                                              % proc.exitcode), separators=(",", ":")) + "\n")
                    k += 1
                    timeouts += 1
                break
            wait = next_wait
            if kk < 0:
                continue            # warm-up finished
            out.write(json.dumps(case, separators=(",", ":")) + "\n")
            k = kk + 1
        else:
            proc.join()
    out.flush()


if __name__ == "__main__":
    main()
