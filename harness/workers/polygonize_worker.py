"""Worker for C15: runs the real (compiled) xrspatial.experimental.polygonize on a list of jobs and
prints one encoded case per job (NDJSON) in the encoding of spec/Polygonize_Judge.tla.
stdin: {"jobs": [...]}.  Must run compiled (polygonize's _is_close breaks with NUMBA_DISABLE_JIT).

job = {H, W, conn, raw (H x W integer codes), vscale (value = code / vscale), dtype,
       mask (H x W 0/1 | null), mdtype ("bool"|"int32"|"float64"|"uint8"),
       tr (6 integer numerators | null), tden (denominator of the transform),
       regs (bool: also drive the compiled _calculate_regions), idx, base, maskenum, steps, tag}
   or {merge_seq ([[lower, upper], ...]), m (largest id), size0 (initial lookup size)}: direct drive
   of the compiled _merge_regions.
Python only runs the code and encodes; every clause is decided by TLC.
"""
import json
import sys
import warnings

warnings.filterwarnings("ignore")
import numpy as np
import xarray as xr

import xrspatial  # noqa
import xrspatial.experimental.polygonize  # noqa
PZ = sys.modules["xrspatial.experimental.polygonize"]

BAD = -1000000


def to_int(x, scale):
    v = float(x) * scale
    if not np.isfinite(v) or v != round(v) or abs(v) > 900000:
        return BAD
    return int(round(v))


def run_merge_job(j):
    """direct drive of the compiled _merge_regions with a sequence of merge(lower, upper) calls"""
    m = j["m"]
    case = {"m": m, "seq": j["merge_seq"], "tag": j.get("tag", "")}
    try:
        lookup = np.zeros(j.get("size0", 64), dtype=PZ._regions_dtype)
        for lo, hi in j["merge_seq"]:
            lookup = PZ._merge_regions(lookup, lo, hi)
        out = [int(x) for x in lookup[:m + 1]]
        out += [0] * (m + 1 - len(out))
        case["lookup"] = out
    except Exception as ex:
        case["error"] = "%s: %s" % (type(ex).__name__, str(ex)[:300])
    return case


def run_job(j):
    if "merge_seq" in j:
        return run_merge_job(j)
    H, W = j["H"], j["W"]
    vscale = j.get("vscale", 1)
    dtype = j.get("dtype", "int64")
    values = (np.array(j["raw"], dtype=np.float64) / vscale).astype(dtype)
    raster = xr.DataArray(values, dims=["y", "x"])
    m = j.get("mask")
    mask_np = None
    mask_da = None
    if m is not None:
        mask_np = np.array(m).astype(j.get("mdtype", "bool"))
        mask_da = xr.DataArray(mask_np, dims=["y", "x"])
    tr = j.get("tr")
    tden = j.get("tden", 1)
    tr_arr = None if tr is None else np.array(tr, dtype=np.float64) / tden
    conn = j["conn"]
    case = {"H": H, "W": W, "conn": conn, "raw": j["raw"],
            "mask": m if m is not None else [[1] * W for _ in range(H)],
            "tr": tr if tr is not None else [1, 0, 0, 0, 1, 0],
            "idx": j.get("idx", -1), "base": j.get("base", []), "maskenum": j.get("maskenum", 0),
            "steps": int(j.get("steps", 1)), "tag": j.get("tag", ""), "dtype": dtype,
            "hasmask": 0 if m is None else 1, "hastr": 0 if tr is None else 1, "tden": tden}
    try:
        col, polys = PZ.polygonize(raster, mask=mask_da, connectivity=conn, transform=tr_arr)
        out = []
        if len(col) != len(polys):
            raise RuntimeError("column has %d entries, %d polygons" % (len(col), len(polys)))
        for k in range(len(polys)):
            rings = []
            for ring in polys[k]:
                ring = np.asarray(ring)
                if ring.ndim != 2 or ring.shape[1] != 2:
                    raise RuntimeError("ring %d of polygon %d has shape %s" % (len(rings), k, ring.shape))
                rings.append([[to_int(p[0], tden), to_int(p[1], tden)] for p in ring])
            out.append({"val": to_int(col[k], vscale), "rings": rings})
        case["polys"] = out
        regs = []
        if j.get("regs"):
            v2, m2 = values, mask_np
            nx, ny = W, H
            if nx == 1:       # the single-column workaround of _polygonize_numpy
                nx = 2
                v2 = np.hstack((v2, np.empty_like(v2)))
                if m2 is not None:
                    m2 = np.hstack((m2, np.zeros_like(m2)))
                else:
                    m2 = np.zeros_like(v2, dtype=bool)
                    m2[:, 0] = True
            r = PZ._calculate_regions(v2.ravel(), None if m2 is None else m2.ravel(), conn == 8, nx, ny)
            regs = [int(x) for x in r]
        case["regs"] = regs
    except Exception as ex:
        case["error"] = "%s: %s" % (type(ex).__name__, str(ex)[:300])
    return case


def main():
    jobs = json.load(sys.stdin)["jobs"]
    out = sys.stdout
    for j in jobs:
        out.write(json.dumps(run_job(j), separators=(",", ":")) + "\n")
    out.flush()


if __name__ == "__main__":
    main()
