"""Worker (C05 layer 1): drives the compiled status-structure helpers of xrspatial.viewshed directly
(_create_status_struct, _insert_into_tree, _delete_from_tree, _find_max_value_within_key) along a given
operation sequence and dumps the raw arrays after every operation.

stdin: {"jobs": [job...]};  job = {"n": rows, "ops": [op...], "tag": str}
  op = ["I", key, g0, g1, g2, a0, a1, a2, [[qkey, ang, g], ...]]   insert (row id popped from a free stack as
                                                                    the sweep does), then answer the queries
       ["D", key, [[qkey, ang, g], ...]]                             delete by key (freed row pushed back)
All numbers are small integers (exact in float64; angle differences are powers of two so that the
code's float interpolation is exact).  Output per job: {"n", "mode": "int", "tag", "events": [...]}, event =
  {"op": "N"|"I"|"D", "id", "key", "v": [g0,g1,g2,a0,a1,a2], "deleted", "root",
   "rows": [[key,g0,g1,g2,a0,a1,a2,mx,color,left,right,parent] per row, NIL row last],
   "qs": [[qkey, ang, g, res, []]]}   res = 1 iff the returned value > g
The first event "N" is the state left by _create_status_struct.  SMALLEST_GRAD is encoded as -1000.
"""
import json
import sys
import warnings

warnings.filterwarnings("ignore")
import numpy as np

import xrspatial  # noqa
V = sys.modules["xrspatial.viewshed"]

SMALL = -1000


def enc(x):
    if x <= -1e21:
        return SMALL
    xi = int(round(float(x)))
    if xi != x or abs(xi) > 900:
        raise ValueError("non-integer or too large value in tree arrays: %r" % (x,))
    return xi


def dump(tv, tn):
    n = tv.shape[0]
    rows = []
    for i in range(n):
        rows.append([enc(tv[i][k]) for k in range(8)] + [int(tn[i][k]) for k in range(4)])
    return rows


def run_job(j):
    n = j["n"]
    tv = np.zeros((n, 8), dtype=np.float64)
    tn = np.zeros((n, 4), dtype=np.int64)
    root = V._create_status_struct(tv, tn)
    free = list(range(n - 2, 0, -1))          # rows 1..n-2, row 1 handed out first
    events = [{"op": "N", "id": -2, "key": 0, "v": [0] * 6, "deleted": -2, "root": int(root),
               "rows": dump(tv, tn), "qs": []}]
    err = None
    try:
        for op in j["ops"]:
            if op[0] == "I":
                _, key, g0, g1, g2, a0, a1, a2, qs = op
                nid = free.pop()
                val = np.array([key, g0, g1, g2, a0, a1, a2], dtype=np.float64)
                root = V._insert_into_tree(tv, tn, root, nid, val)
                ev = {"op": "I", "id": nid, "key": key, "v": [g0, g1, g2, a0, a1, a2], "deleted": -2}
            else:
                _, key, qs = op
                root, deleted = V._delete_from_tree(tv, tn, root, float(key))
                deleted = int(deleted)
                free.append(deleted)
                ev = {"op": "D", "id": -2, "key": key, "v": [0] * 6, "deleted": deleted}
            ev["root"] = int(root)
            ev["rows"] = dump(tv, tn)
            out = []
            for (qk, ang, g) in qs:
                r = V._find_max_value_within_key(tv, tn, root, float(qk), float(ang), float(g))
                out.append([qk, ang, g, 1 if r > g else 0, []])
            ev["qs"] = out
            events.append(ev)
    except Exception as ex:
        err = "%s: %s" % (type(ex).__name__, ex)
    res = {"n": n, "mode": "int", "tag": j.get("tag", ""), "events": events}
    if err:
        res["error"] = err
    return res


def main():
    jobs = json.load(sys.stdin)["jobs"]
    for j in jobs:
        sys.stdout.write(json.dumps(run_job(j), separators=(",", ":")) + "\n")
    sys.stdout.flush()


if __name__ == "__main__":
    main()
