"""Worker for C13: runs the real xrspatial.multispectral functions (NumPy backend) on a list of jobs and
prints one encoded case per job.   stdin: {"jobs": [...]}

job kinds
  I  {idx, par [c1h, c2h, Lh, Gh] (halves), dtype | dtypes (per band), layouts (per band: C F T S R), dims,
      sh, kw (False | True | "perm"), intpar | parmode (float | int | np64), dirty, cells [[band values | "nan"]...]}
     the raster holds cells * 2^sh in `dtype`; bands are passed in signature order (positionally, or by keyword)
  M  {idx, rel "swap"|"scale"|"range", k, dtype, a [...], b [...]}   arbitrary float bands of a two-band index
  T  {red [...], green [...], blue [...], nodata, dtype, W}           true_color

Float bridge (rule rational(D) of DESIGN 3): an observed float32 x becomes the fraction
Fraction(x).limit_denominator(D) iff it lies within 4 float32 ulp of max(|x|, 1) of it (the largest
intermediate: GCI = nir/green - 1 carries the rounding of the quotient); D is larger than every denominator
the formula can produce on the job's band values and small enough that the candidate is unique.  EBBI
(irrational) is bridged through 100 x |x|.  For sh > 0 EBBI is first divided by 2^(sh/2) (exact).
"""
import json
import math
import sys
import warnings
from fractions import Fraction

warnings.filterwarnings("ignore")
import numpy as np
import xarray as xr

import xrspatial  # noqa
M = sys.modules["xrspatial.multispectral"]

NAN = -2000000000
SIG = {"arvi": ["nir", "red", "blue"], "evi": ["nir", "red", "blue"], "gci": ["nir", "green"],
       "nbr": ["nir", "swir2"], "nbr2": ["swir1", "swir2"], "ndvi": ["nir", "red"], "ndmi": ["nir", "swir1"],
       "savi": ["nir", "red"], "sipi": ["nir", "red", "blue"], "ebbi": ["red", "swir", "tir"]}
DMAX = {"arvi": 32, "evi": 128, "gci": 32, "nbr": 32, "nbr2": 32, "ndvi": 32, "ndmi": 32, "savi": 128, "sipi": 32,
        "ebbi": 16}
COLS = 16


def ulp32(x):
    return float(np.spacing(np.float32(abs(x))))


def pnum(h, as_int):
    """parameter given in halves -> Python number"""
    if h % 2 == 0 and as_int:
        return h // 2
    return h / 2.0


def relayout(a, layout):
    """the same values in another memory layout: C, F(ortran), T(ransposed view), S(trided view), R(eversed view)"""
    if layout == "F":
        return np.asfortranarray(a)
    if layout == "T":
        return np.ascontiguousarray(a.T).T
    if layout == "S":
        big = np.zeros((2 * a.shape[0] + 1, 3 * a.shape[1] + 2), dtype=a.dtype)
        big[1::2, 2::3] = a
        return big[1::2, 2::3]
    if layout == "R":
        return np.ascontiguousarray(a[::-1, ::-1])[::-1, ::-1]
    return a


def raster(vals, dtype, sh, layout="C", dims=("y", "x"), dirty=False):
    n = len(vals)
    rows = (n + COLS - 1) // COLS
    a = np.zeros(rows * COLS, dtype=np.float64)
    for i, v in enumerate(vals):
        a[i] = np.nan if v == "nan" else float(v)
    if sh:
        a = a * (2.0 ** sh)
    if dtype.startswith(("int", "uint")):
        # exact Python integers; dirty: +1 on the non-zero cells - not representable in float32 at this magnitude
        # (the cast rounds it away), so any arithmetic done BEFORE the cast would see a different value
        out = np.array([0 if np.isnan(v) else int(v) + (1 if dirty and v != 0 else 0) for v in a], dtype=dtype)
    else:
        if dirty and dtype == "float64":
            a = a * (1.0 + 1e-9)            # float64 values that are not float32 numbers; the cast gives the tuple back
        out = a.astype(dtype)
    return xr.DataArray(relayout(out.reshape(rows, COLS), layout), dims=list(dims))


def call(idx, arrays, par, kw, parmode):
    fn = getattr(M, idx)

    def p(h):
        v = pnum(h, parmode == "int")
        return np.float64(v) if parmode == "np64" else v
    extra = {}
    if idx == "evi":
        extra = dict(c1=p(par[0]), c2=p(par[1]), soil_factor=p(par[2]), gain=p(par[3]))
    elif idx == "savi":
        extra = dict(soil_factor=p(par[2]))
    if kw:
        # keyword call; "perm": the keywords in reversed order (binding must go by name)
        items = [(name + "_agg", arr) for name, arr in zip(SIG[idx], arrays)] + list(extra.items())
        if kw == "perm":
            items = items[::-1]
        return fn(**dict(items))
    return fn(*arrays, **extra)


def bridge(idx, x, sh):
    """float32 -> [k, p, q]"""
    if np.isnan(x):
        return [0, 0, 0]
    if np.isinf(x):
        return [2, 1 if x > 0 else -1, 0]
    x = float(x)
    if idx == "ebbi":
        if sh:
            x = x / (2.0 ** (sh // 2))
        tol = 4 * ulp32(max(abs(x), 1.0))
        y = 100.0 * x * abs(x)
        ty = 200.0 * abs(x) * tol + 1e-12
    else:
        y = x
        ty = 4 * ulp32(max(abs(x), 1.0))
    fr = Fraction(y).limit_denominator(DMAX[idx])
    if abs(y - float(fr)) <= ty and abs(fr.numerator) < 10 ** 6:
        return [1, fr.numerator, fr.denominator]
    return [3, 0, 0]


def case_I(j):
    idx, par, sh = j["idx"], j["par"], j["sh"]
    cells = j["cells"]
    ar = len(SIG[idx])
    dts = j.get("dtypes") or [j["dtype"]] * ar              # one dtype / layout per band
    lays = j.get("layouts") or ["C"] * ar
    arrays = [raster([c[k] for c in cells], dts[k], sh, lays[k], j.get("dims") or ("y", "x"), j.get("dirty", False))
              for k in range(ar)]
    parmode = j.get("parmode") or ("int" if j.get("intpar") else "float")
    out = call(idx, arrays, par, j.get("kw", False), parmode)
    o = np.ascontiguousarray(np.asarray(out.data))
    shape_ok = int(o.shape == arrays[0].shape and o.dtype == np.float32 and tuple(out.dims) == tuple(arrays[0].dims))
    flat = o.reshape(-1)[:len(cells)] if shape_ok else []
    return {"kind": "I", "idx": idx, "par": par, "sh": sh, "shape_ok": shape_ok,
            "bs": [[NAN if v == "nan" else int(v) for v in c] for c in cells],
            "obs": [bridge(idx, x, sh) for x in flat],
            "raw": [None if np.isnan(x) else float(x) for x in flat]}


def bits(a):
    u = np.asarray(a, dtype=np.float32).reshape(-1).view(np.uint32)
    return [[int(v >> 31), int(v & 0x7FFFFFFF)] for v in u]


def fl(vals, dtype):
    a = np.array([np.nan if v == "nan" else float(v) for v in vals], dtype=np.float64).astype(dtype)
    n = len(vals)
    rows = (n + COLS - 1) // COLS
    full = np.zeros(rows * COLS, dtype=dtype)
    full[:n] = a
    return full.reshape(rows, COLS)


def case_M(j):
    idx, rel = j["idx"], j["rel"]
    fn = getattr(M, idx)
    a, b = fl(j["a"], j["dtype"]), fl(j["b"], j["dtype"])
    n = len(j["a"])
    x = np.asarray(fn(xr.DataArray(a, dims=["y", "x"]), xr.DataArray(b, dims=["y", "x"])).data).reshape(-1)[:n]
    if rel == "swap":
        y = np.asarray(fn(xr.DataArray(b, dims=["y", "x"]), xr.DataArray(a, dims=["y", "x"])).data).reshape(-1)[:n]
    elif rel == "scale":
        s = a.dtype.type(2.0 ** j["k"])
        y = np.asarray(fn(xr.DataArray(a * s, dims=["y", "x"]), xr.DataArray(b * s, dims=["y", "x"])).data).reshape(-1)[:n]
    else:
        y = x
    # undefined cells: a band is NaN or the single-precision denominator is exactly zero
    a4, b4 = a.astype(np.float32).reshape(-1)[:n], b.astype(np.float32).reshape(-1)[:n]
    und = np.isnan(a4) | np.isnan(b4) | ((a4 + b4) == 0)
    return {"kind": "M", "idx": idx, "rel": rel, "x": bits(x), "y": bits(y), "und": [int(v) for v in und]}


def case_T(j):
    W = j["W"]
    n = len(j["red"])
    rows = (n + W - 1) // W

    def mk(vals):
        dt = j["dtype"]
        if dt.startswith(("int", "uint")):          # exact: big integers never pass through a float
            full = [0 if v == "nan" else int(v) for v in vals]
            full += [full[0]] * (rows * W - n)
            a = np.array(full, dtype=dt)
        else:
            a = np.zeros(rows * W, dtype=np.float64)
            a[:n] = [np.nan if v == "nan" else float(v) for v in vals]
            if n < rows * W:
                a[n:] = a[0]
            a = a.astype(dt)
        return xr.DataArray(a.reshape(rows, W), dims=["y", "x"],
                            coords={"y": np.arange(rows)[::-1], "x": np.arange(W)})
    kw = {}
    if j.get("nodata") is not None:
        kw["nodata"] = j["nodata"]
    for k in ("c", "th"):
        if j.get(k) is not None:
            kw[k] = j[k]
    out = M.true_color(mk(j["red"]), mk(j["green"]), mk(j["blue"]), **kw)
    o = np.asarray(out.data)
    shape_ok = int(o.shape == (rows, W, 4))
    nd = 1 if j.get("nodata") is None else j["nodata"]
    if j.get("rank"):
        # order-isomorphic encoding (ties preserved): the red values AS STORED in the raster's own dtype and nodata
        # are replaced by their exact rank (Python compares ints and floats exactly); TLC's rule 2*red <= nd2 then
        # decides "red <= nodata" exactly, without any rounding
        dt = j["dtype"]
        stored = [None if v == "nan" else
                  (np.array([int(v)], dtype=dt)[0].item() if dt.startswith(("int", "uint"))
                   else np.array([float(v)], dtype=np.float64).astype(dt)[0].item()) for v in j["red"]]
        table = sorted(set([v for v in stored if v is not None] + [nd]))
        red_enc = [NAN if v is None else table.index(v) for v in stored]
        nd2 = 2 * table.index(nd)
    else:
        red_enc = [NAN if v == "nan" else int(v) for v in j["red"]]
        nd2 = int(round(2 * nd))
    return {"kind": "T", "red": red_enc, "nd2": nd2,
            "alpha": [int(v) for v in o[:, :, 3].reshape(-1)[:n]] if shape_ok else [],
            "dtype_ok": int(o.dtype == np.uint8), "shape_ok": shape_ok,
            "dims_ok": int(tuple(out.dims) == ("y", "x", "band"))}


CASE = {"I": case_I, "M": case_M, "T": case_T}


def main():
    jobs = json.load(sys.stdin)["jobs"]
    out = sys.stdout
    for j in jobs:
        try:
            c = CASE[j["kind"]](j)
        except Exception as ex:  # the call itself failed
            c = {"kind": j["kind"], "error": "%s: %s" % (type(ex).__name__, ex)}
        c["job"] = j
        out.write(json.dumps(c) + "\n")
    out.flush()


if __name__ == "__main__":
    main()
