"""Worker for C17: runs every xrspatial.local operator on a list of datasets, one encoded case per job
(NDJSON).  stdin: {"jobs": [...]}.

job = {H, W, L,
       layers  L x H x W integer codes (NaN = -99) in data_vars order; real value = code*scale
       dtypes  per layer numpy dtype; scale (default 1)
       ref     H x W integers (reference layer), ref_dtype
       layouts per layer memory layout name (see lay()); ref_layout
       ds_order  order in which the variables are put into the Dataset (indices into layers + "ref" + extras)
       extras  number of additional unused variables in the Dataset
       explicit_vars  True: data_vars=[names in layer order] is passed; False: the Dataset holds exactly the layers
                      (+ ref for the reference operators) in layer order and data_vars is left to its default
       table   optional list of reals: "rank mode" - the real value of code c (layers AND ref) is table[c]; the
               table is strictly increasing, so the codes are order-isomorphic to the values (near-tie datasets)
       funcs   optional list of the operators to run and judge (default all); pop / comb: run popularity / combine
       negzero every second zero of a float layer is stored as -0.0
       full, pairs, tag}
Any observed value that is not within tolerance of an admissible small exact value is encoded as BADR.
"""
import json
import math
import sys
import warnings
from fractions import Fraction

warnings.filterwarnings("ignore")
import numpy as np
import xarray as xr

import xrspatial  # noqa
from xrspatial import local as LOC

NAN = -99
BADR = [0, -1]          # "not an admissible value": LocalOps!BadR, equal to nothing in the judge
STATS = ["max", "mean", "median", "min", "std", "sum"]
REFF = ["lesser_frequency", "equal_frequency", "greater_frequency", "rank"]
POSF = ["lowest_position", "highest_position"]


def lay(a, name):
    """Same values, different memory layout."""
    H, W = a.shape
    if name == "C":
        return np.ascontiguousarray(a)
    if name == "F":
        return np.asfortranarray(a)
    if name == "T":                      # transposed view of a C array
        return np.ascontiguousarray(a.T).T
    if name == "view":                   # strided view into a bigger C array
        big = np.zeros((2 * H + 1, 3 * W + 2), dtype=a.dtype)
        v = big[1::2, 2::3][:H, :W]
        v[...] = a
        return v
    if name == "Fview":                  # strided view into a bigger Fortran array
        big = np.zeros((2 * H + 1, 3 * W + 2), dtype=a.dtype, order="F")
        v = big[1::2, 2::3][:H, :W]
        v[...] = a
        return v
    if name == "revrows":                # what ds.isel(y=slice(None, None, -1)) produces
        return np.ascontiguousarray(a[::-1])[::-1]
    if name == "revcols":
        return np.ascontiguousarray(a[:, ::-1])[:, ::-1]
    if name == "revboth":
        return np.ascontiguousarray(a[::-1, ::-1])[::-1, ::-1]
    if name == "Frevrows":
        return np.asfortranarray(a[::-1])[::-1]
    raise ValueError(name)


def decode(codes, dtype, scale, table=None):
    a = np.array(codes, dtype=np.float64)
    nan = a == NAN
    if table is not None:
        t = np.array(list(table) + [0.0], dtype=np.float64)
        a = t[np.where(nan, len(table), a).astype(np.int64)]
    else:
        a = a * scale
    if np.dtype(dtype).kind == "f":
        a[nan] = np.nan
        return a.astype(dtype)
    if nan.any():
        raise ValueError("NaN in an integer layer")
    return np.round(a).astype(dtype)


def rat(v, scale, den, square=False):
    """float bridge: observed float -> exact rational [num, den] (or NaN / BAD)."""
    v = float(v)
    if math.isnan(v):
        return [0, 0]
    if math.isinf(v):
        return BADR
    q = v / scale
    if square:
        fr = Fraction(q * q).limit_denominator(den)
        ok = abs(math.sqrt(fr) - abs(q)) <= 1e-9 * max(1.0, abs(q)) and q >= 0
    else:
        fr = Fraction(q).limit_denominator(den)
        ok = abs(float(fr) - q) <= 1e-9 * max(1.0, abs(q))
    if not ok or abs(fr.numerator) > 10 ** 6:
        return BADR
    return [fr.numerator, fr.denominator]


def small_int(q):
    """exact_int rule for tuple members / ids; -98 = anything else (never crashes, never leaves 32 bits)"""
    try:
        q = float(q)
        if math.isnan(q) or math.isinf(q) or abs(q) > 10 ** 6 or abs(q - round(q)) > 1e-9:
            return -98
        return int(round(q))
    except Exception:
        return -98


def grid(arr, enc):
    a = np.asarray(arr)
    if a.ndim != 2:
        return {"h": -1, "w": -1, "g": []}
    return {"h": int(a.shape[0]), "w": int(a.shape[1]), "g": [[enc(v) for v in row] for row in a]}


def run_job(j):
    H, W, L = j["H"], j["W"], j["L"]
    scale = j.get("scale", 1)
    layouts = j.get("layouts") or ["C"] * L
    dtypes = j.get("dtypes") or ["float64"] * L
    names = ["v%d" % i for i in range(L)]
    table = j.get("table")
    funcs = j.get("funcs") or (STATS + REFF + POSF)
    def signed_zeros(a, i):
        # same VALUES, other bits: every second zero of a float layer is stored as -0.0 (-0.0 == 0.0)
        if j.get("negzero") and a.dtype.kind == "f":
            yy, xx = np.indices(a.shape)
            a[(a == 0) & ((yy + xx + i) % 2 == 1)] = -0.0
        return a
    arrs = [lay(signed_zeros(decode(j["layers"][i], dtypes[i], scale, table), i), layouts[i]) for i in range(L)]
    if table is None:
        ref = lay(np.array(j["ref"], dtype=j.get("ref_dtype", "int64")), j.get("ref_layout", "C"))
    else:
        ref = lay(decode(j["ref"], j.get("ref_dtype", "float64"), 1, table), j.get("ref_layout", "C"))
    inverse = {float(v): c for c, v in enumerate(table)} if table is not None else None

    def val(v, sc):
        """a result that is one of the layer values (max, min, rank, popularity)"""
        if inverse is None:
            return rat(v, sc, 1)
        v = float(v)
        if math.isnan(v):
            return [0, 0]
        return [inverse[v], 1] if v in inverse else BADR

    extras = {"x%d" % i: np.full((H, W), 7.0 + i) for i in range(j.get("extras", 0))}
    dims = ["y", "x"]
    explicit = j.get("explicit_vars", True)

    def dataset(with_ref):
        if explicit:
            pool = dict(zip(names, arrs))
            pool["ref"] = ref
            pool.update(extras)
            order = j.get("ds_order") or list(pool)
            return xr.Dataset({k: (dims, pool[k]) for k in order}), list(names)
        d = {n: (dims, a) for n, a in zip(names, arrs)}
        if with_ref:
            d["ref"] = (dims, ref)
        return xr.Dataset(d), None

    refc = j["ref"] if table is not None else [[int(round(v / scale)) for v in row] for row in j["ref"]]
    case = {"H": H, "W": W, "L": L, "layers": j["layers"], "ref": j["ref"], "refc": refc, "full": int(j.get("full", 0)),
            "pairs": int(j.get("pairs", 0)), "funcs": [f for f in STATS + REFF[:3] + POSF + REFF[3:] if f in funcs],
            "haspop": int(bool(j.get("pop", True))), "hascomb": int(bool(j.get("comb", True))), "tag": j.get("tag", ""), "job": j}
    ds, dv = dataset(True)
    case["strides"] = [[int(s // ds[n].data.itemsize) for s in ds[n].data.strides] for n in names]
    # what np.nditer really does with arrays of these layouts (cell ids instead of values)
    ids = np.arange(H * W, dtype=np.int64).reshape(H, W)
    idarrs = [lay(ids.astype(a.dtype) if a.dtype.kind != "f" or H * W < 2 ** 20 else ids, lo)
              for a, lo in zip(arrs, layouts)]
    def order_of(**kw):
        it = []
        for comb in np.nditer(idarrs, **kw):
            t = [int(x.item()) for x in comb]
            it.append(t[0] if len(set(t)) == 1 else -1)
        return it
    case["iter"] = order_of(order=j.get("order", "C"))     # the order the modelled code asks for
    case["iterK"] = order_of()                              # numpy's default order 'K'

    out, errors = {}, {}

    def call(label, fn, enc, **kw):
        try:
            with_ref = "ref_var" in kw
            d, vars_ = dataset(with_ref)
            r = fn(d, data_vars=vars_, **kw) if vars_ is not None else fn(d, **kw)
            return r
        except Exception as ex:
            errors[label] = "%s: %s" % (type(ex).__name__, str(ex)[:200])
            return None

    skipped = {"h": H, "w": W, "g": []}          # operators not run on this case (never looked at by the judge)
    for f in STATS:
        if f not in funcs:
            out[f] = skipped
            continue
        r = call(f, LOC.cell_stats, None, func=f)
        if r is not None:
            if f in ("max", "min"):
                out[f] = grid(r.data, lambda v: val(v, scale))
            else:
                den = {"mean": L, "median": 2, "std": L * L}.get(f, 1)
                out[f] = grid(r.data, lambda v, den=den, f=f: rat(v, scale, den, square=(f == "std")))
    for f in REFF:
        if f not in funcs:
            out[f] = skipped
            continue
        r = call(f, getattr(LOC, f), None, ref_var="ref")
        if r is not None:
            out[f] = grid(r.data, (lambda v: val(v, scale)) if f == "rank" else (lambda v: rat(v, 1, 1)))
    for f in POSF:
        if f not in funcs:
            out[f] = skipped
            continue
        r = call(f, getattr(LOC, f), None)
        if r is not None:
            out[f] = grid(r.data, lambda v: rat(v, 1, 1))
    case["pop"] = skipped
    if j.get("pop", True):
        r = call("popularity", LOC.popularity, None, ref_var="ref")
        if r is not None:
            case["pop"] = grid(r.data, lambda v: val(v, scale))
    case["comb"], case["key"] = skipped, []
    r = call("combine", LOC.combine, None) if j.get("comb", True) else None
    if r is not None:
        def cid(v):
            try:
                v = float(v)
            except Exception:
                return -98
            if math.isnan(v):
                return NAN
            return int(v) if v == int(v) and 0 <= v < 10 ** 6 else -98
        case["comb"] = grid(r.data, cid)
        key = r.attrs.get("key")
        kk = []
        if isinstance(key, dict):
            for k, t in key.items():
                try:
                    tt = [(inverse.get(float(v), -98) if inverse is not None else small_int(float(v) / scale))
                          for v in t]
                except Exception:
                    tt = [-98]
                kk.append([small_int(k), tt])
        else:
            errors["combine_key"] = "attrs['key'] missing or not a dict: %r" % (key,)
        case["key"] = kk
    case["out"] = out
    if errors:
        case["error"] = errors
    return case


ALLF = STATS + REFF[:3] + POSF + REFF[3:]


def run_seq(j):
    """A call SEQUENCE on ONE Dataset object whose content changes between calls.
    job = {seq: true, H, W, vars: {name: H x W codes}, refs: {name: H x W ints}, steps: [...], tag}
    step = {"op": "call", "func", "data_vars": [names], "ref": name}
         | {"op": "set_cell", "var", "y", "x", "code"}        in place: ds[var].data[y, x] = value
         | {"op": "replace", "var", "codes": grid}            ds[var] = (dims, new array)   (also adds a variable)
         | {"op": "drop", "var"}                              ds = ds.drop_vars(var)
    Every call yields one case whose layers are the Dataset's CURRENT content in data_vars order."""
    H, W = j["H"], j["W"]
    dims = ["y", "x"]
    state = {k: [list(r) for r in g] for k, g in j["vars"].items()}
    refs = {k: [list(r) for r in g] for k, g in j["refs"].items()}
    ds = xr.Dataset({**{k: (dims, decode(g, "float64", 1)) for k, g in state.items()},
                     **{k: (dims, np.array(g, dtype=np.int64)) for k, g in refs.items()}})
    cases = []
    skipped = {"h": H, "w": W, "g": []}
    for n, st in enumerate(j["steps"]):
        op = st["op"]
        if op == "set_cell":
            v = st["var"]
            ds[v].data[st["y"], st["x"]] = np.nan if st["code"] == NAN else float(st["code"])
            state[v][st["y"]][st["x"]] = st["code"]
        elif op == "replace":
            ds[st["var"]] = (dims, decode(st["codes"], "float64", 1))
            state[st["var"]] = [list(r) for r in st["codes"]]
        elif op == "drop":
            ds = ds.drop_vars(st["var"])
            state.pop(st["var"])
        elif op == "call":
            f, dv, rv = st["func"], st["data_vars"], st.get("ref", "ref")
            L = len(dv)
            case = {"H": H, "W": W, "L": L, "layers": [[list(r) for r in state[v]] for v in dv], "ref": refs[rv], "refc": refs[rv],
                    "full": 0, "pairs": 0, "funcs": [f] if f in ALLF else [], "haspop": int(f == "popularity"),
                    "hascomb": int(f == "combine"), "strides": [[W, 1]] * L, "iter": [], "iterK": [],
                    "out": {g: skipped for g in ALLF}, "pop": skipped, "comb": skipped, "key": [],
                    "tag": "%s#%d:%s" % (j.get("tag", "seq"), n, f), "job": j}
            try:
                if f in STATS:
                    r = LOC.cell_stats(ds, data_vars=list(dv), func=f)
                    den = {"mean": L, "median": 2, "std": L * L}.get(f, 1)
                    case["out"] = dict(case["out"])
                    case["out"][f] = grid(r.data, lambda v, den=den, f=f: rat(v, 1, den, square=(f == "std")))
                elif f in REFF:
                    r = getattr(LOC, f)(ds, ref_var=rv, data_vars=list(dv))
                    case["out"] = dict(case["out"])
                    case["out"][f] = grid(r.data, lambda v: rat(v, 1, 1))
                elif f in POSF:
                    r = getattr(LOC, f)(ds, data_vars=list(dv))
                    case["out"] = dict(case["out"])
                    case["out"][f] = grid(r.data, lambda v: rat(v, 1, 1))
                elif f == "popularity":
                    r = LOC.popularity(ds, ref_var=rv, data_vars=list(dv))
                    case["pop"] = grid(r.data, lambda v: rat(v, 1, 1))
                    case["pairs"] = 1
                elif f == "combine":
                    r = LOC.combine(ds, data_vars=list(dv))

                    def cid(v):
                        v = float(v)
                        return NAN if math.isnan(v) else (int(v) if v == int(v) and 0 <= v < 10 ** 6 else -98)
                    case["comb"] = grid(r.data, cid)
                    key = r.attrs.get("key")
                    case["key"] = [[small_int(k), [small_int(x) for x in t]] for k, t in key.items()] \
                        if isinstance(key, dict) else [[-98, [-98]]]
                    case["pairs"] = 1
            except Exception as ex:
                case["error"] = {f: "%s: %s" % (type(ex).__name__, str(ex)[:200])}
            cases.append(case)
        else:
            raise ValueError(op)
    return {"cases": cases}


def main():
    jobs = json.load(sys.stdin)["jobs"]
    o = sys.stdout
    for j in jobs:
        o.write(json.dumps(run_seq(j) if j.get("seq") else run_job(j)) + "\n")
    o.flush()


if __name__ == "__main__":
    main()
