"""Worker: replay Utils.tla cases into xrspatial.utils.  job = {op, ...}; prints the case with observed fields."""
import json
import sys
import warnings
from fractions import Fraction

warnings.filterwarnings("ignore")
import numpy as np
import xarray as xr
import dask.array as da

from xrspatial import utils as U


def arr(kind, shape, chunks):
    a = np.arange(shape[0] * shape[1], dtype=np.float64).reshape(shape)
    if kind == "dask_numpy":
        a = da.from_array(a, chunks=(tuple(chunks[0]), tuple(chunks[1])))
    elif kind == "list":
        return a.tolist()
    return xr.DataArray(a, dims=["y", "x"])


def chunks_of(x):
    d = x.data
    if isinstance(d, da.Array):
        return [list(d.chunks[0]), list(d.chunks[1])]
    return []


def rat(x):
    f = Fraction(x).limit_denominator(1000)
    return [f.numerator, f.denominator] if abs(float(f) - x) <= 1e-12 * max(1.0, abs(x)) else [999999, 1]


def run(j):
    op = j["op"]
    if op == "dispatch":
        m = U.ArrayTypeFunctionMapping("numpy_func", "cupy_func", "dask_func", "dask_cupy_func")
        if j["kind"] == "list":
            class Holder:      # an object whose .data is neither numpy nor dask
                data = [[1.0]]
            x = Holder()
        else:
            x = arr(j["kind"], [2, 2], [[1, 1], [2]])
        try:
            j["got"] = m(x)
        except TypeError:
            j["got"] = "TypeError"
    elif op == "validate":
        xs = [arr(a["kind"], a["shape"], a["chunks"]) for a in j["arrs"]]
        try:
            U.validate_arrays(*xs)
            j["goterr"] = "none"
            j["gotchunks"] = [chunks_of(x) for x in xs]
        except ValueError as ex:
            s = str(ex)
            j["goterr"] = ("ValueError_fewer_than_2" if "2 or more" in s else
                           "ValueError_shapes" if "equal shapes" in s else
                           "ValueError_types" if "same type" in s else "ValueError_other")
            j["gotchunks"] = []
    elif op == "resolution":
        h, w = j["h"], j["w"]
        ys = np.linspace(j["ymax"], j["ymin"], h) if j.get("ydesc") else np.linspace(j["ymin"], j["ymax"], h)
        x = xr.DataArray(np.zeros((h, w)), dims=["y", "x"],
                         coords={"y": ys, "x": np.linspace(j["xmin"], j["xmax"], w)})
        f = j["resform"]
        if f == "pair":
            x.attrs["res"] = {"tuple": (j["res1"], j["res2"]), "list": [j["res1"], j["res2"]],
                              "ndarray": np.array([j["res1"], j["res2"]], dtype=np.float64),
                              "ndarray_int": np.array([j["res1"], j["res2"]], dtype=np.int64),
                              }[j.get("container", "tuple")]
            if j.get("container") == "ndarray_int":
                # numpy integer scalars are not int/float instances: the code falls back to the coordinates
                j["resform"] = "pair_npints"
        elif f == "scalar":
            x.attrs["res"] = float(j["res1"]) if j.get("as_float") else int(j["res1"])
        elif f == "pair_str":
            x.attrs["res"] = ("a", "b")
        elif f == "triple":
            x.attrs["res"] = (1, 2, 3)
        elif f == "str":
            x.attrs["res"] = "10m"
        cx, cy = U.get_dataarray_resolution(x)
        j["gotx"], j["goty"] = rat(float(cx)), rat(float(cy))
    elif op == "height":
        j["got"] = int(U.height_implied_by_aspect_ratio(j["W"], (j["x0"], j["x1"]), (j["y0"], j["y1"])))
    return j


def main():
    for j in json.load(sys.stdin)["jobs"]:
        sys.stdout.write(json.dumps(run(j)) + "\n")


if __name__ == "__main__":
    main()
