"""Worker for C10 (Aliasing): replays *sessions* of public calls in one process and logs, after every
call, the observable heap/object state (who backs which raster, digests of values / coordinates /
attributes of every live object), then performs the write probe on the result and logs again.

stdin {"jobs": [session...]}; one NDJSON line per session.

session = {"sid": n,
           "init":  [{"id": "a", "kind": kind, "dtype": .., "layout": .., "backend": .., "seed": k, "nan": bool}],  (optional)
           "calls": [{"f": name, "variant": i, "args": [ids] | null, "dtype":..,"layout":..,"backend":..,"seed":..}]}
With args = null the inputs of the call are built fresh in the stated configuration and enter the store
under the names "<k>_<role>" (k = index of the call).
"""
import json
import sys
import time
import traceback
import warnings

warnings.filterwarnings("ignore")
import numpy as np
import xarray as xr

from harness import alias_api as A

CAT, MODS = A.catalog()


class Heap:
    """Buffer identity: two arrays are the same buffer iff they share memory."""

    def __init__(self):
        self.known = []          # (id, ndarray)

    def bid(self, m):
        for i, k in self.known:
            if np.shares_memory(m, k):
                return i
        i = len(self.known) + 1
        self.known.append((i, m))
        return i


def graph_arrays(data):
    """numpy arrays embedded in a dask graph (from_array chunks)"""
    out = []
    try:
        for v in dict(data.__dask_graph__()).values():
            if isinstance(v, np.ndarray):
                out.append(v)
    except Exception:
        pass
    return out


def mems_of(x):
    """list of ndarrays that physically back an xarray object"""
    if isinstance(x, xr.Dataset):
        out = []
        for k in x.data_vars:
            out += mems_of(x[k])
        return out
    d = x.variable._data if hasattr(x, "variable") else x
    d = getattr(x, "data", d)
    if isinstance(d, np.ndarray):
        return [d]
    return graph_arrays(d)


def coord_arrays(x):
    """ndarrays behind the non-index coordinates (scalar and auxiliary ones) of an xarray object"""
    out = []
    for k in x.coords:
        if k in x.dims:
            continue
        try:
            v = x.coords[k].values
            if isinstance(v, np.ndarray) and v.dtype.kind in "iufb":
                out.append(v)
        except Exception:
            pass
    return out


def snap(name, x, heap, mems=None):
    """observable record of a store object (mems: fixed backing arrays of a dask object, else derived)"""
    if isinstance(x, xr.Dataset):
        ms = mems_of(x) if mems is None else mems
        vals = [A.val_digest(A.compute(x[k].data)) for k in x.data_vars]
        attrs = A.attrs_pairs(x) + [["var:%s" % k, A._h(A.deep_repr(dict(x[k].attrs)).encode())] for k in x.data_vars]
        return {"id": name, "kind": "dataset", "bufs": sorted({heap.bid(m) for m in ms}),
                "wr": bool(all(m.flags.writeable for m in ms)) if ms else False,
                "val": A._h("|".join(vals).encode()), "dtype": ",".join(str(x[k].dtype) for k in x.data_vars),
                "coords": A.coords_pairs(x), "attrs": attrs, "dims": [str(d) for d in x.dims],
                "shape": [int(x.sizes[d]) for d in x.dims], "backend": A.backend_of(x[list(x.data_vars)[0]].data),
                "name": "", "cbufs": sorted({heap.bid(m) for m in coord_arrays(x)})}
    ms = mems_of(x) if mems is None else mems
    return {"id": name, "kind": "raster", "bufs": sorted({heap.bid(m) for m in ms}),
            "wr": bool(all(m.flags.writeable for m in ms)) if ms else False,
            "val": A.val_digest(A.compute(x.data)), "dtype": str(x.dtype),
            "coords": A.coords_pairs(x), "attrs": A.attrs_pairs(x), "dims": [str(d) for d in x.dims],
            "shape": [int(s) for s in x.shape], "backend": A.backend_of(x.data), "name": str(x.name),
            "cbufs": sorted({heap.bid(m) for m in coord_arrays(x)})}


EMPTY_RES = {"id": "", "kind": "none", "bufs": [], "wr": False, "val": "", "dtype": "", "coords": [], "attrs": [],
             "dims": [], "shape": [], "backend": "", "name": "", "lazy": False, "cbufs": [], "val2": ""}


def result_arrays(res):
    """every ndarray reachable from a result (DataFrame columns, polygon point arrays, Dataset vars ...)"""
    import pandas as pd
    out = []
    if res is None:
        return out
    if isinstance(res, (xr.DataArray, xr.Dataset)):
        return mems_of(res)
    if isinstance(res, np.ndarray):
        return [res]
    if isinstance(res, pd.DataFrame):
        for c in res.columns:
            try:
                out.append(res[c].to_numpy(copy=False))
            except Exception:
                pass
        return out
    if isinstance(res, (list, tuple)):
        for r in res:
            out += result_arrays(r)
        return out
    if hasattr(res, "compute"):       # dask dataframe / array
        return []
    return out


def res_record(name, res, heap, passthrough=()):
    """observable record of a call result + the arrays that can be written for the probe.
    passthrough: names of Dataset variables that ARE the caller's inputs by documented design
    (summarize_terrain returns the terrain itself next to the derived variables)."""
    import pandas as pd
    rec = dict(EMPTY_RES)
    if res is None:
        return rec, []
    if isinstance(res, xr.DataArray):
        lazy = not isinstance(res.data, np.ndarray)
        if lazy:
            arr = A.compute(res.data)
            arr2 = A.compute(res.data)              # a lazy result is computed twice: recomputing must give the same values
            arrays = [arr] + coord_arrays(res)
            rec.update({"id": name, "kind": "raster", "bufs": [heap.bid(arr)], "wr": bool(arr.flags.writeable),
                        "val": A.val_digest(arr), "val2": A.val_digest(arr2),
                        "cbufs": sorted({heap.bid(m) for m in coord_arrays(res)}), "dtype": str(res.dtype), "coords": A.coords_pairs(res),
                        "attrs": A.attrs_pairs(res), "dims": [str(d) for d in res.dims],
                        "shape": [int(s) for s in res.shape], "backend": A.backend_of(res.data), "name": str(res.name),
                        "lazy": True})
            return rec, arrays
        s = snap(name, res, heap)
        s["lazy"] = False
        s["val2"] = s["val"]
        return s, mems_of(res) + coord_arrays(res)
    if isinstance(res, xr.Dataset):
        own = res[[k for k in res.data_vars if str(k) not in passthrough]]
        lazy = any(not isinstance(own[k].data, np.ndarray) for k in own.data_vars)
        if lazy:
            arrays = [A.compute(own[k].data) for k in own.data_vars]
            s = snap(name, own, heap, arrays)
            s["wr"] = bool(all(a.flags.writeable for a in arrays))
        else:
            arrays = mems_of(own)
            s = snap(name, own, heap)
        s["lazy"] = lazy
        s["val2"] = s["val"]
        return s, arrays            # a Dataset shares its coordinate variables with its members by construction: not probed
    arrays = result_arrays(res)
    kind = "table" if isinstance(res, pd.DataFrame) or type(res).__module__.startswith("dask") else (
        "tuple" if isinstance(res, (tuple, list)) else "scalar")
    try:
        if isinstance(res, pd.DataFrame):
            val = A._h(res.to_json().encode())
        elif type(res).__module__.startswith("dask"):
            val = A._h(res.compute(scheduler="synchronous").to_json().encode())
        else:
            val = A._h(A.deep_repr(res).encode())
    except Exception:
        val = "unhashable"
    rec.update({"id": "", "kind": kind, "bufs": sorted({heap.bid(m) for m in arrays}),
                "wr": bool(arrays) and bool(any(m.flags.writeable for m in arrays)), "val": val, "val2": val})
    return rec, arrays


def scribble(m):
    """overwrite every element of m with a different value (bitwise complement of the bytes)"""
    saved = m.copy()
    if m.dtype.kind == "O":
        return None
    if m.dtype.kind == "b":
        m[...] = ~saved
    elif m.dtype.kind == "f":
        m[...] = np.where(np.isnan(saved), 1.0, -(saved + 17.0))
    else:
        m[...] = saved ^ m.dtype.type(0x55)
    return saved


def run_session(s):
    heap = Heap()
    store = {}          # name -> xarray object
    fixed = {}          # name -> backing arrays fixed at creation (dask objects); absent = derive from .data

    def fix(n):
        x = store[n]
        first = x[list(x.data_vars)[0]] if isinstance(x, xr.Dataset) else x
        if not isinstance(first.data, np.ndarray):
            fixed[n] = mems_of(x)

    def sn(n):
        x = store[n]
        first = x[list(x.data_vars)[0]] if isinstance(x, xr.Dataset) else x
        if isinstance(first.data, np.ndarray):      # (re)bound to a NumPy array: its buffer is that array
            return snap(n, x, heap, None)
        return snap(n, x, heap, fixed.get(n))
    order = []
    out = {"sid": s.get("sid", 0), "tag": s.get("tag", ""), "events": [], "job": s}
    for o in s.get("init") or []:
        a, _ = A.mk_raster(o.get("kind", "elev"), o["dtype"], o.get("layout", "C"), o.get("backend", "numpy"),
                           seed=o.get("seed", 0), nan=o.get("nan", False), name=o["id"])
        store[o["id"]] = a
        fix(o["id"])
        order.append(o["id"])
    out["init"] = [sn(n) for n in order]
    nres = 0
    for k, c in enumerate(s["calls"]):
        entry = CAT[c["f"]]
        p = entry["variants"][c.get("variant", 0)]
        ev = {"ev": "call", "f": c["f"], "variant": c.get("variant", 0), "raised": False, "err": "",
              "cfg": [c.get("backend", ""), c.get("dtype", ""), c.get("layout", "")],
              # input family: "std" = inside the Supported table; "nonfinite" = rasters with NaN, +inf and -inf cells for EVERY
              # function (a function may refuse them: outside its domain, not compared with the Supported table)
              # "degen" = degenerate values (all NaN / constant / zero) or shapes (1xN, Nx1, 2x2, 1x1): may be refused too
              "fam": "nonfinite" if c.get("nonfinite") else ("degen" if (c.get("degen") or c.get("hw")) else "std")}
        if c.get("args") is None:
            hw = c.get("hw") or [A.H, A.W]
            ins = A.build_inputs(entry, c["dtype"], c.get("layout", "C"), c.get("backend", "numpy"), c.get("seed", 0),
                                 h=hw[0], w=hw[1], finite=bool(c.get("finite")), p=p, single_chunk=bool(c.get("single_chunk")),
                                 nonfinite=bool(c.get("nonfinite")), attrs_family=int(c.get("attrs_family", 0)),
                                 degen=c.get("degen"))
            names = []
            for role, x, _m in ins:
                nm = "%d_%s" % (k, role)
                store[nm] = x
                fix(nm)
                order.append(nm)
                names.append(nm)
            # freshly built inputs enter the heap *before* the call
            ev["new"] = [sn(n) for n in names]
        else:
            names = list(c["args"])
            ev["new"] = []
        ev["args"] = names
        fn = getattr(MODS[entry["mod"]], entry["attr"])
        args, kwargs = entry["kw"](A.public(p), [store[n] for n in names])
        # array arguments that are not rasters (kernels, transforms ...): they are arguments too and must not be modified
        arr_args = [a for a in list(args) + list(kwargs.values()) if isinstance(a, np.ndarray)]
        arr_before = [A.exact_digest(a) for a in arr_args]
        ev["argchg"] = False
        res = None
        t0 = time.time()
        try:
            with warnings.catch_warnings():
                warnings.simplefilter("ignore")
                res = fn(*args, **kwargs)
                nres += 1
                rname = "r%d" % nres
                skip = [str(store[n].name) for n in names if isinstance(store[n], xr.DataArray)] \
                    if isinstance(res, xr.Dataset) else []
                rec, arrays = res_record(rname, res, heap, skip)
        except Exception as ex:
            ev["raised"] = True
            ev["err"] = "%s: %s" % (type(ex).__name__, str(ex)[:200])
            rec, arrays = dict(EMPTY_RES), []
            if s.get("trace_errors"):
                ev["tb"] = traceback.format_exc()[-1500:]
        try:
            ev["argchg"] = bool([A.exact_digest(a) for a in arr_args] != arr_before)
        except Exception:
            pass
        try:
            ev["objs"] = [sn(n) for n in order]
        except Exception as ex:      # an input can no longer be read
            ev["objs"] = []
            ev["raised"] = True
            ev["err"] += " | snapshot failed: %s: %s" % (type(ex).__name__, str(ex)[:200])
        ev["res"] = rec
        ev["dt"] = round(time.time() - t0, 3)
        ev["store"] = []
        ev["wrote"] = False
        out["events"].append(ev)
        if ev["raised"]:
            # errors are outside the domain; the session stops here
            break
        # ---- write probe on the result
        pv = {"ev": "probe", "f": c["f"], "variant": c.get("variant", 0), "raised": False, "err": "", "cfg": ev["cfg"], "fam": ev["fam"], "argchg": False,
              "new": [], "args": names, "res": rec, "dt": 0, "wrote": False}
        saved = []
        for m in arrays:
            if m.flags.writeable and m.size:
                sv = scribble(m)
                if sv is not None:
                    saved.append((m, sv))
                    pv["wrote"] = True
        # attrs probe: adding a key to the result's attrs must not show up in an input
        attr_shared = False
        if isinstance(res, (xr.DataArray, xr.Dataset)):
            try:
                res.attrs["__verif_probe__"] = 1
                attr_shared = any("__verif_probe__" in store[n].attrs for n in order)
                del res.attrs["__verif_probe__"]
            except Exception:
                pass
        pv["attrs_dict_shared"] = bool(attr_shared)
        # mutable VALUES inside attrs (lists / dicts) are shared between input and output by xarray's shallow attrs copy for
        # every function (DataArray(..., attrs=agg.attrs)): logged, not judged
        try:
            pv["attrs_values_shared"] = bool(isinstance(res, xr.DataArray) and any(
                any(v is w for w in store[n].attrs.values() if isinstance(w, (list, dict, np.ndarray)))
                for n in names for v in res.attrs.values() if isinstance(v, (list, dict, np.ndarray))))
        except Exception:
            pv["attrs_values_shared"] = False
        pv["objs"] = [sn(n) for n in order]
        for m, sv in saved:
            m[...] = sv
        # results that are rasters stay in the store so later calls can consume them
        if rec["kind"] == "raster" and c.get("keep", True) and isinstance(res, xr.DataArray) and res.ndim == 2:
            store[rec["id"]] = res
            if rec["lazy"]:
                fixed[rec["id"]] = []          # a lazy result owns no memory
            order.append(rec["id"])
        pv["store"] = [sn(n) for n in order]
        out["events"].append(pv)
    return out


def main():
    jobs = json.load(sys.stdin)["jobs"]
    for j in jobs:
        try:
            r = run_session(j)
        except Exception:
            r = {"sid": j.get("sid", 0), "machinery_error": traceback.format_exc()[-3000:], "job": j, "events": [], "init": []}
        sys.stdout.write(json.dumps(r) + "\n")
    sys.stdout.flush()


if __name__ == "__main__":
    main()
