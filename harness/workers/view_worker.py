"""Worker (C05 layers 2 and 3): runs the real xrspatial.viewshed and encodes what TLC needs.

stdin {"jobs": [...]}, one JSON line per job on stdout.  Job kinds:

 kind "tables": {H, W, vr, vc}
     every (cell, ENTER|EXIT) through the compiled _calc_event_pos / _calculate_event_row_col, plus
     _init_event_list + the lexsort exactly as executed by _viewshed_cpu (captured from a real call on a
     flat raster): case for ViewGeom_Judge.

 kind "los": {H, W, terrain (H x W numbers, multiples of 1/4), xs, ys (coordinate vectors), ox, oy (observer
     coordinates handed to viewshed), obs, tgt (observer_elev, target_elev), dtype, vr, vc (the cell the
     coordinates denote, computed by the driver), ew, ns (|cell size|, integers), steps (bool)}
     public call viewshed(raster, ox, oy, obs, tgt); the arguments with which _viewshed_cpu calls the sweep
     are captured by wrapping the module attribute (works compiled: _viewshed_cpu itself is plain Python).
     With steps=true (only under NUMBA_DISABLE_JIT=1) every _insert_into_tree / _delete_from_tree /
     _max_grad_in_status_struct call of the sweep is recorded with a dump of the live tree rows.

 The float bridge (trusted, stated in notes/C05.md) lives here: an INDEPENDENT float64 evaluation of the
 stated line-of-sight model gives, for every ordered pair (n, c), whether n's profile interpolated at c's
 bearing is above c's own gradient: 1 yes, 0 no, 2 borderline (|difference| < 1e-9, unless the tie is exact
 because the profile points bracketing c's bearing and c itself are exactly at eye level, which is 0).  TLC decides which pairs matter
 (nearer, spans the bearing) and hence the visibility of every cell.
"""
import json
import math
import os
import sys
import warnings
from fractions import Fraction

warnings.filterwarnings("ignore")
import numpy as np
import xarray as xr

import xrspatial  # noqa
V = sys.modules["xrspatial.viewshed"]
INTERP = os.environ.get("NUMBA_DISABLE_JIT") == "1"
BAND = 1e-9
SMALL = -1000

_cap = {}
_orig_sweep = V._viewshed_cpu_sweep


def _sweep_wrapper(raster, vp_row, vp_col, vp_elev, vp_target, ew_res, ns_res, event_rcts, event_aes, data,
                   visibility_grid):
    _cap["args"] = (int(vp_row), int(vp_col), float(vp_elev), float(vp_target), float(ew_res), float(ns_res))
    _cap["rcts"] = np.array(event_rcts).copy()
    _cap["aes"] = np.array(event_aes).copy()
    return _orig_sweep(raster, vp_row, vp_col, vp_elev, vp_target, ew_res, ns_res, event_rcts, event_aes, data,
                       visibility_grid)


V._viewshed_cpu_sweep = _sweep_wrapper


# ------------------------------------------------------------------ recording of tree operations (interpreted)
_steps = []
_rec_on = [False]
_o_ins, _o_del, _o_q = V._insert_into_tree, V._delete_from_tree, V._max_grad_in_status_struct
_o_new = V._create_status_struct


def _live_rows(tv, tn, root):
    """rows reachable from root: {id: [12 raw fields]}"""
    out = {}
    stack = [int(root)]
    n = tv.shape[0]
    while stack:
        x = stack.pop()
        if x == -1 or x == n - 1 or x in out or not (0 <= x < n):
            continue
        out[x] = [float(tv[x][k]) for k in range(8)] + [int(tn[x][k]) for k in range(4)]
        stack.append(int(tn[x][1]))
        stack.append(int(tn[x][2]))
    return out


def _nil_row(tv, tn):
    return [float(tv[-1][k]) for k in range(8)] + [int(tn[-1][k]) for k in range(4)]


def _r_new(tv, tn):
    r = _o_new(tv, tn)
    if _rec_on[0]:
        _steps.append({"op": "N", "root": int(r), "live": _live_rows(tv, tn, r), "nil": _nil_row(tv, tn),
                       "n": int(tv.shape[0])})
    return r


def _r_ins(tv, tn, root, node_id, value):
    val = [float(v) for v in value]
    r = _o_ins(tv, tn, root, node_id, value)
    if _rec_on[0]:
        _steps.append({"op": "I", "id": int(node_id), "val": val, "root": int(r), "live": _live_rows(tv, tn, r),
                       "nil": _nil_row(tv, tn), "n": int(tv.shape[0])})
    return r


def _r_del(tv, tn, root, key):
    r, d = _o_del(tv, tn, root, key)
    if _rec_on[0]:
        _steps.append({"op": "D", "key": float(key), "deleted": int(d), "root": int(r),
                       "live": _live_rows(tv, tn, r), "nil": _nil_row(tv, tn), "n": int(tv.shape[0])})
    return r, d


def _r_q(tv, tn, root, distance, angle, gradient):
    res = _o_q(tv, tn, root, distance, angle, gradient)
    if _rec_on[0]:
        _steps.append({"op": "Q", "key": float(distance), "ang": float(angle), "g": float(gradient),
                       "res": float(res), "root": int(root), "live": _live_rows(tv, tn, root),
                       "nil": _nil_row(tv, tn), "n": int(tv.shape[0])})
    return res


if INTERP:
    V._insert_into_tree = _r_ins
    V._delete_from_tree = _r_del
    V._max_grad_in_status_struct = _r_q
    V._create_status_struct = _r_new


# ------------------------------------------------------------------ independent model evaluation (bridge)
def corner_info(r, c, vr, vc, H, W, terr, terrf):
    """The two extreme corners of cell (r,c) seen from the observer, found geometrically (not by the
    code's sector table): returns [(delta_angle, y, x, elevation_fraction)] for enter (most clockwise)
    and exit (most counter-clockwise); angles relative to the centre direction, counter-clockwise positive,
    index space with row axis pointing down.  A fifth element is the float64 corner elevation summed in the
    order the code uses (only consulted to make sure an "exactly at eye level" claim also holds in floats)."""
    cx, cu = (c - vc), (vr - r)
    out = []
    for sy in (-0.5, 0.5):
        for sx in (-0.5, 0.5):
            y, x = r + sy, c + sx
            dx, du = x - vc, vr - y
            delta = math.atan2(cx * du - cu * dx, cx * dx + cu * du)
            rr, cc = r + int(2 * sy), c + int(2 * sx)
            if 0 <= rr < H and 0 <= cc < W:
                elev = Fraction(terr[r][c] + terr[rr][c] + terr[r][cc] + terr[rr][cc]) / 4
                elevf = (terrf[rr][cc] + terrf[rr][c] + terrf[r][cc] + terrf[r][c]) / 4.0
            else:
                elev = Fraction(terr[r][c])
                elevf = terrf[r][c]
            out.append((delta, y, x, elev, elevf))
    en = min(out, key=lambda t: t[0])
    ex = max(out, key=lambda t: t[0])
    return en, ex


def bridge(H, W, terr, terrf, vr, vc, vp_elev, vpf, target, ew, ns):
    """blocks[n][c] in {0,1,2} for all cells (row-major ids); terr entries are the exact rational values of
    the raster's float64 contents, terrf the floats; vp_elev / vpf the observer's eye height (exact / as the
    float64 sum the code forms)."""
    ncell = H * W
    prof = {}
    for r in range(H):
        for c in range(W):
            if (r, c) == (vr, vc):
                continue
            en, ex = corner_info(r, c, vr, vc, H, W, terr, terrf)

            def grad(y, x, elev):
                d = math.hypot((x - vc) * ew, (y - vr) * ns)
                return math.atan(float(elev - vp_elev) / d)
            g0 = grad(en[1], en[2], en[3])
            g1 = grad(r, c, terr[r][c])
            g2 = grad(ex[1], ex[2], ex[3])
            # which of the three profile points are exactly at eye level (rational arithmetic)
            # ... and in the float64 arithmetic of the code (both must agree before an exact tie is claimed)
            level = (en[3] == vp_elev and en[4] - vpf == 0.0,
                     terr[r][c] == vp_elev and terrf[r][c] - vpf == 0.0,
                     ex[3] == vp_elev and ex[4] - vpf == 0.0)
            prof[(r, c)] = (en[0], ex[0], g0, g1, g2, level)
    blocks = [[0] * ncell for _ in range(ncell)]
    nborder = 0
    for r in range(H):
        for c in range(W):
            if (r, c) == (vr, vc):
                continue
            d = math.hypot((c - vc) * ew, (r - vr) * ns)
            own = math.atan(float(terr[r][c] + target - vp_elev) / d)
            own_level = (terr[r][c] + target == vp_elev) and (terrf[r][c] + float(target)) - vpf == 0.0
            cx, cu = (c - vc), (vr - r)
            for (nr, nc), (a0, a2, g0, g1, g2, level) in prof.items():
                if (nr, nc) == (r, c):
                    continue
                nx, nu = (nc - vc), (vr - nr)
                delta = math.atan2(nx * cu - nu * cx, nx * cx + nu * cu)   # bearing of c relative to n's centre
                cross = nx * cu - nu * cx
                if cross < 0:
                    val = g1 + (g0 - g1) * (delta / a0)
                    flat0 = level[0] and level[1]
                elif cross > 0:
                    val = g1 + (g2 - g1) * (delta / a2)
                    flat0 = level[1] and level[2]
                else:
                    val = g1
                    flat0 = level[1]
                diff = val - own
                if flat0 and own_level:
                    # exact tie: the profile points bracketing c's bearing and c itself are exactly at eye
                    # level, so every gradient involved is exactly 0.0 and 0.0 + (0.0 - 0.0) * t == 0.0
                    f = 0
                elif abs(diff) < BAND:
                    f = 2
                    nborder += 1
                else:
                    f = 1 if diff > 0 else 0
                blocks[nr * W + nc][r * W + c] = f
    return blocks, nborder


def to_frac(v):
    """exact rational value of a float64 / int"""
    return Fraction(v)


def int_or(v, bad=-999):
    return int(round(v)) if abs(v - round(v)) < 1e-9 and abs(v) < 1e6 else bad


def order_case(rcts, aes):
    """sorted event list as the code passes it to the sweep, with float-tie flags"""
    order = []
    for i in range(len(rcts)):
        tie = 1 if (i > 0 and aes[i][0] == aes[i - 1][0]) else 0
        order.append([int(rcts[i][0]), int(rcts[i][1]), int(rcts[i][2]), tie])
    return order


def run_tables(j):
    H, W, vr, vc = j["H"], j["W"], j["vr"], j["vc"]
    pos = []
    for r in range(H):
        for c in range(W):
            if (r, c) == (vr, vc):
                continue
            for t in (1, 0, -1):
                y, x = V._calc_event_pos(t, r, c, vr, vc)
                if t == 0:
                    ny, nx = r, c
                else:
                    ny, nx = V._calculate_event_row_col(t, r, c, vr, vc)
                pos.append([r, c, t, int_or(2 * float(y)), int_or(2 * float(x)), int(ny), int(nx)])
    # the event list exactly as _viewshed_cpu builds and sorts it: captured from a real call (flat raster)
    ras = xr.DataArray(np.zeros((H, W)), dims=["y", "x"],
                       coords={"y": np.arange(H, dtype=float), "x": np.arange(W, dtype=float)})
    _cap.clear()
    V.viewshed(ras, x=float(vc), y=float(vr))
    a = _cap["args"]
    return {"kind": "tables", "H": H, "W": W, "vr": vr, "vc": vc, "pos": pos,
            "order": order_case(_cap["rcts"], _cap["aes"]), "svr": a[0], "svc": a[1]}


def rank_table(values):
    u = sorted(set(values))
    return {v: i for i, v in enumerate(u)}


def encode_steps(steps, H, W, vr, vc, ew, ns, kscale=1):
    """tree operations of one real sweep -> StatusTree_Trace case in "bridge" mode.  Floats become ranks
    (order-isomorphic, SMALLEST_GRAD -> -1000); rows are renumbered compactly per trace (row ids are only
    names); the per-row interpolation flags of every query come from a float64 re-evaluation."""
    ids = {0: 0}
    for s in steps:
        for x in s["live"]:
            if x not in ids:
                ids[x] = len(ids)
        if s["op"] == "I" and s["id"] not in ids:
            ids[s["id"]] = len(ids)
        if s["op"] == "D" and s["deleted"] not in ids:
            ids[s["deleted"]] = len(ids)
    n = len(ids) + 1                      # + NIL row
    gvals, avals = [], []
    for s in steps:
        for row in list(s["live"].values()) + [s["nil"]]:
            gvals += [row[1], row[2], row[3], row[7]]
            avals += [row[4], row[5], row[6]]
        if s["op"] == "Q":
            gvals += [s["g"], s["res"]]
            avals.append(s["ang"])
        if s["op"] == "I":
            gvals += s["val"][1:4]
            avals += s["val"][4:7]
    grank = rank_table([v for v in gvals if v > -1e21])
    arank = rank_table([v for v in avals if v > -1e21])

    def G(v):
        return SMALL if v <= -1e21 else grank[v]

    def A(v):
        return SMALL if v <= -1e21 else arank[v]

    def K(v):                            # keys are squared map distances; kscale = cscale**2 makes them integers
        k = int(round(v * kscale))
        if abs(k - v * kscale) > 1e-9:
            raise ValueError("non-integer key %r" % v)
        return k

    def L(x, nraw):                      # link field
        if x == -1 or x == nraw - 1:
            return -1
        if x == nraw:
            return n                      # the out-of-range value _create_status_struct stores in the NIL row
        return ids.get(x, n + 1)

    def rows_of(s):
        nraw = s["n"]
        rows = [[0] * 12 for _ in range(n)]
        for x, row in s["live"].items():
            rows[ids[x]] = [K(row[0]), G(row[1]), G(row[2]), G(row[3]), A(row[4]), A(row[5]), A(row[6]), G(row[7]),
                            row[8], L(row[9], nraw), L(row[10], nraw), L(row[11], nraw)]
        row = s["nil"]
        rows[n - 1] = [K(row[0]), G(row[1]), G(row[2]), G(row[3]), A(row[4]), A(row[5]), A(row[6]), G(row[7]),
                       row[8], L(row[9], nraw), L(row[10], nraw), L(row[11], nraw)]
        return rows

    events = []
    nborder = 0
    for s in steps:
        if s["op"] == "N":
            events.append({"op": "N", "id": -2, "key": 0, "v": [0] * 6, "deleted": -2,
                           "root": ids[s["root"]], "rows": rows_of(s), "qs": []})
        elif s["op"] == "I":
            v = s["val"]
            events.append({"op": "I", "id": ids[s["id"]], "key": K(v[0]),
                           "v": [G(v[1]), G(v[2]), G(v[3]), A(v[4]), A(v[5]), A(v[6])], "deleted": -2,
                           "root": ids[s["root"]], "rows": rows_of(s), "qs": []})
        elif s["op"] == "D":
            events.append({"op": "D", "id": -2, "key": K(s["key"]), "v": [0] * 6, "deleted": ids[s["deleted"]],
                           "root": ids[s["root"]], "rows": rows_of(s), "qs": []})
        else:
            flags = [0] * n
            ang, g = s["ang"], s["g"]
            for x, row in s["live"].items():
                a0, a1, a2 = row[4], row[5], row[6]
                g0, g1, g2 = row[1], row[2], row[3]
                if g1 <= -1e21 or g2 <= -1e21 or g0 <= -1e21:
                    flags[ids[x]] = 0
                    continue
                if ang < a1:
                    val = g1 + (g0 - g1) * ((a1 - ang) / (a1 - a0))
                    flat = g0 == g1
                elif ang > a1:
                    val = g1 + (g2 - g1) * ((ang - a1) / (a2 - a1))
                    flat = g1 == g2
                else:
                    val = g1
                    flat = True
                diff = val - g
                if flat and g1 == g:
                    flags[ids[x]] = 0          # g1 + 0.0 * t == g1 == g exactly: not greater
                elif abs(diff) < BAND:
                    flags[ids[x]] = 2
                    nborder += 1
                else:
                    flags[ids[x]] = 1 if diff > 0 else 0
            q = [K(s["key"]), A(ang), G(g), 1 if s["res"] > g else 0, flags]
            # a query does not change the arrays: attach it to a no-op event carrying the same dump
            events.append({"op": "Q", "id": -2, "key": K(s["key"]), "v": [0] * 6, "deleted": -2,
                           "root": ids[s["root"]], "rows": rows_of(s), "qs": [q]})
    ops = []
    for s in steps:
        if s["op"] == "I":
            ops.append([1, K(s["val"][0])])
        elif s["op"] == "D":
            ops.append([-1, K(s["key"])])
        elif s["op"] == "Q":
            ops.append([0, K(s["key"])])
    return {"n": n, "mode": "bridge", "events": events}, ops, nborder


def lay_out(data, layout):
    """the same values in another memory layout"""
    if layout == "F":
        return np.asfortranarray(data)
    if layout == "T":                     # transposed view of a C-ordered (W, H) buffer
        return np.ascontiguousarray(data.T).T
    if layout == "S":                     # every second element of a larger buffer in both directions
        big = np.zeros((2 * data.shape[0] + 1, 2 * data.shape[1] + 1), dtype=data.dtype)
        big[1::2, 1::2] = data
        return big[1::2, 1::2]
    if layout == "R":                     # negative strides
        return np.ascontiguousarray(data[::-1, ::-1])[::-1, ::-1]
    return np.ascontiguousarray(data)


def relayout(data, j):
    return lay_out(np.array(data), j.get("layout", "C"))


def run_los(j):
    H, W = j["H"], j["W"]
    vr, vc, ew, ns = j["vr"], j["vc"], j["ew"], j["ns"]
    dtype = j.get("dtype", "float64")
    if dtype.startswith("int"):
        data = np.array([[int(v) for v in row] for row in j["terrain"]], dtype=dtype)
    else:
        data = np.array([[float(v) for v in row] for row in j["terrain"]], dtype=np.float64).astype(dtype)
    # the model is evaluated on the values the raster really holds (after the dtype conversion)
    terrf = [[float(v) for v in row] for row in data.astype(np.float64)]
    terr = [[to_frac(v) for v in row] for row in terrf]
    data = lay_out(data, j.get("layout", "C"))
    cs = int(j.get("cscale", 1))          # true cell size = (ew / cs, ns / cs)

    def mk():
        return xr.DataArray(data.copy(order="K") if j.get("layout", "C") in ("C", "F") else relayout(data, j),
                            dims=["y", "x"], coords={"y": np.array(j["ys"], dtype=float),
                                                     "x": np.array(j["xs"], dtype=float)})
    ras = mk()
    before = np.array(ras.values, dtype=np.float64, copy=True)
    obs, tgt = j["obs"], j["tgt"]
    ox, oy = j["ox"], j["oy"]
    xt = j.get("oxtype", "float")
    if xt == "int":
        ox, oy = int(ox), int(oy)
    elif xt == "npfloat":
        ox, oy = np.float64(ox), np.float64(oy)
    elif xt == "npint":
        ox, oy = np.int64(ox), np.int32(oy)
    case = {"kind": "los", "H": H, "W": W, "vr": vr, "vc": vc, "ew": ew, "ns": ns, "tag": j.get("tag", ""),
            "job": j}
    _cap.clear()
    del _steps[:]
    _rec_on[0] = bool(j.get("steps")) and INTERP
    try:
        out = V.viewshed(ras, x=ox, y=oy, observer_elev=obs, target_elev=tgt)
        out = np.asarray(out.values, dtype=np.float64)
    except Exception as ex:
        _rec_on[0] = False
        case["error"] = "%s: %s" % (type(ex).__name__, ex)
        return case
    _rec_on[0] = False
    a = _cap.get("args")
    case["svr"], case["svc"] = (a[0], a[1]) if a else (-1, -1)
    case["sew"], case["sns"] = (int_or(abs(a[4]) * cs), int_or(abs(a[5]) * cs)) if a else (-999, -999)
    case["order"] = order_case(_cap["rcts"], _cap["aes"]) if a else []
    steps_first = list(_steps)
    # ---- repeated calls on the SAME raster object: another observer in between, then the first call again;
    # the result must equal the fresh result and the input values must be untouched (the function may widen
    # the dtype of the object it was given, never change a value)
    case["rep"] = 1
    if j.get("repeat"):
        try:
            other = V.viewshed(ras, x=j["xs"][-1 if vc == 0 else 0], y=j["ys"][-1 if vr == 0 else 0],
                               observer_elev=obs, target_elev=tgt)
            again = np.asarray(V.viewshed(ras, x=ox, y=oy, observer_elev=obs, target_elev=tgt).values,
                               dtype=np.float64)
            fresh = np.asarray(V.viewshed(mk(), x=ox, y=oy, observer_elev=obs, target_elev=tgt).values,
                               dtype=np.float64)
            same = (np.array_equal(again, out) and np.array_equal(fresh, out)
                    and np.array_equal(np.asarray(ras.values, dtype=np.float64), before)
                    and other.shape == out.shape)
            case["rep"] = 1 if same else 0
        except Exception as ex:
            case["rep"] = 0
            case["rep_error"] = "%s: %s" % (type(ex).__name__, ex)
    del _steps[:]
    _steps.extend(steps_first)
    vp_elev = terr[vr][vc] + to_frac(obs)
    vpf = terrf[vr][vc] + float(obs)
    target = to_frac(tgt) if tgt > 0 else Fraction(0)
    blocks, nborder = bridge(H, W, terr, terrf, vr, vc, vp_elev, vpf, target, ew / cs, ns / cs)
    scale = max(1.0, max(abs(v) for row in terrf for v in row), abs(vpf))
    cells = []
    for r in range(H):
        row = []
        for c in range(W):
            v = float(out[r, c])
            dh = terr[r][c] + target - vp_elev
            dhf = (terrf[r][c] + float(target)) - vpf
            # side of level: asserted only when exact and float64 arithmetic agree beyond rounding noise
            if dh == 0 and dhf == 0.0:
                dhs = 0
            elif abs(float(dh)) > 1e-9 * scale and (dhf > 0) == (dh > 0) and dhf != 0.0:
                dhs = 1 if dh > 0 else -1
            else:
                dhs = 2
            dh4ok = 1 if (dh * 4).denominator == 1 and abs(dh * 4) < 30000 and cs == 1 else 0
            dh4 = int(dh * 4) if dh4ok else 0
            if (r, c) == (vr, vc):
                exp = 180.0
            else:
                d = math.hypot((c - vc) * ew / cs, (r - vr) * ns / cs)
                exp = 90.0 + math.degrees(math.atan(float(dh) / d))
            inrange = (not math.isnan(v)) and 0.0 <= v <= 180.0
            row.append({"neg1": 1 if v == -1.0 else 0, "is180": 1 if v == 180.0 else 0,
                        "inrange": 1 if inrange else 0,
                        "angok": 1 if (inrange and abs(v - exp) <= 1e-3) else 0,
                        "mdeg": int(round(v * 1000)) if inrange else -1,
                        "dhs": dhs, "dh4ok": dh4ok, "dh4": dh4})
        cells.append(row)
    case["cells"] = cells
    case["blocks"] = blocks
    case["nborder"] = nborder
    case["raw"] = [[None if math.isnan(float(v)) else float(v) for v in row] for row in out]
    if j.get("steps") and INTERP:
        tcase, ops, nb2 = encode_steps(list(_steps), H, W, vr, vc, ew, ns, kscale=cs * cs)
        case["tree"] = tcase
        case["ops"] = ops
        case["nborder_tree"] = nb2
    else:
        case["ops"] = []
    return case


def main():
    jobs = json.load(sys.stdin)["jobs"]
    for j in jobs:
        if j["kind"] == "tables":
            res = run_tables(j)
        else:
            res = run_los(j)
        sys.stdout.write(json.dumps(res, separators=(",", ":")) + "\n")
    sys.stdout.flush()


if __name__ == "__main__":
    main()
