"""Worker for C18: runs the real xrspatial.zonal.trim / crop on a list of jobs, one encoded case per
job (NDJSON).  stdin: {"jobs": [...]}.

job = {mode "trim"|"crop", H, W,
       data   H x W integer codes (NaN = -99, +inf = -97, -inf = -96): trim - the raster, crop - the zones raster
       dtype  numpy dtype of that raster ("int64", "int32", "float64", "float32")
       scale  real value of code v is v*scale (default 1)
       list   integer codes of trim's `values` / crop's `zones_ids`; null = call trim with its default
       list_kind "list" | "tuple";  list_float: force python floats in the list
       table  optional: rank mode - real value of code c is table[c] (exact python ints, e.g. 2**53 + 1)
       neg_zero_cells / neg_zero_listed / nan_kind  (float64) zeros stored as -0.0, a listed 0.0 passed as -0.0,
              NaN cells stored with a sign bit / payload ("neg" | "payload" | "mixed")
       ys, xs integer index labels (may repeat; positions are identified by the non-index coordinates rowid / colid), dims [ydim, xdim], layout "C" | "F" | "view", tag}
The values raster of crop carries a distinct id per cell (float64), so a window is identified by its cells.
"""
import json
import sys
import warnings

warnings.filterwarnings("ignore")
import numpy as np
import xarray as xr

import xrspatial  # noqa
Z = sys.modules["xrspatial.zonal"]

NAN = -99
PINF = -97
NINF = -96
BAD = -98


def lay(a, layout):
    if layout == "F":
        return np.asfortranarray(a)
    if layout == "T":                        # transposed view of a C array
        return np.ascontiguousarray(a.T).T
    if layout == "rev":                      # rows reversed: negative stride
        return np.ascontiguousarray(a[::-1])[::-1]
    if layout == "view":
        big = np.zeros((a.shape[0] * 2 + 1, a.shape[1] * 3 + 2), dtype=a.dtype)
        v = big[1::2, 2::3][:a.shape[0], :a.shape[1]]
        v[...] = a
        return v
    return np.ascontiguousarray(a)


def decode(codes, dtype, scale, table=None):
    if table is not None:
        # rank mode: the real value of code c is table[c] (python ints: exact 64-bit integers)
        flat = [table[c] for row in codes for c in row]
        return np.array(flat, dtype=dtype).reshape(len(codes), len(codes[0]))
    a = np.array(codes, dtype=np.float64)
    nan, pinf, ninf = a == NAN, a == PINF, a == NINF
    a = a * scale
    if np.dtype(dtype).kind == "f":
        a[nan] = np.nan
        a[pinf] = np.inf
        a[ninf] = -np.inf
        return a.astype(dtype)
    if nan.any() or pinf.any() or ninf.any():
        raise ValueError("NaN / inf in an integer raster")
    return np.round(a).astype(dtype)


def encode(arr, scale, table=None):
    if table is not None:
        inv = {v: c for c, v in enumerate(table)}
        return [[inv.get(int(v), BAD) for v in row] for row in np.asarray(arr).tolist()]
    out = []
    for row in np.asarray(arr, dtype=np.float64):
        o = []
        for v in row:
            if np.isnan(v):
                o.append(NAN)
            elif np.isinf(v):
                o.append(PINF if v > 0 else NINF)
            else:
                q = v / scale
                o.append(int(round(q)) if abs(q - round(q)) < 1e-9 and abs(q) < 1e6 else BAD)
        out.append(o)
    return out


def pyval(code, scale, as_float):
    if code == NAN:
        return float("nan")
    if code in (PINF, NINF):
        return float("inf") if code == PINF else float("-inf")
    v = code * scale
    if as_float or v != int(v):
        return float(v)
    return int(v)


ROWID0, COLID0 = 1000, 2000


def positions(out):
    """the window as positions: the non-index coordinates rowid / colid of the sliced raster carry a distinct id per
    row / column (index labels may repeat, so they cannot identify a position)"""
    def ids(name):
        if name not in out.coords:
            return []
        return [int(v) if float(v) == int(v) else BAD for v in np.asarray(out.coords[name].values).ravel()]
    return ids("rowid"), ids("colid")


def other_coords_ok(out, dims, ys, xs):
    """index coordinates, scalar coordinate and the other non-index coordinate of the result are those of the sliced
    raster AT THE SAME POSITIONS (positions taken from rowid / colid); nothing else is attached"""
    try:
        if set(out.coords) != {dims[0], dims[1], "band", "rowlabel", "rowid", "colid"}:
            return False
        if int(out.coords["band"].values) != 3:
            return False
        rid, cid = positions(out)
        ypos = [(r - ROWID0) // 10 for r in rid]
        xpos = [(c - COLID0) // 10 for c in cid]
        if any(p < 0 or p >= len(ys) for p in ypos) or any(p < 0 or p >= len(xs) for p in xpos):
            return False
        yv = np.asarray(out.coords[dims[0]].values, dtype=np.float64)
        xv = np.asarray(out.coords[dims[1]].values, dtype=np.float64)
        return bool(np.array_equal(yv, np.array([ys[p] for p in ypos], dtype=np.float64))
                    and np.array_equal(xv, np.array([xs[p] for p in xpos], dtype=np.float64))
                    and np.array_equal(np.asarray(out.coords["rowlabel"].values, dtype=np.float64), yv * 2 + 1))
    except Exception:
        return False


def odd_floats(data, codes, j):
    """float64 rasters: store zeros as -0.0 and / or NaNs with a sign bit or payload (same VALUES, other bits)"""
    if data.dtype != np.float64:
        return data
    c = np.array(codes)
    if j.get("neg_zero_cells"):
        data[(c == 0)] = -0.0
    kind = j.get("nan_kind")
    if kind:
        pats = {"neg": [0xFFF8000000000000], "payload": [0x7FF8000000000001, 0x7FF0000000000001],
                "mixed": [0xFFF8000000000000, 0x7FF8000000000abc, 0x7FF8000000000000, 0xFFFFFFFFFFFFFFFF]}[kind]
        idx = np.argwhere(c == NAN)
        bits = data.view(np.uint64)
        for n, (y, x) in enumerate(idx):
            bits[y, x] = pats[n % len(pats)]
    return data


def run_job(j):
    mode, H, W = j["mode"], j["H"], j["W"]
    scale = j.get("scale", 1)
    dims = j.get("dims") or ["y", "x"]
    layout = j.get("layout", "C")
    table = j.get("table")
    data = lay(odd_floats(decode(j["data"], j["dtype"], scale, table), j["data"], j), layout)
    attrs = {"res": (1.0, 2.0), "nodata": -1, "note": "c18"}
    # the raster that is sliced carries, besides its two index coordinates, a scalar coordinate and a
    # non-index coordinate along y: all of them belong to "the coordinates of the original"
    coords = {dims[0]: np.array(j["ys"], dtype=np.float64), dims[1]: np.array(j["xs"], dtype=np.float64),
              "band": 3, "rowlabel": (dims[0], np.array(j["ys"], dtype=np.float64) * 2 + 1),
              "rowid": (dims[0], ROWID0 + 10 * np.arange(H)), "colid": (dims[1], COLID0 + 10 * np.arange(W))}
    if mode == "trim":
        raster = xr.DataArray(data, dims=dims, coords=coords, attrs=dict(attrs), name="input")
    else:
        # crop: the ZONES raster is a different raster of the same shape - pixel coordinates with another offset
        # and step (or, for style "bare", no coordinates at all), other attrs, no scalar coordinate
        zstyle = j.get("zones_style", "pixel")
        zattrs = {"res": (30.0, 30.0), "crs": "pixel", "zones": True}
        if zstyle == "bare":
            raster = xr.DataArray(data, dims=dims, name="zones")
        else:
            zc = {dims[0]: 1000.0 + 7.0 * np.arange(H), dims[1]: -500.0 - 3.0 * np.arange(W)}
            raster = xr.DataArray(data, dims=dims, coords=zc, attrs=zattrs, name="zones")
    lst = j.get("list")
    # the judge identifies positions by rowid / colid (given to it as ys / xs); the index labels j["ys"], j["xs"] may
    # repeat and are checked against the positions in other_coords_ok
    case = {"mode": mode, "H": H, "W": W, "data": j["data"], "ys": [ROWID0 + 10 * i for i in range(H)],
            "xs": [COLID0 + 10 * i for i in range(W)],
            "list": lst if lst is not None else [NAN], "tag": j.get("tag", ""), "job": j}
    if lst is None:
        args = None
    else:
        args = [table[c] for c in lst] if table is not None else \
            [pyval(c, scale, j.get("list_float", False)) for c in lst]
        if j.get("neg_zero_listed"):
            args = [-0.0 if (isinstance(a, float) and a == 0.0) else a for a in args]
        if j.get("list_kind") == "tuple":
            args = tuple(args)
    try:
        if mode == "trim":
            case["cells"] = j["data"]
            cscale = scale
            if args is None:
                out = Z.trim(raster)
                scan = Z._trim(raster.data, (np.nan,))
            else:
                out = Z.trim(raster, values=args)
                scan = Z._trim(raster.data, args)
        else:
            ids = np.arange(H * W, dtype=np.float64).reshape(H, W)
            case["cells"] = [[int(v) for v in row] for row in ids]
            cscale = 1
            values = xr.DataArray(lay(ids, layout), dims=dims,
                                  coords={k: (v.copy() if isinstance(v, np.ndarray) else v) for k, v in coords.items()},
                                  attrs=dict(attrs), name="vals")
            out = Z.crop(raster, values, args)
            scan = Z._crop(raster.data, args)
        o = np.asarray(out.data)
        case["scan"] = [int(v) for v in scan]
        case["out"] = {
            "h": int(o.shape[0]), "w": int(o.shape[1]),
            "cells": encode(o, cscale, table if mode == "trim" else None) if o.size else [],
            "ys": positions(out)[0], "xs": positions(out)[1],
            "attrs_ok": bool(dict(out.attrs) == attrs),
            "other_coords_ok": other_coords_ok(out, dims, j["ys"], j["xs"]),
            "dims_ok": bool(list(out.dims) == list(dims)),
        }
    except Exception as ex:  # the call itself failed
        case["error"] = "%s: %s" % (type(ex).__name__, str(ex)[:300])
    return case


def main():
    jobs = json.load(sys.stdin)["jobs"]
    out = sys.stdout
    for j in jobs:
        out.write(json.dumps(run_job(j)) + "\n")
    out.flush()


if __name__ == "__main__":
    main()
