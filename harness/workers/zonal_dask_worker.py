"""Worker for C03: zonal.stats / zonal.crosstab on NumPy rasters and on Dask rasters under many chunkings.
stdin {"jobs":[...]}; one JSON line per job: {"np": table|error, "cases": [{"zchunks","vchunks","table"|"error"}]}

job = {kind: "stats"|"crosstab", zones (HxW; numbers, "nan", "inf", "-inf"), values (HxW or LxHxW), nodata (num|null),
       zone_ids (list|null), stats (list), cat_ids (list|null), agg, zdtype, vdtype,
       chunkings: [{"z": [rows, cols], "v": [rows, cols], "sched": str, "nw": int}]}
Tables are encoded exactly: zone ids x2 as ints; integer statistics as ints; mean/var as [num, den]
(std is carried as its square); "nan"; a float that is not within tolerance of such a value -> "bad:<repr>".
"""
import json
import sys
import warnings
from fractions import Fraction

warnings.filterwarnings("ignore")
import numpy as np
import xarray as xr
import dask
import dask.array as da

import xrspatial  # noqa
Z = sys.modules["xrspatial.zonal"]

M = {"nan": np.nan, "inf": np.inf, "-inf": -np.inf}


def dec(a):
    return np.array([[M[v] if isinstance(v, str) else float(v) for v in row] for row in a], dtype=np.float64)


def enc_int(x):
    if x is None or (isinstance(x, float) and np.isnan(x)):
        return "nan"
    x = float(x)
    if np.isinf(x):
        return "inf" if x > 0 else "-inf"
    r = round(x)
    return int(r) if abs(x - r) <= 1e-9 * max(1.0, abs(x)) else "bad:%r" % x


def enc_rat(x, maxden, square=False):
    if x is None or (isinstance(x, float) and np.isnan(x)):
        return "nan"
    x = float(x)
    if np.isinf(x):
        return "inf" if x > 0 else "-inf"
    y = x * x if square else x
    f = Fraction(y).limit_denominator(maxden)
    if abs(float(f) - y) <= 1e-9 * max(1.0, abs(y)):
        return [f.numerator, f.denominator]
    return "bad:%r" % x


def enc_stats_table(df, ncell):
    rows = []
    cols = [c for c in df.columns if c != "zone"]
    for _, r in df.iterrows():
        z2 = float(r["zone"]) * 2
        row = {"zone2": int(z2) if z2 == int(z2) else "bad:%r" % r["zone"]}
        for c in cols:
            v = r[c]
            if c in ("max", "min", "sum", "count"):
                row[c] = enc_int(v)
            elif c == "mean":
                row[c] = enc_rat(v, ncell)
            elif c == "var":
                row[c] = enc_rat(v, ncell * ncell)
            elif c == "std":
                row[c] = enc_rat(v, ncell * ncell, square=True)
            else:
                row[c] = enc_int(v)
        row["raw"] = [None if (isinstance(r[c], float) and np.isnan(r[c])) else float(r[c]) for c in cols]
        rows.append(row)
    return {"columns": cols, "rows": rows}


def enc_crosstab_table(df, agg, ncell):
    cols = [c for c in df.columns if c != "zone"]
    rows = []
    for _, r in df.iterrows():
        z2 = float(r["zone"]) * 2
        row = {"zone2": int(z2) if z2 == int(z2) else "bad:%r" % r["zone"], "cells": []}
        for c in cols:
            v = r[c]
            row["cells"].append(enc_rat(v, ncell) if agg == "percentage" else enc_int(v))
        rows.append(row)
    return {"columns": [enc_int(float(c) * 2) for c in cols], "rows": rows}


def mk(arr, dtype, chunks=None, dims=("y", "x"), coords=None, layout=None):
    from harness.workers.layouts import apply_layout
    a = apply_layout(arr.astype(dtype), layout)
    if chunks is not None:
        if a.ndim == 3:
            a = da.from_array(a, chunks=(tuple(chunks[2]) if len(chunks) > 2 else (a.shape[0],),
                                         tuple(chunks[0]), tuple(chunks[1])))
        else:
            a = da.from_array(a, chunks=(tuple(chunks[0]), tuple(chunks[1])))
    return xr.DataArray(a, dims=dims, coords=coords or {})


def run_call(job, zones, values, sched="synchronous", nw=1):
    if job["kind"] == "stats":
        kw = dict(stats_funcs=list(job["stats"]))
        if job.get("zone_ids") is not None:
            kw["zone_ids"] = list(job["zone_ids"])
        if job.get("nodata") is not None:
            kw["nodata_values"] = job["nodata"]
        df = Z.stats(zones=zones, values=values, **kw)
    else:
        kw = dict(agg=job.get("agg", "count"))
        if job.get("zone_ids") is not None:
            kw["zone_ids"] = list(job["zone_ids"])
        if job.get("cat_ids") is not None:
            kw["cat_ids"] = list(job["cat_ids"])
        if job.get("nodata") is not None:
            kw["nodata_values"] = job["nodata"]
        df = Z.crosstab(zones=zones, values=values, **kw)
    lazy = hasattr(df, "compute")
    if lazy:
        if sched == "threads":
            df = df.compute(scheduler="threads", num_workers=nw)
        else:
            df = df.compute(scheduler="synchronous")
    return df.reset_index(drop=True), lazy


def run_job(job):
    zones = dec(job["zones"])
    H, W = zones.shape
    ncell = H * W
    v = job["values"]
    three_d = isinstance(v[0][0], list)
    if three_d:
        values = np.stack([dec(layer) for layer in v])
        vdims = ("layer", "y", "x")
        vcoords = {"layer": list(job.get("layer_ids", range(values.shape[0])))}
    else:
        values = dec(v)
        vdims, vcoords = ("y", "x"), None
    out = {"kind": job["kind"], "np": None, "np_error": "", "cases": []}

    def encode(df):
        if job["kind"] == "stats":
            return enc_stats_table(df, ncell)
        return enc_crosstab_table(df, job.get("agg", "count"), ncell)
    try:
        df, _ = run_call(job, mk(zones, job["zdtype"], layout=job.get("zlayout")),
                         mk(values, job["vdtype"], dims=vdims, coords=vcoords, layout=job.get("vlayout")))
        out["np"] = encode(df)
    except Exception as ex:
        out["np_error"] = "%s: %s" % (type(ex).__name__, str(ex)[:200])
    for ch in job["chunkings"]:
        case = {"z": ch["z"], "v": ch["v"], "sched": ch.get("sched", "synchronous"), "nw": ch.get("nw", 1),
                "table": None, "error": "", "lazy": 0}
        try:
            zr = mk(zones, job["zdtype"], chunks=ch["z"], layout=job.get("zlayout"))
            vr = mk(values, job["vdtype"], chunks=ch["v"], dims=vdims, coords=vcoords, layout=job.get("vlayout"))
            df, lazy = run_call(job, zr, vr, case["sched"], case["nw"])
            case["lazy"] = int(lazy)
            case["table"] = encode(df)
        except Exception as ex:
            case["error"] = "%s: %s" % (type(ex).__name__, str(ex)[:200])
        out["cases"].append(case)
    return out


def main():
    jobs = json.load(sys.stdin)["jobs"]
    for j in jobs:
        sys.stdout.write(json.dumps(run_job(j)) + "\n")
    sys.stdout.flush()


if __name__ == "__main__":
    main()
