"""Worker for X01 (specification coverage beyond the listed properties): runs the real bump, zonal.apply,
suggest_zonal_canvas, get_full_extent, lnglat_to_meters, summarize_terrain on a list of jobs
and prints one encoded case per job (NDJSON).  Python only observes and encodes; verdicts are TLC's
(Extras_Judge).  stdin: {"jobs": [...]}.
"""
import json
import math
import sys
import warnings

warnings.filterwarnings("ignore")
import numpy as np
import xarray as xr

import xrspatial  # noqa
from harness.workers.layouts import apply_layout

NAN = -999999
BAD = -999998


def enc(v, scale=1.0):
    v = float(v)
    if math.isnan(v):
        return NAN
    if math.isinf(v):
        return BAD
    x = v * scale
    k = int(round(x))
    return k if abs(x - k) <= 1e-9 * max(1.0, abs(x)) and abs(k) < 2 ** 30 else BAD


def enc_grid(a, scale=1.0):
    return [[enc(v, scale) for v in row] for row in np.asarray(a)]


def dec_grid(g, dtype="float64"):
    a = np.array([[np.nan if v == NAN else v for v in row] for row in g], dtype="float64")
    return a.astype(dtype)


def job_bump(j):
    from xrspatial import bump
    W, H, sp, D = j["W"], j["H"], j["sp"], j["D"]
    bumps = j["bumps"]                                     # [[x, y, zD]]; height = zD / D
    seen = {}

    def height_func(locs):
        seen["locs"] = np.array(locs).tolist()
        # the locations are drawn by the library; overwrite them IN PLACE with the job's (the array is passed on)
        for i, (x, y, _) in enumerate(bumps):
            locs[i, 0] = x
            locs[i, 1] = y
        hs = np.array([b[2] / D for b in bumps], dtype=j.get("hdtype", "float64"))
        return hs
    out = {"kind": "bump", "W": W, "H": H, "sp": sp, "D": D, "bumps": bumps, "err": 0, "obs": [], "shape": [0, 0],
           "res": 0}
    try:
        np.random.seed(j.get("seed", 0))
        r = bump(W, H, count=len(bumps), height_func=height_func, spread=sp)
        out["shape"] = list(r.shape)
        out["obs"] = enc_grid(r.data, D)
        out["res"] = 1 if r.attrs.get("res") == 1 else 0
        out["dims"] = list(r.dims)
    except Exception as ex:
        out["err"] = 1
        out["error"] = "%s: %s" % (type(ex).__name__, str(ex)[:200])
    return out


def job_apply(j):
    from xrspatial.zonal import apply
    zones = np.array(j["zones"], dtype=j.get("zdtype", "int64"))
    layers = [dec_grid(g) for g in j["values"]]
    H, W = zones.shape
    three_d = j.get("three_d", False)
    vals = np.stack(layers, axis=-1) if three_d else layers[0]
    vals = apply_layout(vals.astype(j.get("vdtype", "float64")), j.get("vlayout")) if not three_d \
        else vals.astype(j.get("vdtype", "float64"))
    zarr = apply_layout(zones, j.get("zlayout"))
    table = dict(zip(j["fk"], j["fv"]))

    def func(x):
        x = float(x)                       # np.vectorize fixes the output type from the first result: always float
        if math.isnan(x) or x != int(x):
            return x
        return float(table.get(int(x), x))
    zr = xr.DataArray(zarr)
    vr = xr.DataArray(vals)
    out = {"kind": "apply", "H": H, "W": W, "zones": j["zones"], "values": j["values"], "nodata": j["nodata"],
           "fk": j["fk"], "fv": j["fv"], "err": 0, "error": "", "obs": [], "inplace": 0, "zones_after": j["zones"]}
    try:
        ret = apply(zr, vr, func) if j.get("default_nodata") else apply(zr, vr, func, nodata=j["nodata"])
        res = np.asarray(vr.values)
        out["obs"] = [enc_grid(res[:, :, k]) for k in range(res.shape[2])] if three_d else [enc_grid(res)]
        out["inplace"] = 1 if ret is None else 0
        out["zones_after"] = np.asarray(zr.values).astype("int64").tolist()
    except Exception as ex:
        out["err"] = 1
        out["error"] = "%s: %s" % (type(ex).__name__, str(ex)[:200])
    return out


def job_canvas(j):
    from xrspatial.zonal import suggest_zonal_canvas
    P, A, xr_, yr = j["P"], j["A"], j["xr"], j["yr"]
    crs = j["crs"]
    u = 1e6 if crs == "Mercator" else 1.0              # Mercator jobs are stated in megametres
    x0, y0 = j.get("x0", 0), j.get("y0", 0)
    conv = (lambda v: v) if j.get("how") != "np" else np.float64
    rng = (lambda a, b: (a, b)) if j.get("seq") != "list" else (lambda a, b: [a, b])
    out = {"kind": "canvas", "P": P, "A": A, "xr": xr_, "yr": yr, "crs": crs, "err": 0, "h": -1, "w": -1}
    try:
        h, w = suggest_zonal_canvas(conv(A * u * u), rng(conv(x0 * u), conv((x0 + xr_) * u)),
                                    rng(conv(y0 * u), conv((y0 + yr) * u)), crs=crs, min_pixels=P)
        out["h"], out["w"] = int(h), int(w)
        out["types"] = [type(h).__name__, type(w).__name__]
    except Exception as ex:
        out["err"] = 1
        out["error"] = "%s: %s" % (type(ex).__name__, str(ex)[:200])
    return out


def job_extent(j):
    from xrspatial.zonal import get_full_extent
    crs = j["crs"]
    out = {"kind": "extent", "crs": crs, "known": 1 if crs in ("Mercator", "Geographic") else 0, "err": 0,
           "obs": [[0, 0], [0, 0]]}
    try:
        e = get_full_extent(crs)
        out["obs"] = [[enc(e[0][0]), enc(e[0][1])], [enc(e[1][0]), enc(e[1][1])]]
    except Exception:
        out["err"] = 1
    return out


def job_lnglat(j):
    from xrspatial.utils import lnglat_to_meters
    lng, lat = j["lng"], j["lat"]
    how = j.get("how", "array")
    out = {"kind": "lnglat", "lng": lng, "lat": lat, "err": 0, "xdeg": [], "ym": []}
    try:
        if how == "scalar":
            xs, ys = zip(*[lnglat_to_meters(float(a), float(b)) for a, b in zip(lng, lat)])
        elif how == "list":
            xs, ys = lnglat_to_meters(list(map(float, lng)), list(map(float, lat)))
        elif how == "tuple":
            xs, ys = lnglat_to_meters(tuple(map(float, lng)), tuple(map(float, lat)))
        else:
            xs, ys = lnglat_to_meters(np.array(lng, dtype=j.get("dtype", "float64")),
                                      np.array(lat, dtype=j.get("dtype", "float64")))
        shift = math.pi * 6378137
        out["xdeg"] = [enc(float(x) * 180.0 / shift) for x in xs]
        out["ym"] = [int(round(float(y))) for y in ys]
    except Exception as ex:
        out["err"] = 1
        out["error"] = "%s: %s" % (type(ex).__name__, str(ex)[:200])
    return out


def job_summary(j):
    from xrspatial.analytics import summarize_terrain
    from xrspatial import slope, curvature, aspect
    a = dec_grid(j["grid"]).astype(j.get("dtype", "float64"))
    H, W = a.shape
    name = j.get("name")
    r = xr.DataArray(apply_layout(a, j.get("layout")), dims=["y", "x"], name=name,
                     coords={"y": np.arange(H)[::-1] * float(j.get("cy", 1)), "x": np.arange(W) * float(j.get("cx", 1))},
                     attrs={"res": (float(j.get("cx", 1)), float(j.get("cy", 1)))})
    out = {"kind": "summary", "name": name or "", "named": 1 if name else 0, "err": 0, "error": "", "vars": [],
           "same": [0, 0, 0, 0]}
    try:
        ds = summarize_terrain(r)
        out["vars"] = [str(k) for k in ds.data_vars]
        exp = [a, slope(r).data, curvature(r).data, aspect(r).data]
        same = []
        for k, e in zip(out["vars"], exp):
            o = np.asarray(ds[k].data)
            same.append(1 if o.shape == e.shape and o.dtype == e.dtype and
                        np.array_equal(o, e, equal_nan=True) else 0)
        out["same"] = (same + [0, 0, 0, 0])[:4]
    except Exception as ex:
        out["err"] = 1
        out["error"] = "%s: %s" % (type(ex).__name__, str(ex)[:200])
    return out


KINDS = {"bump": job_bump, "apply": job_apply, "canvas": job_canvas, "extent": job_extent,
         "lnglat": job_lnglat, "summary": job_summary}


def main():
    jobs = json.load(sys.stdin)["jobs"]
    for j in jobs:
        try:
            case = KINDS[j["kind"]](j)
        except Exception as ex:
            case = {"kind": j["kind"], "worker_error": "%s: %s" % (type(ex).__name__, ex)}
        case["job"] = j
        sys.stdout.write(json.dumps(case) + "\n")
    sys.stdout.flush()


if __name__ == "__main__":
    main()
