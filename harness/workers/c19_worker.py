"""Worker for C19: runs the real distance functions, kernel builders, calc_cellsize and the
distance-string parser on a list of jobs and prints one encoded case per job (NDJSON).
Python only observes and encodes; every verdict is TLC's (Metrics_Judge / Kernels_Judge /
DistanceParse_Judge).  stdin: {"jobs": [...]}.
"""
import json
import math
import struct
import sys
import warnings
from fractions import Fraction

warnings.filterwarnings("ignore")
try:                                  # a wrongly accepted huge radius must end in MemoryError, not in the OOM killer
    import resource
    resource.setrlimit(resource.RLIMIT_AS, (6 << 30, 6 << 30))
except Exception:
    pass
import numpy as np
import xarray as xr

import xrspatial  # noqa
P = sys.modules["xrspatial.proximity"]
C = sys.modules["xrspatial.convolution"]

NANQ = [0, 0]     # NaN / no value
BADQ = [1, 0]     # float bridge failed


def bits(x):
    return struct.pack(">d", float(x)).hex()


def to_frac(x, D, rel=1e-9):
    """float bridge rational(D): nearest fraction with denominator <= D, accepted within rel*max(1,|x|)."""
    x = float(x)
    if math.isnan(x) or math.isinf(x):
        return NANQ
    f = Fraction(x).limit_denominator(D)
    if abs(float(f) - x) <= rel * max(1.0, abs(x)):
        return [f.numerator, f.denominator]
    return BADQ


NPT = {"int8": np.int8, "int16": np.int16, "int32": np.int32, "int64": np.int64, "uint8": np.uint8,
       "uint16": np.uint16, "uint32": np.uint32, "uint64": np.uint64, "float32": np.float32, "float64": np.float64}
FULL_PRECISION = ("float", "int", "int64", "float64", "mixed_int")


def conv_args(vals, argtype):
    """coordinates the way a user may pass them: python floats / ints, numpy scalars of any dtype, mixed"""
    if argtype in (None, "float"):
        return [float(v) for v in vals]
    if argtype == "int":
        return [int(v) for v in vals]
    if argtype == "mixed32":            # x as float32, y as float64 (order of vals: x..., then y...)
        h = len(vals) // 2
        return [np.float32(v) for v in vals[:h]] + [np.float64(v) for v in vals[h:]]
    if argtype == "mixed_int":          # python ints and floats mixed
        return [int(v) if i % 2 == 0 else float(v) for i, v in enumerate(vals)]
    return [NPT[argtype](v) for v in vals]


def job_plane(j):
    sc = j["scale"]
    at = j.get("argtype")
    bx, by = j.get("base") or (0, 0)       # translation (the table the spec sees is relative to it)
    num = (lambda v, b: b + v // sc) if at in ("int", "int64") else (lambda v, b: b + v / sc)
    xs = conv_args([num(v, bx) for v in j["xs"]], at if at != "mixed32" else "float32")
    ys = conv_args([num(v, by) for v in j["ys"]], at if at != "mixed32" else "float64")
    rel = 1e-9 if at in (None,) + FULL_PRECISION else 1e-5      # float32 arithmetic for the narrow types
    n = len(xs)
    fn = P.euclidean_distance if j["metric"] == "E" else P.manhattan_distance
    obs, bt, raw = [], [], []
    for a in range(n):
        ro, rb = [], []
        for b in range(n):
            d = float(fn(xs[a], xs[b], ys[a], ys[b]))
            rb.append(bits(d))
            if math.isnan(d) or math.isinf(d):
                ro.append(-3)
                continue
            v = d * sc
            if j["metric"] == "E":
                v = v * v
            k = int(round(v))
            ro.append(k if abs(v - k) <= rel * max(1.0, abs(v)) and k >= 0 else -2)
        obs.append(ro)
        bt.append(rb)
    return {"kind": "plane", "metric": j["metric"], "xs": j["xs"], "ys": j["ys"], "scale": sc,
            "obs": obs, "bits": bt}


def job_sphere(j):
    lon, lat = j["lon"], j["lat"]
    n = len(lon)
    rad = j.get("radius")
    at = j.get("argtype")
    dsc = j.get("sc", 1)                   # coordinates are given in 1/sc degrees
    lo = conv_args([v / dsc if dsc != 1 else v for v in lon], at if at != "mixed32" else "float32")
    la = conv_args([v / dsc if dsc != 1 else v for v in lat], at if at != "mixed32" else "float64")
    full = at in (None,) + FULL_PRECISION
    # a non-default sphere radius: distances are reported in units of radius / 6378137, i.e. in the metres the
    # same pair would have on the default sphere, so every table is judged at the same resolution
    unit = 1.0 if rad is None else float(rad) / 6378137.0
    m, z, bt = [], [], []
    err = None
    for a in range(n):
        rm, rz, rb = [], [], []
        for b in range(n):
            try:
                if rad is None:
                    d = float(P.great_circle_distance(lo[a], lo[b], la[a], la[b]))
                else:
                    d = float(P.great_circle_distance(lo[a], lo[b], la[a], la[b], float(rad)))
            except Exception as ex:   # inside the domain: must not raise
                d = float("nan")
                err = "%s: %s" % (type(ex).__name__, ex)
            rb.append(bits(d))
            if math.isnan(d) or math.isinf(d) or d < 0:
                rm.append(-3)
                rz.append(0)
            else:
                rm.append(int(round(d / unit)) if d / unit < 2e9 else 2000000000)
                rz.append(1 if d == 0.0 else 0)
        m.append(rm); z.append(rz); bt.append(rb)
    R = 6378137.0
    # narrow argument types make numba compute the haversine in float32 (7 digits: metres at planetary scale)
    out = {"kind": "sphere", "lon": lon, "lat": lat, "m": m, "zero": z, "bits": bt,
           "piR": int(math.ceil(math.pi * R)) + (0 if full else 16), "slack": 2 if full else max(64, int(R * 1e-3)),   # float32 haversine near antipodes is ill-conditioned:
           # the error of 2R*asin(sqrt(a)) for a -> 1 is of the order R*sqrt(eps32) (kilometres, not metres)
           "ztol": 0 if full else 8, "sc": dsc}
    if err:
        out["error"] = err
    return out


def job_range(j):
    x1, x2, y1, y2 = conv_args(j["vals"], j.get("argtype"))
    raised, finite, other = 0, 0, None
    try:
        d = float(P.great_circle_distance(x1, x2, y1, y2))
        finite = 1 if math.isfinite(d) else 0
    except ValueError:
        raised = 1
    except Exception as ex:
        raised = 1
        other = "%s: %s" % (type(ex).__name__, ex)
    out = {"kind": "range", "cls": j["cls"], "vals": j["vals"], "raised": raised, "finite": finite}
    if other:
        out["other"] = other
    return out


def q2f(q):
    return q[0] / q[1]


def arg(q, how):
    """the way the user passes a number: python float, python int, numpy float, or a string"""
    v = q[0] / q[1]
    if how == "int" and q[1] == 1:
        return int(q[0])
    if how == "np":
        return np.float64(v)
    if how == "np32":
        return np.float32(v)
    if how == "npint":
        return np.int64(q[0]) if q[1] == 1 else np.float64(v)
    if how == "int32":
        return np.int32(q[0]) if q[1] == 1 else np.float32(v)
    if how == "str":
        return repr(v) if q[1] != 1 else str(q[0])
    return float(v)


def enc_kernel(k):
    k = np.asarray(k)
    if k.ndim != 2:
        return [[-99]]
    out = []
    for row in k:
        r = []
        for v in row:
            v = float(v)
            r.append(int(v) if v == int(v) and abs(v) < 50 else -99)
        out.append(r)
    return out


def job_kernel(j):
    how = j.get("how", "float")
    cx, cy = arg(j["cx"], "float" if how == "str" else how), arg(j["cy"], "float" if how == "str" else how)
    r = j.get("rstr") or arg(j["r"], how)
    out = {"kind": j["kind"], "cx": j["cx"], "cy": j["cy"], "r": j["r"], "ri": j.get("ri") or [0, 1],
           "how": how, "err": 0, "kernel": []}
    try:
        if j["kind"] == "circle":
            k = C.circle_kernel(cx, cy, r)
        else:
            ri = j.get("ristr") or arg(j["ri"], how)
            k = C.annulus_kernel(cx, cy, r, ri)
        out["kernel"] = enc_kernel(k)
        out["dtype"] = str(np.asarray(k).dtype)
    except Exception as ex:
        out["err"] = 1
        out["error"] = "%s: %s" % (type(ex).__name__, ex)
    return out


def job_cellsize(j):
    mode = j["mode"]
    H, W = j["H"], j["W"]
    data = np.zeros((H, W))
    attrs = {}
    if j.get("unit"):
        attrs["unit"] = j["unit"]
    if mode == "attr2":
        attrs["res"] = (q2f(j["rx"]), q2f(j["ry"]))
        r = xr.DataArray(data, dims=["y", "x"], attrs=attrs)
    elif mode == "attr1":
        attrs["res"] = q2f(j["rx"])
        r = xr.DataArray(data, dims=["y", "x"], attrs=attrs)
    else:
        sc = j["sc"]
        r = xr.DataArray(data, dims=["y", "x"], attrs=attrs,
                         coords={"y": np.array(j["ys"], dtype=float) / sc, "x": np.array(j["xs"], dtype=float) / sc})
    out = {"kind": "cellsize", "mode": mode, "unit": j.get("unit", ""), "rx": j.get("rx", [0, 1]),
           "ry": j.get("ry", [0, 1]), "xs": j.get("xs", []), "ys": j.get("ys", []), "sc": j.get("sc", 1),
           "err": 0, "obs": [NANQ, NANQ]}
    try:
        cxv, cyv = C.calc_cellsize(r)
        out["obs"] = [to_frac(cxv, 10 ** 6), to_frac(cyv, 10 ** 6)]
        out["raw"] = [float(cxv), float(cyv)]
    except Exception as ex:
        out["err"] = 1
        out["error"] = "%s: %s" % (type(ex).__name__, ex)
    return out


def job_custom(j):
    what = j["what"]
    rows, cols = j["rows"], j["cols"]
    if what == "ndarray":
        k = np.ones((rows, cols))
    elif what == "list":
        k = [[1.0] * cols for _ in range(rows)]
    else:
        k = xr.DataArray(np.ones((rows, cols)))
    raised, same = 0, 0
    try:
        o = C.custom_kernel(k)
        same = 1 if o is k else 0
    except Exception:
        raised = 1
    return {"kind": "custom", "rows": rows, "cols": cols, "isarray": 1 if what == "ndarray" else 0,
            "raised": raised, "same": same, "what": what}


def job_parse(j):
    s = j["s"]
    out = {"kind": "parse", "s": s, "chars": list(s), "pub": 0, "helper": 0, "metres": NANQ}
    try:
        m = C._get_distance(s)
        out["helper"] = 1
        out["metres"] = to_frac(m, 125000)
        out["raw"] = float(m)
    except Exception as ex:
        out["helper_error"] = "%s: %s" % (type(ex).__name__, ex)
    cell = float(j.get("cell") or 1.0)
    try:
        k = C.circle_kernel(cell, cell, s)
        out["pub"] = 1
        out["shape"] = list(np.asarray(k).shape)
    except Exception as ex:
        out["pub_error"] = "%s: %s" % (type(ex).__name__, str(ex)[:80])
    return out


KINDS = {"plane": job_plane, "sphere": job_sphere, "range": job_range, "circle": job_kernel,
         "annulus": job_kernel, "cellsize": job_cellsize, "custom": job_custom, "parse": job_parse}


def main():
    jobs = json.load(sys.stdin)["jobs"]
    out = sys.stdout
    for j in jobs:
        try:
            case = KINDS[j["kind"]](j)
        except Exception as ex:   # never lose a line: the driver turns this into a machinery failure
            case = {"kind": j["kind"], "worker_error": "%s: %s" % (type(ex).__name__, ex)}
        case["job"] = j
        out.write(json.dumps(case) + "\n")
    out.flush()


if __name__ == "__main__":
    main()
