"""Worker for C01: run one library function on a NumPy raster and on Dask rasters with many chunkings /
schedulers; record what the Dask path did (map_overlap / map_blocks arguments) and how its result
compares with the NumPy result.  stdin {"jobs": [...]}, one JSON line per job:
   {"func":..., "error_np": str|None, "cases": [case, ...]}
job = {func, params, H, W, vals, dtype, xs, ys, res, chunkings: [{rows, cols, sched, nw, rows2, cols2}]}
"""
import json
import random
import sys
import warnings

warnings.filterwarnings("ignore")
import numpy as np
import xarray as xr
import dask
import dask.array as da

import xrspatial  # noqa
from xrspatial import focal, convolution, classify, multispectral
from xrspatial import slope, aspect, curvature, hillshade, perlin, generate_terrain

# ----------------------------------------------------------------------------- recording
_overlaps, _blocks = [], []
_o_overlap_fn = da.map_overlap
_o_overlap_m = da.Array.map_overlap
_o_blocks_fn = da.map_blocks
_o_blocks_m = da.Array.map_blocks


def _depth2(d):
    if isinstance(d, dict):
        return [int(d.get(0, 0)), int(d.get(1, 0))]
    if isinstance(d, (tuple, list)):
        return [int(d[0]), int(d[1])]
    return [int(d), int(d)]


def _rec_overlap(arrs, kw):
    a0 = arrs[0]
    b = kw.get("boundary")
    _overlaps.append({"depth": _depth2(kw.get("depth", 0)),
                      "boundary_nan": bool(isinstance(b, float) and np.isnan(b)),
                      "same_chunks": bool(all(getattr(a, "chunks", a0.chunks) == a0.chunks for a in arrs)),
                      "numblocks": [int(n) for n in a0.numblocks]})


def _fn_overlap(func, *args, **kw):
    _rec_overlap([a for a in args if isinstance(a, da.Array)], kw)
    return _o_overlap_fn(func, *args, **kw)


def _m_overlap(self, func, *args, **kw):
    _rec_overlap([self], kw)
    return _o_overlap_m(self, func, *args, **kw)


def _fn_blocks(func, *args, **kw):
    arrs = [a for a in args if isinstance(a, da.Array) and a.ndim >= 2]
    if arrs:
        _blocks.append({"same_chunks": bool(all(a.chunks == arrs[0].chunks for a in arrs)), "n": len(arrs)})
    return _o_blocks_fn(func, *args, **kw)


def _m_blocks(self, func, *args, **kw):
    _blocks.append({"same_chunks": True, "n": 1})
    return _o_blocks_m(self, func, *args, **kw)


da.map_overlap = _fn_overlap
da.Array.map_overlap = _m_overlap
da.map_blocks = _fn_blocks
da.Array.map_blocks = _m_blocks


# ----------------------------------------------------------------------------- schedulers
def make_get(seed):
    from dask._task_spec import convert_legacy_graph
    rng = random.Random(seed)

    def get(dsk, keys, **kw):
        dsk = dict(dsk.__dask_graph__()) if hasattr(dsk, "__dask_graph__") else dict(dsk)
        g = convert_legacy_graph(dsk)
        deps = {k: set(d for d in g[k].dependencies if d in g) for k in g}
        done = {}
        todo = set(g)
        while todo:
            ready = sorted([k for k in todo if deps[k] <= set(done)], key=str)
            k = rng.choice(ready)
            done[k] = g[k]({d: done[d] for d in deps[k]})
            todo.remove(k)

        def pick(ks):
            if isinstance(ks, list):
                return [pick(x) for x in ks]
            return done[ks]
        return pick(keys)
    return get


def compute(arr, sched, nw):
    if sched == "synchronous":
        return arr.compute(scheduler="synchronous")
    if sched == "threads":
        return arr.compute(scheduler="threads", num_workers=nw)
    return arr.compute(scheduler=make_get(nw))


# ----------------------------------------------------------------------------- user reducers (jitted)
from xrspatial.utils import ngjit


@ngjit
def red_first(kv):          # exposes window orientation: value at buffer[0, last]
    return kv[0, kv.shape[1] - 1]


@ngjit
def red_weighted(kv):       # position-weighted sum of the non-NaN entries
    s = 0.0
    for i in range(kv.shape[0]):
        for j in range(kv.shape[1]):
            if not np.isnan(kv[i, j]):
                s += (1 + 2 * i + 7 * j) * kv[i, j]
    return s


@ngjit
def red_count(kv):
    n = 0.0
    for i in range(kv.shape[0]):
        for j in range(kv.shape[1]):
            if not np.isnan(kv[i, j]):
                n += 1
    return n


REDUCERS = {"first": red_first, "weighted": red_weighted, "count": red_count}


# ----------------------------------------------------------------------------- rasters
def decode(vals):
    m = {"nan": np.nan, "inf": np.inf, "-inf": -np.inf}
    return np.array([[m[v] if isinstance(v, str) else float(v) for v in row] for row in vals], dtype=np.float64)


def band(base, i):
    """deterministic companion bands for multi-raster functions"""
    if i == 0:
        return base
    if i == 1:
        return base[::-1, :] + 1.0
    if i == 2:
        return base[:, ::-1] * 2.0 + 3.0
    return base.T[: base.shape[0], : base.shape[1]] if base.shape[0] == base.shape[1] else base * 0.5 + 2


def mk(data, job, chunks=None):
    H, W = data.shape
    coords = {}
    dy, dx = job.get("dims") or ["y", "x"]
    if job["func"] in ("true_color",):      # true_color reads r['y'] / r['x'] by name
        dy, dx = "y", "x"
    if job.get("xs") is not None:
        coords = {dy: np.array(job["ys"], dtype=np.float64), dx: np.array(job["xs"], dtype=np.float64)}
    attrs = {}
    if job.get("res") is not None:
        attrs["res"] = tuple(job["res"])
    from harness.workers.layouts import apply_layout
    d = apply_layout(data.astype(job["dtype"]), job.get("layout"))
    if chunks is not None:
        d = da.from_array(d, chunks=(tuple(chunks[0]), tuple(chunks[1])))
    return xr.DataArray(d, dims=[dy, dx], coords=coords, attrs=attrs, name="r")


def call(job, rasters):
    f = job["func"]
    p = job.get("params", {})
    r = rasters[0]
    if f == "slope":
        return slope(r)
    if f == "aspect":
        return aspect(r)
    if f == "curvature":
        return curvature(r)
    if f == "hillshade":
        return hillshade(r, azimuth=p.get("az", 225), angle_altitude=p.get("alt", 25))
    if f == "focal_mean":
        ex = [np.nan if e == "nan" else float(e) for e in p.get("excludes", ["nan"])]
        return focal.mean(r, passes=p.get("passes", 1), excludes=ex)
    kern = np.array(p["kernel"], dtype=np.float64) if "kernel" in p else None
    if f == "focal_apply":
        if p.get("reducer"):
            return focal.apply(r, kern, REDUCERS[p["reducer"]])
        return focal.apply(r, kern)
    if f == "focal_stats":
        return focal.focal_stats(r, kern, stats_funcs=p.get("stats", ["mean", "max", "min", "range", "std", "var", "sum"]))
    if f == "hotspots":
        return focal.hotspots(r, kern)
    if f == "convolution_2d":
        return convolution.convolution_2d(r, kern)
    if f == "binary":
        return classify.binary(r, p["values"])
    if f == "reclassify":
        return classify.reclassify(r, bins=p["bins"], new_values=p["new_values"])
    if f == "equal_interval":
        return classify.equal_interval(r, k=p.get("k", 3))
    ms = multispectral
    if f == "arvi":
        return ms.arvi(rasters[0], rasters[1], rasters[2])
    if f == "evi":
        return ms.evi(rasters[0], rasters[1], rasters[2], c1=p.get("c1", 6.0), c2=p.get("c2", 7.5),
                      soil_factor=p.get("soil_factor", 1.0), gain=p.get("gain", 2.5))
    if f == "gci":
        return ms.gci(rasters[0], rasters[1])
    if f == "nbr":
        return ms.nbr(rasters[0], rasters[1])
    if f == "nbr2":
        return ms.nbr2(rasters[0], rasters[1])
    if f == "ndvi":
        return ms.ndvi(rasters[0], rasters[1])
    if f == "ndmi":
        return ms.ndmi(rasters[0], rasters[1])
    if f == "savi":
        return ms.savi(rasters[0], rasters[1], soil_factor=p.get("soil_factor", 1.0))
    if f == "sipi":
        return ms.sipi(rasters[0], rasters[1], rasters[2])
    if f == "ebbi":
        return ms.ebbi(rasters[0], rasters[1], rasters[2])
    if f == "true_color":
        return ms.true_color(rasters[0], rasters[1], rasters[2], nodata=p.get("nodata", 1))
    if f == "perlin":
        return perlin(r, freq=tuple(p.get("freq", (1, 1))), seed=p.get("seed", 5))
    if f == "generate_terrain":
        return generate_terrain(r, x_range=tuple(p.get("x_range", (0, 500))), y_range=tuple(p.get("y_range", (0, 500))),
                                seed=p.get("seed", 10), zfactor=p.get("zfactor", 4000),
                                full_extent=p.get("full_extent"))
    raise KeyError(f)


NBANDS = {"arvi": 3, "evi": 3, "gci": 2, "nbr": 2, "nbr2": 2, "ndvi": 2, "ndmi": 2, "savi": 2, "sipi": 3,
          "ebbi": 3, "true_color": 3}


def ulps(a, b, coarse32=False):
    """largest |a-b| in units of the spacing of the LARGEST finite magnitude of the reference (float bridge
    rule: a value formed by cancellation legitimately carries the rounding of the larger intermediate);
    single-precision spacing when either side is float32.  Integers: plain absolute difference.
    NaN vs non-NaN, or inf vs finite: 10**9."""
    a = np.asarray(a)
    b = np.asarray(b)
    if not a.size:
        return 0
    if a.dtype.kind != "f":
        return int(np.max(np.abs(a.astype(np.int64) - b.astype(np.int64))))
    a64 = a.astype(np.float64)
    b64 = b.astype(np.float64)
    bad = (np.isnan(a64) ^ np.isnan(b64)) | (np.isinf(a64) ^ np.isinf(b64)) | \
          (np.isinf(a64) & np.isinf(b64) & (a64 != b64))
    if bad.any():
        return 10 ** 9
    fin = np.isfinite(a64) & np.isfinite(b64)
    if not fin.any():
        return 0
    scale = float(np.max(np.abs(b64[fin])))
    scale = scale if scale > 0 else 1.0
    sp = float(np.spacing(np.float32(scale))) if (coarse32 or a.dtype == np.float32) else float(np.spacing(scale))
    d = float(np.max(np.abs(a64[fin] - b64[fin])))
    return int(min(np.ceil(d / sp), 10 ** 9))


def borderline_mask(job, rasters_np, ref):
    """cells whose discrete class legitimately hangs on a float comparison (DESIGN rule 3)"""
    f = job["func"]
    H, W = ref.shape[-2], ref.shape[-1]
    m = np.zeros((H, W), dtype=bool)
    if f == "hotspots":
        data = rasters_np[0].data.astype(np.float32)
        kern = np.array(job["params"]["kernel"], dtype=np.float64)
        mean_array = convolution.convolve_2d(data, kern / kern.sum())
        z = (mean_array - np.nanmean(data)) / np.nanstd(data)
        for thr in (1.65, 1.96, 2.58, 0.0):
            m |= np.abs(np.abs(z) - thr) < 1e-3
    elif f == "equal_interval":
        data = rasters_np[0].data.astype(np.float64)
        fin = data[np.isfinite(data)]
        if fin.size:
            lo, hi = fin.min(), fin.max()
            k = job["params"].get("k", 3)
            for i in range(1, k):
                cut = lo + i * (hi - lo) / k
                m |= np.abs(data - cut) <= 1e-6 * max(1.0, abs(cut))
    return m


def run_job(job):
    base = decode(job["vals"])
    H, W = base.shape
    nb = NBANDS.get(job["func"], 1)
    out = {"func": job["func"], "error_np": None, "cases": [], "job": {k: job[k] for k in job if k != "chunkings"}}
    try:
        rn = [mk(band(base, i), job) for i in range(nb)]
        ref_da = call(job, rn)
        ref = np.asarray(ref_da.data)
    except Exception as ex:
        out["error_np"] = "%s: %s" % (type(ex).__name__, str(ex)[:300])
        return out
    bmask = borderline_mask(job, rn, ref)
    # vacuity guard: a reference with no finite (float) / no two distinct (int) cells compares nothing
    out["ref_informative"] = int(np.isfinite(ref).sum()) if ref.dtype.kind == "f" else int(ref.size)
    for ch in job["chunkings"]:
        rows, cols = ch["rows"], ch["cols"]
        case = {"rows": rows, "cols": cols, "sched": ch.get("sched", "synchronous"), "nw": ch.get("nw", 1),
                "error": "", "lazy": 0, "overlaps": [], "nblocks_calls": 0, "blocks_same_chunks": True,
                "ndiff": 0, "maxulp": 0, "ndiff_near": 0, "ndiff_borderline": 0, "shape_ok": True,
                "dtype_ok": True, "meta_ok": True}
        try:
            _overlaps.clear()
            _blocks.clear()
            rd = [mk(band(base, i), job, chunks=(rows, cols) if i == 0 or not ch.get("rows2")
                     else (ch["rows2"], ch["cols2"])) for i in range(nb)]
            res = call(job, rd)
            case["lazy"] = int(isinstance(res.data, da.Array))
            case["overlaps"] = [dict(o) for o in _overlaps]
            case["nblocks_calls"] = len(_blocks)
            case["blocks_same_chunks"] = bool(all(b["same_chunks"] for b in _blocks))
            if case["lazy"] and ch.get("joint"):
                # evaluate this result TOGETHER with the same function applied to other rasters (values shifted):
                # two lazy results in one graph must not interfere (task-key collisions); both are compared
                rn2 = [mk(band(base, i) * 1.5 + 2.0, job) for i in range(nb)]
                ref2 = np.asarray(call(job, rn2).data)
                rd2 = [mk(band(base, i) * 1.5 + 2.0, job, chunks=(rows, cols)) for i in range(nb)]
                res2 = call(job, rd2)
                import dask as _dask
                kw = {"scheduler": "synchronous"} if case["sched"] != "threads" else {"scheduler": "threads",
                                                                                      "num_workers": case["nw"]}
                got, got2 = _dask.compute(res.data, res2.data, **kw)
                got, got2 = np.asarray(got), np.asarray(got2)
                if got2.shape == ref2.shape:
                    g2 = got2.astype(ref2.dtype)
                    same2 = (g2 == ref2) | (np.isnan(g2) & np.isnan(ref2)) if ref2.dtype.kind == "f" else (g2 == ref2)
                    if not same2.all():
                        case["joint_other_differs"] = int((~same2).sum())
                        case["joint_other_ulp"] = ulps(g2, ref2, coarse32=True)
            else:
                got = np.asarray(compute(res.data, case["sched"], case["nw"])) if case["lazy"] else np.asarray(res.data)
            case["meta_ok"] = bool(res.dims == ref_da.dims and dict(res.attrs) == dict(ref_da.attrs)
                                   and all(np.array_equal(res[c].values, ref_da[c].values) for c in ref_da.coords))
            if got.shape != ref.shape:
                case["shape_ok"] = False
            else:
                case["dtype_ok"] = bool(got.dtype == ref.dtype)
                g = got.astype(ref.dtype) if got.dtype != ref.dtype else got
                if ref.dtype.kind == "f":
                    same = (g == ref) | (np.isnan(g) & np.isnan(ref))
                    # bit-identical also distinguishes -0.0/+0.0? no: numerically equal counts as equal
                else:
                    same = g == ref
                diff = ~same
                case["ndiff"] = int(diff.sum())
                if case["ndiff"]:
                    case["maxulp"] = ulps(g, ref, coarse32=(got.dtype == np.float32 or ref.dtype == np.float32))
                    # collapse leading axes (focal_stats: stats x H x W ; true_color: H x W x 4)
                    d2 = diff
                    if d2.ndim == 3 and d2.shape[-2:] == (H, W):
                        d2 = d2.any(axis=0)
                    elif d2.ndim == 3:
                        d2 = d2.any(axis=-1)
                    case["ndiff_borderline"] = int((d2 & bmask).sum())
                    # near a block edge?
                    rc = np.cumsum(rows)[:-1]
                    cc = np.cumsum(cols)[:-1]
                    ry = job.get("radius", [1, 1])[0] + 1
                    rx = job.get("radius", [1, 1])[1] + 1
                    near = np.zeros((H, W), dtype=bool)
                    for e in rc:
                        near[max(0, e - ry):e + ry, :] = True
                    for e in cc:
                        near[:, max(0, e - rx):e + rx] = True
                    case["ndiff_near"] = int((d2 & near).sum())
                    case["ndiff_cells"] = int(d2.sum())
                    case["example"] = {"got": repr(g[diff][:3].tolist()), "ref": repr(ref[diff][:3].tolist())}
        except Exception as ex:
            case["error"] = "%s: %s" % (type(ex).__name__, str(ex)[:300])
        if case.get("joint_other_differs"):
            # the companion result of a joint compute was wrong: report it through the same fields
            case["ndiff"] += case["joint_other_differs"]
            case["maxulp"] = max(case["maxulp"], case["joint_other_ulp"])     # TLC applies the function's tolerance
        case.setdefault("ndiff_cells", case["ndiff"])
        case.setdefault("example", {"got": "", "ref": ""})
        out["cases"].append(case)
    return out


def main():
    jobs = json.load(sys.stdin)["jobs"]
    for j in jobs:
        sys.stdout.write(json.dumps(run_job(j)) + "\n")
    sys.stdout.flush()


if __name__ == "__main__":
    main()
