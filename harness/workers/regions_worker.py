"""Worker for C16: runs the real xrspatial.zonal.regions() on a list of jobs and prints one encoded
case per job (NDJSON), in the encoding of spec/Regions_Judge.tla.  stdin: {"jobs": [...]}.

job = {H, W, vals (H x W ints, -99 = NaN), n (4|8), dtype ("float64"|"float32"|"int32"|"int64"),
       xs, ys (int coordinate vectors), dims ([ydim, xdim]), attrs ({str: str|int}),
       scalar ({name: int} extra non-index coordinates), name (str|None),
       idx, base (enumeration index and alphabet, idx=-1 when not enumerated), steps (0/1), tag}
Python only runs the code and encodes; every clause is decided by TLC.
"""
import json
import sys
import warnings

warnings.filterwarnings("ignore")
import numpy as np
import xarray as xr

import xrspatial  # noqa
Z = sys.modules["xrspatial.zonal"]

NANV = -99


def enc_label(v):
    v = float(v)
    if np.isnan(v):
        return NANV
    if np.isinf(v) or v != round(v) or abs(v) > 1e9:
        return -1
    v = int(round(v))
    return v if v >= 0 else -2


def enc_coord_values(a):
    out = []
    for v in np.asarray(a).ravel().tolist():
        try:
            f = float(v)
        except Exception:
            out.append(-1000001)
            continue
        out.append(int(f) if (f == round(f) and abs(f) < 1e6) else -1000002)
    return out


def enc_identity(da):
    cv = da.coords.variables                 # Variables, not DataArrays: much cheaper to read
    names = sorted(str(k) for k in cv)
    cnames = ["%s(%s)" % (k, ",".join(map(str, cv[k].dims))) for k in names]
    cvals = [enc_coord_values(cv[k].values) for k in names]
    attrs = sorted("%s=%r" % (k, v) for k, v in da.attrs.items())
    return [str(d) for d in da.dims], cnames, cvals, attrs


def build_array(codes, dtype, valmap, layout, nan_code=NANV):
    """codes (H x W small ints) -> ndarray of `dtype` holding valmap[str(code)] (the code itself when there is no
    valmap), in the requested memory layout.  The values only ever reach TLC as codes."""
    dt = np.dtype(dtype)

    def val(c):
        if c == nan_code and dt.kind == "f":
            return np.nan
        sv = valmap[str(c)] if valmap else c
        return float(sv) if dt.kind == "f" else int(sv)
    H, W = len(codes), len(codes[0])
    a = np.empty((H, W), dtype=dt)
    for r in range(H):
        for c in range(W):
            a[r, c] = val(codes[r][c])
    pool = sorted(set(v for row in codes for v in row if not (v == nan_code and dt.kind == "f")))
    if layout in (None, "C"):
        return np.ascontiguousarray(a)
    if layout == "F":
        return np.asfortranarray(a)
    if layout == "T":                      # transposed view of a C-ordered array
        return np.ascontiguousarray(a.T).T
    if layout == "R":                      # view with negative strides
        return np.ascontiguousarray(a[::-1, ::-1])[::-1, ::-1]
    if layout == "S":                      # every second row / column of a larger array filled with other cells
        big = np.empty((2 * H, 2 * W), dtype=dt)
        for r in range(2 * H):
            for c in range(2 * W):
                big[r, c] = val(pool[(r * 3 + c) % len(pool)]) if pool else 0
        big[::2, ::2] = a
        return big[::2, ::2]
    raise ValueError("layout %r" % layout)


def run_job(j):
    H, W = j["H"], j["W"]
    dtype = j.get("dtype", "float64")
    data = build_array(j["vals"], dtype, j.get("valmap"), j.get("layout"))
    dims = j.get("dims") or ["y", "x"]
    coords = {dims[0]: np.array(j["ys"], dtype=np.float64), dims[1]: np.array(j["xs"], dtype=np.float64)}
    for k, v in (j.get("scalar") or {}).items():
        coords[k] = v
    raster = xr.DataArray(data, dims=dims, coords=coords, attrs=dict(j.get("attrs") or {}))
    d_in, cn_in, cv_in, at_in = enc_identity(raster)
    case = {"H": H, "W": W, "n": j["n"], "vals": j["vals"], "idx": j.get("idx", -1), "base": j.get("base", []),
            "steps": int(j.get("steps", 1)), "dims_in": d_in, "cnames_in": cn_in, "cvals_in": cv_in,
            "attrs_in": at_in, "tag": j.get("tag", ""), "dtype": dtype, "job": j}
    try:
        kw = {"neighborhood": j["n"]}
        if j.get("name"):
            kw["name"] = j["name"]
        res = Z.regions(raster, **kw)
        o = np.asarray(res.data)
        d_out, cn_out, cv_out, at_out = enc_identity(res)
    except Exception as ex:
        case["error"] = "%s: %s" % (type(ex).__name__, str(ex)[:300])
        return case
    case["oshape"] = [int(s) for s in o.shape]
    if o.ndim == 2:
        case["out"] = [[enc_label(v) for v in row] for row in o]
    else:
        case["out"] = []
    case.update({"dims_out": d_out, "cnames_out": cn_out, "cvals_out": cv_out, "attrs_out": at_out,
                 "name_out": str(res.name)})
    return case


def main():
    jobs = json.load(sys.stdin)["jobs"]
    out = sys.stdout
    for j in jobs:
        out.write(json.dumps(run_job(j)) + "\n")
    out.flush()


if __name__ == "__main__":
    main()
