"""Worker for C11 (History): replays one HISTORY of public calls in ONE process and logs after every call
the result digest and the hidden state of the library (mutable defaults, module tables, JIT signature
counts, global NumPy RNG).  With a single call per process it produces the fresh-interpreter reference.

stdin {"jobs": [history...]} (normally one history per process); one NDJSON line per history.
history = {"hid": n, "threads": t, "calls": [{"c": id, "f": name, "variant": i, "dtype": .., "backend": .., "layout": ..}]}
threads: NUMBA_NUM_THREADS is set by the driver in the environment; dask uses the threaded scheduler with
`threads` workers when threads > 1, the synchronous scheduler otherwise.
"""
import inspect
import json
import os
import sys
import traceback
import warnings

warnings.filterwarnings("ignore")
import numpy as np
import xarray as xr

from harness import alias_api as A

CAT, MODS = A.catalog()
THREADS = 1


def sched():
    if THREADS > 1:
        return dict(scheduler="threads", num_workers=THREADS)
    return dict(scheduler="synchronous")


def comp(d):
    if hasattr(d, "compute"):
        return d.compute(**sched())
    return d


def digest_result(res, ins, values=None):
    """bit-exact digest of everything a caller can see of a result (values: already computed data of a lazy DataArray)"""
    import pandas as pd
    if res is None:
        # in-place contract (zonal.apply): the result is what happened to the inputs
        return A._h("|".join(digest_result(x, []) for _r, x, _m in ins).encode())
    if isinstance(res, xr.DataArray):
        v = np.asarray(comp(res.data)) if values is None else np.asarray(values)
        name = str(res.name)
        if getattr(res.data, "name", None) == res.name and res.name is not None:
            name = "<dask key>"        # xarray adopts the dask graph key as name when the function sets none; not raster content
        parts = [A.exact_digest(v), str(res.dtype), str(res.dims), name, json.dumps(A.attrs_pairs(res))]
        for k in sorted(map(str, res.coords)):
            c = res.coords[k]
            parts.append(k + str(c.dims) + A.exact_digest(np.asarray(c.values)))
        return A._h("|".join(parts).encode())
    if isinstance(res, xr.Dataset):
        return A._h("|".join([str(k) + digest_result(res[k], []) for k in res.data_vars] + [json.dumps(A.attrs_pairs(res))]).encode())
    if type(res).__module__.startswith("dask"):
        res = res.compute(**sched())
    if isinstance(res, pd.DataFrame):
        parts = [repr(list(map(str, res.columns))), repr(list(map(str, res.index)))]
        for c in res.columns:
            parts.append(A.exact_digest(res[c].to_numpy()))
        return A._h("|".join(parts).encode())
    if isinstance(res, np.ndarray):
        return A.exact_digest(res)
    if isinstance(res, (list, tuple)):
        return A._h(("[" + ",".join(digest_result(r, []) for r in res) + "]").encode())
    return A._h(A.deep_repr(res).encode())


def caller_writes(res):
    """the caller edits the result in place (fills arrays with a sentinel, adds an attrs key): a result must not alias
    hidden library state, so a later identical call must still return the fresh-interpreter result.  -> number of objects
    written"""
    import pandas as pd
    n = 0
    if isinstance(res, xr.DataArray):
        try:
            res.attrs["__caller_wrote__"] = 1
            n += 1
        except Exception:
            pass
        d = res.data
        if isinstance(d, np.ndarray):
            n += caller_writes(d)
        return n
    if isinstance(res, xr.Dataset):
        return sum(caller_writes(res[k]) for k in res.data_vars)
    if isinstance(res, np.ndarray):
        if res.flags.writeable and res.size and res.dtype.kind in "iufb":
            res[...] = (res.dtype.type(1) if res.dtype.kind == "b" else res.dtype.type(-7) if res.dtype.kind in "if"
                        else res.dtype.type(7))
            return 1
        return 0
    if isinstance(res, pd.DataFrame):
        try:
            for col in res.columns:
                if res[col].dtype.kind in "iuf":
                    res[col].values[...] = -7
            res.iloc[:, :] = -7
            return 1
        except Exception:
            return 0
    if isinstance(res, list):
        n = sum(caller_writes(r) for r in res)
        try:
            res.append("__caller_wrote__")
            n += 1
        except Exception:
            pass
        return n
    if isinstance(res, tuple):
        return sum(caller_writes(r) for r in res)
    if isinstance(res, dict):
        res["__caller_wrote__"] = 1
        return 1
    return 0


# ----------------------------------------------------------------------------- hidden state

def public_functions():
    out = []
    for mn, m in MODS.items():
        for n, f in vars(m).items():
            if n.startswith("__"):
                continue
            if inspect.isfunction(f) and f.__module__ == m.__name__:
                out.append((mn + "." + n, f))
    return sorted(out, key=lambda t: t[0])


PUBLIC = public_functions()


def code_id(f):
    c = getattr(f, "__code__", None)
    if c is None:
        pf = getattr(f, "py_func", None)
        c = getattr(pf, "__code__", None)
    if c is None:
        return "obj:" + getattr(f, "__name__", type(f).__name__)
    return "%s:%s" % (getattr(f, "__qualname__", "?"), A._h(c.co_code + repr(c.co_consts).encode()))


def table_repr(t):
    if isinstance(t, dict):
        return "{" + ",".join("%r:%s" % (k, table_repr(v)) for k, v in t.items()) + "}"
    if isinstance(t, (list, tuple)):
        return "[" + ",".join(table_repr(v) for v in t) + "]"
    if callable(t):
        return code_id(t)
    return A.deep_repr(t)


def hidden_state():
    d = []
    for name, f in PUBLIC:
        d.append("%s=%s/%s" % (name, A.deep_repr(f.__defaults__), A.deep_repr(f.__kwdefaults__)))
    Z, L, CV, P = MODS["zonal"], MODS["local"], MODS["convolution"], MODS["proximity"]
    tables = [
        ["zonal._DEFAULT_STATS", A._h(table_repr(Z._DEFAULT_STATS).encode())],
        ["zonal._DASK_BLOCK_STATS", A._h(table_repr(Z._DASK_BLOCK_STATS).encode())],
        ["zonal._DASK_STATS", A._h(table_repr(Z._DASK_STATS).encode())],
        ["local.funcs", A._h(table_repr(L.funcs).encode())],
        ["convolution.UNITS", A._h(table_repr(CV.UNITS).encode())],
        ["proximity.DISTANCE_METRICS", A._h(table_repr(P.DISTANCE_METRICS).encode())],
        ["proximity.modes", A._h(repr((P.PROXIMITY, P.ALLOCATION, P.DIRECTION)).encode())],
    ]
    jit = []
    for mn, m in MODS.items():
        n = 0
        for k, o in vars(m).items():
            if hasattr(o, "signatures") and hasattr(o, "py_func") and getattr(o.py_func, "__module__", "") == m.__name__:
                n += len(o.signatures)
        jit.append([mn, n])
    st = np.random.get_state()
    rng = A._h(st[1].tobytes() + repr(st[2:]).encode())
    return {"defaults": A._h("\n".join(d).encode()), "tables": tables, "jit": jit, "rng": rng}


def changed_defaults(before):
    """names of public functions whose defaults differ from `before` (list of strings)"""
    now = ["%s=%s/%s" % (name, A.deep_repr(f.__defaults__), A.deep_repr(f.__kwdefaults__)) for name, f in PUBLIC]
    return [a.split("=")[0] for a, b in zip(now, before) if a != b]


def run_history(h):
    global THREADS
    THREADS = int(h.get("threads", 1))
    out = {"hid": h.get("hid", 0), "threads": THREADS, "numba_threads": os.environ.get("NUMBA_NUM_THREADS", ""),
           "init": hidden_state(), "events": [], "job": h}
    d0 = ["%s=%s/%s" % (name, A.deep_repr(f.__defaults__), A.deep_repr(f.__kwdefaults__)) for name, f in PUBLIC]
    lazy = {}
    shared = {}          # objects REUSED across the calls of this session: rasters ("share") and kernel arrays ("shared_kernel")
    deferred = []        # (event, lazy result, inputs): Dask results built now and computed at the end of the session
    for c in h["calls"]:
        entry = CAT[c["f"]]
        # parameters: an explicit dict ("params", the one-parameter pairs of C11) or a catalogue variant
        p = c["params"] if c.get("params") is not None else entry["variants"][c.get("variant", 0)]
        ev = {"c": c["c"], "f": c["f"], "raised": False, "err": "", "digest": ""}
        try:
            if c.get("set_threads"):
                import numba
                numba.set_num_threads(int(c["set_threads"]))
            hw = c.get("hw") or [A.H, A.W]
            skey = None
            if c.get("share"):
                # the SAME DataArray objects are passed to every call of the session that names this share id
                skey = (c["share"], c["f"] if c.get("share_per_function") else "", c.get("backend", "numpy"), c.get("dtype"),
                        len(entry["ins"]), tuple(k for _r, k, _o in entry["ins"]), p.get("_kind"))
            if skey is not None and skey in shared:
                ins = shared[skey]
            else:
                ins = A.build_inputs(entry, c.get("dtype", "float64"), c.get("layout", "C"), c.get("backend", "numpy"),
                                     c.get("seed", 0), h=hw[0], w=hw[1], p=p, finite=bool(c.get("finite")),
                                     coordscale=c.get("coordscale", 1), attrs_family=int(c.get("attrs_family", 0)))
                if skey is not None:
                    shared[skey] = ins
            pp = A.public(p)
            if c.get("shared_kernel"):
                # one float kernel array built once (by the library's own constructor) and handed to every consumer
                kid = c["shared_kernel"]["id"]
                if kid not in shared:
                    ctor, cargs = c["shared_kernel"]["ctor"]
                    shared[kid] = getattr(MODS["convolution"], ctor)(*cargs)
                pp = dict(pp, kernel=shared[kid])
            fn = getattr(MODS[entry["mod"]], entry["attr"])
            args, kwargs = entry["kw"](pp, [x for _r, x, _m in ins])
            with warnings.catch_warnings():
                warnings.simplefilter("ignore")
                res = fn(*args, **kwargs)
                if c.get("defer") and isinstance(res, xr.DataArray) and hasattr(res.data, "compute"):
                    deferred.append((ev, res, ins))          # digested when the session ends
                    ev["deferred"] = True
                else:
                    ev["digest"] = digest_result(res, ins)
                if c.get("keep_lazy") and isinstance(res, xr.DataArray) and hasattr(res.data, "compute"):
                    lazy[c["c"]] = res
                if c.get("joint"):
                    # JOINT compute: the lazy results of this call and of the named earlier calls are computed TOGETHER
                    # (dask.compute(r1, r2, ...)): graph keys that collide between them would mix up their blocks.
                    # One extra event per earlier call (its result as seen in the joint computation), then this one.
                    import dask
                    others = [k for k in c["joint"] if k in lazy]
                    objs = [lazy[k] for k in others] + [res]
                    vals = dask.compute(*[o.data for o in objs], **sched())
                    for k, o, v in zip(others, objs, vals):
                        e2 = {"c": k, "f": k.split("|")[0], "raised": False, "err": "", "digest": digest_result(o, [], values=v),
                              "joint": True}
                        e2.update(hidden_state())
                        e2["defaults_changed_in"] = []
                        out["events"].append(e2)
                    ev["digest"] = digest_result(res, ins, values=vals[-1])
                    ev["joint"] = True
                # CallerWritesResult: after the result was digested the caller overwrites it in place
                ev["caller_wrote"] = caller_writes(res) if c.get("caller_writes", True) else 0
        except Exception as ex:
            ev["raised"] = True
            ev["err"] = "%s: %s" % (type(ex).__name__, str(ex)[:300])
            ev["tb"] = traceback.format_exc()[-1200:]
        ev.update(hidden_state())
        ev["defaults_changed_in"] = changed_defaults(d0)[:5]
        out["events"].append(ev)
        if c.get("flush"):
            # end of a session: the Dask results built earlier in it are computed now
            for dev, dres, dins in deferred:
                try:
                    dev["digest"] = digest_result(dres, dins)
                except Exception as ex:
                    dev["raised"] = True
                    dev["err"] = "%s: %s" % (type(ex).__name__, str(ex)[:300])
            deferred = []
    for ev, res, ins in deferred:
        try:
            ev["digest"] = digest_result(res, ins)
        except Exception as ex:
            ev["raised"] = True
            ev["err"] = "%s: %s" % (type(ex).__name__, str(ex)[:300])
    import resource
    ru = resource.getrusage(resource.RUSAGE_SELF)
    out["cpu_s"] = round(ru.ru_utime + ru.ru_stime, 1)      # includes the import of the library
    return out


def main():
    jobs = json.load(sys.stdin)["jobs"]
    for j in jobs:
        try:
            r = run_history(j)
        except Exception:
            r = {"hid": j.get("hid", 0), "machinery_error": traceback.format_exc()[-3000:], "job": j}
        sys.stdout.write(json.dumps(r) + "\n")
    sys.stdout.flush()


if __name__ == "__main__":
    main()
