"""Worker for C08: runs the real slope / aspect / curvature / hillshade / summarize_terrain /
get_dataarray_resolution (NumPy backend) on a list of jobs and prints one encoded case per job.

stdin: {"jobs": [...]}.  job = {kind, H, W, vals (rows; numbers or "nan"), dtype,
        meta {rk, rx [n,d], ry [n,d], xs [ints], ys [ints], cd}, az, alt, chunks ([rows, cols] -> Dask),
        layout C|F|T|S|R (memory layout), dims (dimension names), off (integer added to every elevation),
        sh (SCALE family: every elevation times 2^sh; float dtypes), ...}

kinds  F  formula case -> all four outputs, bridged to integers (see spec/Stencil_Judge.tla)
       G  general raster (floats) -> outputs as integers + NaN mask
       P  single-cell perturbation (p, v) -> cells whose output bits differ
       K  + integer constant k -> cells whose output bits differ
       R  np.rot90 -> outputs of both rasters
       S  summarize_terrain vs the separate calls
       C  get_dataarray_resolution only -> the two cell sizes as exact rationals

The float bridge lives here (and only here):
  * slope    theta -> [floor(tan^2(theta - tol) K), ceil(tan^2(theta + tol) K)],  tol = 1e-3 deg, K = 1e5
  * aspect   theta -> (sin, cos)(theta -+ (tol + 1e-4 deg)) * 1e6 rounded            (compass direction <<E,N>>)
  * curvature x -> [floor((x - t) KC), ceil((x + t) KC)],  t = 5e-7 |x| + 1e-9, KC = 1000
  * hillshade x -> every integer gradient argument (gx2, gy2) in the raster's value range whose closed form
                   (the library's published gradient-shading formula, float64) is within 1e-5 of x
"""
import json
import math
import sys
import warnings
from fractions import Fraction

warnings.filterwarnings("ignore")
import numpy as np
import xarray as xr

import xrspatial  # noqa
from xrspatial import aspect, curvature, hillshade, slope
from xrspatial.analytics import summarize_terrain
from xrspatial.utils import get_dataarray_resolution

NAN = -2000000000
TOL = 1e-3          # degrees
SK = 100000
KC = 1000
FNS = ("slope", "aspect", "curvature", "hillshade")


def num(n, d):
    return int(n // d) if d == 1 else n / d


def relayout(a, layout):
    """the same values in another memory layout: C, F(ortran), T(ransposed view), S(trided view), R(eversed view)"""
    if layout == "F":
        return np.asfortranarray(a)
    if layout == "T":
        return np.ascontiguousarray(a.T).T
    if layout == "S":
        big = np.zeros((2 * a.shape[0] + 1, 3 * a.shape[1] + 2), dtype=a.dtype)
        big[1::2, 2::3] = a
        return big[1::2, 2::3]
    if layout == "R":
        return np.ascontiguousarray(a[::-1, ::-1])[::-1, ::-1]
    return a


def build(j, vals=None):
    H, W = j["H"], j["W"]
    rows = j["vals"] if vals is None else vals
    a = np.array([[np.nan if v == "nan" else float(v) for v in row] for row in rows], dtype=np.float64)
    a = a + j.get("off", 0)                    # elevations near the top of the raster dtype (exact in float64)
    if j.get("sh"):
        a = a * (2.0 ** j["sh"])               # SCALE family: the integer raster times a power of two (exact)
    dt = j.get("dtype", "float64")
    a = relayout(a.astype(dt), j.get("layout", "C"))
    m = j.get("meta") or {"rk": "none", "rx": [0, 1], "ry": [0, 1], "xs": [], "ys": [], "cd": 1}
    dims = j.get("dims") or ["y", "x"]
    coords = {}
    if m["xs"]:
        coords[dims[1]] = np.array(m["xs"], dtype=np.float64) / m["cd"]
    if m["ys"]:
        coords[dims[0]] = np.array(m["ys"], dtype=np.float64) / m["cd"]
    rx, ry = num(*m["rx"]), num(*m["ry"])
    rk = m["rk"]
    attrs = {}
    if rk == "tuple":
        attrs["res"] = (rx, ry)
    elif rk == "list":
        attrs["res"] = [rx, ry]
    elif rk == "ndarray_float":
        attrs["res"] = np.array([rx, ry], dtype=np.float64)
    elif rk == "tuple_npfloat":
        attrs["res"] = (np.float64(rx), np.float64(ry))
    elif rk == "ndarray_int":
        attrs["res"] = np.array([int(rx), int(ry)], dtype=np.int64)
    elif rk == "tuple_npint":
        attrs["res"] = (np.int64(rx), np.int64(ry))
    elif rk == "scalar_int":
        attrs["res"] = int(rx)
    elif rk == "scalar_float":
        attrs["res"] = float(rx)
    elif rk == "triple":
        attrs["res"] = (rx, ry, 1)
    elif rk == "str":
        attrs["res"] = "30m"
    if j.get("chunks"):          # Dask backend: the same raster wrapped as a dask array with the given chunking
        import dask.array as da
        a = da.from_array(a, chunks=(tuple(j["chunks"][0]), tuple(j["chunks"][1])))
    return xr.DataArray(a, dims=dims, coords=coords, attrs=attrs, name="elev")


def run4(r, j):
    kw = {}
    if "az" in j:
        kw = dict(azimuth=j["az"], angle_altitude=j["alt"])
    outs = {"slope": slope(r).data, "aspect": aspect(r).data, "curvature": curvature(r).data,
            "hillshade": hillshade(r, **kw).data}
    if j.get("chunks"):
        # the result must be lazy until computed; compute on the deterministic single-threaded scheduler
        _lazy[0] = all(type(v).__module__.startswith("dask") for v in outs.values())
        return {f: np.asarray(v.compute(scheduler="synchronous")) for f, v in outs.items()}
    _lazy[0] = True
    return {f: np.asarray(v) for f, v in outs.items()}


_lazy = [True]


def bitdiff(a, b):
    """cells where the two arrays differ bit for bit (all NaNs are one value)"""
    if a.shape != b.shape or a.dtype != b.dtype:
        return [[-9, -9]]
    u = {4: np.uint32, 8: np.uint64}[a.dtype.itemsize]
    d = (a.view(u) != b.view(u)) & ~(np.isnan(a) & np.isnan(b))
    return [[int(r), int(c)] for r, c in zip(*np.nonzero(d))]


def micro(a):
    """degrees -> integer micro-degrees (NAN sentinel for NaN)"""
    return [[NAN if np.isnan(v) else int(round(float(v) * 1e6)) for v in row] for row in a]


def hill_formula(gx2, gy2, az, alt):
    x = gx2 / 2.0
    y = gy2 / 2.0
    azr = (360.0 - az) * math.pi / 180.0
    altr = alt * math.pi / 180.0
    sl = math.pi / 2.0 - np.arctan(np.sqrt(x * x + y * y))
    asp = np.arctan2(-x, y)
    sh = math.sin(altr) * np.sin(sl) + math.cos(altr) * np.cos(sl) * np.cos((azr - math.pi / 2.0) - asp)
    return (sh + 1.0) / 2.0


def case_F(j):
    r = build(j)
    H, W = j["H"], j["W"]
    o = run4(r, j)
    m = j.get("meta") or {"rk": "none", "rx": [0, 1], "ry": [0, 1], "xs": [], "ys": [], "cd": 1}
    c = {"kind": "F", "H": H, "W": W,
         "g": [[NAN if v == "nan" else int(v) + j.get("off", 0) for v in row] for row in j["vals"]],
         "rk": m["rk"], "rx": m["rx"], "ry": m["ry"], "xs": m["xs"], "ys": m["ys"], "cd": m["cd"],
         "sk": SK, "ck": KC,
         "shape_ok": int(all(o[f].shape == (H, W) for f in FNS)), "lazy_ok": int(_lazy[0])}
    if not c["shape_ok"]:
        for f in ("slope", "slo", "shi", "aspect", "alo", "ahi", "curv", "clo", "chi", "hill", "hcand"):
            c[f] = []
        return c
    # SCALE family (sh != 0): the raster was (integer raster) * 2^sh.  The exact laws (Stencil.tla, ScaleLaw): aspect
    # unchanged, tan(slope) and curvature and the hillshade gradient scale by 2^sh.  The bridge divides the observed
    # tan^2 / curvature back by the (exact) power of two, so TLC judges against the INTEGER raster; tolerances become
    # relative (1e-5 of the angle + 4 float32 ulp) because 1e-3 degrees absolute says nothing about a 1e-8 degree slope.
    sh = j.get("sh", 0)
    sc = 2.0 ** sh
    s = o["slope"].astype(np.float64)
    # micro-degrees, but a non-zero slope never encodes as 0 ("slope is 0 iff the gradient is 0" is judged exactly)
    c["slope"] = [[NAN if np.isnan(v) else (int(round(float(v) * 1e6)) or (1 if v > 0 else (-1 if v < 0 else 0)))
                   for v in row] for row in s]
    slo, shi = [], []
    CAP = 32 * SK
    for row in s:
        l, h = [], []
        for v in row:
            if np.isnan(v):
                l.append(0); h.append(0)
            elif sh == 0:
                a0 = max(v - TOL, 0.0)
                a1 = v + TOL
                # beyond 80 degrees tan^2 explodes: lower bound capped (sound), upper bound "unbounded" (-1)
                l.append(int(math.floor(math.tan(math.radians(min(a0, 80.0))) ** 2 * SK)))
                h.append(int(math.ceil(math.tan(math.radians(a1)) ** 2 * SK)) if a1 < 80.0 else -1)
            else:
                tv = 1e-5 * abs(v) + 4 * float(np.spacing(np.float32(abs(v))))
                a0 = min(max(v - tv, 0.0), 89.999999)
                a1 = v + tv
                lo = math.tan(math.radians(a0)) ** 2 / (sc * sc) * SK
                l.append(int(math.floor(min(lo, CAP))))
                hi = math.tan(math.radians(a1)) ** 2 / (sc * sc) * SK if a1 < 89.9999999 else float("inf")
                h.append(int(math.ceil(hi)) if hi < CAP else -1)
        slo.append(l); shi.append(h)
    c["slo"], c["shi"] = slo, shi
    a = o["aspect"].astype(np.float64)
    c["aspect"] = micro(a)
    alo, ahi = [], []
    for row in a:
        l, h = [], []
        for v in row:
            if np.isnan(v) or v == -1.0:
                l.append([0, 0]); h.append([0, 0])
            else:
                t0 = math.radians(v - TOL - 1e-4)
                t1 = math.radians(v + TOL + 1e-4)
                l.append([int(round(math.sin(t0) * 1e6)), int(round(math.cos(t0) * 1e6))])
                h.append([int(round(math.sin(t1) * 1e6)), int(round(math.cos(t1) * 1e6))])
        alo.append(l); ahi.append(h)
    c["alo"], c["ahi"] = alo, ahi
    k = o["curvature"].astype(np.float64) / sc
    c["curv"] = [[0 if np.isnan(v) else 1 for v in row] for row in k]
    c["clo"] = [[0 if np.isnan(v) else int(math.floor((v - (5e-7 * abs(v) + 1e-9)) * KC)) for v in row] for row in k]
    c["chi"] = [[0 if np.isnan(v) else int(math.ceil((v + (5e-7 * abs(v) + 1e-9)) * KC)) for v in row] for row in k]
    hs = o["hillshade"].astype(np.float64)
    c["hill"] = [[NAN if np.isnan(v) else int(round(float(v) * 1e6)) for v in row] for row in hs]
    fin = [v for row in j["vals"] for v in row if v != "nan"]
    R = int(max(fin) - min(fin)) if fin else 0
    gx, gy = np.meshgrid(np.arange(-R, R + 1), np.arange(-R, R + 1), indexing="ij")
    table = hill_formula(gx.astype(np.float64) * sc, gy.astype(np.float64) * sc, j.get("az", 225), j.get("alt", 25))
    hc = []
    for row in hs:
        l = []
        for v in row:
            if np.isnan(v):
                l.append([])
            else:
                ii, jj = np.nonzero(np.abs(table - v) <= 1e-5)
                l.append([[int(gx[p, q]), int(gy[p, q])] for p, q in zip(ii, jj)])
        hc.append(l)
    c["hcand"] = hc
    c["raw"] = {f: [[None if np.isnan(v) else float(v) for v in row] for row in o[f]] for f in FNS}
    return c


def case_G(j):
    r = build(j)
    o = run4(r, j)
    a = np.asarray(r.data, dtype=np.float64)
    c = {"kind": "G", "H": j["H"], "W": j["W"], "nan": [[int(np.isnan(v)) for v in row] for row in a],
         "slope": micro(o["slope"].astype(np.float64)), "aspect": micro(o["aspect"].astype(np.float64)),
         "curvature": [[NAN if np.isnan(v) else 0 for v in row] for row in o["curvature"]],
         "hillshade": micro(o["hillshade"].astype(np.float64))}
    return c


def case_P(j):
    r0 = build(j)
    o0 = run4(r0, j)
    rows = [list(row) for row in j["vals"]]
    rows[j["p"][0]][j["p"][1]] = j["v"]
    r1 = build(j, rows)
    o1 = run4(r1, j)
    c = {"kind": "P", "H": j["H"], "W": j["W"], "p": j["p"]}
    for f in FNS:
        c["d" + f] = bitdiff(o0[f], o1[f])
    c["changed"] = int(not np.array_equal(np.asarray(r0.data), np.asarray(r1.data), equal_nan=True))
    return c


def case_K(j):
    r0 = build(j)
    o0 = run4(r0, j)
    rows = [[v if v == "nan" else v + j["k"] for v in row] for row in j["vals"]]
    r1 = build(j, rows)
    o1 = run4(r1, j)
    c = {"kind": "K", "H": j["H"], "W": j["W"], "k": j["k"]}
    for f in FNS:
        c["d" + f] = bitdiff(o0[f], o1[f])
    return c


def case_R(j):
    r0 = build(j)
    o0 = run4(r0, j)
    a1 = np.rot90(np.asarray(r0.data)).copy()
    r1 = xr.DataArray(a1, dims=["y", "x"], attrs=dict(r0.attrs), name="elev")
    o1 = run4(r1, j)

    def cv(a):
        return [[NAN if np.isnan(v) else int(round(float(v) * 1000)) for v in row] for row in a]
    mx = float(np.nanmax(np.abs(o0["curvature"]))) if np.isfinite(o0["curvature"]).any() else 0.0
    return {"kind": "R", "H": j["H"], "W": j["W"],
            "s0": micro(o0["slope"].astype(np.float64)), "s1": micro(o1["slope"].astype(np.float64)),
            "a0": micro(o0["aspect"].astype(np.float64)), "a1": micro(o1["aspect"].astype(np.float64)),
            "c0": cv(o0["curvature"].astype(np.float64)), "c1": cv(o1["curvature"].astype(np.float64)),
            "ctol": 1 + int(mx * 1000 * 1e-6)}


def case_S(j):
    r = build(j)
    o = run4(r, j)
    ds = summarize_terrain(r)
    names = sorted(str(k) for k in ds.data_vars)
    ok = names == sorted(["elev", "elev-slope", "elev-curvature", "elev-aspect"])
    c = {"kind": "S", "H": j["H"], "W": j["W"], "names_ok": int(ok)}
    for f in ("slope", "aspect", "curvature"):
        c["d" + f] = bitdiff(o[f], np.asarray(ds["elev-" + f].data)) if ok else []
    return c


def case_C(j):
    r = build(j)
    cx, cy = get_dataarray_resolution(r)
    fx, fy = Fraction(float(cx)), Fraction(float(cy))
    m = j["meta"]
    big = max(fx.numerator, fx.denominator, fy.numerator, fy.denominator) > 10 ** 6
    return {"kind": "C", "H": j["H"], "W": j["W"], "rk": m["rk"], "rx": m["rx"], "ry": m["ry"], "xs": m["xs"],
            "ys": m["ys"], "cd": m["cd"],
            "ox": [0, 0] if big else [fx.numerator, fx.denominator],
            "oy": [0, 0] if big else [fy.numerator, fy.denominator]}


CASE = {"F": case_F, "G": case_G, "P": case_P, "K": case_K, "R": case_R, "S": case_S, "C": case_C}


def main():
    jobs = json.load(sys.stdin)["jobs"]
    out = sys.stdout
    for j in jobs:
        try:
            c = CASE[j["kind"]](j)
        except Exception as ex:  # the call itself failed
            c = {"kind": j["kind"], "error": "%s: %s" % (type(ex).__name__, ex)}
        c["job"] = j
        out.write(json.dumps(c) + "\n")
    out.flush()


if __name__ == "__main__":
    main()
