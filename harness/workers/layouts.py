"""Memory layouts for input rasters: same values, different buffers (shared by the workers)."""
import numpy as np


def apply_layout(arr, layout):
    """C (default) | F Fortran-ordered | T transposed view of a C array | S strided view (every 2nd column of a
    wider buffer) | R reversed view (negative strides on both axes).  2-D arrays; 3-D: applied to the last two axes."""
    if not layout or layout == "C" or arr.ndim < 2:
        return arr
    if arr.ndim == 3:
        return np.stack([apply_layout(a, layout) for a in arr]) if layout in ("S", "R") else np.asfortranarray(arr)
    if layout == "F":
        return np.asfortranarray(arr)
    if layout == "T":
        return np.ascontiguousarray(arr.T).T
    if layout == "S":
        wide = np.zeros((arr.shape[0], 2 * arr.shape[1]), dtype=arr.dtype)
        wide[:, ::2] = arr
        return wide[:, ::2]
    if layout == "R":
        buf = np.ascontiguousarray(arr[::-1, ::-1])
        return buf[::-1, ::-1]
    raise KeyError(layout)
