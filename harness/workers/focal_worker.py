"""Worker for C09: runs the real focal.apply / focal_stats / mean / hotspots / _calc_hotspots_numpy and
convolution.convolution_2d on a list of jobs and prints one encoded case per job (NDJSON).
Python only observes and encodes (float bridge rule rational(D)); every verdict is TLC's (Focal_Judge).
stdin: {"jobs": [...]}.   Values in jobs: integers, [n, d] rationals, or "nan".
"""
import json
import math
import sys
import warnings
from fractions import Fraction

warnings.filterwarnings("ignore")
import numpy as np
import xarray as xr

import xrspatial  # noqa
from xrspatial.utils import ngjit

F = sys.modules["xrspatial.focal"]
C = sys.modules["xrspatial.convolution"]

NANQ = [0, 0]
BADQ = [1, 0]


# ---------------------------------------------------------------- user reducers (positioned family)
@ngjit
def at_0_0(buf):
    return buf[0, 0]


@ngjit
def at_0_last(buf):
    return buf[0, buf.shape[1] - 1]


@ngjit
def at_last_0(buf):
    return buf[buf.shape[0] - 1, 0]


@ngjit
def at_centre(buf):
    return buf[buf.shape[0] // 2, buf.shape[1] // 2]


@ngjit
def nancount(buf):
    n = 0
    for i in range(buf.shape[0]):
        for j in range(buf.shape[1]):
            if np.isnan(buf[i, j]):
                n += 1
    return n


@ngjit
def wsum(buf):
    s = 0.0
    kw = buf.shape[1]
    for i in range(buf.shape[0]):
        for j in range(kw):
            if not np.isnan(buf[i, j]):
                s += (i * kw + j + 1) * buf[i, j]
    return s


@ngjit
def shape(buf):
    return buf.shape[0] * 100 + buf.shape[1]


USER = {"at_0_0": at_0_0, "at_0_last": at_0_last, "at_last_0": at_last_0, "at_centre": at_centre,
        "nancount": nancount, "wsum": wsum, "shape": shape}
BUILTIN = {"mean": F._calc_mean, "max": F._calc_max, "min": F._calc_min, "range": F._calc_range,
           "std": F._calc_std, "var": F._calc_var, "sum": F._calc_sum}


# ---------------------------------------------------------------- encoding
def val(v):
    if v == "nan":
        return float("nan")
    if isinstance(v, list):
        return v[0] / v[1]
    return float(v)


def qval(v):
    """job value -> rational in lowest terms for the TLA+ side"""
    if v == "nan":
        return NANQ
    if isinstance(v, list):
        f = Fraction(v[0], v[1])
        return [f.numerator, f.denominator]
    return [int(v), 1]


def ulp32(m):
    return float(np.spacing(np.float32(abs(m)))) if m else float(np.spacing(np.float32(1.0)))


def to_frac(x, D, tol, square=False):
    """rational(D): the nearest fraction with denominator <= D, accepted iff within tol of x
    (square=True: x is a standard deviation, the fraction approximates x^2)"""
    x = float(x)
    if math.isnan(x):
        return NANQ
    if math.isinf(x):
        return BADQ
    if square:
        f = Fraction(x * x).limit_denominator(D)
        ok = x >= 0 and abs(math.sqrt(float(f)) - x) <= tol
    else:
        f = Fraction(x).limit_denominator(D)
        ok = abs(float(f) - x) <= tol
    return [f.numerator, f.denominator] if ok else BADQ


def wrap(data, j):
    """numpy array -> DataArray; j["chunks"] = [row chunks, column chunks] makes it Dask-backed"""
    dims = j.get("dims") or ["y", "x"]
    if j.get("chunks"):
        import dask.array as da
        data = da.from_array(data, chunks=(tuple(j["chunks"][0]), tuple(j["chunks"][1])))
    return xr.DataArray(data, dims=dims)


def layout(d, how):
    """the same values in another memory layout: F-ordered, transposed view of a C array, strided view of a
    larger array, doubly reversed view (negative strides)"""
    if how == "F":
        return np.asfortranarray(d)
    if how == "T":
        return np.ascontiguousarray(d.T).T
    if how == "S":
        big = np.zeros((2 * d.shape[0] + 1, 3 * d.shape[1]), dtype=d.dtype)
        big[1::2, ::3] = d
        return big[1::2, ::3]
    if how == "R":
        return d[::-1, ::-1].copy()[::-1, ::-1]
    return d


def np_raster(j, negate=False):
    data = np.array([[val(v) for v in row] for row in j["X"]], dtype=np.float64)
    # j["offset"]: the job's X holds small deviations, the raster handed to the library is offset + X (elevation-like
    # data: large offset, small spread); the spec judges on the deviations (variance, z-scores are translation
    # invariant; mean / min / max / sum are shifted by the offset in the judge)
    data = data + float(j.get("offset", 0))
    if negate:
        data = -data
    dt = j.get("dtype", "float64")
    if negate and dt.startswith("uint"):
        dt = "float64"                      # the negated raster of an unsigned one is given as floats
    if dt != "float64":
        data = data.astype(dt)
    return layout(data, j.get("layout", "C"))


def kernel_of(j, rows, floats=False):
    """kernel as the user may pass it: int / float / bool array, C- or F-ordered"""
    vals = [[val(v) for v in row] for row in rows] if floats else rows
    k = np.array(vals, dtype=j.get("kdtype", "float64"))
    return np.asfortranarray(k) if j.get("korder") == "F" else k


def raster(j):
    return wrap(np_raster(j), j)


LAZY = [1]


def comp(d, j):
    """the values of a result; for a Dask-backed input the result must be lazy before it is computed"""
    if j.get("chunks"):
        if hasattr(d, "dask") and hasattr(d, "compute"):
            d = d.compute(scheduler="synchronous")
        else:
            LAZY[0] = 0
    return np.asarray(d)


def vmax_of(j, dev=False):
    """largest magnitude in the raster (dev=True: of the deviations from the job's offset)"""
    m = 1.0
    off = 0.0 if dev else float(j.get("offset", 0))
    for row in j["X"]:
        for v in row:
            if v != "nan":
                m = max(m, abs(val(v) + off))
    return m


def den_of(j):
    d = 1
    for row in j["X"]:
        for v in row:
            if isinstance(v, list):
                d = d * v[1] // math.gcd(d, v[1])
    return d


def enc_matrix(a, D, tol, square=False):
    return [[to_frac(v, D, tol, square) for v in row] for row in np.asarray(a, dtype=np.float64)]


def job_apply(j):
    r = raster(j)
    k = kernel_of(j, j["K"])
    ones = int(min(max(1, int(np.sum(np.array(j["K"]) == 1))), r.shape[0] * r.shape[1]))
    vm = vmax_of(j)
    dm = vmax_of(j, dev=True)           # variance / std do not see the offset
    xd = den_of(j)
    cells = k.shape[0] * k.shape[1]
    outs, raw = [], {}
    reds = j["reds"]
    res = {}
    if j.get("via") == "focal_stats":
        st = F.focal_stats(r, k, stats_funcs=list(reds))
        names = [str(s) for s in st["stats"].values]
        stv = comp(st.data, j)
        for i, name in enumerate(names):
            res[name] = np.asarray(stv[i])
        if names != list(reds):
            res = {"__order__": names}
    else:
        for name in reds:
            fn = BUILTIN.get(name) or USER[name]
            res[name] = comp(F.apply(r, k, fn).data, j)
    if "__order__" in res:
        return {"kind": "apply", "error": "focal_stats returned stats %s for %s" % (res["__order__"], reds)}
    for name in reds:
        a = res[name]
        if name in ("mean",):
            D, tol, sq = ones * xd, 4 * ulp32(ones * vm), False
        elif name == "var":
            D, tol, sq = (ones * xd) ** 2, 4 * ulp32(ones * dm * dm), False
        elif name == "std":
            D, tol, sq = (ones * xd) ** 2, 4 * ulp32(max(dm, 1.0)) + 1e-7, True
        elif name == "wsum":
            D, tol, sq = xd, 4 * ulp32(cells * cells * vm), False
        else:
            D, tol, sq = xd, 4 * ulp32(max(ones * vm, 1000.0 if name == "shape" else 1.0)), False
        outs.append({"red": name, "out": enc_matrix(a, D, tol, sq)})
        raw[name] = [[None if np.isnan(v) else float(v) for v in row] for row in a]
    return {"kind": "apply", "offset": int(j.get("offset", 0)),
            "X": [[qval(v) for v in row] for row in j["X"]], "K": j["K"], "outs": outs,
            "raw": raw, "out_dtype": str(a.dtype)}


def job_mean(j):
    r = raster(j)
    off = float(j.get("offset", 0))
    excl = [val(e) + (0.0 if e == "nan" else off) for e in j["excl"]]
    passes = j["passes"]
    kw = {}
    if not j.get("default_excl"):
        kw["excludes"] = excl
    if not (j.get("default_passes") and passes == 1):
        kw["passes"] = passes
    o = comp(F.mean(r, **kw).data, j)
    # denominators after p passes divide d (p=0), 9d.. (p=1: d*n, n<=9), d*lcm(1..9)*9 (p=2)
    # (passes = 3 is only generated for rasters whose windows have 2, 3, 4 or 6 cells: denominators stay tiny)
    D = den_of(j) * (1, 9, 22680)[passes] if passes <= 2 else den_of(j) * 10 ** 5
    tol = 64 * 2.3e-16 * vmax_of(j)
    return {"kind": "mean", "offset": int(j.get("offset", 0)),
            "X": [[qval(v) for v in row] for row in j["X"]], "passes": passes,
            "only_excl": int(j.get("only_excl", 0)),
            "excl": [qval("nan" if (isinstance(e, str)) else e) for e in j["excl"]],
            "out": enc_matrix(o, D, tol), "raw": [[None if np.isnan(v) else float(v) for v in row] for row in o]}


def job_conv(j):
    r = raster(j)
    w = kernel_of(j, j["Wt"], floats=True)
    o = comp(C.convolution_2d(r, w).data, j)
    wd = 1
    wsum_abs = 0.0
    for row in j["Wt"]:
        for v in row:
            q = qval(v)
            wd = wd * q[1] // math.gcd(wd, q[1])
            wsum_abs += abs(q[0] / q[1])
    D = wd * den_of(j)
    tol = 4 * ulp32(max(1.0, wsum_abs * vmax_of(j)))
    return {"kind": "conv", "X": [[qval(v) for v in row] for row in j["X"]],
            "Wt": [[qval(v) for v in row] for row in j["Wt"]], "out": enc_matrix(o, D, tol),
            "raw": [[None if np.isnan(v) else float(v) for v in row] for row in o], "out_dtype": str(o.dtype)}


def enc_int(a):
    return [[int(v) if float(v) == int(v) else -77 for v in row] for row in np.asarray(a)]


def job_hot(j):
    r = raster(j)
    k = kernel_of(j, j["K"])
    o = comp(F.hotspots(r, k).data, j)
    neg = wrap(np_raster(j, negate=True), j)
    on = comp(F.hotspots(neg, k).data, j)
    return {"kind": "hot", "X": [[qval(v) for v in row] for row in j["X"]], "K": j["K"],
            "out": enc_int(o), "outneg": enc_int(on), "band": j.get("band", 1),
            "out_dtype": str(o.dtype)}


def job_ladder(j):
    zs = j["zs"]
    z = np.array([[k / 1000.0 for k in zs]], dtype=j.get("dtype", "float64"))
    o = F._calc_hotspots_numpy(z)
    return {"kind": "ladder", "zs": zs, "outs": [int(v) for v in np.asarray(o)[0]]}


def job_badkernel(j):
    """kernel validation (outside the property's domain: reported as drift only)"""
    r = xr.DataArray(np.arange(12, dtype=np.float64).reshape(3, 4), dims=["y", "x"])
    rows, cols = j["rows"], j["cols"]
    k = np.ones((rows, cols)) if j["what"] == "ndarray" else [[1.0] * cols for _ in range(rows)]
    raised = {}
    for name, fn in (("apply", lambda: F.apply(r, k)), ("focal_stats", lambda: F.focal_stats(r, k, ["sum"]))):
        try:
            fn()
            raised[name] = 0
        except ValueError:
            raised[name] = 1
        except Exception:
            raised[name] = 2
    return {"kind": "badkernel", "rows": rows, "cols": cols, "what": j["what"], "raised": raised}


KINDS = {"apply": job_apply, "mean": job_mean, "conv": job_conv, "hot": job_hot, "ladder": job_ladder,
         "badkernel": job_badkernel}


def main():
    jobs = json.load(sys.stdin)["jobs"]
    out = sys.stdout
    for j in jobs:
        LAZY[0] = 1
        try:
            case = KINDS[j["kind"]](j)
        except Exception as ex:
            case = {"kind": j["kind"], "error": "%s: %s" % (type(ex).__name__, str(ex)[:300])}
        case["lazy"] = LAZY[0]          # 0: a Dask-backed input gave a result that was not lazy
        case["job"] = j
        out.write(json.dumps(case) + "\n")
    out.flush()


if __name__ == "__main__":
    main()
