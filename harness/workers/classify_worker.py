"""Worker for C12: runs the real xrspatial.classify functions on a list of jobs, one encoded case per job.
stdin: {"jobs": [...]}.  Run with NUMBA_DISABLE_JIT=1 to record the (start, end, mid) triples of _cpu_bin's
binary search (job["trace"] = true).

job kinds
  (chunks: optional Dask chunk shape, e.g. [1, W] - the raster is handed over Dask-backed)
  bin      {bins: [ints], vals2: [2*value | -99 | -97 | -96], dtype, bins_float, trace}
  binary   {vals: [codes], list: [codes], shape [H, W], dtype, off, unit}
  classes  {func, k, vals: [codes], shape [H, W], dtype, off, unit}
real value of a code = off + code*unit in the raster's dtype; NaN -99, +inf -97, -inf -96
"""
import inspect
import json
import math
import os
import sys
import warnings

warnings.filterwarnings("ignore")
import numpy as np
import xarray as xr

import xrspatial  # noqa
C = sys.modules["xrspatial.classify"]

NAN, PINF, NINF, OTHER = -99, -97, -96, -98
INTERP = os.environ.get("NUMBA_DISABLE_JIT") == "1"


def real(code, off, unit, table=None):
    """real value of a code: NaN / inf codes, else table[code], else off + code*unit (python arithmetic: exact
    for integer off/unit however large)"""
    if code == NAN:
        return float("nan")
    if code == PINF:
        return float("inf")
    if code == NINF:
        return float("-inf")
    if table is not None:
        return table[code]
    return off + code * unit


def lay(a, layout):
    """same values, another memory layout"""
    H, W = a.shape
    if layout in (None, "C"):
        return np.ascontiguousarray(a)
    if layout == "F":
        return np.asfortranarray(a)
    if layout == "T":                       # transposed view of a C array
        return np.ascontiguousarray(a.T).T
    if layout == "view":                    # strided view into a bigger array
        big = np.zeros((2 * H + 1, 3 * W + 2), dtype=a.dtype)
        v = big[1::2, 2::3][:H, :W]
        v[...] = a
        return v
    if layout == "rev":                     # rows reversed: negative stride
        return np.ascontiguousarray(a[::-1])[::-1]
    if layout == "Fcols":                   # column slice of a Fortran array
        big = np.zeros((H, 2 * W), dtype=a.dtype, order="F")
        v = big[:, ::2]
        v[...] = a
        return v
    raise ValueError(layout)


def array_of(reals, shape, dtype):
    if np.dtype(dtype).kind in "iu":
        ints = []
        for v in reals:
            if isinstance(v, float):
                if v != v or v in (float("inf"), float("-inf")) or v != int(v):
                    raise MachineryJob("non-integral value %r for an integer raster" % v)
                v = int(v)
            ints.append(v)
        info = np.iinfo(dtype)
        if any(v < info.min or v > info.max for v in ints):
            raise MachineryJob("value outside the range of %s" % dtype)
        return np.array(ints, dtype=dtype).reshape(shape)
    return np.array([float(v) for v in reals], dtype=np.float64).astype(dtype).reshape(shape)


class MachineryJob(Exception):
    """the job itself is malformed (generator's fault, never a finding)"""


def chunked(a, chunks):
    """Dask-backed copy with the given chunk shape (e.g. [1, W]: one block per row)"""
    if not chunks:
        return a
    import dask.array as da
    return da.from_array(a, chunks=tuple(chunks))


def computed(x):
    return x.compute(scheduler="synchronous") if hasattr(x, "compute") else x


def raster(codes, shape, dtype, off, unit, table=None, layout=None, chunks=None):
    a = chunked(lay(array_of([real(c, off, unit, table) for c in codes], shape, dtype), layout), chunks)
    H, W = shape
    return xr.DataArray(a, dims=["y", "x"], coords={"y": np.arange(H, 0, -1.0), "x": np.arange(W) * 1.0},
                        attrs={"res": 1})


def cls(v):
    try:
        v = float(v)
    except Exception:
        return OTHER
    if math.isnan(v):
        return NAN
    if math.isinf(v):
        return OTHER
    return int(v) if v == int(v) and abs(v) < 10 ** 6 else OTHER


_WHILE_LINE = None


def _while_line():
    global _WHILE_LINE
    if _WHILE_LINE is None:
        fn = getattr(C._cpu_bin, "py_func", C._cpu_bin)
        src, first = inspect.getsourcelines(fn)
        for i, ln in enumerate(src):
            if ln.strip().startswith("while start <= end"):
                _WHILE_LINE = first + i
        _WHILE_LINE = _WHILE_LINE or -1
    return _WHILE_LINE


def traced_bin(data, bins, new_values):
    """Interpreted mode: record (start, end, mid) at every evaluation of `while start <= end`."""
    fn = getattr(C._cpu_bin, "py_func", C._cpu_bin)
    code = fn.__code__
    wl = _while_line()
    rec = []

    def local(frame, event, arg):
        if event == "line" and frame.f_lineno == wl:
            lo = frame.f_locals
            rec.append([int(lo["start"]), int(lo["end"]), int(lo["mid"])])
        return local

    def tracer(frame, event, arg):
        if event == "call" and frame.f_code is code:
            return local
        return None
    sys.settrace(tracer)
    try:
        out = fn(data, bins, new_values)
    finally:
        sys.settrace(None)
    return out, rec


def run_bin(j):
    """real bin = bins[i]*s, real value = (vals2/2)*s with s = j["s"] (default 1; s = 1/2 gives fractional bins on
    integer rasters when the bins are odd and vals2 multiples of 4); optional 2-D shape + layout"""
    bins = j["bins"]
    n = len(bins)
    sc = j.get("s", 1)
    dtype = j.get("dtype", "float64")
    isint = np.dtype(dtype).kind in "iu"
    reals = []
    for v in j["vals2"]:
        r = real(v, 0.0, 0.5)
        reals.append(r * sc if v not in (NAN, PINF, NINF) else r)
    if isint and any(v in (NAN, PINF, NINF) for v in j["vals2"]):
        raise MachineryJob("integer rasters cannot carry non-finite values")
    shape = j.get("shape") or [1, len(reals)]
    if shape[0] * shape[1] != len(reals):
        raise MachineryJob("shape does not match the number of values")
    data = lay(array_of(reals, shape, dtype), j.get("layout"))
    rb = [x * sc for x in bins]
    bfloat = j.get("bins_float") or any(x != int(x) for x in rb)
    b = np.asarray(rb, dtype=np.float64 if bfloat else np.int64)
    idx = C._cpu_bin(data, b, np.arange(n))
    agg = xr.DataArray(chunked(data, j.get("chunks")), dims=["y", "x"])
    recl = computed(C.reclassify(agg, bins=[float(x) for x in rb] if bfloat else [int(x) for x in rb],
                                 new_values=[10 + i for i in range(n)]).data)
    idx = np.asarray(idx).reshape(1, -1) if np.asarray(idx).shape == data.shape else np.full((1, len(reals)), -7.0)
    recl = np.asarray(recl).reshape(1, -1) if np.asarray(recl).shape == data.shape else np.full((1, len(reals)), -7.0)
    data = np.ascontiguousarray(data).reshape(1, -1)
    trace = [[] for _ in j["vals2"]]
    if j.get("trace") and INTERP and _while_line() > 0:
        for q in range(data.shape[1]):
            o, rec = traced_bin(data[:, q:q + 1], b, np.arange(n))
            trace[q] = rec
            a, bb = float(o[0, 0]), float(idx[0, q])
            if not (a == bb or (math.isnan(a) and math.isnan(bb))):
                trace[q] = [[-9, -9, -9]]          # interpreted != compiled: never matches the model -> drift

    def enc(v, base):
        v = float(v)
        if math.isnan(v):
            return -1
        if math.isinf(v):
            return -2
        return int(v) if v == int(v) and base <= v < base + n else -2
    return {"kind": "bin", "bins": bins, "vals2": j["vals2"], "idx": [enc(v, 0) for v in idx[0]],
            "recl": [enc(v, 10) for v in np.asarray(recl)[0]], "trace": trace}


def run_binary(j):
    """list: the codes the judge sees (a listed value that equals no cell value gets a code that occurs in no
    cell); list_real (optional): the values really passed, aligned with list - e.g. 1.5 on an int raster"""
    off, unit, table = j.get("off", 0), j.get("unit", 1), j.get("table")
    agg = raster(j["vals"], j["shape"], j["dtype"], off, unit, table, j.get("layout"))
    if j.get("list_real") is not None:
        lst = list(j["list_real"])
    else:
        lst = [real(c, off, unit, table) for c in j["list"]]
        if np.dtype(j["dtype"]).kind in "iu":
            lst = [int(round(v)) if isinstance(v, float) else v for v in lst]
    out = C.binary(agg, lst)
    ident = bool(list(out.dims) == ["y", "x"] and out.shape == agg.shape)
    o = np.asarray(out.data)
    return {"kind": "binary", "vals": j["vals"], "list": j["list"],
            "out": [cls(v) for v in o.ravel()] if o.shape == agg.shape else [], "ident": ident}


def run_classes(j):
    agg = raster(j["vals"], j["shape"], j["dtype"], j.get("off", 0), j.get("unit", 1), j.get("table"), j.get("layout"),
                 j.get("chunks"))
    f = getattr(C, j["func"])
    out = f(agg, k=j["k"])
    o = np.asarray(computed(out.data))
    return {"kind": "classes", "func": j["func"], "k": j["k"], "vals": j["vals"],
            "out": [cls(v) for v in o.ravel()] if o.shape == agg.shape else []}


def run_job(j):
    try:
        c = {"bin": run_bin, "binary": run_binary, "classes": run_classes}[j["kind"]](j)
    except MachineryJob as ex:
        sys.stderr.write("malformed job: %s %r\n" % (ex, j))
        raise
    except Exception as ex:
        c = {"kind": j["kind"], "error": "%s: %s" % (type(ex).__name__, str(ex)[:300])}
    c["job"] = j
    c["tag"] = j.get("tag", "")
    return c


def main():
    jobs = json.load(sys.stdin)["jobs"]
    o = sys.stdout
    for j in jobs:
        o.write(json.dumps(run_job(j)) + "\n")
    o.flush()


if __name__ == "__main__":
    main()
