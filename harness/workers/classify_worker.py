"""Worker for C12: runs the real xrspatial.classify functions on a list of jobs, one encoded case per job.
stdin: {"jobs": [...]}.  Run with NUMBA_DISABLE_JIT=1 to record the (start, end, mid) triples of _cpu_bin's
binary search (job["trace"] = true).

job kinds
  bin      {bins: [ints], vals2: [2*value | -99 | -97 | -96], dtype, bins_float, trace}
  binary   {vals: [codes], list: [codes], shape [H, W], dtype, off, unit}
  classes  {func, k, vals: [codes], shape [H, W], dtype, off, unit}
real value of a code = off + code*unit in the raster's dtype; NaN -99, +inf -97, -inf -96
"""
import inspect
import json
import math
import os
import sys
import warnings

warnings.filterwarnings("ignore")
import numpy as np
import xarray as xr

import xrspatial  # noqa
C = sys.modules["xrspatial.classify"]

NAN, PINF, NINF, OTHER = -99, -97, -96, -98
INTERP = os.environ.get("NUMBA_DISABLE_JIT") == "1"


def real(code, off, unit):
    if code == NAN:
        return float("nan")
    if code == PINF:
        return float("inf")
    if code == NINF:
        return float("-inf")
    return off + code * unit


def raster(codes, shape, dtype, off, unit):
    a = np.array([real(c, off, unit) for c in codes], dtype=np.float64).reshape(shape)
    if np.dtype(dtype).kind in "iu":
        a = np.round(a).astype(dtype)
    else:
        a = a.astype(dtype)
    H, W = shape
    return xr.DataArray(a, dims=["y", "x"], coords={"y": np.arange(H, 0, -1.0), "x": np.arange(W) * 1.0},
                        attrs={"res": 1})


def cls(v):
    v = float(v)
    if math.isnan(v):
        return NAN
    return int(v) if v == int(v) and abs(v) < 10 ** 6 else OTHER


_WHILE_LINE = None


def _while_line():
    global _WHILE_LINE
    if _WHILE_LINE is None:
        fn = getattr(C._cpu_bin, "py_func", C._cpu_bin)
        src, first = inspect.getsourcelines(fn)
        for i, ln in enumerate(src):
            if ln.strip().startswith("while start <= end"):
                _WHILE_LINE = first + i
        _WHILE_LINE = _WHILE_LINE or -1
    return _WHILE_LINE


def traced_bin(data, bins, new_values):
    """Interpreted mode: record (start, end, mid) at every evaluation of `while start <= end`."""
    fn = getattr(C._cpu_bin, "py_func", C._cpu_bin)
    code = fn.__code__
    wl = _while_line()
    rec = []

    def local(frame, event, arg):
        if event == "line" and frame.f_lineno == wl:
            lo = frame.f_locals
            rec.append([int(lo["start"]), int(lo["end"]), int(lo["mid"])])
        return local

    def tracer(frame, event, arg):
        if event == "call" and frame.f_code is code:
            return local
        return None
    sys.settrace(tracer)
    try:
        out = fn(data, bins, new_values)
    finally:
        sys.settrace(None)
    return out, rec


def run_bin(j):
    bins = j["bins"]
    n = len(bins)
    vals = np.array([real(v, 0.0, 0.5) for v in j["vals2"]], dtype=np.float64)
    dtype = j.get("dtype", "float64")
    if np.dtype(dtype).kind in "iu" and any(v in (NAN, PINF, NINF) or v % 2 for v in j["vals2"]):
        raise ValueError("integer rasters cannot carry half-integers or non-finite values")
    data = vals.astype(dtype).reshape(1, -1)
    b = np.asarray(bins, dtype=np.float64 if j.get("bins_float") else np.int64)
    idx = C._cpu_bin(data, b, np.arange(n))
    agg = xr.DataArray(data, dims=["y", "x"])
    recl = C.reclassify(agg, bins=[float(x) for x in bins] if j.get("bins_float") else list(bins),
                        new_values=[10 + i for i in range(n)]).data
    trace = [[] for _ in j["vals2"]]
    if j.get("trace") and INTERP and _while_line() > 0:
        for q in range(data.shape[1]):
            o, rec = traced_bin(data[:, q:q + 1], b, np.arange(n))
            trace[q] = rec
            a, bb = float(o[0, 0]), float(idx[0, q])
            if not (a == bb or (math.isnan(a) and math.isnan(bb))):
                trace[q] = [[-9, -9, -9]]          # interpreted != compiled: never matches the model -> drift

    def enc(v, base):
        v = float(v)
        if math.isnan(v):
            return -1
        return int(v) if v == int(v) and base <= v < base + n else -2
    return {"kind": "bin", "bins": bins, "vals2": j["vals2"], "idx": [enc(v, 0) for v in idx[0]],
            "recl": [enc(v, 10) for v in np.asarray(recl)[0]], "trace": trace}


def run_binary(j):
    agg = raster(j["vals"], j["shape"], j["dtype"], j.get("off", 0), j.get("unit", 1))
    lst = [real(c, j.get("off", 0), j.get("unit", 1)) for c in j["list"]]
    if np.dtype(j["dtype"]).kind in "iu":
        lst = [int(round(v)) for v in lst]
    out = C.binary(agg, lst)
    ident = bool(list(out.dims) == ["y", "x"] and out.shape == agg.shape)
    return {"kind": "binary", "vals": j["vals"], "list": j["list"], "out": [cls(v) for v in np.asarray(out.data).ravel()],
            "ident": ident}


def run_classes(j):
    agg = raster(j["vals"], j["shape"], j["dtype"], j.get("off", 0), j.get("unit", 1))
    before = agg.data.copy()
    f = getattr(C, j["func"])
    out = f(agg, k=j["k"])
    o = np.asarray(out.data)
    return {"kind": "classes", "func": j["func"], "k": j["k"], "vals": j["vals"],
            "out": [cls(v) for v in o.ravel()] if o.shape == agg.shape else []}


def run_job(j):
    try:
        c = {"bin": run_bin, "binary": run_binary, "classes": run_classes}[j["kind"]](j)
    except Exception as ex:
        c = {"kind": j["kind"], "error": "%s: %s" % (type(ex).__name__, str(ex)[:300])}
    c["job"] = j
    c["tag"] = j.get("tag", "")
    return c


def main():
    jobs = json.load(sys.stdin)["jobs"]
    o = sys.stdout
    for j in jobs:
        o.write(json.dumps(run_job(j)) + "\n")
    o.flush()


if __name__ == "__main__":
    main()
