"""Worker for C14: runs the real xrspatial.a_star_search on a list of jobs and prints one encoded
case per job (NDJSON).  stdin: {"jobs": [...]}.

job = {H, W,
       vals      H x W list (numbers or "nan"),
       barriers  list of numbers,
       dtype     numpy dtype name of the surface (default float64),
       conn      4 | 8,
       yax, xax  {"den": D, "o": o, "s": s}: cell centres are (o + i*s)/D  (exact rationals),
       sp, gp    [py, px] numerators of the start / goal point over the axis denominators,
       snapS, snapG  0/1,
       events    bool: log every _min_cost_pixel_id call with the complete search state
                 (only honoured under NUMBA_DISABLE_JIT=1, where the search runs as plain Python),
       tag}

Output case = the job's exact inputs + cross (1 = crossable, computed here from vals/barriers, not by
the library) + path (observed output through the `surd` float bridge) + cs/cg (cells the search was
really started with, observed by wrapping _a_star_search) + pix (what _get_pixel_id returns for the
two points, diagnostics and known-finding predicate only) + events.
"""
import json
import math
import os
import sys
import warnings
from fractions import Fraction

warnings.filterwarnings("ignore")
import numpy as np
import xarray as xr

import xrspatial  # noqa
A = sys.modules["xrspatial.pathfinding"]

INTERP = os.environ.get("NUMBA_DISABLE_JIT") == "1"
SQRT2 = math.sqrt(2.0)
TOL = 1e-9

_orig_search = A._a_star_search
_orig_min = A._min_cost_pixel_id
_seen = {}
_events = []
_ctx = {}


def surd(x, cells):
    """float -> [a, b] with x = a + b*sqrt2 (unique, 0 <= a, b <= cells, |err| <= 1e-9); NaN -> [-1,-1];
    anything else -> [-2,-2]."""
    if x != x:
        return [-1, -1]
    if not math.isfinite(x) or x < -TOL:
        return [-2, -2]
    hits = []
    for b in range(0, cells + 1):
        a = int(round(x - b * SQRT2))
        if a < 0:
            break
        if a <= cells and abs(x - (a + b * SQRT2)) <= TOL:
            hits.append([a, b])
    return hits[0] if len(hits) == 1 else [-2, -2]


def _search_rec(data, path_img, start_py, start_px, goal_py, goal_px, barriers, nys, nxs):
    _seen["cs"] = [int(start_py), int(start_px)]
    _seen["cg"] = [int(goal_py), int(goal_px)]
    return _orig_search(data, path_img, start_py, start_px, goal_py, goal_px, barriers, nys, nxs)


def _min_rec(cost, is_open):
    """Recording wrapper for _min_cost_pixel_id (interpreted mode): the caller's frame is
    _a_star_search itself, its locals are the search state."""
    py, px = _orig_min(cost, is_open)
    loc = sys._getframe(1).f_locals
    H, W = is_open.shape
    n = H * W
    try:
        g = loc["d_from_start"]
        pys, pxs, closed = loc["parent_ys"], loc["parent_xs"], loc["is_closed"]
        ev = {"open": [int(i) for i in np.flatnonzero(is_open.ravel())],
              "closed": [int(i) for i in np.flatnonzero(closed.ravel())],
              "g": [surd(float(v), n) for v in g.ravel()],
              "par": [(-1 if (int(a) < 0 or int(b) < 0) else int(a) * W + int(b))
                      for a, b in zip(pys.ravel(), pxs.ravel())],
              "pop": (-1 if py < 0 else int(py) * W + int(px))}
        _events.append(ev)
    except KeyError:
        _ctx["frame_failed"] = True
    return py, px


def axis(ax, n):
    return np.array([float(Fraction(ax["o"] + i * ax["s"], ax["den"])) for i in range(n)], dtype=np.float64)


def lay_out(arr, layout):
    """the same H x W values in a given memory layout"""
    if layout in (None, "C"):
        return np.ascontiguousarray(arr)
    if layout == "F":
        return np.asfortranarray(arr)
    if layout == "T":                      # transposed view of a C buffer
        return np.ascontiguousarray(arr.T).T
    if layout == "strided":                # every other row / column of a larger buffer full of other values
        H, W = arr.shape
        big = np.empty((2 * H, 2 * W + 1), dtype=arr.dtype)
        big[:] = arr.flat[0]
        big[1::2, :] = arr.flat[-1]
        big[::2, 1::2] = arr
        return big[::2, 1::2]
    if layout == "rev":                    # negative strides on both axes
        return np.ascontiguousarray(arr[::-1, ::-1])[::-1, ::-1]
    raise ValueError(layout)


def make_point(y, x, ptype):
    if ptype in (None, "tuple"):
        return (y, x)
    if ptype == "list":
        return [y, x]
    if ptype == "ndarray":
        return np.array([y, x], dtype=np.float64)
    if ptype == "np_f64":
        return (np.float64(y), np.float64(x))
    if ptype == "np_f32":
        return (np.float32(y), np.float32(x))
    if ptype == "np_int":                  # driver guarantees integral coordinates
        return (np.int64(round(y)), np.int32(round(x)))
    if ptype == "int":
        return (int(round(y)), int(round(x)))
    raise ValueError(ptype)


def run_job(j):
    H, W = j["H"], j["W"]
    vals = np.array([[np.nan if v == "nan" else float(v) for v in row] for row in j["vals"]], dtype=np.float64)
    barriers = list(j.get("barriers", []))
    dtype = j.get("dtype") or "float64"
    data = lay_out(vals.astype(dtype), j.get("layout"))
    # crossable = not NaN and equal to no barrier value -- decided here on the values the surface really holds
    # (python scalars compare exactly: a barrier value not representable in the dtype matches nothing)
    items = [[data[r, c].item() for c in range(W)] for r in range(H)]
    cross = [[int(not ((isinstance(v, float) and math.isnan(v)) or any(v == b for b in barriers))) for v in row]
             for row in items]
    ys, xs = axis(j["yax"], H), axis(j["xax"], W)
    yf = lambda k: float(Fraction(k, j["yax"]["den"]))
    xf = lambda k: float(Fraction(k, j["xax"]["den"]))
    start = make_point(yf(j["sp"][0]), xf(j["sp"][1]), j.get("ptype"))
    goal = make_point(yf(j["gp"][0]), xf(j["gp"][1]), j.get("ptype"))
    ydim, xdim = j.get("ydim", "y"), j.get("xdim", "x")
    attrs = {}
    ry, rx = j["yax"].get("res", 0), j["xax"].get("res", 0)
    if ry and rx:                          # a `res` attribute (x first); it overrides the coordinate spacing
        form = j.get("resform", "tuple")
        fy, fx = yf(ry), xf(rx)
        attrs["res"] = {"tuple": (fx, fy), "list": [fx, fy], "ndarray": np.array([fx, fy]), "scalar": fx}[form]
        attrs["note"] = "kept"
    surface = xr.DataArray(data, dims=[ydim, xdim], coords={ydim: ys, xdim: xs}, attrs=attrs)
    pristine = data.copy()
    yax = dict(j["yax"], res=ry)
    xax = dict(j["xax"], res=rx)
    case = {"H": H, "W": W, "cross": cross, "conn": j["conn"], "yax": yax, "xax": xax,
            "sp": j["sp"], "gp": j["gp"], "snapS": int(j.get("snapS", 0)), "snapG": int(j.get("snapG", 0)),
            "tag": j.get("tag", "")}
    want_ev = bool(j.get("events")) and INTERP
    kw = dict(barriers=barriers, connectivity=j["conn"], x=xdim, y=ydim,
              snap_start=bool(j.get("snapS", 0)), snap_goal=bool(j.get("snapG", 0)))
    try:
        # earlier calls on the same surface object: the observed call must not depend on them
        for (p, q) in j.get("pre", []):
            A.a_star_search(surface, make_point(yf(p[0]), xf(p[1]), j.get("ptype")),
                            make_point(yf(q[0]), xf(q[1]), j.get("ptype")), **kw)
    except Exception as ex:
        case["error"] = "%s in an earlier call on the same surface: %s" % (type(ex).__name__, ex)
        return case
    _seen.clear()
    _events.clear()
    _ctx.clear()
    A._a_star_search = _search_rec
    if want_ev:
        A._min_cost_pixel_id = _min_rec
    try:
        out = A.a_star_search(surface, start, goal, **kw)
        res = np.asarray(out.data, dtype=np.float64)
        pix = [list(map(int, A._get_pixel_id(start, surface, xdim, ydim))),
               list(map(int, A._get_pixel_id(goal, surface, xdim, ydim)))]
    except Exception as ex:  # the call itself failed
        case["error"] = "%s: %s" % (type(ex).__name__, ex)
        return case
    finally:
        A._a_star_search = _orig_search
        A._min_cost_pixel_id = _orig_min
    if res.shape != (H, W) or tuple(out.dims) != (ydim, xdim):
        case["error"] = "output shape %s dims %s" % (res.shape, out.dims)
        return case
    n = H * W
    case["path"] = [[surd(float(res[r, c]), n) for c in range(W)] for r in range(H)]
    case["cs"] = _seen.get("cs", [-1, -1])
    case["cg"] = _seen.get("cg", [-1, -1])
    case["pix"] = pix
    case["events"] = [] if _ctx.get("frame_failed") else [dict(e) for e in _events]
    case["raw"] = [[None if v != v else float(v) for v in row] for row in res]
    # inputs untouched: same values bit for bit (dtype kept), same coordinates, same attrs object contents
    same = (surface.data.dtype == pristine.dtype and np.array_equal(surface.data, pristine, equal_nan=(pristine.dtype.kind == "f"))
            and np.array_equal(surface[ydim].data, ys) and np.array_equal(surface[xdim].data, xs)
            and set(surface.attrs) == set(attrs))
    case["untouched"] = int(bool(same))
    return case


WARMUP_LIMIT = 1200   # seconds for the warm-up call of a process (import + JIT compilation, possibly on a loaded machine)
LIMIT = 180           # seconds for every later call (normal: milliseconds)


def warm_up():
    """start = goal on an open 2x2 grid: compiles every kernel with the signatures of the real jobs and
    returns without entering the neighbour loop"""
    for dtype in ("float64",):       # other dtypes compile on first use (well inside LIMIT)
        run_job({"H": 2, "W": 2, "vals": [[1, 1], [1, 1]], "barriers": [0, 9], "dtype": dtype, "conn": 8,
                 "yax": {"den": 1, "o": 0, "s": 1}, "xax": {"den": 1, "o": 0, "s": 1}, "sp": [0, 0], "gp": [0, 0],
                 "snapS": 1, "snapG": 1})


def main():
    """One result line per job.  A watchdog thread (the compiled search releases the GIL) notices a call that
    does not return: it reports that job as an error, marks the remaining jobs of this process as skipped
    (the driver runs them again in a fresh process) and ends the process."""
    import threading
    import time
    jobs = json.load(sys.stdin)["jobs"]
    out = sys.stdout
    lock = threading.Lock()
    state = {"i": -1, "t": time.time(), "done": False}

    def watchdog():
        while not state["done"]:
            time.sleep(1.0)
            limit = WARMUP_LIMIT if state["i"] < 0 else LIMIT
            if not state["done"] and time.time() - state["t"] > limit:
                with lock:
                    i = max(state["i"], 0)
                    j = jobs[i]
                    out.write(json.dumps({"H": j["H"], "W": j["W"], "tag": j.get("tag", ""),
                                          "error": "Timeout: a_star_search did not return within %d s" % limit}) + "\n")
                    for _ in jobs[i + 1:]:
                        out.write(json.dumps({"skipped": True}) + "\n")
                    out.flush()
                    os._exit(0)

    threading.Thread(target=watchdog, daemon=True).start()
    warm_up()
    for i, j in enumerate(jobs):
        state["i"], state["t"] = i, time.time()
        line = json.dumps(run_job(j)) + "\n"
        with lock:
            out.write(line)
    with lock:
        state["done"] = True
        out.flush()


if __name__ == "__main__":
    main()
