"""Worker for C14: runs the real xrspatial.a_star_search on a list of jobs and prints one encoded
case per job (NDJSON).  stdin: {"jobs": [...]}.

job = {H, W,
       vals      H x W list (numbers or "nan"),
       barriers  list of numbers,
       dtype     numpy dtype name of the surface (default float64),
       conn      4 | 8,
       yax, xax  {"den": D, "o": o, "s": s}: cell centres are (o + i*s)/D  (exact rationals),
       sp, gp    [py, px] numerators of the start / goal point over the axis denominators,
       snapS, snapG  0/1,
       events    bool: log every _min_cost_pixel_id call with the complete search state
                 (only honoured under NUMBA_DISABLE_JIT=1, where the search runs as plain Python),
       tag}

Output case = the job's exact inputs + cross (1 = crossable, computed here from vals/barriers, not by
the library) + path (observed output through the `surd` float bridge) + cs/cg (cells the search was
really started with, observed by wrapping _a_star_search) + pix (what _get_pixel_id returns for the
two points, diagnostics and known-finding predicate only) + events.
"""
import json
import math
import os
import sys
import warnings
from fractions import Fraction

warnings.filterwarnings("ignore")
import numpy as np
import xarray as xr

import xrspatial  # noqa
A = sys.modules["xrspatial.pathfinding"]

INTERP = os.environ.get("NUMBA_DISABLE_JIT") == "1"
SQRT2 = math.sqrt(2.0)
TOL = 1e-9

_orig_search = A._a_star_search
_orig_min = A._min_cost_pixel_id
_seen = {}
_events = []
_ctx = {}


def surd(x, cells):
    """float -> [a, b] with x = a + b*sqrt2 (unique, 0 <= a, b <= cells, |err| <= 1e-9); NaN -> [-1,-1];
    anything else -> [-2,-2]."""
    if x != x:
        return [-1, -1]
    if not math.isfinite(x) or x < -TOL:
        return [-2, -2]
    hits = []
    for b in range(0, cells + 1):
        a = int(round(x - b * SQRT2))
        if a < 0:
            break
        if a <= cells and abs(x - (a + b * SQRT2)) <= TOL:
            hits.append([a, b])
    return hits[0] if len(hits) == 1 else [-2, -2]


def _search_rec(data, path_img, start_py, start_px, goal_py, goal_px, barriers, nys, nxs):
    _seen["cs"] = [int(start_py), int(start_px)]
    _seen["cg"] = [int(goal_py), int(goal_px)]
    return _orig_search(data, path_img, start_py, start_px, goal_py, goal_px, barriers, nys, nxs)


def _min_rec(cost, is_open):
    """Recording wrapper for _min_cost_pixel_id (interpreted mode): the caller's frame is
    _a_star_search itself, its locals are the search state."""
    py, px = _orig_min(cost, is_open)
    loc = sys._getframe(1).f_locals
    H, W = is_open.shape
    n = H * W
    try:
        g = loc["d_from_start"]
        pys, pxs, closed = loc["parent_ys"], loc["parent_xs"], loc["is_closed"]
        ev = {"open": [int(i) for i in np.flatnonzero(is_open.ravel())],
              "closed": [int(i) for i in np.flatnonzero(closed.ravel())],
              "g": [surd(float(v), n) for v in g.ravel()],
              "par": [(-1 if (int(a) < 0 or int(b) < 0) else int(a) * W + int(b))
                      for a, b in zip(pys.ravel(), pxs.ravel())],
              "pop": (-1 if py < 0 else int(py) * W + int(px))}
        _events.append(ev)
    except KeyError:
        _ctx["frame_failed"] = True
    return py, px


def axis(ax, n):
    return np.array([float(Fraction(ax["o"] + i * ax["s"], ax["den"])) for i in range(n)], dtype=np.float64)


def run_job(j):
    H, W = j["H"], j["W"]
    vals = np.array([[np.nan if v == "nan" else float(v) for v in row] for row in j["vals"]], dtype=np.float64)
    barriers = list(j.get("barriers", []))
    cross = [[int(not (math.isnan(vals[r, c]) or any(vals[r, c] == b for b in barriers))) for c in range(W)]
             for r in range(H)]
    ys, xs = axis(j["yax"], H), axis(j["xax"], W)
    start = (float(Fraction(j["sp"][0], j["yax"]["den"])), float(Fraction(j["sp"][1], j["xax"]["den"])))
    goal = (float(Fraction(j["gp"][0], j["yax"]["den"])), float(Fraction(j["gp"][1], j["xax"]["den"])))
    data = vals.astype(j.get("dtype") or "float64")
    surface = xr.DataArray(data, dims=["y", "x"], coords={"y": ys, "x": xs})
    case = {"H": H, "W": W, "cross": cross, "conn": j["conn"], "yax": j["yax"], "xax": j["xax"],
            "sp": j["sp"], "gp": j["gp"], "snapS": int(j.get("snapS", 0)), "snapG": int(j.get("snapG", 0)),
            "tag": j.get("tag", "")}
    want_ev = bool(j.get("events")) and INTERP
    _seen.clear()
    _events.clear()
    _ctx.clear()
    A._a_star_search = _search_rec
    if want_ev:
        A._min_cost_pixel_id = _min_rec
    try:
        out = A.a_star_search(surface, start, goal, barriers=barriers, connectivity=j["conn"],
                              snap_start=bool(j.get("snapS", 0)), snap_goal=bool(j.get("snapG", 0)))
        res = np.asarray(out.data, dtype=np.float64)
        pix = [list(map(int, A._get_pixel_id(start, surface, "x", "y"))),
               list(map(int, A._get_pixel_id(goal, surface, "x", "y")))]
    except Exception as ex:  # the call itself failed
        case["error"] = "%s: %s" % (type(ex).__name__, ex)
        return case
    finally:
        A._a_star_search = _orig_search
        A._min_cost_pixel_id = _orig_min
    if res.shape != (H, W):
        case["error"] = "output shape %s" % (res.shape,)
        return case
    n = H * W
    case["path"] = [[surd(float(res[r, c]), n) for c in range(W)] for r in range(H)]
    case["cs"] = _seen.get("cs", [-1, -1])
    case["cg"] = _seen.get("cg", [-1, -1])
    case["pix"] = pix
    case["events"] = [] if _ctx.get("frame_failed") else [dict(e) for e in _events]
    case["raw"] = [[None if v != v else float(v) for v in row] for row in res]
    case["same_input"] = bool(np.array_equal(np.asarray(surface.data), data, equal_nan=True))
    return case


WARMUP_LIMIT = 1200   # seconds for the warm-up call of a process (import + JIT compilation, possibly on a loaded machine)
LIMIT = 180           # seconds for every later call (normal: milliseconds)


def warm_up():
    """start = goal on an open 2x2 grid: compiles every kernel with the signatures of the real jobs and
    returns without entering the neighbour loop"""
    for dtype in ("float64",):       # other dtypes compile on first use (well inside LIMIT)
        run_job({"H": 2, "W": 2, "vals": [[1, 1], [1, 1]], "barriers": [0, 9], "dtype": dtype, "conn": 8,
                 "yax": {"den": 1, "o": 0, "s": 1}, "xax": {"den": 1, "o": 0, "s": 1}, "sp": [0, 0], "gp": [0, 0],
                 "snapS": 1, "snapG": 1})


def main():
    """One result line per job.  A watchdog thread (the compiled search releases the GIL) notices a call that
    does not return: it reports that job as an error, marks the remaining jobs of this process as skipped
    (the driver runs them again in a fresh process) and ends the process."""
    import threading
    import time
    jobs = json.load(sys.stdin)["jobs"]
    out = sys.stdout
    lock = threading.Lock()
    state = {"i": -1, "t": time.time(), "done": False}

    def watchdog():
        while not state["done"]:
            time.sleep(1.0)
            limit = WARMUP_LIMIT if state["i"] < 0 else LIMIT
            if not state["done"] and time.time() - state["t"] > limit:
                with lock:
                    i = max(state["i"], 0)
                    j = jobs[i]
                    out.write(json.dumps({"H": j["H"], "W": j["W"], "tag": j.get("tag", ""),
                                          "error": "Timeout: a_star_search did not return within %d s" % limit}) + "\n")
                    for _ in jobs[i + 1:]:
                        out.write(json.dumps({"skipped": True}) + "\n")
                    out.flush()
                    os._exit(0)

    threading.Thread(target=watchdog, daemon=True).start()
    warm_up()
    for i, j in enumerate(jobs):
        state["i"], state["t"] = i, time.time()
        line = json.dumps(run_job(j)) + "\n"
        with lock:
            out.write(line)
    with lock:
        state["done"] = True
        out.flush()


if __name__ == "__main__":
    main()
