"""C07 - chunked (Dask) proximity / allocation / direction equal the whole-raster result.

M  ProxChunked.tla: every chunking x every sparse target layout of small grids: per-block four-sweep
   runs on halo windows (NaN-padded), trimmed and assembled = whole-raster run; negative twins
   (halo one short, halo from the wrong axis' cell size).
R  every chunking (quick: a sample) of seeded rasters x max_distance relative to the cell size through
   the real Dask path (interpreted mode) and the NumPy path; ProxChunked_Judge.tla decides laziness,
   halo depth per matching axis, the one-block fallback, and cell-by-cell equality of all three outputs;
   small cases are also compared with the model's assembly (drift).  P1-P6 of C06 are judged on the
   Dask outputs too (Proximity_Trace.tla).  Threads scheduler + compiled-mode samples.
"""
import itertools
import math
import random

from harness import core
from harness.props import c06


def pad_of(metric, k, cell):
    if metric == "E":
        p = 0
        while (2 * (p + 1) - 1) ** 2 * cell * cell <= 4 * k + 1:
            p += 1
        return p
    return (4 * k + 1 + 2 * cell) // (4 * cell)


def max_of(metric, k):
    return c06.bounds(metric, k)


def chunkings(n):
    """all compositions of n as tuples of chunk sizes, with their cut sets"""
    out = []
    for bits in itertools.product([0, 1], repeat=n - 1):
        cuts = [i + 1 for i, b in enumerate(bits) if b]
        edges = [0] + cuts + [n]
        out.append((cuts, [edges[i + 1] - edges[i] for i in range(len(edges) - 1)]))
    return out


def corner2(metric, xs, ys):
    dx, dy = abs(xs[-1] - xs[0]), abs(ys[-1] - ys[0])
    return dx * dx + dy * dy if metric == "E" else dx + dy


KINDS = ["plain", "zero", "precision", "repeat", "signed", "naninf", "precision", "plain"]


def make_rasters(rng, n, shapes):
    out = []
    for idx in range(n):
        kind = KINDS[idx % len(KINDS)]
        H, W = rng.choice(shapes)
        sx, sy = rng.choice([(1, 1), (1, 1), (2, 1), (1, 3), (3, 2)])
        x0 = rng.randrange(-3, 3)
        xs = [x0 + sx * c for c in range(W)]
        y0 = rng.randrange(-3, 3)
        ys = [y0 + sy * r for r in range(H)]
        if rng.random() < 0.6:
            ys = ys[::-1]
        metric = rng.choice(["E", "E", "M"])
        nt = rng.choice([1, 2, 2, 3, 4, 6])
        cells = rng.sample(range(H * W), min(nt, H * W))
        mask = [[1 if r * W + c in cells else 0 for c in range(W)] for r in range(H)]
        vals = [[(r * W + c + 1) * mask[r][c] for c in range(W)] for r in range(H)]
        for r in range(H):
            for c in range(W):
                if not mask[r][c] and rng.random() < 0.08:
                    vals[r][c] = "nan"
        ras = dict(H=H, W=W, xs=xs, ys=ys, sx=sx, sy=sy, metric=metric, vals=vals, mask=mask, targets=[], dtype=None)
        if kind == "zero":
            # explicit target value 0: a halo filled with 0 instead of NaN would create phantom targets
            ras["vals"] = [[0 if mask[r][c] else rng.choice([3, 4, 5]) for c in range(W)] for r in range(H)]
            ras["targets"] = [0]
        elif kind == "repeat":
            # repeated target values
            ras["vals"] = [[rng.choice([1, 2]) * mask[r][c] for c in range(W)] for r in range(H)]
        elif kind == "signed":
            # signed target values that cancel (+v / -v): a block (with its halo) whose values SUM to zero still
            # holds targets - any "empty chunk" shortcut based on a sum or mean must not fire
            v = rng.choice([4, 1, 2.5])
            flat = [(r, c) for r in range(H) for c in range(W) if mask[r][c]]
            ras["vals"] = [[0] * W for _ in range(H)]
            for i, (r, c) in enumerate(flat):
                ras["vals"][r][c] = v if i % 2 == 0 else -v
            if len(flat) % 2 == 1 and len(flat) > 1:
                r, c = flat[-1]
                ras["vals"][r][c] = -v
        elif kind in ("precision", "naninf"):
            # explicit target values single precision cannot tell from their neighbours, and NaN/inf cells next to
            # targets 0 / inf: the Dask path must compare exactly what the NumPy path compares
            if kind == "precision":
                tv, others = rng.choice([([0.1], [float.fromhex("0x1.99999a0000000p-4"), 0.3, 7]),
                                         ([16777217], [16777216, 16777218, 5]),
                                         ([16777216], [16777217, 16777215, 1])])
            else:
                tv, others = rng.choice([([0], ["nan", "inf", 3, 4]), (["inf"], [0, 3, "nan"]),
                                         ([0, "inf"], ["nan", 5, "-inf"])])
            ras["vals"] = [[rng.choice(tv) if mask[r][c] else rng.choice(others) for c in range(W)] for r in range(H)]
            ras["targets"] = tv
        if rng.random() < 0.3 and all(not isinstance(v, str) and abs(v) < 1e6 and float(v) == int(v)
                                      for row in ras["vals"] for v in row):
            neg = any(v < 0 for row in ras["vals"] for v in row)
            ras["dtype"] = rng.choice(["int32", "int64", "float32"] if neg else ["int32", "uint8", "int64", "float32"])
        out.append(ras)
    return out


def ks_for(rng, ras, count):
    """bounds k (max^2 = k+1/4 for E, max = k+1/4 for M) with a halo that stays inside the raster,
    plus the fallback cases (None = unbounded, and k reaching the extent)"""
    H, W, sx, sy, metric = ras["H"], ras["W"], ras["sx"], ras["sy"], ras["metric"]
    cand = []
    for k in range(1, 60):
        if metric == "E":
            r = math.isqrt(4 * k + 1)
            if r * r == 4 * k + 1 and r % 2 == 1:
                continue   # max/cell + 0.5 could be an exact integer: borderline rounding, skipped
        if pad_of(metric, k, sy) <= H and pad_of(metric, k, sx) <= W and k < corner2(metric, ras["xs"], ras["ys"]):
            cand.append(k)
    ks = rng.sample(cand, min(count, len(cand))) if cand else []
    return ks


def run(ctx):
    ctx.rule = ("case = (raster, coordinates, metric, max_distance, chunking); non-trivial when the chunking has "
                ">= 2 blocks on some axis and some non-target cell's nearest target lies in a different block; "
                "distinct by the full case")
    ctx.assumptions = [
        "domain: halo (in cells) <= raster height/width (Dask refuses larger halos: those calls are skipped and counted)",
        "max_distance off-lattice (max^2 = k+1/4 euclidean, max = k+1/4 manhattan) and k avoiding exact .5 halo ratios",
        "great-circle only through the unbounded/one-block path (a metric halo in degrees is meaningless there)",
        "bulk replay in interpreted mode; compiled-mode and threaded-scheduler samples cross-check",
    ]
    rng = random.Random(ctx.seed * 104729 + 7)

    # ---------------- M
    def mc(name, H, W, sx, sy, metric, k, nt, pady=None, padx=None, expect="ok"):
        _, b2, mn = max_of(metric, k)
        ctx.model_check("ProxChunked", dict(spec="Spec", invariants=["AssembledEqWhole"], constants=dict(
            H=H, W=W, XS=[sx * i for i in range(W)], YS=[sy * i for i in range(H)][::-1], METRIC=metric,
            BOUND2=b2, MAXN=mn, PADY=pad_of(metric, k, sy) if pady is None else pady,
            PADX=pad_of(metric, k, sx) if padx is None else padx, NT=nt)), name, expect=expect, timeout=7200)
    mc("3x3_E_k1", 3, 3, 1, 1, "E", 1, 2)
    mc("3x4_E_nonsq", 3, 4, 2, 1, "E", 4, 1)
    mc("neg_halo_one_short", 3, 3, 1, 1, "E", 1, 2, padx=0, expect="violation")
    mc("neg_halo_wrong_axis", 3, 4, 2, 1, "E", 4, 1, pady=1, padx=2, expect="violation")
    if ctx.tier == "thorough":
        mc("3x3_E_k1_all", 3, 3, 1, 1, "E", 1, 9)
        mc("4x4_E_k2", 4, 4, 1, 1, "E", 3, 2)
        mc("3x4_M", 3, 4, 1, 1, "M", 2, 2)
        mc("4x3_E_nonsq", 4, 3, 1, 2, "E", 4, 2)
    ctx.exhaustive = True

    # ---------------- R
    shapes = [(4, 5), (5, 4), (3, 6), (5, 6)] if ctx.tier == "quick" else [(4, 5), (5, 4), (3, 6), (5, 6), (6, 7), (2, 8)]
    rasters = make_rasters(rng, ctx.pick(10, 60), shapes)
    # one tiny raster whose cases are also run through the TLA+ block model (drift check)
    small = make_rasters(rng, ctx.pick(2, 8), [(3, 4), (4, 3), (3, 3)])
    np_jobs, dk_jobs, meta = [], [], []
    # lattice-exact family: non-binary cell size (0.2, 0.1, ...) with max_distance an exact multiple of it that is
    # representable in single precision (1.0, 2.0, 3.0): a target exactly max_distance away must be found
    for _ in range(ctx.pick(4, 16)):
        sc, m0 = rng.choice([(0.2, 5), (0.1, 10), (0.4, 5), (0.6, 5), (0.2, 10)])
        H, W = (m0 + rng.randrange(1, 4), m0 + rng.randrange(1, 4))
        metric = rng.choice(["E", "M"])
        xs = list(range(W))
        ys = list(range(H))[::-1] if rng.random() < 0.5 else list(range(H))
        mask = [[0] * W for _ in range(H)]
        r0, c0 = rng.randrange(H), rng.randrange(W)
        mask[r0][c0] = 1
        # a second target exactly m0 cells away from some cell, axis-aligned
        mask[(r0 + m0) % H if H > m0 else r0][c0] = 1
        if rng.random() < 0.5:
            mask[rng.randrange(H)][rng.randrange(W)] = 1
        vals = [[(r * W + c + 1) * mask[r][c] for c in range(W)] for r in range(H)]
        base = {"H": H, "W": W, "vals": vals, "xs": xs, "ys": ys, "metric": metric, "max": m0 * sc, "scale": sc,
                "bound2": 2 * m0 * m0, "maxn": m0 * m0, "targets": [], "events": False, "exact": 0}
        np_jobs.append(dict(base, tag="numpy"))
        npi = len(np_jobs) - 1
        allch = [(rc, rs, cc, cs) for rc, rs in chunkings(H) for cc, cs in chunkings(W)]
        ras = {"H": H, "W": W}
        for rc, rs, cc, cs in rng.sample(allch, ctx.pick(6, 40)) + [allch[-1]]:
            dk_jobs.append(dict(base, chunks=[rs, cs], tag="dask", scheduler="synchronous"))
            meta.append((npi, ("int", m0), rc, cc, False, ras))
    for ras, is_small in [(r, False) for r in rasters] + [(r, True) for r in small]:
        H, W = ras["H"], ras["W"]
        ks = ks_for(rng, ras, 3) + [None] + ([corner2(ras["metric"], ras["xs"], ras["ys"]) + 1] if rng.random() < 0.5 else [])
        allch = [(rc, rs, cc, cs) for rc, rs in chunkings(H) for cc, cs in chunkings(W)]
        for k in ks:
            mx, b2, mn = max_of(ras["metric"], k)
            base = {"H": H, "W": W, "vals": ras["vals"], "xs": ras["xs"], "ys": ras["ys"], "metric": ras["metric"],
                    "max": mx, "bound2": b2, "maxn": mn, "targets": ras.get("targets", []), "events": False, "exact": 0}
            if ras.get("dtype"):
                base["dtype"] = ras["dtype"]
            if rng.random() < 0.3:
                base["layout"] = rng.choice(["F", "T", "S", "R"])
            np_jobs.append(dict(base, tag="numpy"))
            npi = len(np_jobs) - 1
            nch = len(allch) if (ctx.tier == "thorough" or is_small) else 10
            chs = allch if nch >= len(allch) else rng.sample(allch, nch)
            if is_small and ctx.tier == "quick":
                chs = rng.sample(allch, min(12, len(allch)))
            # always include all-1-cell chunks and the single block
            extra = [allch[-1], allch[0]]
            for rc, rs, cc, cs in chs + [e for e in extra if e not in chs]:
                dk_jobs.append(dict(base, chunks=[rs, cs], tag="dask", joint=bool(rng.random() < 0.15),
                                    scheduler="threads" if rng.random() < 0.2 else "synchronous"))
                meta.append((npi, k, rc, cc, is_small, ras))
    evaluate(ctx, rng, np_jobs, dk_jobs, meta)


def replay(ctx, rec):
    job = dict(rec["case"]["job"])
    base = {k: v for k, v in job.items() if k not in ("chunks", "scheduler", "tag")}
    c = rec["case"]
    k = None if c["k"] == -1 else (("int", c["k"]) if c.get("kint") else c["k"])
    ras = {"H": c["H"], "W": c["W"]}
    evaluate(ctx, random.Random(0), [dict(base, tag="numpy")], [job],
             [(0, k, c["rowcuts"], c["colcuts"], c["H"] * c["W"] <= 12, ras)], compiled=0)


def evaluate(ctx, rng, np_jobs, dk_jobs, meta, compiled=None):
    npc = core.run_jobs("prox_worker", np_jobs, env={"NUMBA_DISABLE_JIT": "1"})
    dkc = core.run_jobs("prox_worker", dk_jobs, env={"NUMBA_DISABLE_JIT": "1"})
    # compiled-mode sample of the dask jobs
    nc = ctx.pick(6, 40) if compiled is None else compiled
    idx = rng.sample(range(len(dk_jobs)), min(nc, len(dk_jobs)))
    dkc2 = core.run_jobs("prox_worker", [dk_jobs[i] for i in idx], nproc=min(16, len(idx))) if idx else []
    allc = [(dkc[i], meta[i], "interp") for i in range(len(dkc))] + [(dkc2[j], meta[i], "compiled") for j, i in enumerate(idx)]

    cases, keep = [], []
    skipped = 0
    for dk, (npi, k, rc, cc, is_small, ras), mode in allc:
        nc_ = npc[npi]
        ctx.evaluations += 1
        if "error" in nc_:
            ctx.violation("proximity:numpy-call-raised", "call_raised", nc_["job"], nc_["error"])
            continue
        if "error" in dk:
            if "overlapping depth" in dk["error"] and "larger than your array" in dk["error"]:
                skipped += 1          # outside the property's domain
                continue
            ctx.violation("proximity-dask:call-raised", "call_raised", dk["job"], dk["error"])
            continue
        cases.append({"H": dk["H"], "W": dk["W"], "img": dk["img"], "xs": dk["xs"], "ys": dk["ys"],
                      "metric": dk["metric"], "k": -1 if k is None else (k[1] if isinstance(k, tuple) else k),
                      "kint": 1 if isinstance(k, tuple) else 0, "bound2": dk["bound2"], "maxn": dk["maxn"],
                      "np": {"prox": nc_["prox"], "alloc": nc_["alloc"], "dir": nc_["dir"]},
                      "dk": {"prox": dk["prox"], "alloc": dk["alloc"], "dir": dk["dir"]},
                      "overlap": dk["overlap"], "lazy": int(dk["lazy_ok"]), "vcode": dk["vcode"],
                      "rowcuts": rc, "colcuts": cc, "model": 1 if (is_small and mode == "interp") else 0})
        keep.append((dk, k, rc, cc, mode))
    ctx.extra["skipped_halo_larger_than_raster"] = skipped
    v = ctx.judge("ProxChunked_Judge", cases, name="dask_vs_numpy", parallel=8)
    for i, (dk, k, rc, cc, mode) in enumerate(keep):
        cl = v.get(i, "missing")
        multi = bool(rc or cc)
        if multi and c06.nontrivial(dk["img"], dk["H"], dk["W"]):
            ctx.nontrivial((tuple(map(tuple, dk["img"])), tuple(dk["xs"]), tuple(dk["ys"]), dk["metric"], k,
                            tuple(rc), tuple(cc)))
        if cl != "ok":
            ctx.violation("proximity-dask:%s" % cl, cl, dict(cases[i], job=dk["job"]),
                          "%dx%d metric=%s k=%s cuts=%s/%s mode=%s" % (dk["H"], dk["W"], dk["metric"], k, rc, cc, mode))
        dr = ctx.judge_extra.get(i) or ""
        if dr.startswith("drift"):
            ctx.report_drift("%s on %dx%d k=%s cuts=%s/%s" % (dr, dk["H"], dk["W"], k, rc, cc))
    for c in cases[:3]:
        ctx.sample({k: c[k] for k in ("H", "W", "img", "xs", "ys", "metric", "k", "rowcuts", "colcuts", "overlap")})
    ctx.extra["model_assembly_compared"] = sum(1 for c in cases if c["model"] == 1)

    # P1-P6 on the Dask outputs themselves
    tr = [c06.strip(dk) for dk, *_ in keep]
    v2 = ctx.judge("Proximity_Trace", tr, name="dask_outputs_P1_P6", stateful=True, workers=4, parallel=4,
                   count_traces=False)
    for i, (dk, k, rc, cc, mode) in enumerate(keep):
        cl = v2.get(i, "missing")
        if cl != "ok":
            ctx.violation("proximity-dask:%s" % cl, cl, {kk: dk[kk] for kk in dk if kk != "events"},
                          "dask output fails C06 clause; cuts=%s/%s" % (rc, cc))


META = {
    "technique": "TLA+ block/halo/assemble model over the four-sweep proximity model, all chunkings x sparse layouts "
                 "checked by TLC; real Dask vs NumPy outputs and recorded map_overlap arguments judged by TLC",
    "level_text": "ProxChunked.tla is model-checked over every chunking of small grids (assembly of per-block sweeps on "
                  "NaN-padded halo windows = whole-raster sweep; short / wrong-axis halos rejected). The real Dask path "
                  "is run for every chunking (quick: a sample incl. 1-cell chunks) of seeded rasters, max_distance "
                  "values around the halo size, three outputs, and ProxChunked_Judge.tla decides laziness, halo depth "
                  "per matching axis, the one-block fallback and cell-by-cell equality with the NumPy result.",
    "level_note": "Trusted: TLC; float bridge of C06; interpreted-mode bulk run cross-checked by compiled and threaded "
                  "samples; domain restricted to halos not larger than the raster; off-lattice max_distance.",
}
