"""C13 - spectral indices equal their band formulas, NaN where undefined; true_color alpha rule.

M  Spectral.tla: every band tuple over 0..6 and NaN x every parameter combination is an initial state; the
   transitions are the metamorphic moves (swap the two bands, double every band, poison one band with NaN).
   Invariants: wrapper slots + guarded kernel = published formula, NaN exactly where undefined, never +-inf,
   normalised differences in [-1,1]; action properties: swap flips the sign, 2^k scaling keeps the value,
   NaN propagates.  Negative twins must be rejected.
R  the complete tuple space of every index (bands 0..6 and NaN; soil_factor in {-1,-1/2,0,1/2,1}; c1, c2 in
   {0,1,6,7.5}; gain in {0,1,2.5}) laid out on rasters of every dtype uint8..float64 - also multiplied by the
   largest power of two that keeps 6*2^k inside the input dtype (overflow edge; scale-invariant configurations)
   and, for float inputs, by 2^-k down to 2^-100 (sums far below float32 eps, still normal numbers) -
   through the real functions; Spectral_Judge.tla decides every cell against the exact rational.
   true_color: red values x nodata x dtypes, bands without spread, 1x1 / 1xN rasters; alpha / dtype / shape
   decided by TLC.
T  seeded float rasters: antisymmetry and power-of-two invariance bit-exactly, range, NaN iff undefined.
"""
import itertools
import json
import random

from harness import core

IDX10 = ["arvi", "evi", "gci", "nbr", "nbr2", "ndvi", "ndmi", "savi", "sipi", "ebbi"]
ARITY = {"arvi": 3, "evi": 3, "gci": 2, "nbr": 2, "nbr2": 2, "ndvi": 2, "ndmi": 2, "savi": 2, "sipi": 3, "ebbi": 3}
NRF = ["nbr", "nbr2", "ndvi", "ndmi"]
C_H = [0, 2, 12, 15]            # c1, c2 in {0, 1, 6, 7.5} as halves
L_H = [-2, -1, 0, 1, 2]         # soil_factor in {-1, -1/2, 0, 1/2, 1}
G_H = [0, 2, 5]                 # gain in {0, 1, 2.5}
FLOATS = ["float64", "float32", "float16"]
# integer dtypes with the exponent of the largest power of two s.t. 6 * 2^sh still fits
INTS = [("uint8", 5), ("int8", 4), ("uint16", 13), ("int16", 12), ("uint32", 29), ("int32", 28),
        ("uint64", 61), ("int64", 60)]


# downward power-of-two scalings (dtype, k): inputs are tuple * 2^-k
DOWN = [("float32", 10), ("float32", 24), ("float32", 26), ("float32", 30), ("float32", 60), ("float32", 100),
        ("float64", 10), ("float64", 24), ("float64", 26), ("float64", 30), ("float64", 60), ("float64", 100)]
DOWN_QUICK = [("float32", 24), ("float32", 26), ("float32", 100), ("float64", 26), ("float64", 30), ("float64", 60)]


def pars_of(idx, thorough):
    if idx == "evi":
        if thorough:
            return [[a, b, l, g] for a in C_H for b in C_H for l in L_H for g in G_H]
        # quick: the boundary value 0 of EVERY parameter (c1, c2, gain; soil_factor runs over all five values) and
        # the largest value, plus a few combinations with the middle values
        return ([[a, b, l, g] for a in (0, 12) for b in (0, 15) for l in L_H for g in (0, 5)]
                + [[2, 2, 0, 2], [2, 12, 1, 2], [15, 2, -1, 5], [12, 12, 2, 2], [0, 0, 0, 2], [15, 0, 2, 2]])
    if idx == "savi":
        return [[0, 0, l, 2] for l in L_H]
    return [[0, 0, 0, 2]]


def scale_invariant(idx, par):
    if idx in ("evi", "savi"):
        return par[2] == 0
    return idx != "ebbi"


def index_jobs(thorough, rng):
    jobs = []
    n = 0
    for idx in IDX10:
        ar = ARITY[idx]
        tf = [list(t) for t in itertools.product([0, 1, 2, 3, 4, 5, 6, "nan"], repeat=ar)]
        ti = [list(t) for t in itertools.product([0, 1, 2, 3, 4, 5, 6], repeat=ar)]
        for par in pars_of(idx, thorough):
            dts = [(d, 0) for d in FLOATS] + [(d, 0) for d, _ in INTS]
            if scale_invariant(idx, par) or idx == "ebbi":
                dts += [(d, sh - (sh % 2 if idx == "ebbi" else 0)) for d, sh in INTS]
                dts += [("float32", 100), ("float64", 20)]
                # DOWN: band tuples times 2^-k on float inputs (still normal float32 numbers, so the exact rational
                # is what single precision gives): a guard like |denominator| < eps instead of == 0 shows here
                down = DOWN if thorough else DOWN_QUICK
                dts += [(d, -k) for d, k in down]
            if not thorough and idx == "evi":
                # rotate the dtypes over the parameter combinations instead of the full product
                inv = scale_invariant(idx, par)
                # ... but ALWAYS the full float tuple space (NaN in each band position, alone and combined) with the
                # parameters passed as floats and as ints (c2 = 0.0 and c2 = 0 are different call signatures)
                dts = [dts[(n + k) % len(dts)] for k in range(3)] + [("float64", 0, False), ("float32", 0, True)]
                if inv:
                    dts += [("float32", -26), ("float64", -60)]
            for ent in dts:
                d, sh = ent[0], ent[1]
                n += 1
                cells = tf if d.startswith("float") else ti
                jobs.append({"kind": "I", "idx": idx, "par": par, "dtype": d, "sh": sh, "kw": n % 3 == 0,
                             "intpar": (n % 2 == 0) if len(ent) < 3 else ent[2], "cells": cells})
    # ---- input variation: a different dtype and memory layout per band, dims named lat/lon or row/col, keyword
    # arguments in permuted order, parameters as Python ints / floats / np.float64, integer and float64 inputs that are
    # not float32 numbers ("dirty": the cast must happen before any arithmetic), unsigned bands whose difference is
    # negative (already in every tuple space: nir < red)
    patterns = [["C", "C", "C"], ["F", "F", "F"], ["C", "F", "S"], ["T", "R", "C"], ["S", "S", "S"]]
    mixes = [["uint8", "float64", "int16"], ["float32", "uint16", "uint64"], ["int64", "int8", "float16"],
             ["uint32", "uint32", "float64"], ["float64", "float32", "float64"], ["uint64", "int32", "uint8"]]
    dimsets = [["lat", "lon"], ["row", "col"], ["y", "x"]]
    v = 0
    for idx in IDX10:
        ar = ARITY[idx]
        tf = [list(t) for t in itertools.product([0, 1, 2, 3, 4, 5, 6, "nan"], repeat=ar)]
        ti = [list(t) for t in itertools.product([0, 1, 2, 3, 4, 5, 6], repeat=ar)]
        pars = pars_of(idx, thorough)
        for r in range(len(mixes) if thorough else 3):
            v += 1
            mix = mixes[(v + r) % len(mixes)][:ar]
            par = pars[(7 * v) % len(pars)]
            allfloat = all(d.startswith("float") for d in mix)
            jobs.append({"kind": "I", "idx": idx, "par": par, "dtype": mix[0], "dtypes": mix,
                         "layouts": patterns[v % len(patterns)][:ar], "dims": dimsets[v % 3], "sh": 0,
                         "kw": [False, True, "perm"][v % 3], "parmode": ["float", "int", "np64"][(v // 2) % 3],
                         "cells": tf if allfloat else ti})
        # same dtype, every layout pattern, permuted keywords
        for k, pat in enumerate(patterns[1:]):
            v += 1
            jobs.append({"kind": "I", "idx": idx, "par": pars[(3 * v) % len(pars)], "dtype": "float64",
                         "layouts": pat[:ar], "dims": dimsets[v % 3], "sh": 0, "kw": "perm" if k % 2 else False,
                         "parmode": "np64", "cells": tf})
        # values that are not float32 numbers, at the integer edge and in float64
        if scale_invariant(idx, pars[0]) or idx == "ebbi":
            for d, sh in [("int32", 28), ("uint64", 60), ("float64", 0)] + ([("int64", 60), ("uint32", 28)] if thorough else []):
                v += 1
                jobs.append({"kind": "I", "idx": idx, "par": [p for p in pars if scale_invariant(idx, p) or idx == "ebbi"][0],
                             "dtype": d, "sh": sh, "dirty": True, "kw": v % 2 == 0, "parmode": "float",
                             "layouts": patterns[v % len(patterns)][:ar], "cells": tf if d == "float64" else ti})
    # signed bands (negative radicands of EBBI, negative denominators) on signed dtypes
    for idx in IDX10:
        ts = [list(t) for t in itertools.product([-3, -2, -1, 0, 1, 2, 3], repeat=ARITY[idx])]
        for par in pars_of(idx, thorough)[::(1 if idx != "evi" else (7 if thorough else 11))]:
            for d in ("float64", "int16") + (("int8", "float32", "int64") if thorough else ()):
                n += 1
                jobs.append({"kind": "I", "idx": idx, "par": par, "dtype": d, "sh": 0, "kw": n % 3 == 0,
                             "intpar": n % 2 == 0, "cells": ts})
    return jobs


def rand_band(rng, n, nonneg):
    out = []
    for _ in range(n):
        r = rng.random()
        if r < 0.06:
            v = "nan"
        elif r < 0.14:
            v = 0.0
        elif r < 0.5:
            v = float(rng.randint(0, 3000))
        elif r < 0.62:
            v = rng.randint(1, 99) * rng.choice([1e-9, 1e-8, 2.0 ** -30])      # tiny but normal: sums far below float32 eps
        else:
            v = round(rng.uniform(0, 1.0) * rng.choice([1, 10, 1000, 12000]), rng.choice([2, 4, 7]))
        if not nonneg and v != "nan" and rng.random() < 0.3:
            v = -v
        out.append(v)
    return out


def meta_jobs(rng, n):
    jobs = []
    for i in range(n):
        rel = ["swap", "scale", "range"][i % 3]
        m = rng.choice([48, 80, 160])
        a = rand_band(rng, m, rel == "range")
        b = rand_band(rng, m, rel == "range")
        for k in range(0, m, 7):                 # equal bands / opposite bands: zero numerators and denominators
            b[k] = a[k] if (k // 7) % 2 == 0 or rel == "range" or a[k] == "nan" else -a[k]
        jobs.append({"kind": "M", "idx": rng.choice(NRF), "rel": rel, "k": rng.choice([-60, -40, -26, -24, -3, -1, 1, 2, 5, 10]),
                     "dtype": rng.choice(["float32", "float64"]), "a": a, "b": b})
    return jobs


def color_jobs(rng, thorough):
    jobs = []
    reds = [0, 1, 2, 3, 4, 5, 6, "nan"]
    for dt in ["float64", "float32", "uint8", "int16", "uint16", "int64"]:
        for nodata in [None, 0, 1, 2.5, 3, 6, -1]:
            red = [r for r in reds if not (r == "nan" and not dt.startswith("float"))] * 3
            rng.shuffle(red)
            n = len(red)
            g = [rng.randint(0, 6) for _ in range(n)]
            b = [rng.randint(0, 6) for _ in range(n)]
            if dt.startswith("float"):
                g[1] = "nan"
            jobs.append({"kind": "T", "red": red, "green": g, "blue": b, "nodata": nodata, "dtype": dt,
                         "W": rng.choice([3, 4, 6]), "c": rng.choice([None, 10.0, 1, 25.5, 0]),
                         "th": rng.choice([None, 0.125, 0, 0.5, 1])})
    # bands without spread (min == max: the contrast stretch of that band is undefined), constant with NaN holes,
    # 1x1 / 1xN / Nx1 rasters: alpha depends on the RAW red band only
    for dt in ["float64", "float32", "uint8", "int32"]:
        fl = dt.startswith("float")
        flat = []
        for red in ([5] * 6, [0] * 6, [1] * 6, [6] * 6, [3] * 6):
            flat.append((red, [2, 4, 1, 0, 6, 3], [1, 1, 5, 2, 0, 4], 3))
        if fl:
            flat.append(([5, "nan", 5, 5, "nan", 5], [2, 4, 1, 0, 6, 3], [1, 1, 5, 2, 0, 4], 3))
            flat.append((["nan", 0, 0, "nan", 0, 0], [2, 2, 2, 2, 2, 2], [1, 1, 5, 2, 0, 4], 2))
            flat.append((["nan"], [3], [3], 1))
        flat.append(([0, 1, 2, 3, 4, 5], [4] * 6, [4] * 6, 3))            # constant green and blue
        flat.append(([2, 5, 0, 6, 1, 3], [4] * 6, [0, 1, 2, 3, 4, 5], 6))   # 1 x N
        flat.append(([2, 5, 0, 6, 1, 3], [0, 1, 2, 3, 4, 5], [3] * 6, 1))   # N x 1
        flat.append(([0, 1, 2, 3, 4, 5, 6], [6, 5, 4, 3, 2, 1, 0], [1] * 7, 7))
        for v in (4, 0, 1, 6):                                              # 1 x 1
            flat.append(([v], [v], [2], 1))
        for k, (red, g, b, W) in enumerate(flat):
            for nodata in ([None, 0, 3] if thorough else [[None, 0, 3][k % 3]]) + ([2.5] if k % 4 == 0 else []):
                jobs.append({"kind": "T", "red": red, "green": g, "blue": b, "nodata": nodata, "dtype": dt, "W": W})
    # red within one float32 rounding of nodata, on either side, in dtypes wider than float32: the alpha rule is
    # about the RAW red band in its own dtype (values and nodata are encoded for TLC by exact rank)
    T24, T53 = 2 ** 24, 2 ** 53
    near = [("float64", 1, [1 + 1e-9, 1 - 1e-9, 1.0, 1 + 1e-12, 2.0, 0.5, "nan", 1 + 3e-8]),
            ("float64", None, [1 + 1e-9, 1 - 1e-9, 1.0, 3.0, 0.0, 1 + 1e-15]),
            ("float64", 0, [1e-50, -1e-50, 0.0, 1e-300, 5.0, "nan", -1.0]),
            ("float64", 2.5, [2.5 + 1e-10, 2.5 - 1e-10, 2.5, 2.5000001, 9.0, 0.0]),
            ("float64", T24, [T24 + 1, T24, T24 - 1, T24 + 2, T24 + 0.5, 0.0]),
            ("int32", T24, [T24 + 1, T24, T24 - 1, T24 + 2, T24 + 3, 0, 5]),
            ("uint32", T24, [T24 + 1, T24, T24 - 1, T24 + 3, 2 ** 31 + 1, 0]),
            ("int64", T24, [T24 + 1, T24, T24 - 1, T24 + 2, 7, -T24 - 1]),
            ("uint64", T24, [T24 + 1, T24, T24 - 1, T24 + 5, 2 ** 40 + 1, 0]),
            ("int64", T53, [T53 + 1, T53, T53 - 1, T53 + 2, 0, 1]),
            ("uint64", 2 ** 40, [2 ** 40 + 1, 2 ** 40, 2 ** 40 - 1, 2 ** 63 + 1, 0, 3]),
            ("int32", -T24 - 1, [-T24 - 1, -T24, -T24 - 2, 0, 3, -T24 + 5])]
    for dt, nodata, red in near:
        n = len(red)
        for W in (n, 2) if thorough else (2,):
            jobs.append({"kind": "T", "red": red, "green": [rng.randint(0, 6) for _ in range(n)],
                         "blue": [rng.randint(0, 6) for _ in range(n)], "nodata": nodata, "dtype": dt, "W": W,
                         "rank": True})
    return jobs


def capped(ctx, key, limit=8):
    """at most `limit` replay files per failing class; the rest are only counted"""
    n = ctx.extra.setdefault("violations_per_key", {})
    n[key] = n.get(key, 0) + 1
    return n[key] <= limit


def strip(case):
    return {k: v for k, v in case.items() if k not in ("job", "raw", "error", "dims_ok")}


def handle(ctx, cases, tag, parallel=8):
    good = [c for c in cases if "error" not in c]
    for c in cases:
        if "error" in c:
            ctx.evaluations += 1
            j = c["job"]
            ctx.violation("spectral:%s:call-raised" % j.get("idx", j["kind"]), "call_raised", {"job": j}, c["error"])
    if not good:
        return
    v = ctx.judge("Spectral_Judge", [strip(c) for c in good], name=tag, parallel=parallel)
    for i, c in enumerate(good):
        j = c["job"]
        cl = v.get(i, "missing")
        ncell = len(j["cells"]) if c["kind"] == "I" else len(j.get("a", j.get("red", [])))
        ctx.evaluations += ncell
        ctx.traces += ncell - 1          # every cell is one evaluation of the implementation judged by TLC
        if c["kind"] == "I":
            # C13 rule: a tuple with a non-zero numerator; count the distinct (index, parameters, tuple) triples
            for k, (b, o) in enumerate(zip(c["bs"], c["obs"])):
                if o[0] == 1 and o[1] != 0:
                    ctx.nontrivial((j["idx"], tuple(j["par"]), tuple(b)))
        if cl != "ok" and capped(ctx, "spectral:%s" % cl):
            cell = ctx.judge_extra.get(i) or ""
            detail = ""
            if c["kind"] == "I" and cell.startswith("cell_"):
                k = int(cell[5:]) - 1
                detail = " bands=%s observed=%s bridged=%s" % (j["cells"][k], c["raw"][k], c["obs"][k])
            small = dict(j)
            ctx.violation("spectral:%s" % cl, cl, {"job": small},
                          "%s dtype=%s sh=%s par=%s %s%s" % (tag, j.get("dtype"), j.get("sh"), j.get("par"), cell, detail))
    ctx.judge_extra.clear()


def replay(ctx, rec):
    """re-run exactly the recorded job through the real functions and the judge"""
    setup(ctx)
    job = rec["case"]["job"]
    cases = core.run_jobs("spectral_worker", [job], nproc=1)
    print("replaying %s: observed %s" % (rec.get("key"), json.dumps(cases[0].get("raw"))[:600]))
    handle(ctx, cases, "replay", parallel=1)


def mc(ctx, name, idx, c1s, c2s, ls, gs, mut="none", inv=None, props=None, expect="ok", bands="(0..6) \\cup {NAN}"):
    ctx.model_check("Spectral", dict(
        spec="Spec",
        invariants=["TypeOK", "CodeIsFormula", "NaNIff", "NeverInf", "NRRange"] if inv is None else inv,
        properties=["SwapFlipsSign", "DoubleKeeps", "PoisonGivesNaN"] if props is None else props,
        constants=dict(BANDS=core.Raw(bands), IDX=set(idx), C1S=set(c1s), C2S=set(c2s), LS=set(ls), GS=set(gs),
                       MAXB=48, MUT=mut)), name, expect=expect)


def setup(ctx):
    ctx.rule = ("cell = (index, parameters, band tuple); non-trivial when the exact numerator is non-zero (a defined, "
                "non-zero index value); distinct (index, parameters, tuple) triples are counted")
    ctx.assumptions = [
        "the formulas are the library's own forms (DESIGN 3 rule 6): ARVI (nir-2red+blue)/(nir+2red+blue), "
        "SAVI (nir-red)/((nir+red+L)(1+L)), EBBI on the band the function calls red",
        "float bridge rational(D): a float32 result is identified with the unique fraction of denominator <= D "
        "(32 / 128 / 16 per index) within 4 float32 ulp of max(|x|, 1) - the largest intermediate (GCI = nir/green - 1 "
        "loses ulps of the result by cancellation); EBBI is bridged through 100 x |x|",
        "inputs at the integer overflow edge are band tuples times 2^k (exact in float32); the index there equals "
        "the index of the unscaled tuple (DoubleKeeps, proved on the model); only scale-invariant configurations",
        "bands are finite or NaN (no +-inf inputs; float inputs whose sum overflows float32 are outside the domain)",
        "true_color: only the alpha channel, dtype and shape are part of the property",
        "NumPy backend only",
    ]


def run(ctx):
    setup(ctx)
    rng = random.Random(ctx.seed * 7919 + 13)
    thorough = ctx.tier == "thorough"

    # ------------------------------------------------------------------ M
    others = [i for i in IDX10 if i != "evi"]
    mc(ctx, "nine_indices", others, [0], [0], L_H, [2])
    if thorough:
        mc(ctx, "evi_all_parameters", ["evi"], C_H, C_H, L_H, G_H)
    else:
        mc(ctx, "evi_parameters", ["evi"], [0, 12], [0, 15], L_H, [0, 5])
    # negative bands too (signed inputs): the formulas, guards and symmetries do not depend on the sign
    mc(ctx, "signed_bands", others, [0], [0], [-2, 0, 1], [2], bands="(-3..3) \\cup {NAN}")
    # negative twins, each against the lemma that is there to catch it
    mc(ctx, "neg_noguard", ["ndvi", "gci", "sipi", "ebbi"], [0], [0], [0], [2], mut="noguard", inv=["NeverInf"], props=[],
       expect="violation")
    mc(ctx, "neg_noguard_naniff", ["evi"], [12], [15], [2], [5], mut="noguard", inv=["NaNIff"], props=[],
       expect="violation")
    mc(ctx, "neg_swapslots", ["nbr2"], [0], [0], [0], [2], mut="swapslots", inv=["CodeIsFormula"], props=[],
       expect="violation")
    mc(ctx, "neg_swapslots_ebbi", ["ebbi"], [0], [0], [0], [2], mut="swapslots", inv=["CodeIsFormula"], props=[],
       expect="violation")
    mc(ctx, "neg_nonanprop", ["ndmi"], [0], [0], [0], [2], mut="nonanprop", inv=[], props=["PoisonGivesNaN"],
       expect="violation")
    mc(ctx, "neg_wrap_range", ["ndvi"], [0], [0], [0], [2], mut="wrap16", inv=["NRRange"], props=[], expect="violation")
    mc(ctx, "neg_wrap_swap", ["nbr"], [0], [0], [0], [2], mut="wrap16", inv=[], props=["SwapFlipsSign"],
       expect="violation")
    mc(ctx, "neg_wrap_scale", ["nbr"], [0], [0], [0], [2], mut="wrap16", inv=[], props=["DoubleKeeps"],
       expect="violation")
    ctx.exhaustive = True

    # ------------------------------------------------------------------ R (+T) through one worker pool
    groups = [("index_tuples", index_jobs(thorough, rng), 8),
              ("true_color", color_jobs(rng, thorough), 1),
              # ---------------------------------------------------------- T: seeded float rasters, metamorphic
              ("float_metamorphic", meta_jobs(rng, ctx.pick(300, 3000)), 4)]
    jobs = [j for _, js, _ in groups for j in js]
    # few processes in quick: every (kernel, per-band layout) pair is compiled once per process
    cases = core.run_jobs("spectral_worker", jobs, nproc=ctx.pick(6, 16))
    k = 0
    for tag, js, par in groups:
        part = cases[k:k + len(js)]
        k += len(js)
        handle(ctx, part, tag, parallel=par)
        if tag == "index_tuples":
            for c in part[::max(1, len(part) // 5)]:
                if "obs" in c:
                    ctx.sample({"idx": c["idx"], "par_halves": c["par"], "dtype": c["job"]["dtype"], "sh": c["sh"],
                                "cell": c["job"]["cells"][37 % len(c["bs"])], "observed": c["raw"][37 % len(c["bs"])],
                                "bridged": c["obs"][37 % len(c["bs"])]})
        if tag == "true_color":
            for c in part:
                if "dims_ok" in c and not c["dims_ok"]:
                    ctx.report_drift("true_color dims are not (y, x, band)")
                    break


META = {
    "technique": "TLA+ transcription of the ten index formulas (abstract, by band name) and of the wrapper/kernel layer "
                 "(by position, with the zero-denominator guard) over exact rationals; TLC explores every band tuple x "
                 "parameter combination with swap / double / poison transitions; the same tuple space is run through the "
                 "real functions on every dtype and judged by TLC",
    "level_text": "TLC explores every band tuple over 0..6 and NaN for all ten indices and every listed parameter "
                  "combination on Spectral.tla, with transitions swap / double / poison: the code-shaped layer equals "
                  "the published formula (argument-to-slot binding included), NaN exactly where undefined, never "
                  "+-inf, normalised differences in [-1,1], antisymmetry, 2^k invariance, NaN propagation; broken "
                  "twins are rejected. The complete tuple space is then laid out on rasters of every dtype "
                  "(uint8..float64, also at the integer overflow edge and scaled down by 2^-k on float inputs) and run "
                  "through the real functions; "
                  "Spectral_Judge.tla compares every cell with the exact rational; true_color's alpha rule, dtype and "
                  "shape likewise; seeded float rasters check the symmetries bit-exactly. Exhaustive on the tuple "
                  "space, sampled beyond it.",
    "level_note": "Trusted: TLC; the float bridge in harness/workers/spectral_worker.py (a float32 is identified with "
                  "the unique small-denominator fraction within 4 float32 ulp of max(|x|,1); EBBI through its signed "
                  "square); exact power-of-two scaling for the overflow-edge inputs; NumPy backend only.",
}
