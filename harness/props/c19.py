"""C19 - distance metrics are metrics; circle/annulus kernels are the stated shapes; distance strings.

M  Metrics.tla        all ordered triples of an N x N lattice: symmetry, identity of indiscernibles, triangle
                      inequality (Euclid in the exact squared form) + negative twins
   Kernels.tla        every (cellsize_x, cellsize_y, outer radius, inner <= outer): code-shaped linspace / pad model
                      = ellipse mask on integer offsets, odd shape, both flips, annulus = outer - centred inner >= 0
   DistanceParse.tla  character-level tokeniser = declarative reading on every string over a 9-letter alphabet
R  the same spaces through the real euclidean/manhattan/great_circle_distance (recorded tables, axioms evaluated
   by TLC), circle_kernel / annulus_kernel (all cell sizes x quarter-step radii x inner<=outer), calc_cellsize,
   custom_kernel, and a generated string corpus through circle_kernel / _get_distance; all judged by TLC.
T  seeded random point tables (plane and sphere) and random strings.
"""
import itertools
import json
import os
import random
import re

from harness import core

CELLS_Q = [[1, 1], [2, 1], [3, 1], [1, 2]]
CELLS_T = CELLS_Q + [[3, 2], [7, 1]]
ALPHA = ["-", ".", "0", "5", " ", "k", "m", "F", "t"]

UNIT_NAMES = ["meter", "meters", "m", "kilometer", "kilometers", "km", "foot", "feet", "ft",
              "mile", "miles", "ml", "mls"]
FACT = {"meter": 1.0, "meters": 1.0, "m": 1.0, "kilometer": 1000.0, "kilometers": 1000.0, "km": 1000.0,
        "foot": 0.3048, "feet": 0.3048, "ft": 0.3048, "mile": 1609.344, "miles": 1609.344, "ml": 1609.344,
        "mls": 1609.344}


# ------------------------------------------------------------------------------------------ job builders
def plane_jobs(rng, tier):
    jobs = []
    lat5 = [(x, y) for x in range(5) for y in range(5)]
    for metric in ("E", "M"):
        jobs.append({"kind": "plane", "metric": metric, "scale": 1, "xs": [p[0] for p in lat5],
                     "ys": [p[1] for p in lat5], "tag": "lattice5"})
        # negative / fractional (quarter) coordinates, non-square spacing
        pts = [(x, y) for x in (-6, -1, 0, 3, 10) for y in (-9, -2, 0, 5)]
        jobs.append({"kind": "plane", "metric": metric, "scale": 4, "xs": [p[0] for p in pts],
                     "ys": [p[1] for p in pts], "tag": "quarters"})
        pts = [(x * 7 - 20, y * 3 + 100) for x in range(4) for y in range(5)]
        jobs.append({"kind": "plane", "metric": metric, "scale": 1, "xs": [p[0] for p in pts],
                     "ys": [p[1] for p in pts], "tag": "nonsquare"})
    # the same lattice with the coordinates passed as python ints, numpy scalars of the signed / float dtypes and
    # mixed precision (unsigned scalars wrap in x1 - x2 and are outside the documented float domain: notes)
    pts = [(x, y) for x in (-3, 0, 1, 4) for y in (-2, 0, 5)]
    for at in ("int", "int8", "int16", "int32", "int64", "float32", "float64", "mixed32", "mixed_int"):
        for metric in ("E", "M"):
            jobs.append({"kind": "plane", "metric": metric, "scale": 1, "xs": [p[0] for p in pts],
                         "ys": [p[1] for p in pts], "argtype": at, "tag": "argtype_" + at})
    # coordinates that float32 cannot hold (> 2^24) and, as python ints, that float64 cannot hold (> 2^53): the
    # spec sees the table relative to `base`
    for at, base in (("float", [16777217, -33554433]), ("float64", [16777217, -33554433]),
                     ("int", [2 ** 53 + 1, -(2 ** 53) - 3]), ("int64", [2 ** 53 + 1, 2 ** 40 + 1])):
        for metric in ("E", "M"):
            jobs.append({"kind": "plane", "metric": metric, "scale": 1, "xs": [p[0] for p in pts],
                         "ys": [p[1] for p in pts], "argtype": at, "base": base, "tag": "big_coords_" + at})
    qp = [(x, y) for x in (-6, -1, 0, 3) for y in (-9, 0, 5)]
    for at in ("float32", "mixed32"):
        jobs.append({"kind": "plane", "metric": "E", "scale": 4, "xs": [p[0] for p in qp], "ys": [p[1] for p in qp],
                     "argtype": at, "tag": "argtype_quarters_" + at})
    for t in range(6 if tier == "quick" else 40):
        n = rng.randrange(6, 16)
        sc = rng.choice([1, 2, 8])
        pts = [(rng.randrange(-40, 41), rng.randrange(-40, 41)) for _ in range(n)]
        pts.append(pts[0])          # a coincident pair
        jobs.append({"kind": "plane", "metric": rng.choice(["E", "M"]), "scale": sc,
                     "xs": [p[0] for p in pts], "ys": [p[1] for p in pts], "tag": "random%d" % t})
    return jobs


SPHERE_CORE = [(0, 90), (90, 90), (-180, 90), (0, -90), (135, -90),          # poles, several longitudes
               (180, 0), (-180, 0), (180, 45), (-180, 45), (-180, -30), (180, -30), (179, 0), (-179, 0),
               (0, 0), (10, 20), (-170, -20), (90, 45), (-90, -45), (45, 0), (-135, 0),  # antipodes
               (0, 1), (1, 0), (1, 1), (-1, 0), (0, 89), (180, 89), (60, -60), (-120, 60),
               (179, 1), (-179, -1), (-170, -19), (-91, -44), (180, 90), (-180, -90), (180, -90)]  # near-antipodes, corners


def sphere_jobs(rng, tier):
    jobs = [{"kind": "sphere", "lon": [p[0] for p in SPHERE_CORE], "lat": [p[1] for p in SPHERE_CORE],
             "tag": "core"},
            {"kind": "sphere", "lon": [p[0] for p in SPHERE_CORE[:20]], "lat": [p[1] for p in SPHERE_CORE[:20]],
             "radius": 1000000.0, "tag": "core_radius_1e6"}]
    # non-default radius: always with exactly antipodal pairs, nearly antipodal pairs and pole to pole
    anti = [(0, 90), (77, 90), (0, -90), (-130, -90), (0, 0), (180, 0), (-180, 0), (10, 20), (-170, -20),
            (90, 45), (-90, -45), (45, 0), (-135, 0), (-60, 30), (120, -30), (179, 1), (-179, -1), (-171, -19),
            (121, -29), (1, 89), (-179, -89), (30, 60)]
    for rad in (6371000.0, 1.0, 1000000.0, 2.5):
        jobs.append({"kind": "sphere", "lon": [p[0] for p in anti], "lat": [p[1] for p in anti], "radius": rad,
                     "tag": "antipodes_radius_%g" % rad})
    # argument types: python ints, numpy scalars of every dtype (unsigned: the non-negative quadrant), mixed
    signed = SPHERE_CORE[:5] + SPHERE_CORE[5:9] + SPHERE_CORE[13:20] + SPHERE_CORE[-7:]
    quad = [(0, 90), (90, 90), (180, 90), (180, 0), (0, 0), (10, 20), (90, 45), (45, 0), (0, 1), (1, 0), (179, 1),
            (0, 89), (180, 89), (60, 60), (180, 45)]
    small = [(0, 90), (90, 90), (-120, 90), (0, -90), (100, -90), (0, 0), (10, 20), (120, 0), (-60, 0), (127, 45),
             (-127, -45), (1, 1), (0, 89)]
    for at in ("int", "int16", "int32", "int64", "float32", "float64", "mixed32", "mixed_int"):
        jobs.append({"kind": "sphere", "lon": [p[0] for p in signed], "lat": [p[1] for p in signed],
                     "argtype": at, "tag": "argtype_" + at})
    for at in ("uint8", "uint16", "uint32", "uint64"):
        jobs.append({"kind": "sphere", "lon": [p[0] for p in quad], "lat": [p[1] for p in quad],
                     "argtype": at, "tag": "argtype_" + at})
    jobs.append({"kind": "sphere", "lon": [p[0] for p in small], "lat": [p[1] for p in small], "argtype": "int8",
                 "tag": "argtype_int8"})
    # tenths of a degree: pairs across the antimeridian, near-antipodal pairs, next to the poles
    tenths = [(1799, 0), (-1799, 0), (1800, 0), (-1800, 0), (1, 1), (-1799, -1), (1799, -1), (0, 899), (1800, 899),
              (0, 900), (777, 900), (0, -899), (1234, -456), (-566, 456), (-1, 0), (1799, 1), (900, 0), (-900, 0)]
    for at in (None, "float32"):
        jobs.append({"kind": "sphere", "lon": [p[0] for p in tenths], "lat": [p[1] for p in tenths], "sc": 10,
                     "argtype": at, "tag": "tenths_%s" % at})
    for t in range(3 if tier == "quick" else 25):
        n = rng.randrange(10, 22 if tier == "quick" else 34)
        pts = []
        for _ in range(n):
            lon, lat = rng.randrange(-180, 181), rng.randrange(-90, 91)
            pts.append((lon, lat))
            if rng.random() < 0.35:                       # its antipode
                alon = lon + 180 if lon <= 0 else lon - 180
                pts.append((alon, -lat))
        pts.append(pts[0])
        jobs.append({"kind": "sphere", "lon": [p[0] for p in pts], "lat": [p[1] for p in pts],
                     "tag": "random%d" % t})
    return jobs


def range_jobs(rng):
    lonv = {1: [-180.0001, -200.0, -1e9], 2: [-180.0], 3: None, 4: [180.0], 5: [180.0001, 360.0, 1e9]}
    latv = {1: [-90.0001, -91.0, -1e9], 2: [-90.0], 3: None, 4: [90.0], 5: [90.0001, 180.0, 1e9]}
    jobs = []
    for rep in range(2):
        for cls in itertools.product([1, 2, 3, 4, 5], repeat=4):
            vals = []
            for k, c in enumerate(cls):
                tab = lonv if k < 2 else latv
                if c == 3:
                    vals.append(round(rng.uniform(-179.9, 179.9) if k < 2 else rng.uniform(-89.9, 89.9), 4))
                else:
                    vals.append(tab[c][rep % len(tab[c])] if rep == 0 else rng.choice(tab[c]))
            jobs.append({"kind": "range", "cls": list(cls), "vals": vals})
    # the bounds +-180 / +-90 exactly, in every argument position, for other argument types
    loni = {1: -181, 2: -180, 3: None, 4: 180, 5: 181}
    lati = {1: -91, 2: -90, 3: None, 4: 90, 5: 91}
    for at in ("int", "int16", "float32", "int64"):
        for cls in itertools.product([1, 2, 3, 4, 5], repeat=4):
            if at != "int" and rng.random() < 0.6:
                continue
            vals = [(loni if k < 2 else lati)[c] if c != 3 else (rng.randrange(-179, 180) if k < 2
                                                                 else rng.randrange(-89, 90))
                    for k, c in enumerate(cls)]
            jobs.append({"kind": "range", "cls": list(cls), "vals": vals, "argtype": at})
    return jobs


def kernel_jobs(rng, tier):
    cells = CELLS_Q if tier == "quick" else CELLS_T
    rq = 16 if tier == "quick" else 24
    hows = ["float", "int", "np", "str", "np32", "npint", "int32"]
    jobs = []
    n = 0
    for cx in cells:
        for cy in cells:
            for k in range(1, rq + 1):
                n += 1
                jobs.append({"kind": "circle", "cx": cx, "cy": cy, "r": red(k, 4), "how": hows[n % 7]})
                for ki in range(1, k + 1):
                    n += 1
                    jobs.append({"kind": "annulus", "cx": cx, "cy": cy, "r": red(k, 4), "ri": red(ki, 4),
                                 "how": hows[n % 7]})
    # very elongated cells (1 : 7), radii below a cell, exactly on multiples of either cell size, in between
    rs = [4, 27, 28, 29, 40, 56, 57, 62, 84]          # quarters: 1, 6.75, 7, 7.25, 10, 14, 14.25, 15.5, 21
    for cx, cy in (([1, 1], [7, 1]), ([7, 1], [1, 1]), ([1, 2], [7, 2])):
        for k in rs:
            n += 1
            jobs.append({"kind": "circle", "cx": cx, "cy": cy, "r": red(k, 4), "how": hows[n % 7]})
            for ki in rs:
                if ki <= k:
                    n += 1
                    jobs.append({"kind": "annulus", "cx": cx, "cy": cy, "r": red(k, 4), "ri": red(ki, 4),
                                 "how": hows[n % 7]})
    # half sizes up to 30 (kernels up to 61 x 61): cells lying EXACTLY on the ellipse must be inside.  The pair
    # (a, b) is reached with integers: cellsize_x = b, cellsize_y = a, radius = a*b  (and cell 1, radius a for circles).
    def on_boundary(a, b):      # the boundary passes through a lattice point off the axes
        return any((x * b) ** 2 + (y * a) ** 2 == (a * b) ** 2 for x in range(1, a) for y in range(1, b))
    allp = [(a, b) for a in range(1, 31) for b in range(1, 31)]
    lattice = [p for p in allp if on_boundary(*p)]          # includes the Pythagorean circles 5, 10, 13, 15, 17, ...
    if tier == "quick":
        pairs = [(a, a) for a in range(1, 31)] + [p for p in lattice if p[0] != p[1]]
        pairs += rng.sample([p for p in allp if p not in pairs], 40)
    else:
        pairs = allp
    for (a, b) in pairs:
        n += 1
        if a == b and n % 2:
            cx, cy, r = [1, 1], [1, 1], [a, 1]
        else:
            cx, cy, r = [b, 1], [a, 1], [a * b, 1]
        jobs.append({"kind": "circle", "cx": cx, "cy": cy, "r": r, "how": hows[n % 7], "tag": "half_%d_%d" % (a, b)})
    # annuli built from the lattice-boundary shapes: inner lattice shape or a few other inner radii, inner = outer
    for (a, b) in (lattice if tier != "quick" else [p for p in lattice if p[0] == p[1]] + rng.sample(lattice, 12)):
        cx, cy, r = ([1, 1], [1, 1], a) if a == b else ([b, 1], [a, 1], a * b)
        for ri in sorted({max(1, r // 4), max(1, (3 * r) // 13), max(1, (5 * r) // 13), max(1, r - 1), r}):
            n += 1
            jobs.append({"kind": "annulus", "cx": cx, "cy": cy, "r": [r, 1], "ri": [ri, 1], "how": hows[n % 7],
                         "tag": "half_annulus_%d_%d" % (a, b)})
    # non-binary fractional cell sizes (0.1, 0.2, 0.05, 0.3, 0.3048) with radii that are exact integer multiples of
    # them: the exact quotient is the integer k (TruncDiv on rationals in the judge).  Binary floats store these
    # cells slightly off, so true division r / cell may land just BELOW k for some pairs (0.3 / 0.1 =
    # 2.9999999999999996): those are borderlines of float division and are skipped (soundness rule 3); kept are
    # the pairs on which true division is exact-or-above, where int(r / cell) must be k (floor division is not).
    from fractions import Fraction as Fr
    fcells = [Fr(1, 10), Fr(1, 5), Fr(1, 20), Fr(3, 10), Fr(381, 1250)]
    skipped = 0

    def exact_or_above(r, c):
        k = r / c
        return k.denominator == 1 and int(float(r) / float(c)) == int(k)
    fpairs = [(c, c) for c in fcells] + [(Fr(1, 10), Fr(1, 5)), (Fr(1, 20), Fr(1, 10)), (Fr(3, 10), Fr(1, 10)),
                                          (Fr(1, 5), Fr(1, 20))]
    fh = ["float", "np", "str"]
    for cx, cy in fpairs:
        step = max(cx, cy) if (max(cx, cy) / min(cx, cy)).denominator == 1 else cx * cy.denominator
        for k in range(1, 13 if tier == "quick" else 21):
            r = step * k
            if r / min(cx, cy) > 30:
                break
            if not (exact_or_above(r, cx) and exact_or_above(r, cy)):
                skipped += 1
                continue
            n += 1
            q = lambda f: [f.numerator, f.denominator]
            jobs.append({"kind": "circle", "cx": q(cx), "cy": q(cy), "r": q(r), "how": fh[n % 3], "tag": "decimal_cells"})
            for ki in (1, k // 2, k):
                ri = step * ki
                if ki >= 1 and exact_or_above(ri, cx) and exact_or_above(ri, cy):
                    n += 1
                    jobs.append({"kind": "annulus", "cx": q(cx), "cy": q(cy), "r": q(r), "ri": q(ri), "how": fh[n % 3],
                                 "tag": "decimal_cells"})
    jobs.append({"kind": "circle", "cx": [381, 1250], "cy": [381, 1250], "r": [381, 125], "rstr": "10ft",
                 "how": "float", "tag": "decimal_cells"})
    jobs.append({"kind": "circle", "cx": [1, 10], "cy": [1, 5], "r": [1, 1], "rstr": "1 m", "how": "float",
                 "tag": "decimal_cells"})
    SKIPPED[0] = skipped
    # radii given as strings with units (metres = r), large cells
    for rstr, r, cx, cy in (("1.2km", [1200, 1], [500, 1], [250, 1]), ("0.5 km", [500, 1], [100, 1], [125, 1]),
                            ("12ft", [4572, 1250], [1, 1], [1, 2]), ("2 miles", [402336, 125], [1000, 1], [500, 1]),
                            ("7 M", [7, 1], [2, 1], [3, 1]), ("3500 Meters", [3500, 1], [1000, 1], [400, 1])):
        jobs.append({"kind": "circle", "cx": cx, "cy": cy, "r": r, "rstr": rstr, "how": "float"})
        jobs.append({"kind": "annulus", "cx": cx, "cy": cy, "r": r, "rstr": rstr, "ri": [r[0], r[1] * 2],
                     "ristr": None, "how": "float"})
    return jobs


def red(n, d):
    from math import gcd
    g = gcd(n, d)
    return [n // g, d // g]


def cellsize_jobs():
    jobs = []
    units = ["", "m", "meter", "meters", "km", "kilometer", "kilometers", "ft", "foot", "feet", "mile", "miles", "mls",
             "ml"]
    for u in units:
        jobs.append({"kind": "cellsize", "mode": "attr2", "H": 3, "W": 4, "unit": u, "rx": [1, 2], "ry": [1, 2]})
        jobs.append({"kind": "cellsize", "mode": "attr2", "H": 3, "W": 4, "unit": u, "rx": [3, 1], "ry": [-5, 4]})
        jobs.append({"kind": "cellsize", "mode": "attr1", "H": 2, "W": 2, "unit": u, "rx": [5, 2]})
        jobs.append({"kind": "cellsize", "mode": "coords", "H": 3, "W": 5, "unit": u, "sc": 4,
                     "xs": [0, 2, 4, 6, 8], "ys": [9, 6, 3]})          # descending y, 0.5 x 0.75
        jobs.append({"kind": "cellsize", "mode": "coords", "H": 4, "W": 3, "unit": u, "sc": 1,
                     "xs": [-30, -20, -10], "ys": [100, 103, 106, 109]})
        jobs.append({"kind": "cellsize", "mode": "coords", "H": 2, "W": 4, "unit": u, "sc": 2,
                     "xs": [9, 6, 3, 0], "ys": [-1, -8]})               # both axes descending
    return jobs


def custom_jobs():
    return [{"kind": "custom", "rows": r, "cols": c, "what": w}
            for r in range(1, 5) for c in range(1, 6) for w in ("ndarray", "list", "dataarray")]


def nominal_cell(s):
    """cell size that keeps the public circle_kernel call small (about radius / 2.5) whatever the string is
    read as: the first number in it times the factor of the unit its letters spell (mile if unknown)"""
    m = re.search(r"\d*\.?\d+", s)
    if not m:
        return 1.0
    v = float(m.group(0))
    word = "".join(ch for ch in s if ch.isalpha()).lower()
    f = FACT.get(word, 1609.344 if word else 1.0)
    return v * f / 2.5 if v > 0 else 1.0


def case_variants(u):
    out = []
    for v in (u, u.capitalize(), u.upper(), u[:1] + u[1:].upper()):
        if v not in out:
            out.append(v)
    return out


def parse_jobs(rng, tier):
    strings = {}

    def add(s, num="", unit=""):
        if s not in strings:
            strings[s] = nominal_cell(s)

    good_nums = ["1", "5", "10", "2.5", "0.5", ".5", "007", "12.75", "99.99", "3.0", "0.25"]
    bad_nums = ["0", "0.0", "-3", "-0.5", "-.5", "00", ".0"]
    junk_nums = ["", "abc", "1e3", "1,5", "5.", "5..5", "1.2.3", "+5", "--5", "-", ".", "5-3", "1_0", "5/2"]
    unknown = ["mm", "cm", "yd", "mi", "kms", "metre", "kilometres", "miless", "meterz", "k", "f", "nm", "in",
               "km2", "m.", ".m", "m-", "k-m", "km/h", "%"]
    for num in good_nums + bad_nums:
        add(num, num, "")
        for u in UNIT_NAMES:
            for cu in case_variants(u):
                for sp in (" ", "", "   "):
                    add(num + sp + cu, num, u)
        for u in unknown:
            add(num + u, num, u)
            add(num + " " + u, num, u)
    for num in junk_nums:
        add(num)
        for u in ("m", "km", " ft", "miles", "mile"):
            add(num + u, "1", u)
    # odd spaces: leading, trailing, inside the unit
    for num in ("5", "2.5"):
        for u in ("m", "km", "ft", "miles", "meters"):
            add(" " + num + u, num, u)
            add(num + u + " ", num, u)
            add(num + " " + u + "  ", num, u)
            if len(u) > 1:
                add(num + u[0] + " " + u[1:], num, u)
        add(num + " ", num, "")
        add(" " + num, num, "")
        add(num[0] + " " + num[1:] + "m", num, "m")
    for s in ("nan", "inf", "-inf", "NaN", "Infinity", "m", "km", " ", "", "5km5", "5 km 5", "km5", "5 5", "5 5m",
              "5m5m", "five m", "5 m m", "5 mm m", "1.5.5km", "5km.", "0x10", "1e-05", "1E5m", "5 k", "5 e"):
        add(s, "5", "km")
    letters = list("0123456789.- kmftMKels")
    for _ in range(300 if tier == "quick" else 4000):          # T: random strings
        n = rng.randrange(1, 8)
        s = "".join(rng.choice(letters) for _ in range(n))
        add(s, "5", "m")
    jobs = []
    for s, cell in strings.items():
        # keep the spec's arithmetic inside 32 bits: at most 5 digits
        if sum(ch.isdigit() for ch in s) > 6:
            continue
        jobs.append({"kind": "parse", "s": s, "cell": cell})
    return jobs


# ------------------------------------------------------------------------------------------ verdict handling
def strip(case, keep):
    return {k: case[k] for k in keep}


def check_worker(cases):
    for c in cases:
        if "worker_error" in c:
            raise core.MachineryError("c19 worker failed on %s: %s" % (c.get("job"), c["worker_error"]))


SEEN = {}
SKIPPED = [0]
JVM = {"JAVA_TOOL_OPTIONS": "-XX:ParallelGCThreads=2"}
JVM_SMALL = {"JAVA_TOOL_OPTIONS": "-XX:ParallelGCThreads=2 -XX:TieredStopAtLevel=1"}
KNOWN = []


def judge_group(ctx, module, cases, fields, name, keyfn, parallel=1, drift_clauses=()):
    if not cases:
        return
    v = ctx.judge(module, [strip(c, fields) for c in cases], name=name, parallel=parallel, env=JVM)
    for i, c in enumerate(cases):
        ctx.evaluations += 1
        cl = v.get(i, "missing")
        extra = ctx.judge_extra.get(i) or ""
        if cl == "missing":
            raise core.MachineryError("no verdict for case %d of %s" % (i, name))
        if cl != "ok":
            key, what = keyfn(c, cl, extra)
            if cl in drift_clauses:
                ctx.report_drift("%s: %s %s" % (key, what, extra))
            else:
                SEEN[key] = SEEN.get(key, 0) + 1
                if SEEN[key] <= 3:           # at most three replay files per failing class
                    small = {k: c[k] for k in c if k not in ("bits",)}
                    ctx.violation(key, cl, small, "%s %s" % (what.replace("\n", " "), extra))
        elif extra.startswith("drift"):
            ctx.report_drift("%s: %s" % (name, (c.get("s"), extra)))
        elif extra.startswith("known"):
            KNOWN.append(c.get("s"))


def run(ctx):
    ctx.rule = ("kernel case non-trivial when radius/cellsize is not an integer on some axis; metric case = one "
                "ordered triple of three non-collinear (plane) / pairwise distinct (sphere) points of a recorded "
                "table; distance strings counted when valid and not a bare integer in metres")
    ctx.assumptions = [
        "float bridge: planar distances must be exact integers in the scaled lattice (1e-9 relative), great-circle "
        "distances are rounded to metres with a 2 m slack on the triangle inequality only; symmetry is bit-exact",
        "circle_kernel semi-axes are trunc(radius/cellsize) (DESIGN 3 rule 6); cell sizes and radii are dyadic or "
        "thirds so the float division is exact at integral quotients",
        "unit vocabulary = the list the library publishes in its own error message (meter, meters, m, kilometer, "
        "kilometers, km, foot, feet, ft, mile, miles, ml, mls); strings with spaces in places other than between "
        "number and unit admit both outcomes",
        "accepted/rejected is observed on the public circle_kernel; the metres value on convolution._get_distance",
        "strings are ASCII with at most 6 digits",
    ]
    rng = random.Random(ctx.seed * 104729 + 19)
    thorough = ctx.tier == "thorough"
    SEEN.clear()
    del KNOWN[:]
    if os.environ.get("VERIF_C19_STAGE") == "R":       # development aid: replay only (mutation testing)
        return replay_all(ctx, rng)

    # ---------------------------------------------------------------- M
    inv_m = ["ManSymmetric", "ManIdentity", "ManNonNeg", "ManTriangle", "EucSymmetric", "EucIdentity",
             "EucTriangle", "Comparable"]
    ctx.model_check("Metrics", dict(spec="Spec", invariants=inv_m, constants=dict(N=ctx.pick(5, 6), MUT="none")),
                    "lattice", workers=ctx.pick(4, 16), env=JVM)
    for mut, inv in (("abs_of_sum", "ManIdentity"), ("asym", "ManSymmetric"), ("nosqrt", "EucTriangle"),
                     ("drop_y", "EucIdentity")):
        ctx.model_check("Metrics", dict(spec="Spec", invariants=[inv], constants=dict(N=4, MUT=mut)),
                        "neg_" + mut, expect="violation", workers=2, env=JVM_SMALL)
    inv_k = ["CircleIsEllipseMask", "OddShape", "Flips", "CentreAndAxesSet", "Binary", "AnnulusIsDifference",
             "AnnulusNonNegative", "InnerInsideOuter", "Monotone"]
    cells = CELLS_T if thorough else CELLS_Q
    ctx.model_check("Kernels", dict(spec="Spec", invariants=inv_k, constants=dict(
        CELLS=core.Raw("{%s}" % ", ".join("<<%d, %d>>" % tuple(c) for c in cells)),
        RQMAX=ctx.pick(16, 24), MUT="none")), "all_radii", workers=ctx.pick(8, 16), env=JVM)
    for mut, inv in (("lt", "CircleIsEllipseMask"), ("swap_axes", "CircleIsEllipseMask"),
                     ("round_up", "CircleIsEllipseMask"), ("pad_before_only", "AnnulusIsDifference"),
                     ("inner_uncentred", "AnnulusNonNegative")):
        ctx.model_check("Kernels", dict(spec="Spec", invariants=[inv], constants=dict(
            CELLS=core.Raw("{<<1, 1>>, <<2, 1>>, <<1, 2>>}"), RQMAX=10, MUT=mut)), "neg_" + mut,
            expect="violation", workers=2, env=JVM_SMALL)
    inv_d = ["VerdictAgrees", "OddAgrees", "ValueAgrees", "NonPositiveRejected", "RejectIsFinal"]
    alpha = core.Raw("{%s}" % ", ".join('"%s"' % a for a in ALPHA))
    ctx.model_check("DistanceParse", dict(spec="Spec", invariants=inv_d, constants=dict(
        ALPHA=alpha, MAXLEN=ctx.pick(5, 6), MUT="none")), "all_strings", workers=ctx.pick(8, 16), env=JVM)
    for mut, inv in (("accept_zero", "NonPositiveRejected"), ("case_sensitive", "VerdictAgrees"),
                     ("trailing_dot", "VerdictAgrees"), ("digits_in_unit", "RejectIsFinal")):
        ctx.model_check("DistanceParse", dict(spec="Spec", invariants=[inv] if mut != "digits_in_unit"
                                              else ["VerdictAgrees"],
                                              constants=dict(ALPHA=alpha, MAXLEN=4, MUT=mut)),
                        "neg_" + mut, expect="violation", workers=2, env=JVM_SMALL)
    ctx.exhaustive = True

    # ---------------------------------------------------------------- R / T : one fan-out over the real code
    replay_all(ctx, rng)


def replay_all(ctx, rng):
    jobs = (plane_jobs(rng, ctx.tier) + sphere_jobs(rng, ctx.tier) + range_jobs(rng) + kernel_jobs(rng, ctx.tier)
            + cellsize_jobs() + custom_jobs() + parse_jobs(rng, ctx.tier))
    judge_cases(ctx, core.run_jobs("c19_worker", jobs, nproc=16))


def judge_cases(ctx, cases):
    check_worker(cases)
    by = {}
    for c in cases:
        by.setdefault(c["kind"], []).append(c)

    # metrics
    def key_metric(c, cl, extra):
        which = c.get("metric", "sphere")
        at = c["job"].get("argtype")
        narrow = at and at not in ("float", "int", "int64", "float64", "mixed_int")
        return "metric:%s:%s%s" % (which, cl, ":argtype=%s" % at if narrow else ""), "table %s%s" % (
            c["job"].get("tag"), " argtype=%s" % c["job"]["argtype"] if c["job"].get("argtype") else "")
    judge_group(ctx, "Metrics_Judge", by.get("plane", []), ["kind", "metric", "xs", "ys", "obs", "bits"],
                "plane_tables", key_metric, parallel=4)
    for c in by.get("sphere", []):
        if "error" in c:
            ctx.violation("metric:sphere:raised-inside-domain", "valid_rejected",
                          {k: c[k] for k in ("lon", "lat")}, c["error"])
    judge_group(ctx, "Metrics_Judge", by.get("sphere", []),
                ["kind", "lon", "lat", "m", "zero", "bits", "piR", "slack", "ztol", "sc"], "sphere_tables", key_metric, parallel=4)
    judge_group(ctx, "Metrics_Judge", by.get("range", []), ["kind", "cls", "raised", "finite"], "range_table",
                lambda c, cl, e: ("great_circle:%s" % cl, "args (x1,x2,y1,y2)=%s%s" % (
                    c["vals"], " as %s" % c["job"]["argtype"] if c["job"].get("argtype") else "")))
    for c in by.get("plane", []):
        n = len(c["xs"])
        for i, j, k in itertools.combinations(range(n), 3):
            if ((c["xs"][j] - c["xs"][i]) * (c["ys"][k] - c["ys"][i])
                    != (c["ys"][j] - c["ys"][i]) * (c["xs"][k] - c["xs"][i])):
                ctx.nontrivial(("tri", c["metric"], c["scale"], c["xs"][i], c["ys"][i], c["xs"][j], c["ys"][j],
                                c["xs"][k], c["ys"][k]))
    for c in by.get("sphere", []):
        pts = sorted(set(zip(c["lon"], c["lat"])))
        for t in itertools.combinations(pts, 3):
            ctx.nontrivial(("sph",) + t)
    if by.get("sphere"):
        ctx.sample({"kind": "sphere", "points": list(zip(by["sphere"][0]["lon"], by["sphere"][0]["lat"]))[:8],
                    "metres_row0": by["sphere"][0]["m"][0][:8]})

    # kernels
    kc = by.get("circle", []) + by.get("annulus", [])

    def key_kernel(c, cl, extra):
        return "%s_kernel:%s" % (c["kind"], cl), "cx=%s cy=%s r=%s ri=%s how=%s %s" % (
            c["cx"], c["cy"], c["r"], c["ri"], c["how"], c.get("error", ""))
    judge_group(ctx, "Kernels_Judge", kc, ["kind", "cx", "cy", "r", "ri", "kernel", "err"], "kernels", key_kernel,
                parallel=8)
    for c in kc:
        for ax in ("cx", "cy"):
            if (c["r"][0] * c[ax][1]) % (c["r"][1] * c[ax][0]) != 0:
                ctx.nontrivial(("kernel", c["kind"], tuple(c["cx"]), tuple(c["cy"]), tuple(c["r"]), tuple(c["ri"])))
                break
    if len(kc) > 5:
        ctx.sample({"kind": "circle", "cx": kc[5]["cx"], "cy": kc[5]["cy"], "r": kc[5]["r"],
                    "kernel": kc[5]["kernel"]})
    judge_group(ctx, "Kernels_Judge", by.get("cellsize", []),
                ["kind", "mode", "unit", "rx", "ry", "xs", "ys", "sc", "obs", "err"], "cellsize",
                lambda c, cl, e: ("calc_cellsize:%s%s" % (cl, ":unit=%s" % c["unit"] if cl == "valid_rejected" else ""),
                                  "mode=%s unit=%r raw=%s %s" % (c["mode"], c["unit"], c.get("raw"), c.get("error", ""))))
    # custom_kernel validation is not part of the property text: a disagreement is DRIFT, not a violation
    judge_group(ctx, "Kernels_Judge", by.get("custom", []), ["kind", "rows", "cols", "isarray", "raised", "same"],
                "custom_kernel", lambda c, cl, e: ("custom_kernel:%s" % cl, "%s %dx%d" % (
                    c["what"], c["rows"], c["cols"])),
                drift_clauses=("custom_valid_rejected", "custom_not_returned", "custom_invalid_accepted"))

    # distance strings
    def key_parse(c, cl, extra):
        s = c["s"]
        word = "".join(ch for ch in s if ch.isalpha()).lower()
        if cl == "valid_rejected":
            return "distance-parse:valid_rejected:unit=%s" % (word or "none"), "string %r (%s)" % (
                s, c.get("pub_error", ""))
        return "distance-parse:%s" % cl, "string %r -> %s" % (s, c.get("raw"))
    pc = by.get("parse", [])
    judge_group(ctx, "DistanceParse_Judge", pc, ["chars", "pub", "helper", "metres"], "strings", key_parse,
                parallel=4)
    for c in pc:
        if c["pub"] and any(ch.isalpha() or ch == "." for ch in c["s"]):
            ctx.nontrivial(("str", c["s"]))
    if pc:
        ctx.sample({"kind": "parse", "cases": [(c["s"], c["pub"], c.get("raw")) for c in pc[:12]]})
    ctx.extra["strings_replayed"] = len(pc)
    ctx.extra["kernels_replayed"] = len(kc)
    ctx.extra["decimal_cell_pairs_skipped_as_float_division_borderline"] = SKIPPED[0]
    if KNOWN:
        ctx.note("modelled deviation (DistanceOps.IsFloatWord): _get_distance returns NaN/inf for %s; the public "
                 "circle_kernel rejects them, so the property holds" % sorted(set(KNOWN)))
    for key, n in sorted(SEEN.items()):
        if n > 3:
            ctx.note("%s: %d failing cases (3 replay files written)" % (key, n))


def replay(ctx, rec):
    """./check Cxx --replay file : exactly that case through the real code and the specification"""
    saved = rec["case"]
    SEEN.clear()
    judge_cases(ctx, core.run_jobs("c19_worker", [saved.get("job", saved)], nproc=1))


META = {
    "technique": "TLA+ case-analysis models (metric axioms over all lattice triples, ellipse/annulus masks over all "
                 "cell sizes and quarter-step radii, a character-level tokeniser over all short strings) checked "
                 "exhaustively by TLC; the same spaces replayed into the real functions and judged by TLC",
    "level_text": "TLC explores every ordered triple of a 5x5 (thorough 6x6) lattice on Metrics.tla, every (cell size, "
                  "outer, inner) combination on Kernels.tla (code-shaped linspace/pad model = set-of-offsets "
                  "definition) and every string up to 5 (6) characters over a 9-letter alphabet on DistanceParse.tla "
                  "(tokeniser = declarative grammar), each with negative twins. The real euclidean/manhattan/"
                  "great_circle_distance are recorded as distance tables (poles, antimeridian, antipodes) on which TLC "
                  "evaluates symmetry, identity, triangle inequality and d <= pi R; every kernel of the scope, a range-"
                  "validation table, calc_cellsize and a generated string corpus are replayed and judged by TLC.",
    "level_note": "Trusted: TLC; the float bridge (planar distances exact in the scaled lattice, great-circle rounded "
                  "to metres with 2 m slack on the triangle inequality, metres of parsed strings within 1e-9 of a "
                  "rational with denominator <= 125000); the interpretation trunc(radius/cellsize); the published "
                  "unit list as vocabulary. Haversine numerics beyond the recorded tables are not decided.",
}
