"""C03 - zonal tables (stats, crosstab) do not depend on how Dask rasters are chunked.

M  ZonalDask.tla: every small raster x every partition into blocks: per-block partials (NaN for a zone absent
   from a block) combined with nanmax/nanmin/nansum and the derived mean/var formulas = whole-raster table;
   crosstab dictionaries summed key-wise; negative twin: plain nansum (empty zone gets 0 instead of NaN).
R  seeded rasters x independent chunkings of zones and values x stat subsets / selections through the real
   NumPy and Dask backends; ZonalDask_Judge.tla decides table equality (exact ids, counts, min, max; rationals
   by cross-multiplication for sum/mean/var/std^2) and compares the Dask table with the block/combine model.
"""
import itertools
import random

from harness import core

NAN, PINF, NINF, NONE = 99990, 99980, -99980, 99970
SENT = {"nan": NAN, "inf": PINF, "-inf": NINF}


def compositions(n):
    out = []
    for bits in itertools.product([0, 1], repeat=n - 1):
        edges = [0] + [i + 1 for i, b in enumerate(bits) if b] + [n]
        out.append([edges[i + 1] - edges[i] for i in range(len(edges) - 1)])
    return out


def triple(x):
    if x == "nan":
        return [1, 0, 1]
    if x == "inf":
        return [2, 0, 1]
    if x == "-inf":
        return [3, 0, 1]
    if isinstance(x, str):
        return [9, 0, 1]
    if isinstance(x, list):
        return [0, x[0], x[1]]
    return [0, int(x), 1]


def wide_entry(col, x, ref, mean_ref=None):
    """wide-value family: exact integers as decimal strings; mean/var/std compared with the reference by the
    float bridge - equal labels iff close.  Tolerance: 1e-9 relative to the value PLUS, for var and std, 1e-11 of the
    largest intermediate of the documented block-combine formula sum_squares/n - (sum/n)^2, i.e. of mean^2 (a zone of
    values 30000 +- 10 has var ~ 30 computed as a difference of two numbers ~ 9e8: rounding alone moves it by ~ 1e-7)"""
    if x is None:
        return [1, 0, 1, ""]
    if col in ("max", "min", "sum", "count"):
        return [4, 0, 1, repr(int(round(x))) if abs(x - round(x)) <= 1e-6 * max(1.0, abs(x)) else "frac:%r" % x]
    if ref is not None:
        slack = 1e-11 * (mean_ref * mean_ref) if (mean_ref is not None and col in ("var", "std")) else 0.0
        if col == "std":
            ok = abs(x * x - ref * ref) <= 2e-9 * max(1.0, ref * ref) + slack
        else:
            ok = abs(x - ref) <= 1e-9 * max(1.0, abs(ref)) + slack
        if ok:
            return [4, 0, 1, "close_to_numpy"]
    return [4, 0, 1, "value:%r" % x]


def norm_table(t, kind, wide=False, ref=None):
    if t is None:
        return {"columns": [], "rows": []}
    if kind == "stats" and wide:
        cols = list(t["columns"])
        rows = []
        for i, r in enumerate(t["rows"]):
            rr = ref["rows"][i]["raw"] if (ref is not None and i < len(ref["rows"])) else [None] * len(cols)
            cells = []
            # the zone's mean (from the reference row: sum / count when both are there, else the mean column)
            mref = None
            if ref is not None and i < len(ref["rows"]):
                named = dict(zip(cols, rr))
                if named.get("mean") is not None:
                    mref = named["mean"]
                elif named.get("sum") is not None and named.get("count"):
                    mref = named["sum"] / named["count"]
                elif named.get("max") is not None:
                    mref = named["max"]
            for j, c in enumerate(cols):
                x = r["raw"][j]
                if ref is None and c not in ("max", "min", "sum", "count"):
                    cells.append([1, 0, 1, ""] if x is None else [4, 0, 1, "close_to_numpy"])
                else:
                    cells.append(wide_entry(c, x, rr[j], mref if mref is not None else (
                        max(abs(v) for v in rr if v is not None) if any(v is not None for v in rr) else None)))
            rows.append({"zone2": r["zone2"] if isinstance(r["zone2"], int) else -777777, "cells": cells})
        return {"columns": cols, "rows": rows}
    if kind == "stats":
        cols = list(t["columns"])
        rows = [{"zone2": r["zone2"] if isinstance(r["zone2"], int) else -777777,
                 "cells": [triple(r[c]) + [""] for c in cols]} for r in t["rows"]]
        return {"columns": cols, "rows": rows}
    cols = ["c%s" % c for c in t["columns"]]
    rows = [{"zone2": r["zone2"] if isinstance(r["zone2"], int) else -777777,
             "cells": [triple(x) + [""] for x in r["cells"]]} for r in t["rows"]]
    return {"columns": cols, "rows": rows}


def flat(a, scale=1):
    out = []
    for row in a:
        for v in row:
            out.append(SENT[v] if isinstance(v, str) else int(round(v * scale)))
    return out


def block_ids(H, W, rows, cols):
    rid = [i for i, n in enumerate(rows) for _ in range(n)]
    cid = [j for j, n in enumerate(cols) for _ in range(n)]
    return [rid[r] * len(cols) + cid[c] + 1 for r in range(H) for c in range(W)]


def gen_jobs(ctx, rng):
    quick = ctx.tier == "quick"
    jobs = []
    nras = 14 if quick else 35   # thorough: measured 5.5 CPU-h with 70 rasters (every chunking of each)
    for ri in range(nras + 2):
        H, W = rng.choice([(2, 3), (3, 3), (3, 4), (4, 4), (4, 5), (2, 6)])
        # zone alphabets are cycled too; the last one holds -inf / +inf zone cells (never a zone: a block task that
        # maps cells to zones by position instead of by value files them under the first / last zone)
        zalphas = [[1, 2, 3], [1, 2, 3.5, -1], [0, 5, 7, "nan"], [1, 2, "nan", -1.5, 4], [1, 2, "-inf", "inf", 3]]
        zalpha = zalphas[(ri // 2) % len(zalphas)]
        zones = [[rng.choice(zalpha) for _ in range(W)] for _ in range(H)]
        if not any(isinstance(v, (int, float)) for row in zones for v in row):
            zones[0][0] = 1
        # value alphabets are CYCLED (every one appears in the quick tier): mixed signs, NaN/inf, repeated values, and
        # zones whose values are all negative / all zero (a combiner seeded with 0 or a positive sentinel shows there)
        valphas = [[0, 1, 2, 3], [-3, 0, 2, 9, "nan"], [1, 2, 5, "nan", "inf"], [4, 4, 7], [-5, -3, -1, "nan"],
                   [0, -2, 0], [-7, -7, "-inf", -1]]
        valpha = valphas[ri % len(valphas)]
        values = [[rng.choice(valpha) for _ in range(W)] for _ in range(H)]
        zfloat = any(isinstance(v, str) or v != int(v) for row in zones for v in row)
        vfloat = any(isinstance(v, str) for row in values for v in row)
        zdtype = "float64" if zfloat else rng.choice(["int32", "float64", "int64"])
        vdtype = "float64" if vfloat else rng.choice(["int32", "float64", "float32"])
        present = sorted({v for row in zones for v in row if not isinstance(v, str)})
        nodata = rng.choice([None, None, 0, 2, 3])
        if ri >= nras:
            # two extra rasters, always: nodata_values = 0 with zero cells inside the zones (a falsy-guard `if nodata:`
            # on one backend shows only there).  Appended after the seeded rasters so that their streams are unchanged.
            nodata = 0
            values = [[rng.choice([0, 0, 1, 2, 3]) for _ in range(W)] for _ in range(H)]
            values[0][0] = 0
            vfloat = False
            vdtype = ["int32", "float64"][ri - nras]
        zlayout = rng.choice(["C", "C", "F", "T", "S", "R"])
        vlayout = rng.choice(["C", "C", "F", "T", "S", "R"])
        rowsC, colsC = compositions(H), compositions(W)
        allc = [(r, c) for r in rowsC for c in colsC]

        def chunkings(n, independent):
            out = []
            sel = allc if (not quick and len(allc) <= 64) else rng.sample(allc, min(n, len(allc)))
            for (r, c) in sel + [([1] * H, [1] * W), ([H], [W])]:
                if independent and rng.random() < 0.6:
                    r2, c2 = rng.choice(allc)
                else:
                    r2, c2 = r, c
                u = rng.random()
                out.append({"z": [r, c], "v": [r2, c2], "sched": "threads" if u < 0.25 else "synchronous",
                            "nw": rng.choice([2, 4, 16])})
            return out
        # stats
        allstats = ["mean", "max", "min", "sum", "std", "var", "count"]
        for _k in range(2 if quick else 3):
            st = allstats if rng.random() < 0.4 else rng.sample(allstats, rng.randrange(1, 7))
            if vdtype == "float32":
                # single-precision means/variances cannot be mapped to a unique rational: exact statistics only
                st = [x for x in st if x in ("max", "min", "sum", "count")] or ["sum", "count"]
            zid = None
            if rng.random() < 0.5:
                zid = rng.sample(present, rng.randrange(1, len(present) + 1)) + ([42] if rng.random() < 0.3 else [])
                rng.shuffle(zid)
            jobs.append({"kind": "stats", "zones": zones, "values": values, "nodata": nodata, "zone_ids": zid,
                         "stats": st, "zdtype": zdtype, "vdtype": vdtype, "H": H, "W": W, "zlayout": zlayout, "vlayout": vlayout,
                         "chunkings": chunkings(5, True)})
        # crosstab 2-D
        cats = sorted({v for row in values for v in row if not isinstance(v, str) and v != nodata})
        # 2-D crosstab: always (count, random selection), (percentage, a PROPER subset of the categories - the
        # denominator must stay the zone's total valid cells), (percentage, everything, zone subset)
        variants = [("count", "random"), ("percentage", "proper"), ("percentage", "all")]
        if not quick:
            variants += [("count", "proper"), ("percentage", "random")]
        for agg, mode in variants:
            zid = None
            cid = None
            if rng.random() < 0.4:
                zid = sorted(rng.sample(present, rng.randrange(1, len(present) + 1)))
            if mode == "random" and rng.random() < 0.4 and cats:
                cid = sorted(rng.sample(cats, rng.randrange(1, len(cats) + 1)))
            elif mode == "proper" and len(cats) >= 2:
                cid = sorted(rng.sample(cats, rng.randrange(1, len(cats))))
                if rng.random() < 0.5:
                    cid = cid[::-1]
            jobs.append({"kind": "crosstab", "zones": zones, "values": values, "nodata": nodata, "zone_ids": zid,
                         "cat_ids": cid, "agg": agg, "zdtype": zdtype, "zlayout": zlayout, "vlayout": vlayout,
                         "vdtype": vdtype, "H": H, "W": W, "chunkings": chunkings(3, True)})
        # crosstab 3-D (Dask supports agg='count' only)
        L = rng.choice([2, 3])
        vals3 = [[[rng.choice(valpha) for _ in range(W)] for _ in range(H)] for _ in range(L)]
        ch3 = []
        for c in chunkings(3, True):
            c = dict(c)
            c["v"] = c["v"] + [rng.choice(compositions(L))]
            ch3.append(c)
        jobs.append({"kind": "crosstab", "zones": zones, "values": vals3, "nodata": nodata, "zone_ids": None,
                     "cat_ids": None, "agg": "count", "zdtype": zdtype, "vdtype": "float64" if vfloat else vdtype,
                     "H": H, "W": W, "layer_ids": list(range(L)), "chunkings": ch3})
    # wide-value family: integer rasters whose values use most of their dtype's range (squares and sums of squares
    # do not fit the input dtype) and large floats; exact statistics compared exactly, mean/var/std by the float
    # bridge (1e-9 relative to the NumPy backend's value)
    for (dt, lo, hi) in [("int8", -100, 100), ("uint8", 100, 250), ("int16", 200, 3000), ("uint16", 30000, 60000),
                         ("int32", 50000, 60000), ("int64", 10 ** 6, 3 * 10 ** 6), ("float64", 10 ** 5, 10 ** 6),
                         # large offset, small spread: std below 1e-3 of the mean (a combiner that treats the two
                         # terms of sum_squares - sum^2/n as "close" zeroes the variance there)
                         ("int32", 500, 504), ("float64", 30000, 30021)]:
        H, W = rng.choice([(4, 6), (6, 6), (5, 8)])
        zones = [[rng.choice([1, 2, 3]) for _ in range(W)] for _ in range(H)]
        values = [[rng.randrange(lo, hi) for _ in range(W)] for _ in range(H)]
        allc = [(r, c) for r in compositions(H)[:: 5] for c in compositions(W)[:: 7]]
        chs = [{"z": [r, c], "v": [r, c], "sched": "synchronous", "nw": 1} for (r, c) in rng.sample(allc, 3)]
        chs.append({"z": [[H], [W]], "v": [[H], [W]], "sched": "synchronous", "nw": 1})
        jobs.append({"kind": "stats", "zones": zones, "values": values, "nodata": None, "zone_ids": None,
                     "stats": ["mean", "max", "min", "sum", "std", "var", "count"], "zdtype": "int32", "vdtype": dt,
                     "H": H, "W": W, "wide": True, "chunkings": chs})
    return jobs


def classify(job, case, clause):
    """stable key of the failing class (for known_findings.json), by a predicate on the case"""
    three_d = isinstance(job["values"][0][0], list)
    if job.get("wide") and job["vdtype"] != "float64" and clause in ("entry_differs_std", "entry_differs_var"):
        return "stats-dask:sum-of-squares-overflows-integer-dtype"
    if job["kind"] == "crosstab" and not three_d and case["z"] != case["v"]:
        return "crosstab-dask:2d-zones-values-chunked-differently"
    if job["kind"] == "stats" and clause in ("entry_differs_sum", "entry_differs_count"):
        # is there a selected zone without any valid cell?
        zs = {}
        for zr, vr in zip(job["zones"], job["values"]):
            for z, v in zip(zr, vr):
                if isinstance(z, str):
                    continue
                ok = not isinstance(v, str) and v != job["nodata"]
                zs[z] = zs.get(z, False) or ok
        if any(not ok for ok in zs.values()):
            return "stats-dask:empty-zone-sum-count-zero"
    return "%s-dask:%s" % (job["kind"], clause)


def run(ctx):
    ctx.rule = ("case = (zones, values, parameters, chunking of zones, chunking of values); non-trivial when some zone "
                "is split over >= 2 blocks and the raster holds an invalid (NaN/inf/nodata) value; distinct by full case")
    ctx.assumptions = [
        "values are small integers (+NaN/inf), zone ids multiples of 1/2: every statistic is an exact integer or "
        "rational; floats are mapped to rationals with limit_denominator (1e-9 relative), std compared as std^2",
        "domain: at least one requested zone exists; +-inf zone cells are left to C02",
        "3-D crosstab on Dask: agg='count' only (the only aggregate the library accepts there)",
    ]
    rng = random.Random(ctx.seed * 32452843 + 3)
    quick = ctx.tier == "quick"
    # ---- M
    ZV = core.Raw("{1, 3, NAN}")
    VV = core.Raw("{0-1, 2, NAN}")
    inv = ["MergedIsWhole", "CrosstabMerged"]
    ctx.model_check("ZonalDask", dict(spec="Spec", invariants=inv, constants=dict(
        N=4, ZV=ZV, VV=VV, NB=(2 if quick else 4), NODATA=2, SUMRULE="nan_if_empty")), "n4")
    ctx.model_check("ZonalDask", dict(spec="Spec", invariants=inv, constants=dict(
        N=3, ZV=core.Raw("{1, 3, NAN, NINF}"), VV=core.Raw("{0-1, 2, NAN, PINF}"), NB=3, NODATA=NONE,
        SUMRULE="nan_if_empty")), "n3_inf")
    ctx.model_check("ZonalDask", dict(spec="Spec", invariants=inv, constants=dict(
        N=4, ZV=ZV, VV=VV, NB=2, NODATA=2, SUMRULE="nansum_zero")), "neg_plain_nansum", expect="violation")
    if not quick:
        ctx.model_check("ZonalDask", dict(spec="Spec", invariants=inv, constants=dict(
            N=5, ZV=ZV, VV=VV, NB=2, NODATA=2, SUMRULE="nan_if_empty")), "n5_b2", timeout=7200)
        ctx.model_check("ZonalDask", dict(spec="Spec", invariants=inv, constants=dict(
            N=4, ZV=core.Raw("{1, 3, NAN, NINF}"), VV=core.Raw("{0-1, 2, NAN, PINF}"), NB=4, NODATA=NONE,
            SUMRULE="nan_if_empty")), "n4_b4_inf", timeout=7200)
    ctx.exhaustive = True

    # ---- R
    execute(ctx, gen_jobs(ctx, rng))


def replay(ctx, rec):
    job = dict(rec["case"]["job"])
    ch = rec["case"]["chunking"]
    job["chunkings"] = [{k: ch[k] for k in ("z", "v", "sched", "nw")}]
    execute(ctx, [job])


def execute(ctx, jobs):
    res = core.run_jobs("zonal_dask_worker", jobs, nproc=16, timeout=7200)
    cases, back = [], []
    for job, r in zip(jobs, res):
        if r["np_error"]:
            ctx.note("numpy backend raised (left to C02/C04, skipped here): %s" % r["np_error"][:150])
            continue
        three_d = isinstance(job["values"][0][0], list)
        wide = bool(job.get("wide"))
        npt = norm_table(r["np"], job["kind"], wide)
        for c in r["cases"]:
            cases.append({"kind": job["kind"], "error": c["error"], "lazy": c["lazy"],
                          "np": npt, "dk": norm_table(c["table"], job["kind"], wide, r["np"]),
                          "zones": flat(job["zones"], 2), "values": [] if (three_d or wide) else flat(job["values"]),
                          "nodata": NONE if job["nodata"] is None else job["nodata"],
                          "blk": block_ids(job["H"], job["W"], c["z"][0], c["z"][1]),
                          "model": 0 if (three_d or wide) else 1})
            back.append((job, c))
    v = ctx.judge("ZonalDask_Judge", cases, name="dask_vs_numpy_tables", parallel=6)
    for i, (job, c) in enumerate(back):
        ctx.evaluations += 1
        cl = v.get(i, "missing")
        multi = len(c["z"][0]) > 1 or len(c["z"][1]) > 1
        inval = any(isinstance(x, str) or x == job["nodata"] for row in
                    (job["values"] if not isinstance(job["values"][0][0], list) else job["values"][0]) for x in row)
        if multi and inval:
            ctx.nontrivial((job["kind"], str(job["zones"]), str(job["values"]), str(job.get("zone_ids")),
                            str(job.get("stats")), str(job.get("cat_ids")), job.get("agg"), str(c["z"]), str(c["v"])))
        if cl != "ok":
            ctx.violation(classify(job, c, cl), cl, {"job": {k: job[k] for k in job if k != "chunkings"}, "chunking": c,
                                                   "np": cases[i]["np"], "dk": cases[i]["dk"]},
                          "%s %dx%d z=%s v=%s %s" % (job["kind"], job["H"], job["W"], c["z"], c["v"], c["error"][:100]))
        dr = ctx.judge_extra.get(i) or ""
        if dr.startswith("drift"):
            ctx.report_drift("%s %s z=%s" % (dr, job["kind"], c["z"]))
    for job, c in back[:: max(1, len(back) // 4)][:4]:
        ctx.sample({"kind": job["kind"], "zones": job["zones"], "values": job["values"] if not isinstance(
            job["values"][0][0], list) else "3-D", "nodata": job["nodata"], "zone_ids": job.get("zone_ids"),
            "stats": job.get("stats"), "z_chunks": c["z"], "v_chunks": c["v"]})


META = {
    "technique": "TLA+ model of per-block partial aggregates and their combiners checked by TLC over all small rasters "
                 "x block partitions; real NumPy vs Dask tables over independent chunkings judged by TLC",
    "level_text": "ZonalDask.tla is model-checked over every raster of <= 4-5 cells on small alphabets x every partition "
                  "into blocks (combined partials = whole-raster table, for stats and crosstab; plain nansum rejected). "
                  "The real zonal.stats / crosstab are run on seeded rasters with zones and values chunked "
                  "independently, stat subsets and id selections; ZonalDask_Judge.tla decides exact table equality "
                  "with the NumPy backend and compares the Dask table with the block/combine model.",
    "level_note": "Trusted: TLC; the rational float bridge (limit_denominator, 1e-9); small-integer value domain so all "
                  "statistics are exact; schedulers synchronous and threads x {2,4,16} sampled.",
}
