"""C05 - viewshed marks a cell visible exactly when the line-of-sight model says so (CPU path).

Three layers (DESIGN section 5, C05):
 1 status structure  M  StatusTree.tla: TLC explores EVERY insert/delete sequence over a small key set on a
                        transliteration of the real red-black tree (TreeOps.tla); invariants: refines the
                        abstract ordered map, stored maxima never too high, the two-phase query answers the
                        abstract query for every (key, angle, gradient); negative twins.
                     R  the compiled helpers are driven directly along exhaustive and TLC-simulated operation
                        sequences; StatusTree_Trace.tla validates every dump (and compares it with the
                        transliterated step).  Helper-level failures are DRIFT (soundness rule 5).
 2 sweep geometry    M  ViewGeom.tla: every raster shape and observer: corner table = geometric extremes,
                        active set at every CENTER event = cells spanning the bearing, no equal keys together.
                     R  _calc_event_pos, _calculate_event_row_col, _init_event_list + lexsort against ViewOps.
 3 the property      T  public viewshed() on seeded terrains, every observer cell; ViewLOS_Judge.tla decides
                        the visibility of every cell (float comparison "n's interpolated gradient > c's own"
                        from the bridge in view_worker.py, borderline band 1e-9 admits both outcomes).
                        In interpreted mode the sweep's tree operations are recorded too: their stream must
                        equal ViewGeom's and every dump / query is validated by StatusTree_Trace (rank-encoded).
"""
import itertools
import json
import random
import re

from harness import core

ANGS = [(0, 2, 4), (-4, 0, 4), (0, 4, 8), (-1, 1, 5)]      # angle profiles: differences are powers of two
GVALS = [0, 2, 4, 6]
TREE_DRIFT_CLAUSES = ("tree_is_not_a_search_tree_of_the_entries", "nil_sentinel_damaged", "stored_max_too_high")


# --------------------------------------------------------------------------- layer 1 helpers
def queries(rng, present, k=2):
    out = []
    for key in sorted(present):
        for _ in range(k):
            out.append([key, rng.randrange(0, 5), rng.randrange(-1, 8)])
    return out


def perm_jobs(rng, K, limit=None):
    """every insertion order of K keys followed by every deletion order (optionally a seeded sample)"""
    perms = list(itertools.permutations(range(1, K + 1)))
    pairs = [(a, b) for a in perms for b in perms]
    if limit and len(pairs) > limit:
        pairs = rng.sample(pairs, limit)
    jobs = []
    for ins, dele in pairs:
        prof = {k: ([rng.choice(GVALS) for _ in range(3)], rng.choice(ANGS)) for k in ins}
        present = set()
        ops = []
        for k in ins:
            present.add(k)
            ops.append(["I", k] + prof[k][0] + list(prof[k][1]) + [queries(rng, present)])
        for k in dele:
            present.discard(k)
            ops.append(["D", k, queries(rng, present)])
        jobs.append({"n": K + 3, "ops": ops, "tag": "perm%d" % K})
    return jobs


def sim_jobs(ctx, rng, num, depth, nkeys):
    files = ctx.simulate("StatusTree_Gen", dict(spec="Spec", constants=dict(
        NKEYS=nkeys, GVALS=core.Raw("{0, 2, 4, 6}"), NPROF=len(ANGS))), "tree_gen", num, depth)
    jobs = []
    for fn in files:
        txt = open(fn).read()
        present = set()
        ops = []
        for m in re.finditer(r"op = <<([-0-9, ]+)>>", txt):
            code, k, g0, g1, g2, pr = [int(x) for x in m.group(1).split(",")]
            if code == 1:
                present.add(k)
                ops.append(["I", k, g0, g1, g2] + list(ANGS[pr - 1]) + [queries(rng, present)])
            elif code == 2:
                present.discard(k)
                ops.append(["D", k, queries(rng, present)])
        if ops:
            jobs.append({"n": nkeys + 3, "ops": ops, "tag": "simulate"})
    return jobs


def strip_tree(c):
    return {"n": c["n"], "mode": c["mode"], "events": c["events"]}


def tree_replay(ctx, jobs, cases, name):
    for c in cases:
        if "error" in c:
            raise core.MachineryError("tree helper raised on a generated sequence: %s" % c["error"])
    v = ctx.judge("StatusTree_Trace", [strip_tree(c) for c in cases], name=name, stateful=True,
                  workers=2, parallel=8)
    for i, c in enumerate(cases):
        ctx.evaluations += 1
        cl = v.get(i, "missing")
        ex = ctx.judge_extra.get(i) or ""
        if cl != "ok":
            # helper-level sequence that no sweep is known to produce: DRIFT (soundness rule 5)
            ctx.report_drift("tree %s %s on direct-drive sequence %s (saved ops: %s)"
                             % (cl, ex, c.get("tag"), json.dumps(jobs[i]["ops"])[:400]))
        elif ex.startswith("drift"):
            ctx.report_drift("tree step model vs compiled helpers: %s on %s sequence" % (ex, c.get("tag")))
    return cases


# --------------------------------------------------------------------------- layer 3 helpers
def terrain(rng, H, W):
    kind = rng.choice(["random", "random", "plateau", "wall", "flat", "ramp", "quarter", "bowl", "spikes"])
    if kind == "random":
        t = [[rng.choice([0, 0, 1, 2, 3, 5]) for _ in range(W)] for _ in range(H)]
    elif kind == "plateau":
        t = [[0] * W for _ in range(H)]
        for _ in range(rng.randrange(1, 4)):
            r0, c0 = rng.randrange(H), rng.randrange(W)
            r1, c1 = min(H, r0 + rng.randrange(1, 4)), min(W, c0 + rng.randrange(1, 4))
            v = rng.choice([1, 2, 2, 4])
            for r in range(r0, r1):
                for c in range(c0, c1):
                    t[r][c] = v
    elif kind == "wall":
        t = [[rng.choice([0, 0, 1]) for _ in range(W)] for _ in range(H)]
        if rng.random() < 0.5:
            r = rng.randrange(H)
            for c in range(W):
                if rng.random() < 0.85:
                    t[r][c] = rng.choice([3, 4, 6])
        else:
            c = rng.randrange(W)
            for r in range(H):
                if rng.random() < 0.85:
                    t[r][c] = rng.choice([3, 4, 6])
    elif kind == "flat":
        v = rng.choice([0, 2, -3])
        t = [[v] * W for _ in range(H)]
    elif kind == "ramp":
        a, b = rng.choice([(1, 0), (0, 1), (1, 1), (2, -1)])
        t = [[a * r + b * c for c in range(W)] for r in range(H)]
    elif kind == "quarter":
        t = [[rng.randrange(-8, 17) / 4.0 for _ in range(W)] for _ in range(H)]
    elif kind == "bowl":
        cr, cc = rng.randrange(H), rng.randrange(W)
        t = [[max(abs(r - cr), abs(c - cc)) * rng.choice([1, 1, 2]) for c in range(W)] for r in range(H)]
    else:
        t = [[0] * W for _ in range(H)]
        for _ in range(rng.randrange(1, 6)):
            t[rng.randrange(H)][rng.randrange(W)] = rng.choice([1, 2, 3, 5, -2])
    return kind, t


def los_job(rng, H, W, terr, vr, vc, cell, obs, tgt, steps, tag, dtypes=None):
    ew, ns = cell
    x0, y0 = rng.choice([0, 10, -7]), rng.choice([0, 50, -3])
    xs = [x0 + ew * c for c in range(W)]
    ys = [y0 + ns * r for r in range(H)]
    if rng.random() < 0.6:
        ys = [y0 - ns * r for r in range(H)]          # the usual descending y
    if rng.random() < 0.1:
        xs = [x0 - ew * c for c in range(W)]
    ox, oy = float(xs[vc]), float(ys[vr])
    if rng.random() < 0.3:                             # observer coordinates off the cell centre (nearest cell)
        ox = min(max(ox + rng.choice([-0.3, 0.3]) * ew, min(xs)), max(xs))
        oy = min(max(oy + rng.choice([-0.3, 0.3]) * ns, min(ys)), max(ys))
    integral = all(float(v).is_integer() for row in terr for v in row)
    if dtypes:
        dtype = rng.choice(dtypes)
    else:
        dtype = rng.choice(["float64", "float64", "float32", "int64", "int32"]) if integral \
            else rng.choice(["float64", "float32"])
    return {"kind": "los", "H": H, "W": W, "terrain": terr, "xs": xs, "ys": ys, "ox": ox, "oy": oy,
            "obs": obs, "tgt": tgt, "dtype": dtype, "vr": vr, "vc": vc, "ew": ew, "ns": ns,
            "steps": steps, "tag": tag}


OBS = [-1, 0, 1, 2.5]
TGT = [0, 1]
CELLS = [(1, 1), (2, 1), (1, 3)]
SIZES = [(2, 2), (2, 5), (3, 3), (4, 5), (5, 5), (6, 4), (5, 7), (7, 7), (3, 7)]


def los_jobs(rng, nterr, steps, every_observer=True, sizes=SIZES):
    jobs = []
    for i in range(nterr):
        H, W = rng.choice(sizes)
        kind, terr = terrain(rng, H, W)
        observers = [(r, c) for r in range(H) for c in range(W)]
        if not every_observer:
            observers = rng.sample(observers, min(len(observers), 4))
        for (vr, vc) in observers:
            jobs.append(los_job(rng, H, W, terr, vr, vc, rng.choice(CELLS), rng.choice(OBS), rng.choice(TGT),
                                steps, kind))
    return jobs


# ---- heights that are not exactly representable in single precision / beyond 2**24 (float64 and int64 rasters:
# the function works in float64 throughout, so every elevation must keep its full double value)
ODD_HEIGHTS = [0.1, 1.0 / 3.0, 1e-3, 2500.0001, -7.3, 123456.789]
BIG_BASES = [2 ** 24, 2 ** 31, 10 ** 9]


def precision_terrain(rng, H, W):
    kind = rng.choice(["odd_plain", "odd_plateau", "odd_plateau", "bigbase", "bigbase", "tenths", "thirds"])
    if kind == "odd_plain":                       # everything at one non-dyadic height: all visible at exactly 90
        h = rng.choice(ODD_HEIGHTS)
        t = [[h] * W for _ in range(H)]
    elif kind == "odd_plateau":                   # an eye-level plain at a non-dyadic height with a few blocks on it
        h = rng.choice(ODD_HEIGHTS)
        t = [[h] * W for _ in range(H)]
        for _ in range(rng.randrange(1, 3)):
            r0, c0 = rng.randrange(H), rng.randrange(W)
            step = rng.choice([0.1, 1.0 / 3.0, 1.0, 2.0, -0.7])
            for r in range(r0, min(H, r0 + rng.randrange(1, 3))):
                for c in range(c0, min(W, c0 + rng.randrange(1, 3))):
                    t[r][c] = h + step
    elif kind == "bigbase":                       # small integer relief on a base beyond single precision
        b = rng.choice(BIG_BASES)
        t = [[b + rng.choice([0, 0, 0, 1, 3, 1, 5]) for _ in range(W)] for _ in range(H)]
    elif kind == "tenths":
        t = [[rng.randrange(0, 31) * 0.1 for _ in range(W)] for _ in range(H)]
    else:
        t = [[rng.randrange(0, 31) / 3.0 for _ in range(W)] for _ in range(H)]
    return kind, t


def precision_jobs(rng, nterr, steps, per=5):
    jobs = []
    for i in range(nterr):
        H, W = rng.choice([(3, 3), (4, 5), (5, 5), (5, 7), (7, 7)])
        kind, terr = precision_terrain(rng, H, W)
        observers = rng.sample([(r, c) for r in range(H) for c in range(W)], min(per, H * W))
        for (vr, vc) in observers:
            dt = ["float64", "float64", "int64"] if kind == "bigbase" else ["float64"]
            obs = rng.choice([0, 0, 0, 1, 2.5, -1])
            jobs.append(los_job(rng, H, W, terr, vr, vc, rng.choice(CELLS), obs, rng.choice(TGT), steps, kind,
                                dtypes=dt))
    return jobs


# ---- input variation: memory layouts, dtypes, coordinate conventions, argument types, boundary parameters,
# degenerate shapes, extreme relief, repeated calls
LAYOUTS = ["C", "F", "T", "S", "R"]
DTYPES = ["int8", "uint8", "int16", "int32", "int64", "uint16", "float32", "float64"]
DRANGE = {"int8": (-128, 127), "uint8": (0, 255), "int16": (-32768, 32767), "uint16": (0, 65535),
          "int32": (-2 ** 31, 2 ** 31 - 1), "int64": (-2 ** 63, 2 ** 63 - 1)}
VCELLS = [(1, 1, 1), (2, 1, 1), (1, 3, 1), (1, 3, 2), (30, 10, 1)]     # (ew, ns, cscale): true size = ew/cs x ns/cs
VSHAPES = [(2, 2), (2, 5), (5, 2), (3, 3), (2, 7), (7, 2), (4, 5), (5, 5), (3, 6)]


def special_observers(H, W):
    rs = sorted({0, (H - 1) // 2, H - 1})
    cs = sorted({0, (W - 1) // 2, W - 1})
    return [(r, c) for r in rs for c in cs if r in (0, H - 1) or c in (0, W - 1)]   # corners + edge midpoints


def variation_terrain(rng, H, W, dtype):
    lo, hi = DRANGE.get(dtype, (-10 ** 9, 10 ** 9))
    kind = rng.choice(["relief", "relief", "flat", "limits", "spike"])
    if kind == "relief" or (kind == "spike" and hi < 10 ** 6):
        vals = [0, 0, 1, 2, 3, 5, 9] + ([-1, -4] if lo < 0 else [])
        t = [[rng.choice(vals) for _ in range(W)] for _ in range(H)]
        kind = "v_relief"
    elif kind == "flat":
        v = rng.choice([0, 3] + ([-2] if lo < 0 else []))
        t = [[v] * W for _ in range(H)]
        kind = "v_flat"
    elif kind == "limits":                       # values at the ends of the dtype's range (narrow ints)
        if dtype.startswith("float") or dtype in ("int32", "int64"):
            ends = [-1000, 1000]
        else:
            ends = [lo, hi]
        t = [[rng.choice([ends[0], ends[1], ends[1], ends[1] - 1, ends[0] + 1]) for _ in range(W)] for _ in range(H)]
        kind = "v_limits"
    else:                                        # a single spike of 1e6 on a plain
        t = [[0] * W for _ in range(H)]
        t[rng.randrange(H)][rng.randrange(W)] = 10 ** 6
        kind = "v_spike"
    if dtype == "float64" and rng.random() < 0.3 and kind == "v_relief":
        t = [[v + rng.choice([0, 0.1, 0.25]) for v in row] for row in t]
    if dtype == "float32" and rng.random() < 0.3 and kind == "v_relief":
        t = [[v + rng.choice([0, 0.25, 0.5]) for v in row] for row in t]
    return kind, t


def variation_jobs(rng, n, steps):
    jobs = []
    for i in range(n):
        H, W = rng.choice(VSHAPES)
        dtype = DTYPES[i % len(DTYPES)]
        kind, terr = variation_terrain(rng, H, W, dtype)
        spec = special_observers(H, W)
        vr, vc = spec[i % len(spec)] if rng.random() < 0.8 else (rng.randrange(H), rng.randrange(W))
        ew, ns, cs = rng.choice(VCELLS)
        x0 = rng.choice([0, 10, -7, 100.25, -3.5])
        y0 = rng.choice([0, 50, -3, 7.75])
        sx = -1 if rng.random() < 0.3 else 1
        sy = -1 if rng.random() < 0.5 else 1
        xs = [x0 + sx * (ew / cs) * c for c in range(W)]
        ys = [y0 + sy * (ns / cs) * r for r in range(H)]
        ox, oy = xs[vc], ys[vr]                                  # exactly on the cell centre
        integral = float(ox).is_integer() and float(oy).is_integer()
        oxtype = rng.choice(["float", "npfloat"] + (["int", "npint"] if integral else []))
        # observer_elev / target_elev as the Python ints or floats a caller would write
        obs = rng.choice([0, -1, 1, 0.1, 10 ** 6, 1e6, -1.0, 1.0])
        if dtype == "float32" and obs == 0.1:
            obs = 2.5                                            # keep the eye height exact in single precision
        tgt = rng.choice([0, 0.1, 5, 5.0])
        if dtype == "float32" and tgt == 0.1:
            tgt = 0.5
        jobs.append({"kind": "los", "H": H, "W": W, "terrain": terr, "xs": xs, "ys": ys, "ox": ox, "oy": oy,
                     "obs": obs, "tgt": tgt, "dtype": dtype, "vr": vr, "vc": vc, "ew": ew, "ns": ns, "cscale": cs,
                     "layout": LAYOUTS[(i // len(DTYPES)) % len(LAYOUTS)], "oxtype": oxtype,
                     "repeat": rng.random() < 0.5, "steps": steps, "tag": kind})
    return jobs


def narrow_edge_jobs(rng, steps):
    """observer standing on a cell at the end of a narrow integer dtype's range, observer_elev = +-1 given as a
    Python int (the eye height must not wrap) and, as a control, as a float"""
    jobs = []
    for dtype, at, obs in (("int8", 127, 1), ("uint8", 255, 1), ("int16", 32767, 1), ("uint16", 65535, 1),
                           ("int8", -128, -1), ("int16", -32768, -1)):
        for o in (obs, float(obs)):
            H, W = rng.choice([(3, 3), (3, 4), (4, 4)])
            lo, hi = DRANGE[dtype]
            base = at - 6 if at > 0 else at + 6
            terr = [[base + rng.choice([0, 1, 2, 4]) for _ in range(W)] for _ in range(H)]
            vr, vc = rng.randrange(H), rng.randrange(W)
            terr[vr][vc] = at
            xs = [float(c) for c in range(W)]
            ys = [float(H - 1 - r) for r in range(H)]
            jobs.append({"kind": "los", "H": H, "W": W, "terrain": terr, "xs": xs, "ys": ys, "ox": xs[vc],
                         "oy": ys[vr], "obs": o, "tgt": 0, "dtype": dtype, "vr": vr, "vc": vc, "ew": 1, "ns": 1,
                         "cscale": 1, "layout": "C", "oxtype": "float", "repeat": False, "steps": steps,
                         "tag": "v_narrow_edge"})
    return jobs


MAX_PER_KEY = 8


def viol(ctx, key, clause, case, what=""):
    """ctx.violation with a per-key cap (core prints only the first 20 and saves the first 40 replay files: one
    noisy class must not hide another); every hit is counted in evidence (violation_keys)"""
    vk = ctx.extra.setdefault("violation_keys", {})
    vk[key] = vk.get(key, 0) + 1
    if vk[key] <= MAX_PER_KEY:
        ctx.violation(key, clause, case, what)


def narrow_int_class(j):
    """the eye height raster.values[y, x] + observer_elev is formed in the raster's (narrow) integer dtype when
    observer_elev is a Python int: returns "raise" (NumPy refuses the int), "wrap" (the sum leaves the range) or None"""
    dt, obs = j.get("dtype", "float64"), j["obs"]
    if dt not in DRANGE or not isinstance(obs, int) or isinstance(obs, bool):
        return None
    lo, hi = DRANGE[dt]
    if not lo <= obs <= hi:
        return "raise"
    v = int(j["terrain"][j["vr"]][j["vc"]])
    return None if lo <= v + obs <= hi else "wrap"


BIG_SIZES = [(9, 9), (11, 11), (13, 13), (9, 13)]


def big_terrain(rng, H, W):
    kind = rng.choice(["bigspikes", "bigspikes", "bigcone", "bigrough", "bigrandom"])
    if kind == "bigspikes":
        t = [[0] * W for _ in range(H)]
        for _ in range(rng.randrange(3, H * W // 3)):
            t[rng.randrange(H)][rng.randrange(W)] = rng.choice([1, 2, 3, 5, 8])
    elif kind == "bigcone":
        cr, cc = rng.randrange(H), rng.randrange(W)
        t = [[-(abs(r - cr) + abs(c - cc)) + rng.choice([0, 0, 0, 3, 6]) for c in range(W)] for r in range(H)]
    elif kind == "bigrough":
        t = [[rng.randrange(0, 12) for _ in range(W)] for _ in range(H)]
    else:
        t = [[rng.choice([0, 0, 1, 2, 3, 5]) for _ in range(W)] for _ in range(H)]
    return kind, t


def big_jobs(rng, nterr, sizes=BIG_SIZES):
    """larger rasters: the status structure holds 15-40 cells, deletions of inner two-child nodes and
    rotations with non-trivial subtrees happen in every sweep (stale maxima two or more levels up only
    reach the output on such trees)"""
    jobs = []
    for i in range(nterr):
        H, W = rng.choice(sizes)
        kind, terr = big_terrain(rng, H, W)
        for _ in range(2):
            vr, vc = rng.randrange(H), rng.randrange(W)
            cell = rng.choice([(1, 1), (1, 1), (1, 1), (2, 1), (1, 3)])
            jobs.append(los_job(rng, H, W, terr, vr, vc, cell, rng.choice([0, 1, 2.5, 5]), rng.choice(TGT),
                                False, kind))
    return jobs


def strip_los(c):
    d = {k: c[k] for k in ("H", "W", "vr", "vc", "ew", "ns", "cells", "blocks", "svr", "svc", "sew", "sns",
                           "order", "ops")}
    d["rep"] = c.get("rep", 1)
    return d


def los_key(clause, case):
    k = narrow_int_class(case["job"])
    if k == "wrap":
        return "viewshed:eye-height-wraps-in-narrow-int-dtype"
    return "viewshed:%s" % clause


def handle_los(ctx, cases, mode):
    ok = [c for c in cases if "error" not in c]
    for c in cases:
        if "error" in c:
            ctx.evaluations += 1
            k = narrow_int_class(c["job"])
            key = "viewshed:int-observer-elev-raises-on-narrow-int-raster" if k == "raise" and \
                "OverflowError" in c["error"] else "viewshed:call-raised"
            viol(ctx, key, "call_raised", c["job"], "%s dtype=%s observer_elev=%r: %s"
                          % (c["job"].get("tag"), c["job"].get("dtype"), c["job"]["obs"], c["error"]))
    v = ctx.judge("ViewLOS_Judge", [strip_los(c) for c in ok], name="los_" + mode, stateful=True, workers=6,
                  parallel=8)
    leaned = 0
    for i, c in enumerate(ok):
        ctx.evaluations += 1
        cl = v.get(i, "missing")
        ex = (ctx.judge_extra.get(i) or "|0").split("|")
        nl = int(ex[1]) if len(ex) > 1 and ex[1].isdigit() else 0
        leaned += nl
        c["_clause"], c["_leaned"] = cl, nl
        if nl:
            bk = ctx.extra.setdefault("borderline_cells_by_terrain_kind", {})
            bk[c["job"]["tag"]] = bk.get(c["job"]["tag"], 0) + nl
        nvis = sum(1 for row in c["cells"] for o in row if o["neg1"] == 0) - 1
        ninv = sum(1 for row in c["cells"] for o in row if o["neg1"] == 1)
        if nvis >= 1 and ninv >= 1:
            j = c["job"]
            ctx.nontrivial(json.dumps([j["terrain"], j["vr"], j["vc"], j["obs"], j["tgt"], j["ew"], j["ns"]]))
        if cl == "judge_tables_inconsistent":
            raise core.MachineryError("ViewLOS_Judge tables disagree with ViewLOS definitions")
        if cl == "outside_model_equal_keys":
            ctx.note("case outside the model (two cells active together at equal distance): %dx%d observer (%d,%d) "
                     "cell size (%d,%d)" % (c["H"], c["W"], c["vr"], c["vc"], c["ew"], c["ns"]))
        elif cl != "ok":
            j = c["job"]
            viol(ctx, los_key(cl, c), cl, {"job": j, "observed": c["raw"]},
                          "%s %dx%d observer=(%d,%d) obs_elev=%r target_elev=%r cell=(%d,%d)/%d dtype=%s layout=%s [%s]"
                          % (j["tag"], c["H"], c["W"], c["vr"], c["vc"], j["obs"], j["tgt"], c["ew"], c["ns"],
                             j.get("cscale", 1), j.get("dtype"), j.get("layout", "C"), mode))
        if ex[0].startswith("drift"):
            ctx.report_drift("sweep step level: %s on %dx%d observer (%d,%d) [%s]"
                             % (ex[0], c["H"], c["W"], c["vr"], c["vc"], mode))
    ctx.borderline += leaned
    return ok


def handle_sweep_trees(ctx, cases):
    """tree dumps recorded from real sweeps (interpreted mode): realisable sequences"""
    ok = [c for c in cases if "error" not in c and "tree" in c]
    v = ctx.judge("StatusTree_Trace", [c["tree"] for c in ok], name="sweep_trees", stateful=True,
                  workers=2, parallel=8, count_traces=False)
    for i, c in enumerate(ok):
        cl = v.get(i, "missing")
        ex = ctx.judge_extra.get(i) or ""
        j = c["job"]
        where = "%dx%d observer (%d,%d) terrain %s" % (c["H"], c["W"], c["vr"], c["vc"], j["tag"])
        if cl == "query_semantics":
            # a wrong answer of the status structure on a sequence produced by a real sweep
            viol(ctx, "viewshed:status-query-wrong-in-real-sweep", cl, {"job": j},
                          "query answered wrongly %s in the sweep of %s" % (ex, where))
        elif cl != "ok":
            ctx.report_drift("tree %s %s in the real sweep of %s" % (cl, ex, where))
        elif ex.startswith("drift"):
            ctx.report_drift("tree step model vs real sweep: %s in %s" % (ex, where))


# --------------------------------------------------------------------------- self test of the judges
def selftest(ctx, los_case, tree_case):
    """corrupted observations must be rejected with the right clause (vacuity guard of the trace specs)"""
    import copy
    bad = []
    c = strip_los(los_case)
    H, W = c["H"], c["W"]
    # (i) a visible cell next to the observer (nothing can hide it) reported invisible
    for (r, k) in [(c["vr"], c["vc"] + 1), (c["vr"], c["vc"] - 1), (c["vr"] + 1, c["vc"]), (c["vr"] - 1, c["vc"])]:
        if 0 <= r < H and 0 <= k < W:
            b = copy.deepcopy(c)
            b["cells"][r][k].update({"neg1": 1, "inrange": 0, "angok": 0, "mdeg": -1})
            bad.append((b, "reported_invisible_but_nothing_hides_it"))
            break
    # (ii) the observer cell not 180
    b = copy.deepcopy(c)
    b["cells"][c["vr"]][c["vc"]]["is180"] = 0
    bad.append((b, "observer_cell_is_not_180"))
    # (iii) a hidden cell reported visible
    done = False
    for r in range(H):
        for k in range(W):
            if c["cells"][r][k]["neg1"] == 1 and not done:
                # the case was accepted without any borderline comparison: this cell is definitely hidden
                b = copy.deepcopy(c)
                b["cells"][r][k].update({"neg1": 0, "inrange": 1, "angok": 1, "mdeg": 90000})
                bad.append((b, "reported_visible_but_a_nearer_cell_hides_it"))
                done = True
    # (iv) wrong vertical angle
    for r in range(H):
        for k in range(W):
            o = c["cells"][r][k]
            if o["neg1"] == 0 and o["is180"] == 0 and o["angok"] == 1:
                b = copy.deepcopy(c)
                b["cells"][r][k]["angok"] = 0
                bad.append((b, "vertical_angle_wrong"))
                break
        else:
            continue
        break
    v = ctx.judge("ViewLOS_Judge", [x[0] for x in bad], name="selftest_los", stateful=True, count_traces=False)
    for i, (_, want) in enumerate(bad):
        if v.get(i) != want:
            raise core.MachineryError("selftest: corrupted LOS observation %d judged %r, expected %r"
                                      % (i, v.get(i), want))
    # tree trace: a stored maximum raised above the subtree maximum; a dropped event
    t = copy.deepcopy(strip_tree(tree_case))
    ev = None
    for e in t["events"]:
        if e["op"] == "I":
            ev = e
    root_row = ev["rows"][ev["root"]]
    root_row[7] = 500
    t2 = copy.deepcopy(strip_tree(tree_case))
    idx = [i for i, e in enumerate(t2["events"]) if e["op"] == "I"][1]
    del t2["events"][idx]
    t3 = copy.deepcopy(strip_tree(tree_case))
    flipped = False
    for e in t3["events"]:
        for q in e["qs"]:
            if not flipped:
                q[3] = 1 - q[3]
                flipped = True
    v = ctx.judge("StatusTree_Trace", [t, t2, t3], name="selftest_tree", stateful=True, count_traces=False)
    want = ["stored_max_too_high", "tree_is_not_a_search_tree_of_the_entries", "query_semantics"]
    for i in range(3):
        if v.get(i) != want[i]:
            raise core.MachineryError("selftest: corrupted tree trace %d judged %r, expected %r" % (i, v.get(i), want[i]))
    ctx.extra["selftest"] = "corrupted observations rejected: %d LOS, 3 tree traces" % len(bad)


# --------------------------------------------------------------------------- replay
def replay(ctx, rec):
    """re-run exactly the recorded public call (interpreted mode, tree operations recorded, and compiled)
    and judge both"""
    case = rec["case"]
    job = dict(case.get("job", case))
    job["steps"] = True
    cases = core.run_jobs("view_worker", [job], nproc=1, env={"NUMBA_DISABLE_JIT": "1"})
    ok = handle_los(ctx, cases, "replay_interpreted")
    handle_sweep_trees(ctx, ok)
    job2 = dict(job)
    job2["steps"] = False
    cases2 = core.run_jobs("view_worker", [job2], nproc=1)
    ok2 = handle_los(ctx, cases2, "replay_compiled")
    for c in ok + ok2:
        ctx.sample({"replayed": rec.get("clause"), "verdict": c.get("_clause"), "output": c.get("raw")})


# --------------------------------------------------------------------------- main
def run(ctx):
    ctx.rule = ("cases = (terrain, observer cell, observer_elev, target_elev, cell size); non-trivial when the "
                "real output has at least one visible and one invisible cell besides the observer; distinct by "
                "the full case")
    ctx.assumptions = [
        "float bridge: 'interpolated gradient of n at the bearing of c > own gradient of c' is evaluated by an "
        "independent float64 implementation of the stated model (view_worker.bridge); |difference| < 1e-9 is "
        "borderline and both outcomes are admitted, except the exact tie where every elevation involved equals "
        "the observer's eye level (all gradients exactly 0: not greater)",
        "vertical angle by via_formula: 90 + atan(dh/d) in degrees within 1e-3, side of level and 45/135 decided "
        "exactly by TLC from (dh, d^2)",
        "the model is evaluated on the exact rational values the raster holds; families: small multiples of 1/4 "
        "(all dtypes), non-dyadic float64 heights (0.1, 1/3, 1e-3, 2500.0001, k/10, k/3) and integer relief on "
        "bases 2**24, 2**31, 1e9 (float64 / int64); float32 rasters only with float32-exact heights (NumPy forms the "
        "observer's eye height in the raster's dtype); rasters have at least 2 rows and 2 columns "
        "(the function derives the cell size from the coordinate spacing)",
        "the reading of 'spans the bearing' is the code's: strictly inside the cone enter corner .. exit corner "
        "in index space; 'nearer' is strictly smaller squared map distance",
        "tree step model checked in interpreted mode (NUMBA_DISABLE_JIT=1) on real sweeps and on the compiled "
        "helpers by direct drive",
    ]
    rng = random.Random(ctx.seed * 7919 + 5)
    thorough = ctx.tier == "thorough"

    # ---------------- start the real-code workers in the background (JIT of viewshed costs ~25 s per process);
    # TLC model checking runs meanwhile, all judging happens afterwards in this thread
    import threading
    mx = 7 if thorough else 5
    table_jobs = [{"kind": "tables", "H": H, "W": W, "vr": vr, "vc": vc}
                  for H in range(2, mx + 1) for W in range(2, mx + 1) for vr in range(H) for vc in range(W)]
    if not thorough:
        table_jobs += [{"kind": "tables", "H": 7, "W": 7, "vr": vr, "vc": vc} for vr in range(7) for vc in range(7)]
    tree_jobs = perm_jobs(rng, 4) + perm_jobs(rng, 5, limit=ctx.pick(120, 5000))
    if thorough:
        tree_jobs += perm_jobs(rng, 6, limit=1500)
    tree_jobs += sim_jobs(ctx, rng, ctx.pick(50, 600), ctx.pick(40, 60), 12)
    comp_jobs = los_jobs(rng, ctx.pick(9, 120), steps=False) + big_jobs(rng, ctx.pick(36, 500)) + \
        big_jobs(rng, ctx.pick(10, 100), sizes=[(17, 17), (21, 21)]) + \
        precision_jobs(rng, ctx.pick(16, 200), steps=False) + variation_jobs(rng, ctx.pick(100, 2400), steps=False) + \
        narrow_edge_jobs(rng, False)
    interp_jobs = los_jobs(rng, ctx.pick(30, 300), steps=True, every_observer=False) + \
        los_jobs(rng, ctx.pick(4, 30), steps=True, every_observer=True, sizes=[(3, 3), (4, 5), (5, 5)]) + \
        precision_jobs(rng, ctx.pick(8, 100), steps=True, per=4) + variation_jobs(rng, ctx.pick(24, 400), steps=True) + \
        narrow_edge_jobs(rng, True)
    results, errors = {}, {}

    def bg(name, fn):
        def go():
            try:
                results[name] = fn()
            except BaseException as ex:      # re-raised in the main thread
                errors[name] = ex
        th = threading.Thread(target=go)
        th.start()
        return th

    def wait(name):
        threads[name].join()
        if name in errors:
            raise errors[name]
        return results[name]

    threads = {
        "compiled": bg("compiled", lambda: core.run_jobs("view_worker", table_jobs + comp_jobs,
                                                         nproc=ctx.pick(5, 10), timeout=ctx.pick(1200, 6000))),
        "tree": bg("tree", lambda: core.run_jobs("viewtree_worker", tree_jobs, nproc=ctx.pick(3, 8),
                                                 timeout=ctx.pick(900, 3000))),
        "interp": bg("interp", lambda: core.run_jobs("view_worker", interp_jobs, nproc=ctx.pick(6, 12),
                                                     env={"NUMBA_DISABLE_JIT": "1"},
                                                     timeout=ctx.pick(900, 3000))),
    }
    try:
        run_checks(ctx, rng, thorough, table_jobs, tree_jobs, wait)
    finally:
        for th in threads.values():
            th.join()


def run_checks(ctx, rng, thorough, table_jobs, tree_jobs, wait):
    # ---------------- M: status structure
    flat = [[0, 0, 0], [2, 2, 2], [4, 4, 4]]
    sloped = flat + [[0, 4, 0], [4, 0, 2]]
    tree_cfgs = [("k3_flat", core.Raw("1..3"), flat, 5)]
    if thorough:
        tree_cfgs += [("k3_sloped", core.Raw("1..3"), sloped, 5), ("k4_flat", core.Raw("1..4"), flat, 6)]
    else:
        tree_cfgs += [("k2_sloped", core.Raw("1..2"), sloped, 4)]
    inv = ["Refines", "SentinelIntact", "MaxNeverHighInv", "QueryOK"]
    for name, keys, profs, n in tree_cfgs:
        ctx.model_check("StatusTree", dict(spec="Spec", invariants=inv, constants=dict(
            KEYS=keys, PROFILES=set(tuple(p) for p in profs), QG=core.Raw("0..4"), N=n, MUT="none")),
            "tree_" + name, timeout=3000, workers=ctx.pick(6, 16))
    base = dict(KEYS=core.Raw("1..3"), PROFILES=set(tuple(p) for p in flat), QG=core.Raw("0..4"), N=5)
    twins = [("no_recompute", "MaxNeverHighInv"), ("skip_left", "QueryOK"), ("ge", "QueryOK")]
    if thorough:
        twins.append(("no_walk", "MaxNeverHighInv"))
    for mut, invn in twins:
        ctx.model_check("StatusTree", dict(spec="Spec", invariants=[invn], constants=dict(base, MUT=mut)),
                        "tree_neg_" + mut, expect="violation", workers=4)
    # information: the explored state space contains stale-low maxima and trees that are not red-black
    for invn in ("MaxAlwaysExact", "AlwaysRedBlack"):
        ctx.model_check("StatusTree", dict(spec="Spec", invariants=[invn], constants=dict(base, MUT="none")),
                        "tree_info_" + invn, expect="violation", workers=4)

    # ---------------- M: sweep geometry
    geo = [("upto5_sq", 1, 5, 1, 5, 1, 1)]
    if thorough:
        geo += [("6to7_sq", 6, 7, 6, 7, 1, 1), ("upto7_2x1", 1, 7, 1, 7, 2, 1), ("upto7_1x3", 1, 7, 1, 7, 1, 3),
                ("8to9_1x3", 8, 9, 8, 9, 1, 3), ("8to9_2x1", 8, 9, 8, 9, 2, 1)]
    else:
        geo += [("7x7_2x1", 7, 7, 7, 7, 2, 1), ("6x6_1x3", 6, 6, 6, 6, 1, 3)]
    ginv = ["TypeOK", "CornersAreExtreme", "SweepMatchesGeometry", "WellFormedOps", "NoDupKeys",
            "EndsWhereItStarted"]
    for name, h0, h1, w0, w1, ew, ns in geo:
        ctx.model_check("ViewGeom", dict(spec="Spec", invariants=ginv, constants=dict(
            MINH=h0, MAXH=h1, MINW=w0, MAXW=w1, EW=ew, NS=ns, MUT="none")), "geom_" + name, timeout=3000,
            workers=ctx.pick(6, 16))
    for mut in ("tie", "corner"):
        ctx.model_check("ViewGeom", dict(spec="Spec", invariants=["SweepMatchesGeometry"], constants=dict(
            MINH=1, MAXH=3, MINW=1, MAXW=3, EW=1, NS=1, MUT=mut)), "geom_neg_" + mut, expect="violation",
            workers=2)
    ctx.exhaustive = True

    # ---------------- R: the compiled tree helpers, direct drive
    tree_cases = tree_replay(ctx, tree_jobs, wait("tree"), "tree_direct")
    ctx.sample({"kind": "tree direct drive", "ops": tree_jobs[0]["ops"][:4], "sequences": len(tree_jobs)})

    # ---------------- T: interpreted mode with every tree operation of the sweep recorded
    ok2 = handle_los(ctx, wait("interp"), "interpreted")
    handle_sweep_trees(ctx, ok2)

    # ---------------- R: geometry helpers and event order of the real code
    allc = wait("compiled")
    tcases = allc[:len(table_jobs)]
    v = ctx.judge("ViewGeom_Judge", [{k: c[k] for k in ("H", "W", "vr", "vc", "pos", "order", "svr", "svc")}
                                     for c in tcases], name="geom_tables", parallel=4)
    for i, c in enumerate(tcases):
        ctx.evaluations += 1
        if v.get(i) != "ok":
            ctx.report_drift("event geometry: %s for %dx%d observer (%d,%d)" % (v.get(i), c["H"], c["W"],
                                                                               c["vr"], c["vc"]))

    # ---------------- T: the public function, compiled (what users run), every observer cell
    ok_cases = handle_los(ctx, allc[len(table_jobs):], "compiled")
    for c in ok_cases[:3]:
        ctx.sample({"kind": "viewshed", "terrain": c["job"]["terrain"], "observer": [c["vr"], c["vc"]],
                    "observer_elev": c["job"]["obs"], "target_elev": c["job"]["tgt"], "cell": [c["ew"], c["ns"]],
                    "output": c["raw"]})

    # ---------------- vacuity guard of the judges
    cand = [c for c in ok2 if c.get("_clause") == "ok" and c.get("_leaned") == 0
            and any(o["neg1"] == 1 for row in c["cells"] for o in row)
            and any(o["neg1"] == 0 and o["is180"] == 0 for row in c["cells"] for o in row)]
    if cand and not ctx.violations:
        selftest(ctx, cand[0], tree_cases[0])


META = {
    "technique": "TLA+ transliteration of the red-black status structure model-checked over all operation "
                 "sequences; exact integer sweep geometry model-checked over all raster shapes and observers; real "
                 "helpers and real sweeps validated step by step; the visibility of every cell decided by TLC "
                 "from the stated line-of-sight model",
    "level_text": "TLC explores (1) every insert/delete sequence over small key sets on TreeOps.tla, a line-by-line "
                  "model of the real tree (refinement of an ordered map, stored maxima never too high, two-phase "
                  "query = abstract query; negative twins rejected), and (2) every raster shape up to 7x7 (9x9 "
                  "thorough) with every observer on ViewGeom.tla (corner table = geometric extremes, active set at "
                  "each CENTER event = cells spanning the bearing, no equal keys together).  The compiled tree "
                  "helpers and the geometry helpers are driven directly and validated against these models; the "
                  "public viewshed() is run on seeded terrains with every observer cell, and ViewLOS_Judge.tla "
                  "decides the visibility, value class and vertical angle of every cell; interpreted-mode sweeps "
                  "are additionally validated operation by operation.  Exhaustive on the small scope, sampled beyond.",
    "level_note": "Trusted: TLC; the float bridge in harness/workers/view_worker.py (independent float64 evaluation "
                  "of 'interpolated gradient of n at c's bearing > c's gradient', band 1e-9 admits both outcomes; "
                  "vertical angle within 1e-3 deg of 90+atan(dh/d)); rank encoding of floats in tree traces; "
                  "interpreted mode running the same source as the compiled code (compiled runs judged as well).",
}
