"""C09 - focal results are statistics of exactly the cells under the kernel.

M  Focal.tla      _apply_numpy (one transition per cell) vs the set of cells under the 1-entries: every raster shape
                  <= 4x4 x every 0/1 mask of 1x3, 3x1, 3x3 + an asymmetric 5-wide family, on identity rasters
                  (index level) and on every raster over {0,1,2,NaN} of the small shapes (value level)
   FocalMean.tla  _mean_numpy slices, `passes` transitions, exclusion lists vs the iterated 3x3 window mean
   FocalConv.tla  _convolve_2d_numpy loops with IEEE NaN vs the weighted full-window sum
   Hotspots.tla   the p-value/confidence ladder = threshold form {1.65, 1.96, 2.58}, odd in z, seven values;
                  negation symmetry of the exact classification on whole rasters
R  the same kernels/rasters through the real focal.apply / focal_stats / mean / hotspots / convolution_2d (numpy
   backend) and _calc_hotspots_numpy driven directly; outputs bridged to exact rationals and judged by TLC
   (Focal_Judge.tla).
T  seeded larger / random rasters, kernels, dtypes, weighted kernels, kernels larger than the raster; a sample of
   all of it on Dask-backed rasters (single block, 1-cell chunks, uneven split), same clauses.
"""
import itertools
import json
import os
import random

from harness import core

JVM = {"JAVA_TOOL_OPTIONS": "-XX:ParallelGCThreads=2"}
JVM_SMALL = {"JAVA_TOOL_OPTIONS": "-XX:ParallelGCThreads=2 -XX:TieredStopAtLevel=1"}
NPROC = 6          # worker processes: each pays import + JIT (about 20 s CPU), the jobs themselves are cheap
STATS = ["mean", "max", "min", "range", "std", "var", "sum"]
VALS4 = [0, 1, 2, "nan"]
EXCLS = [["nan"], [0], [0, "nan"], [1, 2]]

# asymmetric family for the 5-wide shapes (no mask equals its transpose, mirror or rotation)
KFAMILY = [
    [[1, 0, 0, 0, 0]], [[0, 1, 0, 0, 1]], [[1, 1, 0, 1, 0]],
    [[1], [1], [0], [0], [0]], [[0], [0], [0], [1], [0]], [[0], [1], [1], [0], [1]],
    [[1, 0, 0, 0, 0], [0, 0, 1, 0, 0], [0, 0, 0, 1, 1]], [[0, 0, 0, 0, 1], [0, 0, 0, 0, 0], [0, 1, 0, 0, 0]],
    [[1, 0, 0], [0, 0, 0], [0, 1, 0], [0, 0, 0], [0, 0, 1]], [[0, 0, 1], [1, 0, 0], [0, 0, 0], [0, 0, 0], [0, 1, 0]],
    [[1, 1, 0, 0, 0], [0, 0, 0, 0, 0], [0, 0, 1, 0, 0], [0, 0, 0, 0, 1], [0, 0, 0, 1, 0]],
    [[0, 0, 0, 0, 1], [1, 0, 0, 0, 0], [0, 0, 0, 0, 0], [0, 0, 0, 1, 0], [0, 1, 0, 0, 0]],
]
# a fixed selection of 3x3 masks used where the full 512 would be too many
K33_SEL = [[[1, 1, 1], [1, 1, 1], [1, 1, 1]], [[0, 1, 0], [1, 1, 1], [0, 1, 0]], [[1, 0, 0], [0, 0, 0], [0, 0, 0]],
           [[0, 0, 1], [0, 0, 0], [0, 0, 0]], [[0, 0, 0], [0, 0, 0], [1, 0, 0]], [[0, 1, 0], [0, 0, 1], [0, 0, 0]],
           [[1, 1, 0], [0, 0, 0], [0, 0, 1]], [[0, 0, 0], [0, 0, 0], [0, 0, 0]], [[0, 0, 0], [0, 1, 0], [0, 0, 0]],
           [[0, 0, 0], [1, 0, 1], [0, 1, 0]], [[1, 0, 1], [0, 0, 0], [0, 1, 1]], [[0, 1, 1], [1, 0, 0], [1, 0, 0]]]


def masks(kh, kw):
    out = []
    for bits in itertools.product([0, 1], repeat=kh * kw):
        out.append([list(bits[i * kw:(i + 1) * kw]) for i in range(kh)])
    return out


def tla_val(v):
    return "<<0, 0>>" if v == "nan" else "<<%d, 1>>" % v


def tla_vals(vs):
    return core.Raw("{%s}" % ", ".join(tla_val(v) for v in vs))


def tla_shapes(sh):
    return core.Raw("{%s}" % ", ".join("<<%d, %d>>" % tuple(s) for s in sh))


def tla_excls(ex):
    return core.Raw("{%s}" % ", ".join("<<%s>>" % ", ".join(tla_val(v) for v in e) for e in ex))


def tla_wkernels(ws):
    def q(v):
        return "<<%d, %d>>" % (tuple(v) if isinstance(v, list) else (v, 1))
    return core.Raw("<<%s>>" % ", ".join(
        "<<%s>>" % ", ".join("<<%s>>" % ", ".join(q(v) for v in row) for row in w) for w in ws))


WK_MODEL = [
    [[[1, 2], 1, -1]], [[2], [0], [[1, 4]]],
    [[1, 0, 0], [0, [1, 2], 0], [0, 0, -1]], [[0, 1, 0], [1, 1, 1], [0, 1, 0]],
    [[0, 0, 2], [0, 0, 0], [[1, 2], 0, 0]],
]


# ------------------------------------------------------------------------------------------ job builders
def pow2_raster(H, W, nanpos=None):
    X = [[2 ** (r * W + c) for c in range(W)] for r in range(H)]
    if nanpos is not None:
        X[nanpos // W][nanpos % W] = "nan"
    return X


def window_distinct(X, K, r, c):
    H, W = len(X), len(X[0])
    kh, kw = len(K), len(K[0])
    s = set()
    for i in range(kh):
        for j in range(kw):
            rr, cc = r + i - kh // 2, c + j - kw // 2
            if K[i][j] == 1 and 0 <= rr < H and 0 <= cc < W and X[rr][cc] != "nan":
                s.add(repr(X[rr][cc]))
    return len(s)


def rand_raster(rng, H, W, vals, pnan=0.15):
    return [[("nan" if rng.random() < pnan else rng.choice(vals)) for _ in range(W)] for _ in range(H)]


def rand_kernel(rng, fam):
    return rng.choice(fam)


def apply_window_jobs(rng, tier, fam):
    shapes = ([(4, 4), (3, 4), (4, 1)] if tier == "quick"
              else [(h, w) for h in range(1, 5) for w in range(1, 5)])
    jobs = []
    n = 0
    for (H, W) in shapes:
        for K in fam:
            n += 1
            nanpos = (n * 7) % (H * W + 3)
            X = pow2_raster(H, W, nanpos if nanpos < H * W else None)
            reds = ["sum", "wsum", "nancount"]
            if K[0][0] == 1:
                reds.append("at_0_0")
            if K[0][-1] == 1:
                reds.append("at_0_last")
            if K[-1][0] == 1:
                reds.append("at_last_0")
            if n % 5 == 0:
                reds += ["max", "min", "shape"]
            jobs.append({"kind": "apply", "func": "apply", "X": X, "K": K, "reds": reds, "tag": "windows"})
    return jobs


def all_rasters(H, W, vals=VALS4):
    for cells in itertools.product(vals, repeat=H * W):
        yield [list(cells[r * W:(r + 1) * W]) for r in range(H)]


def stats_jobs(rng, tier, fam, small):
    jobs = []
    ksel = small if tier == "quick" else small + masks(1, 3) + masks(3, 1) + KFAMILY
    shapes = [(2, 2)] if tier == "quick" else [(2, 2), (1, 3), (3, 1)]
    for (H, W) in shapes:
        for X in all_rasters(H, W):
            for K in (rng.sample(ksel, 4) if tier == "quick" else ksel):
                jobs.append({"kind": "apply", "func": "focal_stats", "via": "focal_stats", "X": X, "K": K,
                             "reds": STATS, "tag": "stats_all"})
    n = 400 if tier == "quick" else 6000
    for t in range(n):
        H, W = rng.choice([(3, 3), (4, 4), (3, 4), (2, 3), (4, 2), (1, 4), (5, 5), (6, 4)])
        vals = rng.choice([[0, 1, 2], [0, 1, 2], [-3, -1, 0, 2, 5, 9], [7], [[1, 2], [3, 4], 1, [-5, 4]]])
        X = rand_raster(rng, H, W, vals, rng.choice([0.0, 0.15, 0.4]))
        K = rand_kernel(rng, fam)
        sub = STATS if rng.random() < 0.6 else rng.sample(STATS, rng.randrange(1, 5))
        j = {"kind": "apply", "func": "focal_stats", "via": "focal_stats", "X": X, "K": K, "reds": list(sub),
             "tag": "stats_random"}
        # other dtypes (each is a separate JIT specialisation per reducer): two statistics only
        if not any(isinstance(v, list) for row in X for v in row) and not any(v == "nan" for row in X for v in row):
            if rng.random() < 0.2:
                j["dtype"] = rng.choice(["int32", "int64", "float32"])
                j["reds"] = ["mean", "sum"]
        elif rng.random() < 0.1 and not any(isinstance(v, list) for row in X for v in row):
            j["dtype"] = "float32"
            j["reds"] = ["mean", "sum"]
        if "dtype" not in j and rng.random() < 0.08:
            j["kdtype"] = "int64"
            j["reds"] = ["sum", "max"]
        jobs.append(j)
    return jobs


def reducer_jobs(rng, tier, fam):
    jobs = []
    user = ["at_0_0", "at_0_last", "at_last_0", "at_centre", "nancount", "wsum", "shape"]
    n = 300 if tier == "quick" else 4000
    for t in range(n):
        H, W = rng.choice([(3, 3), (4, 4), (3, 4), (2, 3), (1, 4), (4, 1), (2, 5)])
        X = rand_raster(rng, H, W, [0, 1, 2, 3, 5, 8], rng.choice([0.0, 0.2]))
        K = rand_kernel(rng, fam)
        if rng.random() < 0.5:      # make the corner entries visible
            K = [row[:] for row in K]
            K[0][-1] = 1
            K[-1][0] = rng.choice([0, 1])
        jobs.append({"kind": "apply", "func": "apply", "X": X, "K": K, "reds": user + ["mean"], "tag": "reducers"})
    # kernels larger than the raster
    for (H, W) in ((1, 1), (2, 2), (1, 3), (3, 2)):
        for K in KFAMILY + [[[1] * 5] * 5, [[1] * 3] * 5]:
            X = rand_raster(rng, H, W, [1, 2, 4], 0.1)
            jobs.append({"kind": "apply", "func": "apply", "X": X, "K": K, "reds": ["sum", "wsum", "nancount", "mean"],
                         "tag": "kernel_larger_than_raster"})
    return jobs


def mean_jobs(rng, tier):
    jobs = []
    for (H, W) in (((2, 2),) if tier == "quick" else ((2, 2), (1, 3), (3, 1))):
        for X in all_rasters(H, W):
            for ex in EXCLS:
                for p in (0, 1, 2):
                    jobs.append({"kind": "mean", "X": X, "passes": p, "excl": ex, "tag": "mean_all"})
    r23 = list(all_rasters(2, 3))
    for X in (r23 if tier == "thorough" else rng.sample(r23, 1000)):
        combos = [(ex, p) for ex in EXCLS for p in (1, 2)]
        for ex, p in (combos if tier == "thorough" else [rng.choice(combos)]):
            jobs.append({"kind": "mean", "X": X, "passes": p, "excl": ex, "tag": "mean_2x3"})
    n = 500 if tier == "quick" else 8000
    for t in range(n):
        H, W = rng.choice([(3, 3), (4, 4), (3, 4), (4, 3), (1, 4), (5, 5)])
        X = rand_raster(rng, H, W, [0, 1, 2], rng.choice([0.0, 0.2, 0.5]))
        ex = rng.choice(EXCLS + [[2], ["nan", 1]] + EXCL_MORE[:3])
        p = rng.choice([0, 1, 1, 2, 2])
        j = {"kind": "mean", "X": X, "passes": p, "excl": ex, "tag": "mean_random"}
        if ex == ["nan"] and rng.random() < 0.5:
            j["default_excl"] = True
        if p == 1 and rng.random() < 0.5:
            j["default_passes"] = True
        if rng.random() < 0.15 and not any(v == "nan" for row in X for v in row):
            j["dtype"] = rng.choice(["int32", "int64", "float32"])
        jobs.append(j)
    jobs += mean_special_jobs(rng, 40 if tier == "quick" else 400)
    # larger values, one pass
    for t in range(100 if tier == "quick" else 1000):
        H, W = rng.choice([(3, 3), (4, 4), (2, 4)])
        X = rand_raster(rng, H, W, [-7, -2, 0, 3, 9, [1, 2], [5, 4]], 0.2)
        jobs.append({"kind": "mean", "X": X, "passes": 1, "excl": rng.choice([["nan"], [0], [3, 9]]),
                     "tag": "mean_values"})
    return jobs


# exclusion values that float32 cannot hold (0.1, -9999.9, 1/3) or that float32 rounds onto a neighbour (2^24+1):
# (special value, other special cells in the raster, excludes, exact check possible for passes = 2)
TENTH, NINES, THIRD, BIG = [1, 10], [-99999, 10], [1, 3], 16777217
SPECIAL = [(TENTH, [], [TENTH], True), (TENTH, ["nan"], [TENTH, "nan"], True), (THIRD, [], [THIRD], True),
           (NINES, [], [NINES], False), (BIG, [16777216, 16777216], [BIG], False)]


def mean_special_jobs(rng, n, dask=False):
    """float64 rasters holding cells EQUAL to an exclusion value that is not exactly representable in float32:
    they must be passed through (and 2^24 must not be protected by an exclusion of 2^24+1)."""
    jobs = []
    for t in range(n):
        sv, others, ex, exact2 = SPECIAL[t % len(SPECIAL)]
        H, W = rng.choice([(3, 3), (3, 4), (4, 4), (2, 3)])
        X = [[rng.choice([0, 1, 2, 3]) for _ in range(W)] for _ in range(H)]
        cells = [(r, c) for r in range(H) for c in range(W)]
        rng.shuffle(cells)
        k = rng.randrange(1, 4)
        for (r, c) in cells[:k]:
            X[r][c] = sv
        for v, (r, c) in zip(others + others, cells[k:k + rng.randrange(len(others), 2 * len(others) + 1)]):
            X[r][c] = v
        for p in (1, 2):
            base = {"kind": "mean", "X": X, "passes": p, "excl": ex, "tag": "mean_special",
                    "only_excl": 0 if (p == 1 or exact2) else 1}
            if dask:
                for ch in chunkings(H, W):
                    jobs.append(dict(base, chunks=ch, tag="dask_mean_special"))
            else:
                jobs.append(base)
    return jobs


DYADIC = [0, 1, -1, 2, [1, 2], [1, 4], [-1, 2], [3, 2], [1, 8]]


def conv_jobs(rng, tier):
    jobs = []
    # every 1x3 raster x every weight triple of a small set; every 2x2/1x3/3x1 raster x model kernels
    wset = [0, -1, [1, 2], 2]
    trip = list(itertools.product(wset, repeat=3))
    for X in all_rasters(1, 3):
        for w in (trip if tier == "thorough" else rng.sample(trip, 6)):
            jobs.append({"kind": "conv", "X": X, "Wt": [list(w)], "tag": "conv_1x3"})
            jobs.append({"kind": "conv", "X": [[v] for v in X[0]], "Wt": [[v] for v in w], "tag": "conv_3x1"})
    n = 700 if tier == "quick" else 8000
    for t in range(n):
        kh, kw = rng.choice([(3, 3), (3, 3), (1, 3), (3, 1), (3, 5), (5, 3), (5, 5), (1, 1), (1, 5)])
        H = rng.choice([max(1, kh - 1), kh, kh + 1, kh + 2])
        W = rng.choice([max(1, kw - 1), kw, kw + 1, kw + 2])
        if H * W > 36:
            H, W = min(H, 6), min(W, 6)
        X = rand_raster(rng, H, W, [0, 1, 2] if rng.random() < 0.7 else [-3, 0, 1, 4, 7], rng.choice([0.0, 0.0, 0.1]))
        mode = rng.random()
        if mode < 0.3:
            Wt = [[rng.choice([0, 1]) for _ in range(kw)] for _ in range(kh)]
        else:
            Wt = [[rng.choice(DYADIC) for _ in range(kw)] for _ in range(kh)]
        j = {"kind": "conv", "X": X, "Wt": Wt, "tag": "conv_random"}
        if rng.random() < 0.15 and not any(v == "nan" for row in X for v in row):
            j["dtype"] = rng.choice(["int32", "int64", "float32"])
        jobs.append(j)
    return jobs


def variance_zero(X):
    vs = [v for row in X for v in row if v != "nan"]
    return len(set(vs)) <= 1


def hot_jobs(rng, tier):
    jobs = []
    kfam = [k for k in masks(3, 3) if sum(map(sum, k)) >= 1]
    k13 = [k for k in masks(1, 3) + masks(3, 1) if sum(map(sum, k)) >= 1]
    rasters = list(all_rasters(3, 3, [0, 1, 2]))
    for X in (rasters if tier == "thorough" else rng.sample(rasters, 900)):
        if variance_zero(X):
            continue
        jobs.append({"kind": "hot", "X": X, "K": rng.choice(kfam), "tag": "hot_3x3"})
    n = 600 if tier == "quick" else 8000
    for t in range(n):
        H, W = rng.choice([(4, 4), (4, 5), (5, 5), (3, 5), (5, 4), (6, 6), (3, 3)])
        mode = rng.random()
        if mode < 0.5:      # a few extreme cells in a flat field: large |z|
            X = [[rng.choice([0, 0, 0, 1]) for _ in range(W)] for _ in range(H)]
            for _ in range(rng.randrange(1, 4)):
                r0, c0 = rng.randrange(H), rng.randrange(W)
                v = rng.choice([3, -3, 2, -2])
                for dr in (0, 1):
                    for dc in (0, 1):
                        if r0 + dr < H and c0 + dc < W and rng.random() < 0.8:
                            X[r0 + dr][c0 + dc] = v
        else:
            X = rand_raster(rng, H, W, [-3, -1, 0, 1, 2, 3], rng.choice([0.0, 0.0, 0.08]))
        if variance_zero(X) or all(v == "nan" for row in X for v in row):
            continue
        K = rng.choice(kfam) if rng.random() < 0.75 else rng.choice(k13 + [k for k in KFAMILY[6:8]])
        j = {"kind": "hot", "X": X, "K": K, "tag": "hot_random"}
        if rng.random() < 0.2 and not any(v == "nan" for row in X for v in row):
            j["dtype"] = rng.choice(["int32", "int64", "float32"])
        jobs.append(j)
    zs = sorted(set(list(range(-4000, 4001, 5)) + [s * (t + d) for s in (-1, 1) for t in (1290, 1650, 1960, 2330, 2580)
                                                    for d in (-1, 0, 1)]))
    jobs.append({"kind": "ladder", "zs": zs, "tag": "ladder_f64"})
    jobs.append({"kind": "ladder", "zs": [z for z in zs if abs(z) not in (1650, 1960, 2580)], "dtype": "float32",
                 "tag": "ladder_f32"})
    return jobs


def badkernel_jobs():
    return [{"kind": "badkernel", "rows": r, "cols": c, "what": w} for r in (1, 2, 3, 4) for c in (1, 2, 3)
            for w in ("ndarray", "list")]


DTYPES = ["int8", "uint8", "int16", "uint16", "int32", "int64", "uint64", "float32", "float64"]
LAYOUTS = ["C", "F", "T", "S", "R"]          # C, Fortran, transposed view, strided view, reversed view
KVARIANTS = [("bool", "C"), ("int32", "C"), ("int64", "C"), ("float32", "C"), ("float64", "F"), ("int64", "F"),
             ("bool", "F")]
EXCL_MORE = [[0, 0], [1, 2, 1], [0, 1, "nan", "nan"], [2, "nan", 0], [-9999, 0, -9999]]


def transpose(K):
    return [list(r) for r in zip(*K)]


def input_variation_jobs(rng, tier, fam):
    """Input variation that the properties quantify over but a value-oriented corpus forgets: memory layouts and
    dtypes of the raster, kernel array types and orders, every orientation of the asymmetric kernels, passes = 3,
    exclusion lists with duplicates, z exactly 0, all-zero weights, tiny rasters under big kernels."""
    q = tier == "quick"
    jobs = []
    if q:
        combos = ([("C", dt) for dt in DTYPES] + [(L, "float64") for L in LAYOUTS[1:]]
                  + [("F", "int16"), ("S", "uint8"), ("T", "float32"), ("R", "int64")])
    else:
        combos = [(L, dt) for L in LAYOUTS for dt in DTYPES]
    for (L, dt) in combos:
        for rep in range(1 if q else 2):
            lo = 0 if dt.startswith("uint") else -3
            vals = list(range(lo, 4))
            pn = rng.choice([0.0, 0.15]) if dt.startswith("float") else 0.0
            var = {"layout": L, "dtype": dt}
            H, W = rng.choice([(3, 4), (4, 3), (2, 5)])
            X = rand_raster(rng, H, W, vals, pn)
            K = rand_kernel(rng, fam)
            jobs.append(dict(var, kind="apply", func="apply", X=X, K=K, reds=["sum", "mean"], tag="layout_dtype"))
            jobs.append(dict(var, kind="apply", func="focal_stats", via="focal_stats",
                             X=rand_raster(rng, H, W, vals, pn), K=rand_kernel(rng, fam), reds=["mean", "sum"],
                             tag="layout_dtype"))
            jobs.append(dict(var, kind="mean", X=rand_raster(rng, H, W, [v for v in vals if v >= -2][:4], pn),
                             passes=rng.choice([1, 2]), excl=rng.choice(EXCLS + EXCL_MORE[:2]), tag="layout_dtype"))
            kh, kw = rng.choice([(3, 3), (1, 3), (3, 1)])
            jobs.append(dict(var, kind="conv", X=rand_raster(rng, kh + 1, kw + 2, vals, 0.0),
                             Wt=[[rng.choice(DYADIC) for _ in range(kw)] for _ in range(kh)], tag="layout_dtype"))
            for _ in range(20):
                Xh = rand_raster(rng, 4, 5, vals, pn / 2)
                if not variance_zero(Xh):
                    break
            Kh = rng.choice([k for k in masks(3, 3)[1:]])
            jobs.append(dict(var, kind="hot", X=Xh, K=Kh, tag="layout_dtype"))
    # kernels as bool / int / float32 arrays and F-ordered
    for (kd, ko) in KVARIANTS:
        for rep in range(1 if q else 4):
            var = {"kdtype": kd, "korder": ko}
            X = rand_raster(rng, 3, 4, [0, 1, 2, 3], 0.1)
            jobs.append(dict(var, kind="apply", func="apply", X=X, K=rng.choice(fam[16:] + KFAMILY), reds=["sum"],
                             tag="kernel_type"))
            wt = [[rng.choice([0, 1] if kd == "bool" else [0, 1, -1, 2]) for _ in range(3)] for _ in range(3)]
            jobs.append(dict(var, kind="conv", X=rand_raster(rng, 4, 4, [0, 1, 2], 0.0), Wt=wt, tag="kernel_type"))
            for _ in range(20):
                Xh = rand_raster(rng, 4, 4, [-2, 0, 1, 3], 0.0)
                if not variance_zero(Xh):
                    break
            jobs.append(dict(var, kind="hot", X=Xh, K=rng.choice(masks(3, 3)[1:]), tag="kernel_type"))
    # every orientation of the asymmetric 5-wide kernels
    orient = []
    for K in KFAMILY:
        for Ko in (transpose(K), [row[::-1] for row in K], K[::-1], transpose(K[::-1])):
            if Ko not in orient and Ko not in KFAMILY:
                orient.append(Ko)
    for K in (rng.sample(orient, 12) if q else orient):
        H, W = rng.choice([(4, 4), (3, 4), (4, 3)])
        jobs.append({"kind": "apply", "func": "apply", "X": pow2_raster(H, W, rng.randrange(H * W)), "K": K,
                     "reds": ["sum", "wsum", "nancount"], "tag": "orientations"})
    # passes = 3 (rasters whose windows have 2, 3, 4 or 6 cells keep the exact rationals small), passes = 0,
    # exclusion lists with duplicates / several values
    for t in range(40 if q else 400):
        H, W = rng.choice([(2, 2), (2, 3), (3, 2), (1, 4), (4, 1), (1, 3), (1, 1)])
        jobs.append({"kind": "mean", "X": rand_raster(rng, H, W, [0, 1, 2], rng.choice([0.0, 0.25])),
                     "passes": rng.choice([3, 3, 0]), "excl": rng.choice(EXCLS + EXCL_MORE), "tag": "mean_passes3"})
    for t in range(20 if q else 200):
        H, W = rng.choice([(3, 3), (3, 4), (4, 4)])
        jobs.append({"kind": "mean", "X": rand_raster(rng, H, W, [0, 1, 2], 0.2), "passes": rng.choice([1, 2]),
                     "excl": rng.choice(EXCL_MORE), "tag": "mean_excl_dups"})
    # hotspots: neighbourhood mean exactly the global mean (z = 0) on two-valued patterns, with and without NaN
    two = [k for k in masks(3, 3) if sum(map(sum, k)) in (2, 4)]
    for t in range(12 if q else 120):
        H, W = rng.choice([(4, 4), (4, 6), (6, 4)])
        a, b = rng.choice([(0, 2), (-1, 1), (1, 3)])
        pat = rng.choice(["checker", "rows", "cols"])
        X = [[(a if ((r + c) % 2 if pat == "checker" else (r % 2 if pat == "rows" else c % 2)) == 0 else b)
              for c in range(W)] for r in range(H)]
        if rng.random() < 0.3:
            X[rng.randrange(H)][rng.randrange(W)] = "nan"
        jobs.append({"kind": "hot", "X": X, "K": rng.choice(two), "tag": "hot_z0"})
    # all-zero weights (legal for convolution_2d: 0 inside, NaN border, NaN where the window holds a NaN)
    for (kh, kw) in ((1, 3), (3, 1), (3, 3)):
        for pn in (0.0, 0.2):
            jobs.append({"kind": "conv", "X": rand_raster(rng, kh + 2, kw + 2, [0, 1, 2], pn),
                         "Wt": [[0] * kw for _ in range(kh)], "tag": "conv_zero_kernel"})
    # 1xN / Nx1 / 2x2 / 1x1 rasters under kernels larger than the raster
    for (H, W) in ((1, 4), (4, 1), (2, 2), (1, 1)):
        for (kh, kw) in ((3, 3), (5, 5), (3, 5), (5, 1)):
            X = rand_raster(rng, H, W, [0, 1, 2, 5], 0.1)
            jobs.append({"kind": "conv", "X": X, "Wt": [[rng.choice(DYADIC) for _ in range(kw)] for _ in range(kh)],
                         "tag": "tiny_raster"})
            jobs.append({"kind": "apply", "func": "focal_stats", "via": "focal_stats", "X": X,
                         "K": [[rng.choice([0, 1]) for _ in range(kw)] for _ in range(kh)], "reds": STATS,
                         "tag": "tiny_raster"})
            if not variance_zero(X) and not all(v == "nan" for row in X for v in row):
                jobs.append({"kind": "hot", "X": [[0 if v == "nan" else v for v in row] for row in X],
                             "K": [[1] * kw for _ in range(kh)], "tag": "tiny_raster"})
        jobs.append({"kind": "mean", "X": rand_raster(rng, H, W, [0, 1, 2], 0.2), "passes": 2, "excl": [0],
                     "tag": "tiny_raster"})
    return jobs


def offset_jobs(rng, tier):
    """Elevation-like data: LARGE OFFSET, SMALL SPREAD (8000 +- 2, int32 20000..20004, -12000, 30000 +- 20).  Squares
    of such values do not fit float32, so a single-pass variance E[x^2] - E[x]^2 on the float32 window collapses.
    The job holds the small integer deviations (X) and the offset; the library sees offset + X; the spec judges
    on the deviations (var / std / range / z-scores are translation invariant, mean / min / max / sum are shifted)."""
    q = tier == "quick"
    jobs = []
    kerns = [k for k in K33_SEL if sum(map(sum, k)) >= 1] + masks(1, 3)[1:] + masks(3, 1)[1:]
    for rep in range(2 if q else 20):
        for off in (8000, 20000, -12000, 30000):
            for dt in ("float32", "float64", "int32"):
                spread = rng.choice([2, 2, 5, 10, 20])
                K = rng.choice(kerns) if spread < 20 else rng.choice(masks(1, 3)[1:] + masks(3, 1)[1:])
                H, W = rng.choice([(4, 4), (3, 5), (5, 4)])
                devs = list(range(-spread, spread + 1))
                pn = 0.1 if dt != "int32" and rng.random() < 0.4 else 0.0
                var = {"offset": off} if dt == "float64" else {"offset": off, "dtype": dt}
                jobs.append(dict(var, kind="apply", func="focal_stats", via="focal_stats",
                                 X=rand_raster(rng, H, W, devs, pn), K=K, reds=STATS, tag="offset_spread"))
                if rep % 2 == 0:
                    jobs.append(dict(var, kind="apply", func="apply", X=rand_raster(rng, H, W, devs, pn), K=K,
                                     reds=["var", "mean", "sum", "at_centre"], tag="offset_spread"))
                for _ in range(20):
                    Xh = rand_raster(rng, 4, 5, devs, pn / 2)
                    fin = [v for row in Xh for v in row if v != "nan"]
                    if len(fin) > 4 and len(fin) * sum(v * v for v in fin) - sum(fin) ** 2 >= len(fin) ** 2:
                        break                       # global variance >= 1
                else:
                    continue
                jobs.append(dict(var, kind="hot", X=Xh, K=rng.choice(masks(3, 3)[1:]), band=20, tag="offset_spread"))
                jobs.append(dict(var, kind="mean", X=rand_raster(rng, H, W, devs[:5] if spread > 2 else devs, pn),
                                 passes=rng.choice([1, 2]), excl=rng.choice([["nan"], [0], [devs[0], "nan"], [1, 2]]),
                                 tag="offset_spread"))
    # the same on Dask-backed rasters
    for rep in range(2 if q else 12):
        off = [8000, -12000, 30000, 20000][rep % 4]
        H, W = 4, 5
        devs = list(range(-3, 4))
        for ch in chunkings(H, W)[1:]:
            jobs.append({"kind": "apply", "func": "focal_stats", "via": "focal_stats", "offset": off,
                         "X": rand_raster(rng, H, W, devs, 0.1), "K": rng.choice(kerns), "reds": ["var", "std", "mean"],
                         "chunks": ch, "tag": "dask_offset_spread"})
            jobs.append({"kind": "mean", "offset": off, "X": rand_raster(rng, H, W, devs, 0.1), "passes": 2,
                         "excl": [0], "chunks": ch, "tag": "dask_offset_spread"})
    return jobs


def chunkings(H, W):
    """single block, 1-cell chunks, an uneven split"""
    out = [[[H], [W]], [[1] * H, [1] * W]]
    un = [[H - 1, 1] if H >= 2 else [1], [1, W - 1] if W >= 2 else [1]]
    if un not in out:
        out.append(un)
    return out


def dask_jobs(rng, tier, base):
    """C09 holds for every backend: a modest sample of the same cases on Dask-backed rasters (2-3 chunkings each),
    judged by the same clauses against the definition.  Dask refuses a halo deeper than the raster (outside the
    domain), so kernels here have half-widths <= the raster's sides."""
    q = tier == "quick"
    want = {"windows": 6 if q else 60, "reducers": 6 if q else 60, "stats_random": 8 if q else 80,
            "conv_random": 14 if q else 150, "hot_random": 8 if q else 80, "hot_3x3": 4 if q else 40}
    pools = {}
    for j in base:
        t = j.get("tag")
        if t not in want or j.get("dtype") or j.get("kdtype"):
            continue
        H, W = len(j["X"]), len(j["X"][0])
        K = j.get("K") or j.get("Wt")
        if len(K) // 2 > H or len(K[0]) // 2 > W or H * W < 4:
            continue
        pools.setdefault(t, []).append(j)
    jobs = []
    for t, n in want.items():
        pool = pools.get(t, [])
        for j in rng.sample(pool, min(n, len(pool))):
            H, W = len(j["X"]), len(j["X"][0])
            for ch in chunkings(H, W):
                d = dict(j)
                if t == "windows":
                    d["reds"] = [r for r in j["reds"] if r != "shape"][:4]
                elif t == "reducers":
                    d["reds"] = ["at_0_last", "wsum", "nancount", "mean"]
                d["chunks"] = ch
                d["tag"] = "dask_" + t
                jobs.append(d)
    # non-square kernels in BOTH orientations (1x5, 5x1, 3x5, 5x3) with >= 2 chunks along the kernel's long axis:
    # strips along x, strips along y and 1-cell chunks - a halo taken from the wrong kernel axis clips the windows
    # at the interior chunk seams only there.  Always included, for every function that takes a kernel.
    wide = [KFAMILY[1], KFAMILY[2], KFAMILY[4], KFAMILY[5], KFAMILY[6], KFAMILY[7], KFAMILY[8], KFAMILY[9]]
    strips = lambda H, W: [[[H], [2] * (W // 2) + ([W % 2] if W % 2 else [])],
                           [[2] * (H // 2) + ([H % 2] if H % 2 else []), [W]],
                           [[1] * H, [1] * W]]
    for rep in range(1 if q else 4):
        for K in wide:
            H, W = rng.choice([(5, 6), (6, 5), (6, 6)])
            kh, kw = len(K), len(K[0])
            Xa = rand_raster(rng, H, W, [0, 1, 2, 3, 5, 8], 0.1)
            Xs = rand_raster(rng, H, W, [0, 1, 2], 0.15)
            Xc = rand_raster(rng, H, W, [0, 1, 2], 0.05)
            Wt = [[rng.choice(DYADIC) for _ in range(kw)] for _ in range(kh)]
            for _ in range(20):
                Xh = rand_raster(rng, H, W, [-3, -1, 0, 1, 2, 3], 0.0)
                if not variance_zero(Xh):
                    break
            chs = strips(H, W)
            if q:                       # quick: the strips across the kernel's long axis + 1-cell chunks
                chs = [chs[0] if kw > kh else chs[1], chs[2]]
            for ch in chs:
                jobs.append({"kind": "apply", "func": "apply", "X": Xa, "K": K, "chunks": ch,
                             "reds": ["sum", "wsum", "nancount"], "tag": "dask_wide_kernel"})
                jobs.append({"kind": "apply", "func": "focal_stats", "via": "focal_stats", "X": Xs, "K": K,
                             "chunks": ch, "reds": ["mean", "max", "sum"], "tag": "dask_wide_kernel"})
                jobs.append({"kind": "conv", "X": Xc, "Wt": Wt, "chunks": ch, "tag": "dask_wide_kernel"})
                jobs.append({"kind": "hot", "X": Xh, "K": K, "chunks": ch, "tag": "dask_wide_kernel"})
    # mean: passes 0..2, exclusion lists with and WITHOUT NaN (then the NaN padding of a halo must not leak in)
    excls = [[0], [-9999], [1, 2], ["nan"], [0, "nan"], [-9999], [0]]
    for t in range(30 if q else 300):
        H, W = rng.choice([(3, 3), (4, 4), (3, 5), (5, 4), (2, 4), (4, 2)])
        X = rand_raster(rng, H, W, [0, 1, 2], rng.choice([0.0, 0.0, 0.2]))
        ex = excls[t % len(excls)]
        p = [2, 2, 1, 2, 0][t % 5]
        for ch in chunkings(H, W):
            jobs.append({"kind": "mean", "X": X, "passes": p, "excl": ex, "chunks": ch, "tag": "dask_mean"})
    jobs += mean_special_jobs(rng, 10 if q else 100, dask=True)
    return jobs


def arrange(rng, jobs, nproc=NPROC):
    """run_jobs gives job i to process i % nproc.  Jobs with a non-default dtype need their own JIT
    specialisations (0.5 s each): keep them all on process 0 so that only one process compiles them."""
    def special(j):
        return bool(j.get("dtype") or j.get("kdtype") or j.get("layout") or j.get("korder"))
    variant = [j for j in jobs if special(j) and not j.get("chunks")]
    # JIT specialisations are keyed by (dtype, layout class): split the variants by dtype over processes 0 and 3
    va = [j for j in variant if DTYPES.index(j.get("dtype", "float64")) % 2 == 0]
    vb = [j for j in variant if DTYPES.index(j.get("dtype", "float64")) % 2 == 1]
    dask = [j for j in jobs if j.get("chunks")]       # float32 specialisations too: processes 1 and 2 only
    normal = [j for j in jobs if not (special(j) or j.get("chunks"))]
    rng.shuffle(normal)
    out = []
    while va or vb or dask or normal:
        slot = len(out) % nproc
        if slot == 0 and va:
            out.append(va.pop())
        elif slot == 3 and vb:
            out.append(vb.pop())
        elif slot in (1, 2) and dask:
            out.append(dask.pop())
        elif normal:
            out.append(normal.pop())
        elif dask:
            out.append(dask.pop())
        elif va:
            out.append(va.pop())
        else:
            out.append(vb.pop())
    return out


# ------------------------------------------------------------------------------------------ verdicts
FIELDS = {"apply": ["kind", "lazy", "offset", "X", "K", "outs"],
          "mean": ["kind", "lazy", "offset", "X", "passes", "excl", "out", "only_excl"],
          "conv": ["kind", "lazy", "X", "Wt", "out"], "hot": ["kind", "lazy", "X", "K", "out", "outneg", "band"],
          "ladder": ["kind", "lazy", "zs", "outs"]}
FUNC = {"mean": "mean", "conv": "convolution_2d", "hot": "hotspots", "ladder": "hotspots"}


def judge_kind(ctx, kind, cases, parallel):
    if not cases:
        return
    seen = {}
    v = ctx.judge("Focal_Judge", [{k: c[k] for k in FIELDS[kind]} for c in cases], name="replay_" + kind,
                  parallel=parallel, env=JVM)
    for i, c in enumerate(cases):
        ctx.evaluations += 1
        cl = v.get(i, "missing")
        extra = ctx.judge_extra.get(i) or ""
        if cl == "missing":
            raise core.MachineryError("no verdict for %s case %d" % (kind, i))
        if kind == "hot" and cl == "ok" and extra.isdigit():
            ctx.borderline += int(extra)
        if cl != "ok":
            func = c["job"].get("func") or FUNC[kind]
            key = "%s%s:%s" % ("dask:" if c["job"].get("chunks") else "", func, cl)
            seen[key] = seen.get(key, 0) + 1
            if seen[key] <= 3:
                small = {k: c[k] for k in c if k not in ("job",)}
                small["job"] = c["job"]
                ctx.violation(key, cl, small, "%s %s%s (cell, observed, expected)=%s" % (
                    c["job"].get("tag", ""), func,
                    " chunks=%s" % c["job"]["chunks"] if c["job"].get("chunks") else "", extra))
    for key, n in seen.items():
        if n > 3:
            ctx.note("%s: %d failing cases (3 replay files written)" % (key, n))


def run(ctx):
    ctx.rule = ("case = (function, raster, kernel, parameters); non-trivial cells are those whose window holds at "
                "least two distinct finite values; counted per (raster, kernel, cell)")
    ctx.assumptions = [
        "float bridge rational(D): a float output is the nearest fraction with denominator <= D (D from the number "
        "of kernel ones / passes / weight denominators), accepted within 4 ulp (float32 for apply/focal_stats/"
        "convolution_2d, 64 ulp float64 for mean) of the largest intermediate; std is compared as its square",
        "focal `sum` of an empty window is 0, every other statistic NaN (DESIGN 3 rule 6); exclusion lists are "
        "non-empty homogeneous float lists; passes <= 2 for the exact rational check",
        "hotspots: cells whose exact z is within 1e-3 of 1.65/1.96/2.58 are borderline (both neighbouring classes "
        "admitted); rasters with zero variance (the library raises) are outside the domain",
        "NumPy backend for the bulk, a Dask-backed sample (three chunkings each, synchronous scheduler, result must "
        "be lazy) judged by the same clauses; Dask halos deeper than the raster are refused by Dask (outside the "
        "domain); kernels of even shape / non-arrays are outside the domain (validation differences are DRIFT)",
    ]
    rng = random.Random(ctx.seed * 15485863 + 9)
    thorough = ctx.tier == "thorough"
    def mc(*a, **k):        # quick: 8 TLC workers (less spinning on a shared machine), thorough: 16;
        k.setdefault("workers", ctx.pick(8, 16))        # 2 GC threads; negative twins are short: C1 compiler only
        k.setdefault("env", JVM_SMALL if k.get("expect") == "violation" else JVM)
        return ctx.model_check(*a, **k)
    stats_set = core.Raw("{%s}" % ", ".join('"%s"' % s for s in STATS))
    if os.environ.get("VERIF_C09_STAGE") == "R":      # development aid: replay only (mutation testing)
        return replay_all(ctx, rng)

    # ---------------------------------------------------------------- M : Focal.tla
    inv_f = ["BufferIsPositionedWindow", "BufferHoldsExactlyTheWindow", "StatsAreStatsOfTheWindow", "StatLemmas"]
    all_shapes = [(h, w) for h in range(1, 5) for w in range(1, 5)]

    def focal_cfg(shapes, kshapes, kfam, rmode, mut="none", vals=VALS4):
        return dict(spec="Spec", invariants=inv_f, constants=dict(
            SHAPES=tla_shapes(shapes), KSHAPES=tla_shapes(kshapes), KFAMILY=kfam, VALS=tla_vals(vals),
            RMODE=rmode, STATS=stats_set, MUT=mut))
    # quick keeps the non-square 3x4 (+ the two 1-wide shapes); all sixteen shapes <= 4x4 run in thorough
    ids_shapes = all_shapes if thorough else [(3, 4), (4, 1), (1, 4), (2, 2)]
    mc("Focal", focal_cfg(ids_shapes, [(1, 3), (3, 1), (3, 3)], KFAMILY, "ids"), "ids_all_masks",
                    coverage=False)
    mc("Focal", focal_cfg([(2, 2)], [(1, 3), (3, 1)],
                                       KFAMILY + K33_SEL if thorough else KFAMILY[6:8] + K33_SEL[:6], "all"),
                    "values_2x2")
    if thorough:
        mc("Focal", focal_cfg([(2, 2), (1, 3), (3, 1)], [(1, 3), (3, 1), (3, 3)], KFAMILY, "all",
                                           vals=[0, 1, "nan"]), "values_small_all_masks")
        mc("Focal", focal_cfg([(2, 3)], [(1, 3)], KFAMILY[6:8] + K33_SEL[:6], "all"), "values_2x3")
        mc("Focal", focal_cfg([(4, 4)], [(3, 1)], KFAMILY[6:] + K33_SEL[:4], "sparse",
                                           vals=[1, "nan"]), "values_4x4_sparse")
    # every negative twin runs in thorough; quick runs the starred subset (a JVM start costs 3-4 CPU-s)
    def twins(lst):
        return [t[:2] for t in lst if thorough or len(t) > 2]
    for mut, inv in twins((("transpose", "BufferIsPositionedWindow", 1), ("mirror_rows", "BufferHoldsExactlyTheWindow"),
                           ("mirror_cols", "BufferIsPositionedWindow"), ("half_up", "BufferIsPositionedWindow"),
                           ("swap_half", "BufferHoldsExactlyTheWindow", 1), ("noclip", "BufferHoldsExactlyTheWindow"),
                           ("nan_counts", "StatsAreStatsOfTheWindow", 1))):
        cfg = focal_cfg([(3, 4), (2, 2)] if mut != "nan_counts" else [(2, 2)], [(1, 3), (3, 1)], KFAMILY + K33_SEL,
                        "ids" if mut != "nan_counts" else "all", mut=mut)
        cfg["invariants"] = [inv]
        mc("Focal", cfg, "neg_" + mut, expect="violation", workers=2)

    # ---------------------------------------------------------------- M : FocalMean.tla
    inv_m = ["MeanIsIteratedWindowMean", "ResultAfterAllPasses", "ExcludedPassThrough", "OthersAreWindowMeans",
             "Bounded"]

    def mean_cfg(shapes, vals, mut="none", passes=2):
        return dict(spec="Spec", invariants=inv_m, constants=dict(
            SHAPES=tla_shapes(shapes), VALS=tla_vals(vals), EXCLS=tla_excls(EXCLS), PASSES=passes, MUT=mut))
    mc("FocalMean", mean_cfg([(2, 2), (1, 3), (3, 1), (1, 1)], VALS4), "mean_small", workers=8)
    if thorough:
        mc("FocalMean", mean_cfg([(2, 3), (3, 2)], VALS4), "mean_2x3")
    else:
        mc("FocalMean", mean_cfg([(2, 3)], [0, 1, "nan"]), "mean_2x3_01nan")
    if thorough:
        mc("FocalMean", mean_cfg([(3, 3)], [0, 1, "nan"]), "mean_3x3_01nan")
        mc("FocalMean", mean_cfg([(2, 4)], [0, 2, "nan"]), "mean_2x4_02nan")
    for mut, inv in twins((("no_clip_right", "OthersAreWindowMeans", 1), ("exclude_to_nan", "ExcludedPassThrough"),
                           ("exclude_neighbours", "MeanIsIteratedWindowMean"),
                           ("nan_not_equal", "ExcludedPassThrough", 1), ("one_pass", "ResultAfterAllPasses", 1))):
        cfg = mean_cfg([(2, 2), (1, 3)], VALS4, mut=mut)
        cfg["invariants"] = [inv]
        mc("FocalMean", cfg, "neg_" + mut, expect="violation", workers=2)

    # ---------------------------------------------------------------- M : FocalConv.tla
    inv_c = ["ConvIsWeightedWindowSum", "NaNWhereWindowLeaves", "AgreesWithFocalSum"]

    def conv_cfg(shapes, vals, mut="none"):
        return dict(spec="Spec", invariants=inv_c, constants=dict(
            SHAPES=tla_shapes(shapes), VALS=tla_vals(vals), WKERNELS=tla_wkernels(WK_MODEL), MUT=mut))
    mc("FocalConv", conv_cfg([(1, 3), (3, 1), (2, 3), (1, 4)], VALS4), "conv_small")
    mc("FocalConv", conv_cfg([(3, 3)], [0, 1] if not thorough else [0, 1, 2]), "conv_3x3")
    if thorough:
        mc("FocalConv", conv_cfg([(3, 3)], [0, 1, "nan"]), "conv_3x3_nan")
        mc("FocalConv", conv_cfg([(2, 4), (4, 2)], [0, 1, "nan"]), "conv_2x4")
        mc("FocalConv", conv_cfg([(3, 4)], [0, 1]), "conv_3x4")
    for mut, inv in twins((("flip_kernel", "ConvIsWeightedWindowSum", 1), ("clip_border", "NaNWhereWindowLeaves", 1),
                           ("skip_nan", "ConvIsWeightedWindowSum"), ("swap_half", "ConvIsWeightedWindowSum"),
                           ("zero_weight_hides_nan", "ConvIsWeightedWindowSum"))):
        cfg = conv_cfg([(1, 3), (3, 1)], [0, 1, "nan"], mut=mut)
        cfg["invariants"] = [inv]
        mc("FocalConv", cfg, "neg_" + mut, expect="violation", workers=2)

    # ---------------------------------------------------------------- M : Hotspots.tla
    inv_l = ["LadderIsThresholdForm", "LadderOdd", "LadderRange", "LadderMonotone", "LadderSign"]
    hk = [[[1, 1, 1], [1, 1, 1], [1, 1, 1]], [[0, 1, 0], [0, 0, 1], [0, 0, 0]], [[1, 0, 0], [0, 1, 0], [0, 0, 0]]]

    def hot_cfg(mode, mut="none", shapes=((3, 3),), vals=(0, 1, 2), inv=None, kernels=None):
        return dict(spec="Spec", invariants=inv or (inv_l if mode == "ladder" else
                                                     ["NegationSymmetry", "RasterRange", "BandAdmitsExact"]),
                    constants=dict(MODE=mode, ZMAX=4000, SHAPES=tla_shapes(shapes), VALS=tla_vals(list(vals)),
                                   KERNELS=kernels or hk, MUT=mut))
    mc("Hotspots", hot_cfg("ladder"), "ladder", workers=4)
    k13 = [[[1, 1, 0]], [[0, 1, 1]]]
    if thorough:
        mc("Hotspots", hot_cfg("raster", shapes=((3, 3),), vals=(0, 1, 2)), "raster_3x3")
        mc("Hotspots", hot_cfg("raster", shapes=((3, 3),), vals=(0, 1, "nan"), kernels=hk[:2]),
                        "raster_3x3_nan")
    else:
        mc("Hotspots", hot_cfg("raster", shapes=((3, 3),), vals=(0, 1), kernels=hk[:2]), "raster_3x3",
                        workers=8)
        mc("Hotspots", hot_cfg("raster", shapes=((2, 3),), vals=(0, 1, "nan"), kernels=k13),
                        "raster_2x3_nan", workers=8)
    if thorough:
        mc("Hotspots", hot_cfg("raster", shapes=((3, 4), (4, 3)), vals=(0, 2)), "raster_3x4")
    for mut, inv in twins((("p233", "LadderIsThresholdForm", 1), ("ge", "LadderIsThresholdForm"),
                           ("abs_lost", "LadderOdd", 1), ("t95", "LadderIsThresholdForm"))):
        mc("Hotspots", hot_cfg("ladder", mut=mut, inv=[inv]), "neg_" + mut, expect="violation", workers=2)
    ctx.exhaustive = True
    if os.environ.get("VERIF_C09_STAGE") == "M":      # development aid: model checking only
        return

    replay_all(ctx, rng)


def replay_all(ctx, rng):
    # ---------------------------------------------------------------- R / T : one fan-out over the real code
    fam = masks(1, 3) + masks(3, 1) + masks(3, 3) + KFAMILY
    jobs = (apply_window_jobs(rng, ctx.tier, fam) + stats_jobs(rng, ctx.tier, fam, K33_SEL + KFAMILY[:6])
            + reducer_jobs(rng, ctx.tier, fam) + mean_jobs(rng, ctx.tier) + conv_jobs(rng, ctx.tier)
            + hot_jobs(rng, ctx.tier) + badkernel_jobs())
    jobs += input_variation_jobs(rng, ctx.tier, fam)
    jobs += offset_jobs(rng, ctx.tier)
    jobs += dask_jobs(rng, ctx.tier, jobs)
    jobs = arrange(rng, jobs)
    judge_cases(ctx, core.run_jobs("focal_worker", jobs, nproc=NPROC))


RAISED = {}


def judge_cases(ctx, cases):
    RAISED.clear()
    by = {}
    for c in cases:
        if "error" in c:
            if c["kind"] == "hot" and "ZeroDivisionError" in c["error"]:
                continue
            # a call inside the domain raised: that is a failure of the property's "equal ..." clause
            func = c["job"].get("func") or FUNC.get(c["kind"], c["kind"])
            key = "%s%s:call-raised" % ("dask:" if c["job"].get("chunks") else "", func)
            RAISED[key] = RAISED.get(key, 0) + 1
            if RAISED[key] <= 3:                       # at most three replay files per failing class
                ctx.violation(key, "call_raised", c["job"], c["error"])
            continue
        by.setdefault(c["kind"], []).append(c)
    for key, n in RAISED.items():
        if n > 3:
            ctx.note("%s: %d failing cases (3 replay files written)" % (key, n))
    for kind in ("apply", "mean", "conv", "hot", "ladder"):
        judge_kind(ctx, kind, by.get(kind, []), parallel=ctx.pick(3, 8) if kind in ("apply", "mean") else ctx.pick(2, 4))
    # kernel validation: not part of the property text -> drift only
    for c in by.get("badkernel", []):
        valid = c["what"] == "ndarray" and c["rows"] % 2 == 1 and c["cols"] % 2 == 1
        for fn, r in c["raised"].items():
            if (r == 0) != valid:
                ctx.report_drift("kernel validation of %s: %s %dx%d %s" % (
                    fn, c["what"], c["rows"], c["cols"], "accepted" if r == 0 else "rejected"))
    # bookkeeping
    for c in by.get("apply", []):
        X, K = c["job"]["X"], c["job"]["K"]
        for r in range(len(X)):
            for cc in range(len(X[0])):
                if window_distinct(X, K, r, cc) >= 2:
                    ctx.nontrivial(hash((repr(X), repr(K), r, cc)))
    for c in by.get("mean", []) + by.get("hot", []):
        X = c["job"]["X"]
        if len(set(repr(v) for row in X for v in row if v != "nan")) >= 2:
            ctx.nontrivial(hash((c["kind"], repr(c["job"]))))
    for kind in ("apply", "mean", "conv", "hot"):
        for c in by.get(kind, [])[:2]:
            ctx.sample({k: c[k] for k in c if k in ("kind", "X", "K", "Wt", "passes", "excl", "out", "raw")}, limit=8)
    ctx.extra["replayed_by_kind"] = {k: len(v) for k, v in by.items()}
    ctx.extra["dask_backed_cases"] = sum(1 for c in cases if c["job"].get("chunks"))


def replay(ctx, rec):
    """./check Cxx --replay file : exactly that case through the real code and the specification"""
    saved = rec["case"]
    judge_cases(ctx, core.run_jobs("focal_worker", [saved.get("job", saved)], nproc=1))


META = {
    "technique": "TLA+ models of the window extraction (_apply_numpy), the 3x3 mean passes, the convolution loops and "
                 "the hotspot ladder, checked exhaustively by TLC against set-based definitions; real outputs bridged "
                 "to exact rationals and judged by TLC",
    "level_text": "TLC explores every cell of every raster shape <= 4x4 under every 0/1 mask of 1x3, 3x1, 3x3 and an "
                  "asymmetric 5-wide family (identity rasters: the buffer handed to the reducer is exactly the "
                  "positioned window; all rasters over {0,1,2,NaN} of the small shapes: the seven statistics are the "
                  "statistics of that set), the mean passes with four exclusion lists, the convolution loops with IEEE "
                  "NaN, and the hotspot ladder for every z in thousandths (equals the 1.65/1.96/2.58 threshold form, "
                  "odd, seven values), each with negative twins. The same kernels and rasters go through the real "
                  "focal.apply/focal_stats/mean/hotspots/convolution_2d (NumPy-backed, plus a Dask-backed sample with "
                  "three chunkings each); TLC compares every output cell with the abstract value.",
    "level_note": "Trusted: TLC; the float bridge rational(D) (4 ulp float32 / 64 ulp float64 of the largest "
                  "intermediate; std via its square); hotspot cells within 1e-3 of a threshold admitted both ways; "
                  "Dask only sampled (C01 covers all chunkings); 4x4 value-level exhaustiveness is restricted to sparse rasters (index level is "
                  "complete).",
}
