"""C15 - polygonize is lossless: rasterising the polygons gives back the raster.

M  Polygonize.tla: every raster over a small alphabet (NANV = masked-out cell) of small grids, both
   connectivities: the one-pass labelling with its merge forest (_calculate_regions / _merge_regions),
   the scan for exterior / hole starts and the two-pass boundary following, one action per loop
   iteration, against Components and Lossless; negative twins.  PolygonizeMerge.tla: the merge forest
   under every short sequence of merge(lower, upper) calls.
R  every (raster, mask) of the same scope through the real compiled polygonize(); Polygonize_Judge.tla
   decides Lossless on the returned vertex lists and compares them (and the compiled
   _calculate_regions) with the model (drift).  TLC re-derives the enumeration index of every case.
   The compiled _merge_regions is driven directly with all short merge sequences and seeded long ones
   (with array growth) and judged by Polygonize_MergeJudge.tla (drift only, DESIGN 3 rule 5).
T  seeded rasters to 8x8 (a few up to 10x10 with > 64 provisional regions), int and float dtypes,
   masks of several dtypes, affine transforms (scale, flip, rotation, shear, fractional).
"""
import itertools
import json
import random

from harness import core
from harness.props import c16 as shapes

NANV = -99
INV = ["TypeOK", "LosslessHolds", "LookupDecreasing", "IdsBounded", "ForestNeverJoins", "ForestJoinsScanned",
       "RegionsAreComponents", "FirstPixelOrder", "HoleOwnerExists", "PointsFitAllocation", "AllocationExact",
       "FollowTerminates",
       "PolygonsInRegionOrder"]
STRIP = ("tag", "dtype", "hasmask", "hastr", "tden", "error", "timeout", "skipped", "job")


def mc(ctx, failed, module, cfg, name, **kw):
    """ctx.model_check for a configuration that must pass: a run that did not complete is a machinery
    failure; an invariant violated by the *model* is remembered (the replay of the real code decides
    whether it is a defect of the code or of the model)."""
    res = ctx.model_check(module, cfg, name, **kw)
    if res.invariant_violated or res.property_violated or res.assume_failed or res.deadlock:
        failed.append("%s/%s %s" % (module, name, res.invariant_violated))
        ctx.note("MODEL-VIOLATION %s/%s: %s" % (module, name, res.invariant_violated))
    elif not res.ok or res.distinct == 0:
        raise core.MachineryError("TLC did not complete %s/%s (rc=%s)\n%s" % (module, name, res.rc, res.out[-2500:]))
    return res


def close(ctx, failed):
    byk = {}
    for key, _cl, _path in ctx.violations:
        byk[key] = byk.get(key, 0) + 1
    ctx.extra["violations_by_key"] = byk
    if ctx.drift and not ctx.violations:
        ctx.note("STEP-MODEL DRIFT on %d observed cases although no property clause failed: the code no longer "
                 "follows the algorithm model, so the exhaustive result of M does not transfer - look at the DRIFT "
                 "lines" % len(ctx.drift))
    if failed and not ctx.violations:
        raise core.MachineryError("the algorithm model violates its invariants (%s) but no observation of the real "
                                  "code violates the property: the model does not describe the code" % "; ".join(failed))


def mc_configs(tier):
    # name, H, W, alphabet (NANV = masked), connectivity   (quick: <= 500 CPU-s for the whole check)
    q = [
        ("3x3_b_c8", 3, 3, [0, 1], 8),
        ("3x4_b_c4", 3, 4, [0, 1], 4),          # smallest scope on which the lookup-chain rewrite matters
        ("2x3_m_c8", 2, 3, [0, 1, NANV], 8),
        ("1x5_m_c4", 1, 5, [0, 1, NANV], 4),
        ("5x1_m_c8", 5, 1, [0, 1, NANV], 8),
        ("1x1_m_c4", 1, 1, [0, NANV], 4),
    ]
    t = q + [
        ("3x3_b_c4", 3, 3, [0, 1], 4),
        ("3x2_m_c4", 3, 2, [0, 1, NANV], 4),
        ("2x3_t_c4", 2, 3, [0, 1, 2], 4),
        ("2x2_tm_c8", 2, 2, [0, 1, 2, NANV], 8),
        ("4x4_b_c4", 4, 4, [0, 1], 4),
        ("4x4_b_c8", 4, 4, [0, 1], 8),
        ("3x3_t_c4", 3, 3, [0, 1, 2], 4),
        ("3x3_t_c8", 3, 3, [0, 1, 2], 8),
        ("3x3_m_c4", 3, 3, [0, 1, NANV], 4),
        ("3x3_m_c8", 3, 3, [0, 1, NANV], 8),
        ("1x7_m_c8", 1, 7, [0, 1, NANV], 8),
        ("7x1_m_c4", 7, 1, [0, 1, NANV], 4),
    ]
    return t if tier == "thorough" else q


def replay_scopes(tier):
    # name, H, W, value alphabet, enumerate all masks?
    return [
        ("3x3_b", 3, 3, [0, 1], False),
        ("3x4_b", 3, 4, [0, 1], False),
        ("2x3_b_masks", 2, 3, [0, 1], True),
        ("3x2_b_masks", 3, 2, [0, 1], True),
        ("2x2_t_masks", 2, 2, [0, 1, 2], True),
        ("2x3_t", 2, 3, [0, 1, 2], False),
        ("1x4_b_masks", 1, 4, [0, 1], True),
        ("4x1_b_masks", 4, 1, [0, 1], True),
        ("1x1_b_masks", 1, 1, [0, 1], True),
    ] + ([("1x6_b_masks", 1, 6, [0, 1], True), ("6x1_b_masks", 6, 1, [0, 1], True)] if tier == "thorough" else [])


# thorough only; each is replayed in its own round of worker processes (memory)
BIG_SCOPES = [("4x4_b", 4, 4, [0, 1], False), ("3x3_t", 3, 3, [0, 1, 2], False), ("3x3_b_masks", 3, 3, [0, 1], True)]


def enum_jobs(scope, conns=(4, 8)):
    name, H, W, base, masks = scope
    n = H * W
    jobs = []
    for conn in conns:
        for ridx, cells in enumerate(itertools.product(base, repeat=n)):
            raw = [list(cells[r * W:(r + 1) * W]) for r in range(H)]
            if not masks:
                jobs.append({"H": H, "W": W, "conn": conn, "raw": raw, "mask": None, "tr": None, "regs": True,
                             "idx": ridx, "base": base, "maskenum": 0, "steps": 1, "tag": name})
            else:
                for midx, mc in enumerate(itertools.product([0, 1], repeat=n)):
                    mask = [list(mc[r * W:(r + 1) * W]) for r in range(H)]
                    jobs.append({"H": H, "W": W, "conn": conn, "raw": raw, "mask": mask, "tr": None,
                                 "regs": True, "idx": ridx * (1 << n) + midx, "base": base, "maskenum": 1,
                                 "steps": 1, "tag": name})
    return jobs


# (dtype, mask dtype | None): the compiled code is specialised per signature; job i uses SIGS[i % 8]
# so that each of the 16 worker processes compiles at most two of them
SIGS = [("int64", None), ("int64", "bool"), ("float64", None), ("float64", "bool"),
        ("int32", "int32"), ("float32", "float64"), ("uint8", None), ("int16", "uint8")]
# (numerators, denominator): invertible, images of the corner grid well away from the grid itself
TRANSFORMS = [None, None, None,
              ([2, 0, 100, 0, -3, 50], 1),        # scale, y flipped (north-up raster)
              ([1, 0, -50, 0, 1, 70], 1),         # translation
              ([0, -1, 200, 1, 0, 100], 1),       # rotation by 90 degrees
              ([1, 1, 300, 0, 1, 100], 1),        # shear
              ([-1, 0, 400, 0, -1, 300], 1),      # point reflection
              ([1, 0, 400, 0, -1, 200], 4),       # quarter-unit pixels, y flipped
              ([3, 2, 500, -2, 3, 777], 4)]       # rotation + scale, fractional


def random_jobs(rng, n, maxside, big, offset=0):
    jobs = []
    for i in range(n):
        dtype, mdtype = SIGS[(offset + i) % len(SIGS)]
        gen = shapes.GENS[(i // len(SIGS)) % len(shapes.GENS)]
        if i < big:
            # many provisional regions (> 64): the region_lookup array has to grow
            H, W = rng.choice([(9, 9), (10, 10), (9, 10)])
            gen = rng.choice([shapes.g_checker, shapes.g_noise, shapes.g_noise3, shapes.g_diag, shapes.g_comb])
        else:
            H, W = rng.randint(2, maxside), rng.randint(2, maxside)
            if rng.random() < 0.07:
                H = 1
            elif rng.random() < 0.07:
                W = 1
        g = shapes.sym(gen(H, W, rng), rng.randrange(8))
        H, W = len(g), len(g[0])
        if dtype.startswith("float"):
            vscale = 2
            pool = rng.sample([-7, -3, 0, 1, 2, 5, 9, 12], 3)       # -3.5, -1.5, 0, .5, 1, 2.5, 4.5, 6
        else:
            vscale = 1
            pool = rng.sample([0, 1, 2, 3, 7, 40, 200] if dtype.startswith("u") else [-5, -1, 0, 1, 2, 3, 7, 40], 3)
        raw = [[pool[v] for v in row] for row in g]
        if rng.random() < 0.25:
            for _ in range(rng.randint(1, 3)):
                raw[rng.randrange(H)][rng.randrange(W)] = rng.choice(pool)
        mask = None
        if mdtype is not None:
            p = rng.choice([0.05, 0.15, 0.3])
            mask = [[0 if rng.random() < p else 1 for _ in range(W)] for _ in range(H)]
        t = rng.choice(TRANSFORMS)
        jobs.append({"H": H, "W": W, "conn": rng.choice([4, 8]), "raw": raw, "vscale": vscale, "dtype": dtype,
                     "mask": mask, "mdtype": mdtype or "bool", "tr": None if t is None else t[0],
                     "tden": 1 if t is None else t[1], "regs": True, "idx": -1, "base": [], "maskenum": 0,
                     "steps": 1, "tag": gen.__name__})
    return jobs


def family_jobs(rng, tier):
    """the targeted families of C16 (small shapes at every position, late-meeting multi-arm hooks, combs, thin
    trees) as polygonize inputs: pinches, U-shaped multi-level merges, holes touching the border; int64, no mask
    (a signature that is compiled anyway)"""
    src = shapes.placement_jobs(rng, [(4, 4), (5, 5)] if tier == "quick" else [(4, 4), (4, 6), (5, 5), (6, 5), (6, 6)])
    src = [j for j in src if j["n"] == 8 and not j["tag"].endswith("checker")]
    hooks = [j for j in shapes.hook_jobs() if j["n"] == 8]
    src += hooks[::6] if tier == "quick" else hooks
    src += [j for j in shapes.multiarm_jobs(rng, 250 if tier == "quick" else 6000) if j["n"] == 8]
    jobs = []
    for i, j in enumerate(src):
        jobs.append({"H": j["H"], "W": j["W"], "conn": 4 if i % 2 else 8, "raw": j["vals"], "vscale": 1,
                     "dtype": "int64", "mask": None, "tr": None, "tden": 1, "regs": True, "idx": -1, "base": [],
                     "maskenum": 0, "steps": 1, "tag": j["tag"]})
    return jobs


def pz_job(raw, conn, tag, **kw):
    j = {"H": len(raw), "W": len(raw[0]), "conn": conn, "raw": raw, "vscale": 1, "dtype": "int64", "mask": None,
         "tr": None, "tden": 1, "regs": True, "idx": -1, "base": [], "maskenum": 0, "steps": 1, "tag": tag}
    j.update(kw)
    return j


def lookup_target_raster(t, variant, W):
    """A raster in which provisional region id `t` takes part in a merge as the upper ("U") or the lower ("L")
    id.  Rows 0..r_t carry a 4-colour pattern without equal neighbours (not even diagonal ones), so every pixel
    gets a fresh id and id t sits at row (t-1)//W, column (t-1)%W; the row above is one foreign value except for a
    run of three cells of t's value ending (U) or starting (L) over t, which joins t with the id two columns away.
    None if the run does not fit."""
    rt, ct = (t - 1) // W, (t - 1) % W
    lo, hi = (ct - 2, ct) if variant == "U" else (ct, ct + 2)
    if lo < 0 or hi >= W:
        return None
    g = [[(c % 2) + 2 * (r % 2) for c in range(W)] for r in range(rt + 1)]
    top = [9] * W
    for c in range(lo, hi + 1):
        top[c] = g[rt][ct]
    return g + [top]


def manyregion_jobs(rng, tier):
    """many provisional regions (64 .. 300): region_lookup has to grow (64 -> 128 -> 256 ...) and ids around the
    table sizes (63, 64, 127, 128, 255, 256) are merged as upper and as lower ids"""
    jobs = []
    # width 64: the ids sit in the last two columns (only "U" fits); width 60 / 50 / 33: both variants fit
    combos = [(64, "U"), (60, "L")] if tier == "quick" else \
        [(64, "U"), (60, "U"), (60, "L"), (50, "U"), (50, "L"), (33, "U"), (33, "L")]
    k = 0
    for W, variant in combos:
        for t in (63, 64, 127, 128, 255, 256):
            g = lookup_target_raster(t, variant, W)
            if g is None:
                continue
            for conn in ((4, 8) if tier == "thorough" else ((4, 8)[k % 2],)):
                jobs.append(pz_job(g, conn, "lookup_t%d%s_w%d" % (t, variant, W)))
            k += 1
    # thin stripes / combs / checkerboards with bridges: 2xN, 3xN, Nx2, Nx3 and noise
    shapes_hw = [(2, 64), (2, 130), (3, 100), (130, 2), (90, 3), (16, 16)] if tier == "quick" else \
        [(2, 64), (2, 100), (2, 130), (3, 64), (3, 100), (3, 130), (64, 2), (130, 2), (90, 3), (130, 3),
         (16, 16), (20, 20), (24, 24), (16, 24)] * 6
    for (H, W) in shapes_hw:
        kind = rng.choice(["bridges", "runs", "noise"]) if min(H, W) <= 3 else "noise"
        if kind == "noise":
            nv = rng.choice([2, 3])
            g = [[rng.randrange(nv) for _ in range(W)] for _ in range(H)]
        else:
            tall = H > W
            n, m = (H, W) if tall else (W, H)          # n = long side, m = 2 or 3
            lines = []
            for r in range(m):
                if kind == "bridges" and r < m - 1:
                    lines.append([(c + r) % 2 for c in range(n)])          # checkerboard: all fresh ids
                else:
                    line, v = [], rng.randrange(2)
                    while len(line) < n:                                    # runs of random length: bridges
                        line += [v] * rng.randint(1, 5)
                        v = 1 - v
                    lines.append(line[:n])
            g = [list(col) for col in zip(*lines)] if tall else lines
        jobs.append(pz_job(g, rng.choice([4, 8]), "many_%s_%dx%d" % (kind, H, W)))
    return jobs


def polygonize_variant(j, dtype, layout, valmap, tag):
    """a C16-style plain job as a polygonize input of the given dtype / memory layout"""
    kw = {"dtype": dtype, "layout": layout, "valmap": valmap}
    if dtype == "int64" and (len(tag) + j["H"]) % 3 == 0:       # bool mask (compiled anyway), same layout
        kw["mask"] = [[0 if (r * 7 + c * 3 + j["W"]) % 5 == 0 else 1 for c in range(j["W"])] for r in range(j["H"])]
        kw["mdtype"] = "bool"
    return pz_job(j["vals"], j["n"], tag, **kw)


def merge_jobs(rng, tier):
    jobs = []
    M, K = (5, 3) if tier == "quick" else (6, 4)
    pairs = [(lo, hi) for lo in range(1, M + 1) for hi in range(lo + 1, M + 1)]
    for k in range(1, K + 1):
        for seq in itertools.product(pairs, repeat=k):
            jobs.append({"merge_seq": [list(p) for p in seq], "m": M, "size0": 64 if len(jobs) % 2 else 2,
                         "tag": "all_sequences"})
    for i in range(100 if tier == "quick" else 1500):
        m = rng.choice([8, 20, 70])
        seq = []
        for _ in range(rng.randint(3, 2 * m)):
            a, b = rng.sample(range(1, m + 1), 2)
            seq.append([min(a, b), max(a, b)])
        jobs.append({"merge_seq": seq, "m": m, "size0": 64, "tag": "random_sequence"})
    return jobs


def nonrectangle(case):
    return any(len(p["rings"]) > 1 or len(p["rings"][0]) > 5 for p in case["polys"])


def judge_and_handle(ctx, cases, name, kind, parallel):
    skipped = sum(1 for c in cases if c.get("skipped"))
    if skipped:
        ctx.note("%s: %d cases not run after repeated worker timeouts" % (name, skipped))
    cases = [c for c in cases if c.get("tag") != "filler"]
    good = [c for c in cases if "error" not in c and not c.get("skipped")]
    for c in cases:
        if "error" in c:
            ctx.evaluations += 1
            key = "polygonize:call-did-not-return" if c.get("timeout") else "polygonize:call-raised"
            ctx.violation(key, key.split(":")[1].replace("-", "_"), {"job": c["job"]}, c["error"])
    ctx.judge_extra.clear()
    v = ctx.judge("Polygonize_Judge", [{k: x for k, x in c.items() if k not in STRIP} for c in good],
                  name=name, parallel=parallel)
    for i, c in enumerate(good):
        ctx.evaluations += 1
        cl = v.get(i, "missing")
        if cl == "enum_index_mismatch":
            raise core.MachineryError("replay enumeration broken: case %d of %s is not number %d"
                                      % (i, name, c["idx"]))
        if cl == "ok":
            if nonrectangle(c):
                ctx.nontrivial((c["conn"], c["H"], c["W"], tuple(map(tuple, c["raw"])),
                                tuple(map(tuple, c["mask"]))))
        else:
            ctx.violation("polygonize:%s" % cl, cl,
                          {"job": c["job"], "observed": {k: c[k] for k in c if k not in ("base", "job")}},
                          "%s %dx%d conn=%d dtype=%s mask=%d transform=%d"
                          % (c["tag"], c["H"], c["W"], c["conn"], c["dtype"], c["hasmask"], c["hastr"]))
        dr = ctx.judge_extra.get(i)
        if dr and dr.startswith("drift"):
            ctx.report_drift("%s (%s): conn=%d raw=%s mask=%s" % (dr, kind, c["conn"], c["raw"], c["mask"]))
    return good


def replay(ctx, rec):
    """./check C15 --replay <file>: that one case again through the real polygonize() and the judge"""
    job = dict(rec["case"]["job"], idx=-1, base=[], maskenum=0)
    cases = core.run_jobs("polygonize_worker", [job], nproc=1)
    good = judge_and_handle(ctx, cases, "replay", "replay", parallel=1)
    print("REPLAY verdict: %s" % ("ok" if (good and not ctx.violations) else
                                  (ctx.violations[0][1] if ctx.violations else cases[0].get("error"))), flush=True)


def run(ctx):
    ctx.rule = ("cases = (raster, mask, connectivity, transform); non-trivial when some returned polygon is not a "
                "rectangle (has a hole or more than four corners); distinct by (connectivity, values, mask)")
    ctx.assumptions = [
        "cell values are well separated (integers, or multiples of 1/2 for float rasters), so _is_close is equality",
        "float bridge exact_int: returned vertices (times the transform's denominator) and column values must be "
        "integers; transforms have integer or quarter-integer coefficients so the float arithmetic is exact",
        "transforms are invertible; orientation is judged on the pre-image (pixel-corner coordinates, +y = row index)",
        "NaN cell values, non-invertible transforms and the geopandas / spatialpandas / awkward return types are "
        "not exercised",
    ]
    rng = random.Random(ctx.seed * 7919 + 15)
    cfgs = mc_configs(ctx.tier)
    # ---- M
    failed = []
    for (name, H, W, base, conn) in cfgs:
        mc(ctx, failed, "Polygonize", dict(spec="Spec", invariants=INV, constants=dict(
            H=H, W=W, VALS=set(base), CONN=conn, MUT="none")), name, coverage=(name == "3x3_b_c8" and ctx.tier == "thorough"),
           timeout=4 * 3600, workers=(4 if H * W <= 12 else 16))   # small scopes: extra TLC workers only burn CPU
    twins = [("nose", 3, 3, 8, "RegionsAreComponents"), ("straightfirst", 3, 3, 4, "LosslessHolds"),
             ("novisit2", 3, 3, 4, "LosslessHolds")]
    if ctx.tier == "thorough":
        # 3x4 is the smallest grid that needs the chain rewrite (67k states); in quick the rewrite's twin is the
        # one of PolygonizeMerge below
        twins.append(("nochain", 3, 4, 4, "RegionsAreComponents"))
    for mut, H, W, conn, inv in twins:
        ctx.model_check("Polygonize", dict(spec="Spec", invariants=[inv, "FollowTerminates", "PointsFitAllocation"],
                                           constants=dict(
            H=H, W=W, VALS={0, 1}, CONN=conn, MUT=mut)), "neg_" + mut, expect="violation",
            workers=(4 if H * W <= 9 else 16))
    mk = ctx.pick((5, 4), (6, 5))
    mc(ctx, failed, "PolygonizeMerge", dict(spec="Spec", invariants=["LookupDecreasing", "ForestIsClosure",
                                                                      "RootIsMinimum"],
                                            constants=dict(M=mk[0], K=mk[1], MUT="none")), "merge_forest",
       workers=ctx.pick(4, 16))
    ctx.model_check("PolygonizeMerge", dict(spec="Spec", invariants=["ForestIsClosure"],
                                            constants=dict(M=4, K=3, MUT="nochain")), "neg_merge_nochain",
                    expect="violation", workers=2)
    ctx.exhaustive = True

    # ---- one round of worker processes for everything that runs the real code
    mj = merge_jobs(rng, ctx.tier)
    ej = []
    for sc in replay_scopes(ctx.tier):
        ej += enum_jobs(sc)
    fj = family_jobs(rng, ctx.tier)
    ej_n = len(ej)
    tj = random_jobs(rng, ctx.pick(400, 4000), 8, ctx.pick(16, 120), offset=len(mj) + len(ej) + len(fj))
    tj = fj + tj + manyregion_jobs(rng, ctx.tier)
    # input-variation matrix: memory layout x dtype on a seeded sample of every family (same polygons expected)
    nproc = ctx.pick(4, 16)
    fam = {}
    for j in (shapes.placement_jobs(rng, [(4, 4), (5, 5)]) + shapes.hook_jobs() + shapes.multiarm_jobs(rng, 300)
              + shapes.small_random_jobs(rng, 300)):
        fam.setdefault("_".join(j["tag"].split("_")[:2]), []).append(j)
    for g in shapes.GENS:
        fam[g.__name__] = [shapes.plain_job(shapes.sym(g(rng.randint(3, 8), rng.randint(3, 8), rng), rng.randrange(8)),
                                            rng.choice([4, 8]), g.__name__) for _ in range(6)]
    groups = {}
    for key, jobs_ in shapes.variation_groups(rng, [fam[k] for k in sorted(fam)], ctx.pick(3, 40), ctx.pick(3, 20),
                                              polygonize_variant).items():
        groups.setdefault(key[0], []).extend(jobs_)              # polygonize specialises on the dtype only
    vj = shapes.interleave(groups, nproc, len(mj) + len(ej) + len(tj), pz_job([[0]], 4, "filler", steps=0, regs=False))
    tj += vj
    ctx.extra["variation_cases"] = sum(len(v) for v in groups.values())
    # quick: 4 processes (every process JIT-compiles each signature it meets: ~4 CPU-s apiece)
    allcases = core.run_jobs("polygonize_worker", mj + ej + tj, nproc=nproc)
    mcases = allcases[:len(mj)]
    ecases = allcases[len(mj):len(mj) + len(ej)]
    tcases = allcases[len(mj) + len(ej):]

    # ---- R: direct drive of the compiled _merge_regions (drift only, DESIGN 3 rule 5)
    for c in mcases:
        if "error" in c:
            ctx.report_drift("_merge_regions raised on %s: %s" % (c["seq"], c["error"]))
    mgood = [c for c in mcases if "error" not in c and not c.get("skipped")]
    v = ctx.judge("Polygonize_MergeJudge", [{k: x for k, x in c.items() if k != "tag"} for c in mgood],
                  name="merge_direct_drive", parallel=ctx.pick(1, 4), count_traces=False)
    for i, c in enumerate(mgood):
        if v.get(i) != "ok":
            ctx.report_drift("_merge_regions direct drive: %s after %s -> %s" % (v.get(i), c["seq"], c["lookup"]))
        dr = ctx.judge_extra.get(i)
        if dr and dr.startswith("drift"):
            ctx.report_drift("_merge_regions differs from MergeRegions: %s -> %s" % (c["seq"], c["lookup"]))
    ctx.extra["merge_sequences_driven"] = len(mcases)
    ctx.extra["targeted_family_cases"] = len(fj)
    ctx.judge_extra.clear()

    # ---- R: the complete enumerated scope through the real polygonize()
    good = judge_and_handle(ctx, ecases, "replay_all_rasters", "R", parallel=ctx.pick(2, 8))
    replayed = len(ecases)
    for c in good[100:101] + good[-50:-49]:
        ctx.sample({"kind": "replay", "conn": c["conn"], "raw": c["raw"], "mask": c["mask"], "polys": c["polys"]})
    del good, ecases, allcases

    # ---- T: seeded larger rasters, dtypes, masks, transforms
    good = judge_and_handle(ctx, tcases, "seeded_shapes", "T", parallel=ctx.pick(2, 8))
    for c in good[20:22]:
        ctx.sample({"kind": "seeded", "gen": c["tag"], "conn": c["conn"], "dtype": c["dtype"], "raw": c["raw"],
                    "mask": c["mask"], "tr": c["tr"], "tden": c["tden"], "polys": c["polys"]})
    del good, tcases

    # ---- R (thorough): the large enumerations, one round of worker processes each
    if ctx.tier == "thorough":
        for sc in BIG_SCOPES:
            for conn in (4, 8):
                cases = core.run_jobs("polygonize_worker", enum_jobs(sc, (conn,)))
                replayed += len(cases)
                judge_and_handle(ctx, cases, "replay_%s_c%d" % (sc[0], conn), "R", parallel=8)
                del cases
    ctx.extra["replayed_cases"] = replayed
    close(ctx, failed)


META = {
    "technique": "TLA+ model of the labelling / merge forest / scan / boundary following checked exhaustively by TLC "
                 "against Components and a crossing-number + shoelace definition of Lossless; every enumerated "
                 "(raster, mask) and seeded larger rasters run through the real compiled polygonize() and the "
                 "returned vertex lists judged by TLC",
    "level_text": "TLC explores every raster over {0,1} up to 4x4, {0,1,2} and {0,1,masked} up to 3x3 (plus 1xN, Nx1, "
                  "1x1), connectivity 4 and 8, on Polygonize.tla (one action per labelled pixel, merge-loop iteration, "
                  "scan test and boundary step; regions = Components, polygons Lossless, forest and allocation "
                  "invariants; negative twins rejected), and every short merge sequence on PolygonizeMerge.tla. Every "
                  "(raster, mask) of that scope and seeded rasters up to 8x8 (int/float dtypes, masks, affine "
                  "transforms) go through the real polygonize(); Polygonize_Judge.tla decides Lossless on the returned "
                  "vertices and compares them with the model. Exhaustive on the small scope, sampled beyond it.",
    "level_note": "Trusted: TLC; the worker's encoding (vertices and values must be exact integers after scaling by "
                  "the transform's denominator); well-separated cell values so that _is_close is equality; invertible "
                  "transforms with exactly representable coefficients. Quick tier: grids up to 3x3 / 2x3 with masks; "
                  "thorough adds 4x4, the 3x3 ternary alphabet and all masks on 3x3.",
}
